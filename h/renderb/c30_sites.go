package renderb

import "fmt"

// ---- payloads ------------------------------------------------------------------------------------

const c30Marker = "zqj"

// every payload contains the marker followed by two letters (unique per payload).
var c30Meta = []string{
	"<zqjab>",
	"</text><zqjac/>",
	"\"zqjad",
	"'zqjae",
	"&zqjaf",
	"&amp;zqjag",
	"&zqjah;",
	"]]>zqjai",
	"]]><zqjaj/>",
	"-->zqjak",
	"<!--zqjal",
	"<![CDATA[zqjam",
	"<?zqjan?>",
	"<script>zqjao</script>",
	"\" onload=\"zqjap",
	"' onload='zqjaq",
	"\"><zqjar x=\"",
	"'><zqjas x='",
	"javascript:zqjat",
	"%22%3E%3Czqjau%3E",
	"\\\"zqjav",
	"zqjaw\\",
}

// core strings: quick tier uses the first two for the option-pair phase and all of them for sketch mode.
var c30Core = []string{"\"><zqjar x=\"", "\x01zqjcb", "]]><zqjaj/>", "<zqjab>", "&zqjah;", "\" onload=\"zqjap", "'><zqjas x='", "\\\"zqjav"}

// C0 controls used at quick tier (thorough: all 32): NUL, one ordinary illegal one, the three legal ones,
// VT, ESC, US.
var c30QuickC0 = map[int]bool{0: true, 1: true, 9: true, 10: true, 13: true, 11: true, 27: true, 31: true}

func c30Control(all bool) []string {
	var out []string
	for c := 0; c < 0x20; c++ {
		if !all && !c30QuickC0[c] {
			continue
		}
		out = append(out, fmt.Sprintf("%czqjc%c", rune(c), rune('a'+c%26)))
	}
	out = append(out,
		"\x7fzqjda", "\u0085zqjdb", "\u2028zqjdc", "\ufffezqjdd", "\uffffzqjde", "\xed\xa0\x80zqjdf", "\xffzqjdg", "\ufeffzqjdh",
	)
	return out
}

// benign strings used to collect the renderer's own vocabulary for a site.
var c30Benign = []string{"zqjba", "zqj bb\nzqjbc zqjbd"}

// links that parse as a D2 key and name no board are dropped by the compiler; these survive.
var c30BenignLinks = []string{"https://example.com/zqjba", "\nzqjbb", "zqj bb\nzqjbc", "https://example.com/zqj bd\nzqjbe"}

// ---- injection sites -----------------------------------------------------------------------------

type c30Site struct {
	Name string
	// Src builds the D2 text; q is the payload as a D2 double-quoted string, raw the payload itself.
	Src func(q, raw string) string
	// WFOnly: markup produced from the string is intended (markdown); only well-formedness is checked.
	WFOnly bool
	// Multi: render every board.
	Multi bool
	// Benign replaces the default harmless strings used to collect the renderer's vocabulary for the site.
	Benign []string
}

func gradSite(name, format string) c30Site {
	return c30Site{Name: name, Src: func(q, raw string) string {
		g := dq(fmt.Sprintf(format, raw))
		return "style.fill: " + g + "\na: lbl {style.fill: " + g + "; style.stroke: " + g + "; style.font-color: " + g + "}\na -> b: lbl {style.stroke: " + g + "; style.font-color: " + g + "}\n"
	}}
}

func carrierSite(name, format string) c30Site {
	return c30Site{Name: name, Benign: append([]string{""}, c30Benign...), Src: func(_, raw string) string {
		v := dq(fmt.Sprintf(format, raw))
		return "a: lbl {style.fill: " + v + "; style.stroke: " + v + "; style.font-color: " + v + "}\na -> b: lbl {style.stroke: " + v + "; style.font-color: " + v + "}\n"
	}}
}

var c30Sites = []c30Site{
	{Name: "shape-label", Src: func(q, _ string) string { return "a: " + q + "\nc: " + q + " {b}\n" }},
	{Name: "shape-label-border-mono", Src: func(q, _ string) string {
		return "a: {label: " + q + "; label.near: border-top-center; style.font: mono; style.underline: true}\n"
	}},
	{Name: "connection-label", Src: func(q, _ string) string { return "a -> b: " + q + "\n" }},
	{Name: "arrowhead-label", Src: func(q, _ string) string {
		return "a <-> b: {source-arrowhead: " + q + "; target-arrowhead.label: " + q + "}\n"
	}},
	{Name: "tooltip", Src: func(q, _ string) string { return "a.tooltip: " + q + "\n" }},
	{Name: "link", Benign: c30BenignLinks, Src: func(q, _ string) string { return "a.link: " + q + "\n" }},
	{Name: "link-url", Src: func(q, raw string) string { return "a.link: " + dq("https://example.com/"+raw) + "\n" }},
	{Name: "tooltip+link", Src: func(q, raw string) string {
		return "a: {tooltip: " + q + "; link: " + dq("https://example.com/"+raw) + "; shape: circle}\n"
	}},
	{Name: "connection-link", Benign: c30BenignLinks, Src: func(q, _ string) string { return "a -> b: lbl {link: " + q + "}\n" }},
	{Name: "object-id", Src: func(q, _ string) string { return q + ".c -> b\n" + q + ".c.tooltip: t\n" }},
	{Name: "class-name", Src: func(q, _ string) string {
		return "classes: {" + q + ": {style.stroke-width: 2}}\na.class: " + q + "\na -> b: {class: " + q + "}\n"
	}},
	{Name: "class-name-undeclared", Src: func(q, _ string) string { return "a.class: " + q + "\na -> b: {class: " + q + "}\n" }},
	{Name: "uml-class-member", Src: func(q, raw string) string {
		return "a: {shape: class\n  " + q + ": " + q + "\n  " + dq(raw+"(x)") + ": " + q + "\n}\n"
	}},
	{Name: "uml-class-header", Src: func(q, _ string) string { return "a: " + q + " {shape: class; f: int}\n" }},
	{Name: "sql-column", Src: func(q, _ string) string {
		return "a: {shape: sql_table\n  " + q + ": " + q + " {constraint: " + q + "}\n}\n"
	}},
	{Name: "sql-header", Src: func(q, _ string) string { return "a: " + q + " {shape: sql_table; id: int}\n" }},
	{Name: "color-value", Src: func(q, _ string) string {
		return "a: lbl {style.fill: " + q + "}\n"
	}},
	{Name: "color-value-stroke-font", Src: func(q, _ string) string {
		return "a -> b: lbl {style.stroke: " + q + "; style.font-color: " + q + "}\n"
	}},
	// the string appended to a value that is valid on its own: it reaches the SVG only if the validator of the attribute
	// accepts a valid prefix (an unanchored pattern, a prefix comparison). With the empty string the value is valid, which
	// gives the vocabulary of the site.
	carrierSite("color-value-after-hex6", "#aabbcc%s"),
	carrierSite("color-value-after-hex3", "#abc%s"),
	carrierSite("color-value-after-name", "red%s"),
	carrierSite("color-value-before-name", "%sred"),
	carrierSite("gradient-after-closing-parenthesis", "linear-gradient(red, blue)%s"),
	{Name: "theme-override-after-hex6", Benign: append([]string{""}, c30Benign...), Src: func(_, raw string) string {
		v := dq("#aabbcc" + raw)
		return "vars: {d2-config: {theme-overrides: {B1: " + v + "; N7: " + v + "}}}\na -> b\n"
	}},
	gradSite("gradient-stop-color", "linear-gradient(%s, blue)"),
	gradSite("gradient-stop-position", "linear-gradient(red %s, blue)"),
	gradSite("gradient-direction-to", "linear-gradient(to %s, red, blue)"),
	gradSite("gradient-direction-deg", "linear-gradient(%sdeg, red, blue)"),
	gradSite("gradient-radial-stop-position", "radial-gradient(circle, red %s, blue)"),
	{Name: "near", Src: func(q, _ string) string { return "a.near: " + q + "\nb\n" }},
	{Name: "icon", Src: func(q, _ string) string {
		return "a.icon: " + q + "\nb: {shape: image; icon: " + q + "}\na -> b: {icon: " + q + "}\n"
	}},
	{Name: "icon-url", Src: func(_, raw string) string {
		i := dq("https://example.com/" + raw)
		return "a.icon: " + i + "\nb: {shape: image; icon: " + i + "}\na -> b: {icon: " + i + "}\n"
	}},
	{Name: "code-block", Benign: []string{"zqjba", "func zqjbb(x int) string {\n\treturn \"s\" + 'c' - 1.5 // zqjbc\n}\nvar y = []T{nil, true} /* c */ ; @ # $ ? \\ ` ~"}, Src: func(_, raw string) string {
		return "a: |||go\n" + raw + "\n|||\na -> b: |||go\n" + raw + "\n|||\n"
	}},
	{Name: "board-name", Multi: true, Src: func(q, _ string) string {
		return "a.link: layers." + q + "\nlayers: {" + q + ": {b}}\n"
	}},
	{Name: "legend", Src: func(q, _ string) string {
		return "vars: {d2-legend: " + q + " {\n  a: " + q + " {shape: circle}\n  a -> b: " + q + "\n}}\nx -> y\n"
	}},
	{Name: "theme-override", Src: func(q, _ string) string {
		return "vars: {d2-config: {theme-overrides: {B1: " + q + "; N7: " + q + "}; dark-theme-overrides: {B2: " + q + "}}}\na -> b\n"
	}},
	{Name: "markdown-label", WFOnly: true, Src: func(_, raw string) string {
		return "a: |||md\n" + raw + "\n|||\na -> b: |||md\n" + raw + "\n|||\n"
	}},
	{Name: "tooltip-positioned", WFOnly: true, Src: func(q, _ string) string {
		return "a: {tooltip: " + q + "; tooltip.near: top-center}\n"
	}},
}

func c30SiteByName(n string) *c30Site {
	for i := range c30Sites {
		if c30Sites[i].Name == n {
			return &c30Sites[i]
		}
	}
	return nil
}

