package renderb

import (
	"bytes"
	"compress/zlib"
	"encoding/binary"
	"errors"
	"fmt"
	"io"
	"sort"
)

// woffToSfnt reassembles the sfnt (TrueType/OpenType) file contained in a WOFF 1.0 container
// (https://www.w3.org/TR/WOFF/): 44-byte header, 20-byte table directory entries
// (tag, offset, compLength, origLength, origChecksum), table data zlib-compressed when compLength < origLength.
func woffToSfnt(w []byte) ([]byte, error) {
	if len(w) >= 12 && (string(w[:4]) == "\x00\x01\x00\x00" || string(w[:4]) == "OTTO" || string(w[:4]) == "true") {
		// d2 ships some full fonts as bare sfnt data under the font-woff media type; browsers sniff the signature
		return w, nil
	}
	if len(w) < 44 || string(w[:4]) != "wOFF" {
		return nil, errors.New("not a WOFF 1.0 file (bad signature)")
	}
	flavor := w[4:8]
	n := int(binary.BigEndian.Uint16(w[12:14]))
	if len(w) < 44+20*n || n == 0 {
		return nil, fmt.Errorf("WOFF table directory truncated (%d tables, %d bytes)", n, len(w))
	}
	type tab struct {
		tag      string
		checksum uint32
		data     []byte
	}
	tabs := make([]tab, 0, n)
	for i := 0; i < n; i++ {
		e := w[44+20*i:]
		off := int(binary.BigEndian.Uint32(e[4:8]))
		cl := int(binary.BigEndian.Uint32(e[8:12]))
		ol := int(binary.BigEndian.Uint32(e[12:16]))
		if off < 0 || cl < 0 || off+cl > len(w) || cl > ol {
			return nil, fmt.Errorf("WOFF table %q: offset %d compLength %d origLength %d outside file of %d bytes", e[0:4], off, cl, ol, len(w))
		}
		data := w[off : off+cl]
		if cl < ol {
			zr, err := zlib.NewReader(bytes.NewReader(data))
			if err != nil {
				return nil, fmt.Errorf("WOFF table %q: %v", e[0:4], err)
			}
			d, err := io.ReadAll(zr)
			if err != nil || len(d) != ol {
				return nil, fmt.Errorf("WOFF table %q: inflate gave %d bytes, want %d (%v)", e[0:4], len(d), ol, err)
			}
			data = d
		}
		tabs = append(tabs, tab{string(e[0:4]), binary.BigEndian.Uint32(e[16:20]), data})
	}
	sort.SliceStable(tabs, func(i, j int) bool { return tabs[i].tag < tabs[j].tag })
	var out bytes.Buffer
	out.Write(flavor)
	es, pow := 0, 1
	for pow*2 <= n {
		pow *= 2
		es++
	}
	binary.Write(&out, binary.BigEndian, uint16(n))
	binary.Write(&out, binary.BigEndian, uint16(pow*16))
	binary.Write(&out, binary.BigEndian, uint16(es))
	binary.Write(&out, binary.BigEndian, uint16(n*16-pow*16))
	off := 12 + 16*n
	for _, t := range tabs {
		out.WriteString(t.tag)
		binary.Write(&out, binary.BigEndian, t.checksum)
		binary.Write(&out, binary.BigEndian, uint32(off))
		binary.Write(&out, binary.BigEndian, uint32(len(t.data)))
		off += (len(t.data) + 3) &^ 3
	}
	for _, t := range tabs {
		out.Write(t.data)
		for p := len(t.data); p%4 != 0; p++ {
			out.WriteByte(0)
		}
	}
	return out.Bytes(), nil
}
