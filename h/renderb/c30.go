package renderb

import (
	"encoding/json"
	"fmt"
	"runtime"
	"sort"
	"strings"
	"sync/atomic"
	"time"

	"oss.terrastruct.com/d2/d2renderers/d2svg"
	"oss.terrastruct.com/d2/d2renderers/d2svg/appendix"
	"oss.terrastruct.com/d2/d2target"
	"verif/h/eng"
	"verif/h/u"
)

// ---- render options --------------------------------------------------------------------------------

var c30OptNames = []string{"sketch", "dark", "terminal", "appendix", "pad", "scale", "center", "noxml", "salt"}

// option sets as comma-joined names in c30OptNames order; "" is the default rendering.
func c30Combos(group string) []string {
	switch group {
	case "base":
		// every option that switches the code path emitting user strings, alone; the cosmetic ones together
		return []string{"", "sketch", "dark", "terminal", "appendix", "pad,scale,center,noxml,salt"}
	case "pairs":
		out := []string{""}
		out = append(out, c30OptNames...)
		for i := range c30OptNames {
			for j := i + 1; j < len(c30OptNames); j++ {
				out = append(out, c30OptNames[i]+","+c30OptNames[j])
			}
		}
		return out
	}
	panic("unknown option group " + group)
}

func hasOpt(combo, o string) bool {
	for _, x := range strings.Split(combo, ",") {
		if x == o {
			return true
		}
	}
	return false
}

// variant = the options that need their own compile+layout run (font family / theme special rules).
func c30Variant(combo string) string {
	v := ""
	if hasOpt(combo, "sketch") {
		v = "sketch"
	}
	if hasOpt(combo, "terminal") {
		if v != "" {
			v += "+"
		}
		v += "terminal"
	}
	if v == "" {
		v = "default"
	}
	return v
}

var c30Variants = []string{"default", "sketch", "terminal", "sketch+terminal"}

func c30UnitCombos(group, variant string) []string {
	var out []string
	for _, c := range c30Combos(group) {
		if c30Variant(c) == variant {
			out = append(out, c)
		}
	}
	return out
}

var c30Renders, c30Compiles, c30RenderErrs atomic.Int64

type c30Out struct {
	docs [][]byte
	err  error
}

// c30RenderAll renders src under every combo (all of one variant): one compile+layout, then one
// d2svg.Render (+ appendix.Append) per combo and board.
func c30RenderAll(src string, multi bool, combos []string) (compileErr error, outs []c30Out) {
	var ro0 d2svg.RenderOpts
	if hasOpt(combos[0], "sketch") {
		ro0.Sketch = ptr(true)
	}
	if hasOpt(combos[0], "terminal") {
		ro0.ThemeID = ptr(int64(300))
	}
	c30Compiles.Add(1)
	d, _, err := compileLayout(src, "dagre", &ro0)
	if err != nil {
		return err, nil
	}
	outs = make([]c30Out, len(combos))
	var boards []*d2target.Diagram
	if multi {
		var walk func(d *d2target.Diagram)
		walk = func(d *d2target.Diagram) {
			if !d.IsFolderOnly {
				boards = append(boards, d)
			}
			for _, l := range d.Layers {
				walk(l)
			}
			for _, l := range d.Scenarios {
				walk(l)
			}
			for _, l := range d.Steps {
				walk(l)
			}
		}
		walk(d)
	} else {
		boards = []*d2target.Diagram{d}
	}
	for i, combo := range combos {
		ro := ro0
		if hasOpt(combo, "dark") {
			ro.DarkThemeID = ptr(int64(200))
		}
		if hasOpt(combo, "pad") {
			ro.Pad = ptr(int64(0))
		}
		if hasOpt(combo, "scale") {
			ro.Scale = ptr(0.5)
		}
		if hasOpt(combo, "center") {
			ro.Center = ptr(true)
		}
		if hasOpt(combo, "noxml") {
			ro.NoXMLTag = ptr(true)
		}
		if hasOpt(combo, "salt") {
			ro.Salt = ptr("s\"<&'>")
		}
		for _, b := range boards {
			c30Renders.Add(1)
			r := ro
			svg, err := d2svg.Render(b, &r)
			if err != nil {
				c30RenderErrs.Add(1)
				outs[i].err = err
				break
			}
			if hasOpt(combo, "appendix") {
				svg = appendix.Append(b, &r, ruler(), svg)
			}
			outs[i].docs = append(outs[i].docs, svg)
		}
	}
	return nil, outs
}

// ---- judging one document -----------------------------------------------------------------------------

type c30Vocab struct {
	elems, attrs map[string]bool
}

var c30VocabCache = map[string]*c30Vocab{}

// c30Baseline: the renderer's vocabulary for (site, combo) — element names and element@attribute pairs seen
// when the template is rendered with harmless strings. Non-empty error = the harmless render is malformed.
func c30Baseline(site *c30Site, combos []string) (map[string]*c30Vocab, string) {
	res := map[string]*c30Vocab{}
	var missing []string
	for _, c := range combos {
		if v := c30VocabCache[site.Name+"\x00"+c]; v != nil {
			res[c] = v
		} else {
			missing = append(missing, c)
		}
	}
	if len(missing) == 0 {
		return res, ""
	}
	for _, c := range missing {
		res[c] = &c30Vocab{elems: map[string]bool{}, attrs: map[string]bool{}}
	}
	benign := site.Benign
	if benign == nil {
		benign = c30Benign
	}
	for _, b := range benign {
		cerr, outs := c30RenderAll(site.Src(dq(b), b), site.Multi, missing)
		if cerr != nil {
			// a template that does not compile with a harmless string contributes no vocabulary
			continue
		}
		for i, c := range missing {
			if outs[i].err != nil {
				continue
			}
			for _, doc := range outs[i].docs {
				x := scanXML(doc, "", false)
				if x.Err != "" {
					return nil, fmt.Sprintf("harmless string %q, options [%s]: %s", b, c, x.Err)
				}
				for k := range x.Elems {
					res[c].elems[k] = true
				}
				for k := range x.Attrs {
					res[c].attrs[k] = true
				}
			}
		}
	}
	for _, c := range missing {
		c30VocabCache[site.Name+"\x00"+c] = res[c]
	}
	return res, ""
}

// c30Judge returns the failure mechanism ("" = fine) and a description.
func c30Judge(site *c30Site, v *c30Vocab, doc []byte) (kind, detail string) {
	x := scanXML(doc, c30Marker, false)
	if x.Err != "" {
		if x.ErrKind == "illegal-character" || x.ErrKind == "invalid-utf8" {
			return "illegal-xml-character", x.Err
		}
		return "xml-malformed", x.ErrKind + ": " + x.Err
	}
	if site.WFOnly {
		return "", ""
	}
	if len(x.NameHits) > 0 {
		return "markup-injected", "user text became " + strings.Join(x.NameHits, "; ")
	}
	var extra []string
	for _, k := range sortedKeys(x.Elems) {
		if !v.elems[k] {
			extra = append(extra, "<"+k+">")
		}
	}
	for _, k := range sortedKeys(x.Attrs) {
		if !v.attrs[k] {
			extra = append(extra, k)
		}
	}
	if len(extra) > 0 {
		return "markup-injected", "elements / element@attribute pairs that never occur when the string is harmless: " + strings.Join(extra, " ")
	}
	return "", ""
}

// ---- oracles -----------------------------------------------------------------------------------------

type c30UnitIn struct {
	Site     string   `json:"site"`
	Group    string   `json:"group"`
	Variant  string   `json:"variant"`
	Payloads []string `json:"payloads"`
}

type c30OneIn struct {
	Site    string `json:"site"`
	Payload string `json:"payload"`
	Opts    string `json:"opts"`
}

type c30Found struct {
	payload, combo, kind string
}

// failures found by the last "unit" evaluation; Run feeds each distinct one to the "one" oracle so that every
// mechanism gets its own class, count and replayable witness (a unit can hold several).
var c30Pending []c30Found

func c30Unit(in string) eng.Res {
	var q c30UnitIn
	if err := json.Unmarshal([]byte(in), &q); err != nil {
		panic("harness: bad C30 input: " + err.Error())
	}
	site := c30SiteByName(q.Site)
	if site == nil {
		panic("harness: unknown site " + q.Site)
	}
	c30Pending = nil
	combos := c30UnitCombos(q.Group, q.Variant)
	vocab, berr := c30Baseline(site, combos)
	if berr != "" {
		return eng.Bad("xml-malformed-with-harmless-strings:"+site.Name, berr)
	}
	var outcome []string
	rendered := 0
	for _, p := range q.Payloads {
		cerr, outs := c30RenderAll(site.Src(dq(p), p), site.Multi, combos)
		if cerr != nil {
			outcome = append(outcome, "E:"+strings.ReplaceAll(u.ErrClass(cerr), p, "$P"))
			continue
		}
		seen := map[string]bool{} // kinds that already failed for this payload with fewer options
		res := "ok"
		for i, combo := range combos {
			if outs[i].err != nil {
				res = "render-error"
				continue
			}
			for _, doc := range outs[i].docs {
				rendered++
				kind, _ := c30Judge(site, vocab[combo], doc)
				if kind == "" {
					continue
				}
				res = "FAIL"
				if seen[kind] {
					continue
				}
				if combo == combos[0] {
					seen[kind] = true // every further option set of this unit includes combos[0]'s options
				}
				c30Pending = append(c30Pending, c30Found{p, combo, kind})
			}
		}
		outcome = append(outcome, res)
	}
	sort.Strings(outcome)
	return eng.OK(site.Name+"/"+q.Variant+"/"+strings.Join(outcome, "|"), rendered > 0)
}

// c30One judges one (site, payload, option set) and names the smallest subset of the option set under which
// the same mechanism already fails.
func c30One(in string) eng.Res {
	var q c30OneIn
	if err := json.Unmarshal([]byte(in), &q); err != nil {
		panic("harness: bad C30 input: " + err.Error())
	}
	site := c30SiteByName(q.Site)
	if site == nil {
		panic("harness: unknown site " + q.Site)
	}
	src := site.Src(dq(q.Payload), q.Payload)
	try := func(combo string) (string, string) {
		vocab, berr := c30Baseline(site, []string{combo})
		if berr != "" {
			return "xml-malformed-with-harmless-strings", berr
		}
		cerr, outs := c30RenderAll(src, site.Multi, []string{combo})
		if cerr != nil || outs[0].err != nil {
			return "", ""
		}
		for _, doc := range outs[0].docs {
			if k, d := c30Judge(site, vocab[combo], doc); k != "" {
				return k, d
			}
		}
		return "", ""
	}
	kind, detail := try(q.Opts)
	if kind == "" {
		return eng.OK("ok", true)
	}
	min := q.Opts
	if q.Opts != "" {
		subs := []string{""}
		if parts := strings.Split(q.Opts, ","); len(parts) > 1 {
			subs = append(subs, parts...)
		}
		for _, s := range subs {
			if k, d := try(s); k == kind {
				min, detail = s, d
				break
			}
		}
	}
	suffix := ""
	if min != "" {
		suffix = ":only-with-" + strings.ReplaceAll(min, ",", "+")
	}
	return eng.Bad(kind+":"+site.Name+suffix, fmt.Sprintf("string %q, render options [%s]\nd2 source:\n%s\n%s", q.Payload, min, src, detail))
}

func c30Chunks(ps []string, n int) [][]string {
	var out [][]string
	for len(ps) > 0 {
		k := n
		if k > len(ps) {
			k = len(ps)
		}
		out = append(out, ps[:k])
		ps = ps[k:]
	}
	return out
}

func init() {
	eng.Register(&eng.Check{
		ID: "C30", Level: "exploration", HangBound: 900 * time.Second,
		QuickBudget: 400 * time.Second, ThoroughBudget: 24 * time.Minute,
		Rule: "string (XML metacharacters, quote break-outs, entity/CDATA/comment/PI openers, C0 control characters, U+007F/0085/2028/FFFE/FFFF/FEFF, lone surrogate and invalid UTF-8 bytes; each carrying a unique marker) x injection site (a D2 template placing the string as shape/connection/arrowhead label, tooltip, link, object id, class name, UML/SQL member, colour and gradient part, near, icon, code block, board name, legend, theme override, markdown) x render-option set (default; every single option and every pair of {sketch, dark theme, terminal theme, appendix, pad, scale, center, no-xml-tag, salt}); compiled+laid out through d2lib.Compile (dagre), rendered by d2svg.Render (+appendix.Append), every SVG scanned by the strict XML oracle and compared with the vocabulary of the same template rendered with harmless strings. Oracle 'unit' = one site x one compile variant x a chunk of strings x all option sets of the phase; every failure it finds is re-judged alone by oracle 'one' (site, string, option set) which names the mechanism and the smallest failing option subset. non-trivial = at least one SVG was produced and scanned",
		Assumptions: []string{
			"well-formedness = encoding/xml strict tokenizer plus tag nesting, single root, unique attributes, no '<' in attribute values, declared namespace prefixes; DTD validity and SVG schema conformance are not checked",
			"injection = the marker shows up in an element/attribute/PI name, or an element name or element@attribute pair occurs that never occurs when the same template is rendered with harmless strings under the same options; CSS-level injection inside <style> and URL schemes (javascript:) are not judged — the statement speaks of elements and attributes only",
			"markdown label and positioned (markdown-rendered) tooltip sites are checked for well-formedness only, as the statement excludes markdown from the injection clause",
			"strings reach D2 as double-quoted strings (escapes for quote, backslash, newline) or inside ||| block strings for code/markdown; what the parser rejects or alters never reaches the renderer and is counted as a compile-error outcome",
			"a d2svg.Render error (no SVG produced) is counted (render_errors), not judged",
			"LaTeX labels, remote/bundled images and the animated multi-board wrapper (d2animate) are outside the space",
		},
		Oracles: map[string]eng.Oracle{"unit": c30Unit, "one": c30One},
		Run: func(w *eng.W) {
			runtime.GOMAXPROCS(2)
			all := append(append([]string{}, c30Meta...), c30Control(w.Thorough())...)
			// sketch renders cost ~10x a plain one (rough.js is loaded per Render): quick gives the sketch variants
			// the core strings only
			emit := func(group string, ps, sketchPs []string) {
				for _, s := range c30Sites {
					s := s
					w.Phase(group+"-options:"+s.Name, func() {
						for _, variant := range c30Variants {
							combos := c30UnitCombos(group, variant)
							if len(combos) == 0 {
								continue
							}
							per := 160 / len(combos) // <= ~160 renders per evaluation
							if per < 4 {
								per = 4
							}
							vps := ps
							if strings.Contains(variant, "sketch") {
								vps = sketchPs
							}
							for _, ch := range c30Chunks(vps, per) {
								if !w.Mine() {
									continue
								}
								b, _ := json.Marshal(c30UnitIn{Site: s.Name, Group: group, Variant: variant, Payloads: ch})
								w.EvalMine("unit", string(b))
								done := map[string]bool{}
								for _, f := range c30Pending {
									if k := f.kind + "\x00" + f.combo; done[k] {
										continue
									} else {
										done[k] = true
									}
									b, _ := json.Marshal(c30OneIn{Site: s.Name, Payload: f.payload, Opts: f.combo})
									w.EvalMine("one", string(b))
								}
								c30Pending = nil
							}
						}
					})
				}
			}
			if w.Thorough() {
				emit("base", all, all)
				pairStrings := append(append([]string{}, c30Meta...), c30Control(false)...)
				emit("pairs", pairStrings, pairStrings)
			} else {
				emit("base", all, c30Core)
				emit("pairs", c30Core[:2], c30Core[:2])
			}
			w.Count("svg_renders", c30Renders.Load())
			w.Count("compile_layout_runs", c30Compiles.Load())
			w.Count("render_errors", c30RenderErrs.Load())
			w.Count("worker_cpu_ms", int64(cpuNow()/time.Millisecond))
			w.Note("strings", fmt.Sprint(len(all)))
			w.Note("sites", fmt.Sprint(len(c30Sites)))
		},
	})
	eng.Internal["dbg-renderb"] = dbgRender
}
