package renderb

import (
	"encoding/json"
	"fmt"
	"sort"
	"strings"
	"sync/atomic"
	"time"

	"oss.terrastruct.com/d2/d2renderers/d2svg"
	"oss.terrastruct.com/d2/d2renderers/d2svg/appendix"
	"oss.terrastruct.com/d2/d2target"
	"verif/h/eng"
	"verif/h/u"
)

// ---- payloads ------------------------------------------------------------------------------------

const c30Marker = "zqj"

// every payload contains the marker followed by two letters (unique per payload).
var c30Meta = []string{
	"<zqjab>",
	"</text><zqjac/>",
	"\"zqjad",
	"'zqjae",
	"&zqjaf",
	"&amp;zqjag",
	"&zqjah;",
	"]]>zqjai",
	"]]><zqjaj/>",
	"-->zqjak",
	"<!--zqjal",
	"<![CDATA[zqjam",
	"<?zqjan?>",
	"<script>zqjao</script>",
	"\" onload=\"zqjap",
	"' onload='zqjaq",
	"\"><zqjar x=\"",
	"'><zqjas x='",
	"javascript:zqjat",
	"%22%3E%3Czqjau%3E",
	"\\\"zqjav",
	"zqjaw\\",
}

// payloads for the option-pair phase at quick tier.
var c30Core = []string{"<zqjab>", "&zqjah;", "]]><zqjaj/>", "\" onload=\"zqjap", "'><zqjas x='", "\x01zqjcb"}

func c30Control() []string {
	var out []string
	for c := 0; c < 0x20; c++ {
		out = append(out, fmt.Sprintf("%czqjc%c", rune(c), rune('a'+c%26)))
	}
	out = append(out,
		"\x7fzqjda", "\u0085zqjdb", "\u2028zqjdc", "\ufffezqjdd", "\uffffzqjde", "\xed\xa0\x80zqjdf", "\xffzqjdg", "\ufeffzqjdh",
	)
	return out
}

// benign strings used to collect the renderer's own vocabulary for a site.
var c30Benign = []string{"zqjba", "zqj bb\nzqjbc zqjbd"}

// ---- injection sites -----------------------------------------------------------------------------

type c30Site struct {
	Name string
	// Src builds the D2 text; q is the payload as a D2 double-quoted string, raw the payload itself.
	Src func(q, raw string) string
	// WFOnly: markup produced from the string is intended (markdown); only well-formedness is checked.
	WFOnly bool
	// Multi: render every board.
	Multi bool
}

func gradSite(name, format string) c30Site {
	return c30Site{Name: name, Src: func(q, raw string) string {
		g := dq(fmt.Sprintf(format, raw))
		return "style.fill: " + g + "\na: lbl {style.fill: " + g + "; style.stroke: " + g + "; style.font-color: " + g + "}\na -> b: lbl {style.stroke: " + g + "; style.font-color: " + g + "}\n"
	}}
}

var c30Sites = []c30Site{
	{Name: "shape-label", Src: func(q, _ string) string { return "a: " + q + "\nc: " + q + " {b}\n" }},
	{Name: "shape-label-border-mono", Src: func(q, _ string) string {
		return "a: {label: " + q + "; label.near: border-top-center; style.font: mono; style.underline: true}\n"
	}},
	{Name: "connection-label", Src: func(q, _ string) string { return "a -> b: " + q + "\n" }},
	{Name: "arrowhead-label", Src: func(q, _ string) string {
		return "a <-> b: {source-arrowhead: " + q + "; target-arrowhead.label: " + q + "}\n"
	}},
	{Name: "tooltip", Src: func(q, _ string) string { return "a.tooltip: " + q + "\n" }},
	{Name: "link", Src: func(q, _ string) string { return "a.link: " + q + "\n" }},
	{Name: "link-url", Src: func(q, raw string) string { return "a.link: " + dq("https://example.com/"+raw) + "\n" }},
	{Name: "tooltip+link", Src: func(q, _ string) string { return "a: {tooltip: " + q + "; link: " + q + "; shape: circle}\n" }},
	{Name: "connection-link", Src: func(q, _ string) string { return "a -> b: lbl {link: " + q + "}\n" }},
	{Name: "object-id", Src: func(q, _ string) string { return q + ".c -> b\n" + q + ".c.tooltip: t\n" }},
	{Name: "class-name", Src: func(q, _ string) string {
		return "classes: {" + q + ": {style.stroke-width: 2}}\na.class: " + q + "\na -> b: {class: " + q + "}\n"
	}},
	{Name: "class-name-undeclared", Src: func(q, _ string) string { return "a.class: " + q + "\na -> b: {class: " + q + "}\n" }},
	{Name: "uml-class-member", Src: func(q, raw string) string {
		return "a: {shape: class\n  " + q + ": " + q + "\n  " + dq(raw+"(x)") + ": " + q + "\n}\n"
	}},
	{Name: "uml-class-header", Src: func(q, _ string) string { return "a: " + q + " {shape: class; f: int}\n" }},
	{Name: "sql-column", Src: func(q, _ string) string {
		return "a: {shape: sql_table\n  " + q + ": " + q + " {constraint: " + q + "}\n}\n"
	}},
	{Name: "sql-header", Src: func(q, _ string) string { return "a: " + q + " {shape: sql_table; id: int}\n" }},
	{Name: "color-value", Src: func(q, _ string) string {
		return "a: lbl {style.fill: " + q + "}\n"
	}},
	{Name: "color-value-stroke-font", Src: func(q, _ string) string {
		return "a -> b: lbl {style.stroke: " + q + "; style.font-color: " + q + "}\n"
	}},
	gradSite("gradient-stop-color", "linear-gradient(%s, blue)"),
	gradSite("gradient-stop-position", "linear-gradient(red %s, blue)"),
	gradSite("gradient-direction-to", "linear-gradient(to %s, red, blue)"),
	gradSite("gradient-direction-deg", "linear-gradient(%sdeg, red, blue)"),
	gradSite("gradient-radial-stop-position", "radial-gradient(circle, red %s, blue)"),
	{Name: "near", Src: func(q, _ string) string { return "a.near: " + q + "\nb\n" }},
	{Name: "icon", Src: func(q, _ string) string {
		return "a.icon: " + q + "\nb: {shape: image; icon: " + q + "}\na -> b: {icon: " + q + "}\n"
	}},
	{Name: "icon-url", Src: func(_, raw string) string {
		i := dq("https://example.com/" + raw)
		return "a.icon: " + i + "\nb: {shape: image; icon: " + i + "}\na -> b: {icon: " + i + "}\n"
	}},
	{Name: "code-block", Src: func(_, raw string) string {
		return "a: |||go\n" + raw + "\n|||\na -> b: |||go\n" + raw + "\n|||\n"
	}},
	{Name: "board-name", Multi: true, Src: func(q, _ string) string {
		return "a.link: layers." + q + "\nlayers: {" + q + ": {b}}\n"
	}},
	{Name: "legend", Src: func(q, _ string) string {
		return "vars: {d2-legend: " + q + " {\n  a: " + q + " {shape: circle}\n  a -> b: " + q + "\n}}\nx -> y\n"
	}},
	{Name: "theme-override", Src: func(q, _ string) string {
		return "vars: {d2-config: {theme-overrides: {B1: " + q + "; N7: " + q + "}; dark-theme-overrides: {B2: " + q + "}}}\na -> b\n"
	}},
	{Name: "markdown-label", WFOnly: true, Src: func(_, raw string) string {
		return "a: |||md\n" + raw + "\n|||\na -> b: |||md\n" + raw + "\n|||\n"
	}},
	{Name: "tooltip-positioned", WFOnly: true, Src: func(q, _ string) string {
		return "a: {tooltip: " + q + "; tooltip.near: top-center}\n"
	}},
}

func c30SiteByName(n string) *c30Site {
	for i := range c30Sites {
		if c30Sites[i].Name == n {
			return &c30Sites[i]
		}
	}
	return nil
}

// ---- render options --------------------------------------------------------------------------------

var c30OptNames = []string{"sketch", "dark", "terminal", "appendix", "pad", "scale", "center", "noxml", "salt"}

// option sets as sorted comma-joined names; "" is the default rendering.
func c30Combos(group string) []string {
	switch group {
	case "base":
		// every option that switches the code path emitting user strings, alone; the cosmetic ones together
		return []string{"", "sketch", "dark", "terminal", "appendix", "pad,scale,center,noxml,salt"}
	case "pairs":
		out := []string{""}
		out = append(out, c30OptNames...)
		for i := range c30OptNames {
			for j := i + 1; j < len(c30OptNames); j++ {
				out = append(out, c30OptNames[i]+","+c30OptNames[j])
			}
		}
		return out
	}
	panic("unknown option group " + group)
}

func hasOpt(combo, o string) bool {
	for _, x := range strings.Split(combo, ",") {
		if x == o {
			return true
		}
	}
	return false
}

var c30Renders, c30Compiles atomic.Int64

type c30Compiled struct {
	d   *d2target.Diagram
	ro  d2svg.RenderOpts
	err error
}

// c30Render renders src under every combo; compile+layout happen once per (sketch, terminal) pair.
// It returns per combo the list of documents (one per board) or an error.
type c30Out struct {
	docs [][]byte
	err  error
}

func c30RenderAll(src string, multi bool, combos []string) (compileErr error, outs []c30Out) {
	cache := map[[2]bool]*c30Compiled{}
	outs = make([]c30Out, len(combos))
	for i, combo := range combos {
		key := [2]bool{hasOpt(combo, "sketch"), hasOpt(combo, "terminal")}
		c := cache[key]
		if c == nil {
			c = &c30Compiled{}
			if key[0] {
				c.ro.Sketch = ptr(true)
			}
			if key[1] {
				c.ro.ThemeID = ptr(int64(300))
			}
			c30Compiles.Add(1)
			c.d, _, c.err = compileLayout(src, "dagre", &c.ro)
			cache[key] = c
		}
		if c.err != nil {
			if combo == "" {
				return c.err, nil
			}
			outs[i].err = c.err
			continue
		}
		ro := c.ro
		if hasOpt(combo, "dark") {
			ro.DarkThemeID = ptr(int64(200))
		}
		if hasOpt(combo, "pad") {
			ro.Pad = ptr(int64(0))
		}
		if hasOpt(combo, "scale") {
			ro.Scale = ptr(0.5)
		}
		if hasOpt(combo, "center") {
			ro.Center = ptr(true)
		}
		if hasOpt(combo, "noxml") {
			ro.NoXMLTag = ptr(true)
		}
		if hasOpt(combo, "salt") {
			ro.Salt = ptr("s\"<&'>")
		}
		var boards []*d2target.Diagram
		if multi {
			var walk func(d *d2target.Diagram)
			walk = func(d *d2target.Diagram) {
				if !d.IsFolderOnly {
					boards = append(boards, d)
				}
				for _, l := range d.Layers {
					walk(l)
				}
				for _, l := range d.Scenarios {
					walk(l)
				}
				for _, l := range d.Steps {
					walk(l)
				}
			}
			walk(c.d)
		} else {
			boards = []*d2target.Diagram{c.d}
		}
		for _, b := range boards {
			c30Renders.Add(1)
			r := ro
			svg, err := d2svg.Render(b, &r)
			if err != nil {
				outs[i].err = err
				break
			}
			if hasOpt(combo, "appendix") {
				svg = appendix.Append(b, &r, ruler(), svg)
			}
			outs[i].docs = append(outs[i].docs, svg)
		}
	}
	return nil, outs
}

// ---- oracle ----------------------------------------------------------------------------------------

type c30In struct {
	Site     string   `json:"site"`
	Opts     string   `json:"opts"`
	Payloads []string `json:"payloads"`
}

type c30Vocab struct {
	elems, attrs map[string]bool
}

var c30VocabCache = map[string]*c30Vocab{}

// vocabulary of the renderer for (site, combo): names seen when the strings are harmless.
func c30Baseline(site *c30Site, combos []string) (map[string]*c30Vocab, string) {
	res := map[string]*c30Vocab{}
	var missing []string
	for _, c := range combos {
		if v := c30VocabCache[site.Name+"\x00"+c]; v != nil {
			res[c] = v
		} else {
			missing = append(missing, c)
		}
	}
	if len(missing) == 0 {
		return res, ""
	}
	for _, c := range missing {
		res[c] = &c30Vocab{elems: map[string]bool{}, attrs: map[string]bool{}}
	}
	for _, b := range c30Benign {
		cerr, outs := c30RenderAll(site.Src(dq(b), b), site.Multi, missing)
		if cerr != nil {
			// a site whose benign form does not compile has no vocabulary: strings never reach the renderer
			// unless the payload itself makes it compile; then everything it adds is judged against the empty set
			continue
		}
		for i, c := range missing {
			if outs[i].err != nil {
				continue
			}
			for _, doc := range outs[i].docs {
				x := scanXML(doc, "", false)
				if x.Err != "" {
					return nil, fmt.Sprintf("benign string %q, options [%s]: %s", b, c, x.Err)
				}
				for k := range x.Elems {
					res[c].elems[k] = true
				}
				for k := range x.Attrs {
					res[c].attrs[k] = true
				}
			}
		}
	}
	for _, c := range missing {
		c30VocabCache[site.Name+"\x00"+c] = res[c]
	}
	return res, ""
}

func optSuffix(combo string) string {
	if combo == "" {
		return ""
	}
	return ":with-" + strings.ReplaceAll(combo, ",", "+")
}

func c30Oracle(in string) eng.Res {
	var q c30In
	if err := json.Unmarshal([]byte(in), &q); err != nil {
		panic("harness: bad C30 input: " + err.Error())
	}
	site := c30SiteByName(q.Site)
	if site == nil {
		panic("harness: unknown site " + q.Site)
	}
	combos := c30Combos(q.Opts)
	var vocab map[string]*c30Vocab
	if !site.WFOnly {
		v, berr := c30Baseline(site, combos)
		if berr != "" {
			return eng.Bad("xml-malformed-without-payload:"+site.Name, berr)
		}
		vocab = v
	}
	var outcome []string
	rendered := 0
	for _, p := range q.Payloads {
		src := site.Src(dq(p), p)
		cerr, outs := c30RenderAll(src, site.Multi, combos)
		if cerr != nil {
			outcome = append(outcome, "E:"+strings.ReplaceAll(u.ErrClass(cerr), p, "$P"))
			continue
		}
		for i, combo := range combos {
			o := outs[i]
			if o.err != nil {
				outcome = append(outcome, "RE:"+strings.ReplaceAll(o.err.Error(), p, "$P"))
				continue
			}
			for _, doc := range o.docs {
				rendered++
				x := scanXML(doc, c30Marker, false)
				if x.Err != "" {
					return eng.Bad("xml-malformed:"+x.ErrKind+":"+site.Name+optSuffix(combo),
						fmt.Sprintf("payload %q options [%s]\nd2: %s\n%s", p, combo, src, x.Err))
				}
				if site.WFOnly {
					continue
				}
				if len(x.NameHits) > 0 {
					return eng.Bad("markup-injected:name-from-user-string:"+site.Name+optSuffix(combo),
						fmt.Sprintf("payload %q options [%s]\nd2: %s\nuser text became %s", p, combo, src, strings.Join(x.NameHits, "; ")))
				}
				var extra []string
				for _, k := range sortedKeys(x.Elems) {
					if !vocab[combo].elems[k] {
						extra = append(extra, "<"+k+">")
					}
				}
				for _, k := range sortedKeys(x.Attrs) {
					if !vocab[combo].attrs[k] {
						extra = append(extra, k)
					}
				}
				if len(extra) > 0 {
					return eng.Bad("markup-injected:element-or-attribute-not-in-renderer-vocabulary:"+site.Name+optSuffix(combo),
						fmt.Sprintf("payload %q options [%s]\nd2: %s\nnot present when the string is harmless: %s", p, combo, src, strings.Join(extra, " ")))
				}
			}
		}
		outcome = append(outcome, "ok")
	}
	sort.Strings(outcome)
	return eng.OK(site.Name+"/"+strings.Join(outcome, "|"), rendered > 0)
}

func c30Chunks(ps []string, n int) [][]string {
	var out [][]string
	for len(ps) > 0 {
		k := n
		if k > len(ps) {
			k = len(ps)
		}
		out = append(out, ps[:k])
		ps = ps[k:]
	}
	return out
}

func init() {
	eng.Register(&eng.Check{
		ID: "C30", Level: "exploration", HangBound: 300 * time.Second,
		QuickBudget: 110 * time.Second, ThoroughBudget: 24 * time.Minute,
		Rule: "payload string (XML metacharacters, quote break-outs, entity/CDATA/comment/PI openers, every C0 control character, U+007F/0085/2028/FFFE/FFFF, lone surrogate and invalid UTF-8 bytes; each with a unique marker) x injection site (D2 template placing the string as label, connection/arrowhead label, tooltip, link, object id, class name, UML/SQL member, colour and gradient parts, near, icon, code block, board name, legend, theme override, markdown) x render-option set (default, every single option, every pair of {sketch, dark theme, terminal theme, appendix, pad, scale, center, no-xml-tag, salt}); one evaluation = one site x <=4 payloads x all option sets of the phase; compiled through d2lib.Compile with dagre and rendered with d2svg.Render (+appendix.Append); non-trivial = at least one SVG was produced and scanned",
		Assumptions: []string{
			"well-formedness = encoding/xml strict tokenizer plus nesting, single root, unique attributes, no '<' in attribute values, declared prefixes; DTD validity and SVG schema conformance are not checked",
			"injection = the marker shows up in an element/attribute/PI name, or an element name or element@attribute pair occurs that does not occur when the same template is rendered with harmless strings under the same options; CSS-level injection inside <style> and URL schemes (javascript:) are not judged, the statement speaks of elements and attributes only",
			"markdown label and positioned (markdown) tooltip sites are checked for well-formedness only, as the statement excludes markdown from the injection clause",
			"strings reach D2 as double-quoted strings (escapes for quote, backslash, newline) or inside ||| block strings for code/markdown; what the parser rejects or alters never reaches the renderer and is counted as a compile-error outcome",
			"LaTeX labels, remote/bundled images and the animated multi-board wrapper (d2animate) are outside the space",
		},
		Oracles: map[string]eng.Oracle{"render": c30Oracle},
		Run: func(w *eng.W) {
			all := append(append([]string{}, c30Meta...), c30Control()...)
			emit := func(group string, ps []string) {
				for _, s := range c30Sites {
					for _, ch := range c30Chunks(ps, 4) {
						b, _ := json.Marshal(c30In{Site: s.Name, Opts: group, Payloads: ch})
						w.Eval("render", string(b))
					}
				}
			}
			w.Phase("all-payloads x sites x base-options", func() { emit("base", all) })
			if w.Thorough() {
				w.Phase("all-payloads x sites x option-pairs", func() { emit("pairs", all) })
			} else {
				w.Phase("core-payloads x sites x option-pairs", func() { emit("pairs", c30Core) })
			}
			w.Count("svg_renders", c30Renders.Load())
			w.Count("compile_layout_runs", c30Compiles.Load())
			w.Note("payloads", fmt.Sprint(len(all)))
			w.Note("sites", fmt.Sprint(len(c30Sites)))
		},
	})
	eng.Internal["dbg-renderb"] = dbgRender
}
