package renderb

import (
	"fmt"
	"syscall"
	"time"

	"oss.terrastruct.com/d2/d2renderers/d2svg"
	"oss.terrastruct.com/d2/d2renderers/d2svg/appendix"
)

func cpuNow() time.Duration {
	var ru syscall.Rusage
	syscall.Getrusage(syscall.RUSAGE_SELF, &ru)
	return time.Duration(ru.Utime.Nano() + ru.Stime.Nano())
}

func dbgTime(src string) {
	step := func(name string, f func()) {
		c0, t0 := cpuNow(), time.Now()
		f()
		fmt.Printf("%-28s cpu=%v wall=%v\n", name, cpuNow()-c0, time.Since(t0))
	}
	step("ruler", func() { ruler() })
	for i := 0; i < 2; i++ {
		var ro d2svg.RenderOpts
		step("compile dagre", func() { compileLayout(src, "dagre", &ro) })
	}
	var ro d2svg.RenderOpts
	d, _, _ := compileLayout(src, "dagre", &ro)
	var svg []byte
	for i := 0; i < 2; i++ {
		step("render default", func() { r := ro; svg, _ = d2svg.Render(d, &r) })
	}
	step("scanXML", func() { scanXML(svg, "zqj", false) })
	step("appendix", func() { r := ro; appendix.Append(d, &r, ruler(), svg) })
	step("render dark", func() { r := ro; r.DarkThemeID = ptr(int64(200)); d2svg.Render(d, &r) })
	ros := d2svg.RenderOpts{Sketch: ptr(true)}
	step("compile sketch", func() { d, _, _ = compileLayout(src, "dagre", &ros) })
	for i := 0; i < 2; i++ {
		step("render sketch", func() { r := ros; d2svg.Render(d, &r) })
	}
	step("compile elk", func() { compileLayout(src, "elk", &ro) })
	step("compile elk", func() { compileLayout(src, "elk", &ro) })
}
