package renderb

import (
	"bytes"
	"encoding/xml"
	"fmt"
	"io"
	"sort"
	"strings"
)

// xmlDoc is what the strict scan of one document yields.
type xmlDoc struct {
	Err      string              // "" = well-formed
	ErrKind  string              // short mechanism name of Err
	Elems    map[string]bool     // qualified element names as written
	Attrs    map[string]bool     // "elem@attr" as written
	NameHits []string            // element / attribute / PI names that contain the marker
	Texts    []xmlText           // character data runs with their element path (for C47)
	Roots    int
	attrVals map[string][]string // not exported: "elem@attr" -> values
}

type xmlText struct {
	Path  []xmlElem // ancestors, root first
	Text  string
	CDATA bool
}

type xmlElem struct {
	Name  string
	Attrs map[string]string
}

// scanXML is the strict well-formedness oracle: encoding/xml in Strict mode (raw tokens: syntax, legal
// characters, entity references limited to the five predefined ones and character references) plus the
// well-formedness constraints encoding/xml does not enforce: tag nesting, a single root element, no text
// outside the root, unique attribute names per tag, no '<' inside attribute values, declared namespace
// prefixes, XML declaration only at the very start. marker (lower case, may be "") is looked for in names.
func scanXML(doc []byte, marker string, keepText bool) *xmlDoc {
	r := &xmlDoc{Elems: map[string]bool{}, Attrs: map[string]bool{}}
	fail := func(kind, f string, a ...any) *xmlDoc {
		r.ErrKind = kind
		r.Err = fmt.Sprintf(f, a...)
		return r
	}
	d := xml.NewDecoder(bytes.NewReader(doc))
	d.Strict = true
	type frame struct {
		name string
		ns   map[string]bool
		el   xmlElem
	}
	var stack []frame
	prefixOK := func(p string) bool {
		if p == "xml" || p == "xmlns" {
			return true
		}
		for i := len(stack) - 1; i >= 0; i-- {
			if stack[i].ns[p] {
				return true
			}
		}
		return false
	}
	qn := func(n xml.Name) string {
		if n.Space != "" {
			return n.Space + ":" + n.Local
		}
		return n.Local
	}
	hasMarker := func(s string) bool {
		return marker != "" && strings.Contains(strings.ToLower(s), marker)
	}
	var prev int64
	for {
		tok, err := d.RawToken()
		cur := d.InputOffset()
		if err == io.EOF {
			break
		}
		if err != nil {
			msg := err.Error()
			kind := "syntax"
			switch {
			case strings.Contains(msg, "illegal character code"):
				kind = "illegal-character"
			case strings.Contains(msg, "invalid UTF-8"):
				kind = "invalid-utf8"
			case strings.Contains(msg, "invalid character entity"):
				kind = "undefined-entity"
			case strings.Contains(msg, "unescaped ]]>"):
				kind = "cdata-end-in-text"
			case strings.Contains(msg, "attribute name without = in element"), strings.Contains(msg, "unquoted or missing attribute value"), strings.Contains(msg, "expected attribute name in element"):
				kind = "attribute-syntax"
			case strings.Contains(msg, "unescaped < inside quoted string"):
				kind = "lt-in-attribute-value"
			}
			lo := int(prev) - 60
			if lo < 0 {
				lo = 0
			}
			hi := int(prev) + 100
			if hi > len(doc) {
				hi = len(doc)
			}
			return fail(kind, "%v near byte %d: …%q…", err, prev, doc[lo:hi])
		}
		raw := doc[prev:cur]
		switch t := tok.(type) {
		case xml.StartElement:
			if len(stack) == 0 {
				r.Roots++
				if r.Roots > 1 {
					return fail("second-root-element", "second root element <%s> at byte %d", qn(t.Name), prev)
				}
			}
			if i := bytes.IndexByte(raw[1:], '<'); i >= 0 {
				return fail("lt-in-attribute-value", "'<' inside tag at byte %d: %q", prev, clipb(raw, 200))
			}
			name := qn(t.Name)
			fr := frame{name: name, ns: map[string]bool{}}
			seen := map[string]bool{}
			for _, a := range t.Attr {
				an := qn(a.Name)
				if seen[an] {
					return fail("duplicate-attribute", "attribute %s twice in <%s> at byte %d: %q", an, name, prev, clipb(raw, 300))
				}
				seen[an] = true
				if a.Name.Space == "xmlns" {
					fr.ns[a.Name.Local] = true
				}
			}
			stack = append(stack, fr)
			if t.Name.Space != "" && !prefixOK(t.Name.Space) {
				return fail("undeclared-prefix", "element <%s> at byte %d uses an undeclared namespace prefix", name, prev)
			}
			r.Elems[name] = true
			if hasMarker(name) {
				r.NameHits = append(r.NameHits, "element <"+name+">")
			}
			el := xmlElem{Name: name}
			if keepText {
				el.Attrs = map[string]string{}
			}
			for _, a := range t.Attr {
				an := qn(a.Name)
				if a.Name.Space != "" && !prefixOK(a.Name.Space) {
					return fail("undeclared-prefix", "attribute %s of <%s> at byte %d uses an undeclared namespace prefix", an, name, prev)
				}
				r.Attrs[name+"@"+an] = true
				if hasMarker(an) {
					r.NameHits = append(r.NameHits, "attribute "+an+" of <"+name+">")
				}
				if keepText {
					el.Attrs[an] = a.Value
				}
			}
			stack[len(stack)-1].el = el
		case xml.EndElement:
			name := qn(t.Name)
			if len(stack) == 0 {
				return fail("unbalanced-tags", "end tag </%s> at byte %d without open element", name, prev)
			}
			if top := stack[len(stack)-1].name; top != name {
				return fail("unbalanced-tags", "end tag </%s> at byte %d closes <%s>", name, prev, top)
			}
			stack = stack[:len(stack)-1]
		case xml.CharData:
			if len(stack) == 0 {
				if len(bytes.TrimSpace(t)) > 0 {
					return fail("text-outside-root", "character data outside the root element at byte %d: %q", prev, clipb(t, 80))
				}
				break
			}
			if keepText {
				p := make([]xmlElem, len(stack))
				for i := range stack {
					p[i] = stack[i].el
				}
				r.Texts = append(r.Texts, xmlText{Path: p, Text: string(t), CDATA: bytes.HasPrefix(raw, []byte("<![CDATA["))})
			}
		case xml.ProcInst:
			if t.Target == "xml" && prev != 0 {
				return fail("xml-declaration-not-at-start", "XML declaration at byte %d", prev)
			}
			if hasMarker(t.Target) {
				r.NameHits = append(r.NameHits, "processing instruction <?"+t.Target+"?>")
			}
		case xml.Directive:
			if hasMarker(string(t)) {
				r.NameHits = append(r.NameHits, "directive <!"+clipb(t, 40)+">")
			}
		case xml.Comment:
		}
		prev = cur
	}
	if len(stack) != 0 {
		return fail("unbalanced-tags", "document ends inside <%s>", stack[len(stack)-1].name)
	}
	if r.Roots == 0 {
		return fail("no-root-element", "no root element")
	}
	return r
}

func clipb(b []byte, n int) string {
	if len(b) > n {
		return string(b[:n]) + "…"
	}
	return string(b)
}

func sortedKeys(m map[string]bool) []string {
	ks := make([]string, 0, len(m))
	for k := range m {
		ks = append(ks, k)
	}
	sort.Strings(ks)
	return ks
}
