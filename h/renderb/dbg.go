package renderb

import (
	"fmt"
	"io"
	"os"
	"strconv"
	"time"

	"oss.terrastruct.com/d2/d2renderers/d2svg"
)

// dbgRender: h-renderb dbg-renderb svg <layout> [combo] < file.d2   |   dbg-renderb c30 <site> <go-quoted payload> [group]
func dbgRender(args []string) {
	switch args[0] {
	case "svg":
		src, _ := io.ReadAll(os.Stdin)
		combo := ""
		if len(args) > 2 {
			combo = args[2]
		}
		t0 := time.Now()
		ro := d2svg.RenderOpts{}
		d, _, err := compileLayout(string(src), args[1], &ro)
		fmt.Fprintln(os.Stderr, "compile", time.Since(t0), err)
		if err != nil {
			return
		}
		_ = d
		t0 = time.Now()
		_, outs := c30RenderAll(string(src), true, []string{combo})
		fmt.Fprintln(os.Stderr, "compile+render", time.Since(t0), outs[0].err)
		for _, doc := range outs[0].docs {
			os.Stdout.Write(doc)
			fmt.Println()
			x := scanXML(doc, c30Marker, false)
			fmt.Fprintln(os.Stderr, "xml:", x.Err, x.NameHits)
		}
	case "c30":
		p, err := strconv.Unquote(args[2])
		if err != nil {
			p = args[2]
		}
		site := c30SiteByName(args[1])
		src := site.Src(dq(p), p)
		fmt.Println(src)
		group := "base"
		if len(args) > 3 {
			group = args[3]
		}
		t0 := time.Now()
		cerr, outs := c30RenderAll(src, site.Multi, c30Combos(group))
		fmt.Println("compile err:", cerr, time.Since(t0))
		for i, c := range c30Combos(group) {
			if cerr != nil {
				break
			}
			fmt.Printf("[%s] err=%v docs=%d\n", c, outs[i].err, len(outs[i].docs))
			for _, doc := range outs[i].docs {
				x := scanXML(doc, c30Marker, false)
				fmt.Println("   xml:", x.ErrKind, x.Err, x.NameHits)
			}
		}
	}
}
