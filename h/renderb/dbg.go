package renderb

import (
	"sort"
	"encoding/json"
	"fmt"
	"io"
	"os"
	"strconv"
	"time"

	"oss.terrastruct.com/d2/d2renderers/d2svg"
)

// dbgRender: h-renderb dbg-renderb svg <layout> [combo] < file.d2   |   dbg-renderb c30 <site> <go-quoted payload> [group]
func dbgRender(args []string) {
	switch args[0] {
	case "time":
		src, _ := io.ReadAll(os.Stdin)
		dbgTime(string(src))
	case "svg":
		src, _ := io.ReadAll(os.Stdin)
		combo := ""
		if len(args) > 2 {
			combo = args[2]
		}
		t0 := time.Now()
		ro := d2svg.RenderOpts{}
		d, _, err := compileLayout(string(src), args[1], &ro)
		fmt.Fprintln(os.Stderr, "compile", time.Since(t0), err)
		if err != nil {
			return
		}
		_ = d
		t0 = time.Now()
		_, outs := c30RenderAll(string(src), true, []string{combo})
		fmt.Fprintln(os.Stderr, "compile+render", time.Since(t0), outs[0].err)
		for _, doc := range outs[0].docs {
			os.Stdout.Write(doc)
			fmt.Println()
			x := scanXML(doc, c30Marker, false)
			fmt.Fprintln(os.Stderr, "xml:", x.Err, x.NameHits)
		}
	case "rerr":
		all := append(append([]string{}, c30Meta...), c30Control(false)...)
		for _, site := range c30Sites {
			for _, p := range all {
				for _, combo := range []string{args[1]} {
					cerr, outs := c30RenderAll(site.Src(dq(p), p), site.Multi, []string{combo})
					if cerr == nil && outs[0].err != nil {
						fmt.Printf("%s %q [%s]: %v\n", site.Name, p, combo, outs[0].err)
					}
				}
			}
		}
	case "c47err":
		absent := c47Absent()
		for _, sk := range []bool{false, true} {
			for _, p := range c47Positions {
				if sk && p.Mono {
					continue
				}
				set := map[rune]bool{}
				for _, ff := range familyFonts(p.Mono, sk) {
					for _, r := range cmapRunes(ff.f) {
						if !p.MD || isMDSafe(r) {
							set[r] = true
						}
					}
				}
				var rs []rune
				for r := range set {
					rs = append(rs, r)
				}
				sort.Slice(rs, func(i, j int) bool { return rs[i] < rs[j] })
				if p.Name == "shape-label" {
					fmt.Println("family runes", p.Mono, sk, len(rs))
				}
				for _, t := range c47Chunks(rs, 44, absent) {
					var ro d2svg.RenderOpts
					if sk {
						ro.Sketch = ptr(true)
					}
					if _, _, err := compileLayout(p.Src(dq(t), t), "dagre", &ro); err != nil {
						fmt.Printf("%s sketch=%v %q: %v\n", p.Name, sk, t, err)
					}
				}
			}
		}
	case "c47":
		t0 := time.Now()
		r := c47Oracle(args[1])
		fmt.Println(r.Outcome, r.Nontrivial, time.Since(t0))
		if r.Fail != nil {
			fmt.Println(r.Fail.Class)
			fmt.Println(r.Fail.Detail)
		}
	case "fonts":
		for _, ff := range fullFonts() {
			fmt.Println(ff.key, ff.name, len(cmapRunes(ff.f)), ff.f.NumGlyphs())
		}
	case "c30":
		p, err := strconv.Unquote(args[2])
		if err != nil {
			p = args[2]
		}
		opts := ""
		if len(args) > 3 {
			opts = args[3]
		}
		b, _ := json.Marshal(c30OneIn{Site: args[1], Payload: p, Opts: opts})
		t0 := time.Now()
		r := c30One(string(b))
		fmt.Println(r.Outcome, time.Since(t0))
		if r.Fail != nil {
			fmt.Println(r.Fail.Class)
			fmt.Println(r.Fail.Detail)
		}
	}
}
