package renderb

import (
	"encoding/base64"
	"encoding/json"
	"fmt"
	"reflect"
	"regexp"
	"runtime"
	"sort"
	"strings"
	"sync/atomic"
	"time"
	"unicode"

	"golang.org/x/image/font/sfnt"
	"golang.org/x/image/math/fixed"

	"oss.terrastruct.com/d2/d2renderers/d2fonts"
	"oss.terrastruct.com/d2/d2renderers/d2svg"
	"oss.terrastruct.com/d2/d2renderers/d2svg/appendix"
	"verif/h/eng"
	"verif/h/u"
)

// ---- fonts -------------------------------------------------------------------------------------------

type fullFont struct {
	key  d2fonts.Font
	f    *sfnt.Font
	name string
}

var fullFontsCache []*fullFont

// fullFonts parses every TTF d2 ships (family x style), keyed by the full name in the font's name table.
func fullFonts() []*fullFont {
	if fullFontsCache != nil {
		return fullFontsCache
	}
	for _, fam := range []d2fonts.FontFamily{d2fonts.SourceSansPro, d2fonts.SourceCodePro, d2fonts.HandDrawn} {
		for _, st := range d2fonts.FontStyles {
			k := d2fonts.Font{Family: fam, Style: st}
			ttf := d2fonts.FontFaces.Get(k)
			if len(ttf) == 0 {
				continue
			}
			f, err := sfnt.Parse(ttf)
			if err != nil {
				panic(fmt.Sprintf("harness: full font %v does not parse: %v", k, err))
			}
			fullFontsCache = append(fullFontsCache, &fullFont{key: k, f: f, name: fontName(f)})
		}
	}
	return fullFontsCache
}

func fontName(f *sfnt.Font) string {
	var b sfnt.Buffer
	n, err := f.Name(&b, sfnt.NameIDFull)
	if err != nil || n == "" {
		fam, _ := f.Name(&b, sfnt.NameIDFamily)
		sub, _ := f.Name(&b, sfnt.NameIDSubfamily)
		n = fam + " " + sub
	}
	return n
}

func fullFontFor(fam d2fonts.FontFamily, st d2fonts.FontStyle) *fullFont {
	for _, ff := range fullFonts() {
		if ff.key.Family == fam && ff.key.Style == st {
			return ff
		}
	}
	return nil
}

func hasGlyph(f *sfnt.Font, r rune) (sfnt.GlyphIndex, bool) {
	var b sfnt.Buffer
	gi, err := f.GlyphIndex(&b, r)
	return gi, err == nil && gi != 0
}

// cmapRunes: the drawable runes of a font (U+0021..U+2FFFF, no C1 controls, no surrogates, no spaces).
func cmapRunes(f *sfnt.Font) []rune {
	var out []rune
	for r := rune(0x21); r <= 0x2FFFF; r++ {
		if (r >= 0x7f && r <= 0x9f) || (r >= 0xd800 && r <= 0xdfff) || unicode.IsSpace(r) || unicode.IsControl(r) || r == 0xfeff {
			continue
		}
		if _, ok := hasGlyph(f, r); ok {
			out = append(out, r)
		}
	}
	return out
}

func outline(f *sfnt.Font, gi sfnt.GlyphIndex) (string, error) {
	var b sfnt.Buffer
	segs, err := f.LoadGlyph(&b, gi, fixed.I(int(f.UnitsPerEm())), nil)
	if err != nil {
		return "", err
	}
	var sb strings.Builder
	for _, s := range segs {
		fmt.Fprintf(&sb, "%d:%v;", s.Op, s.Args)
	}
	return sb.String(), nil
}

// ---- SVG: embedded fonts, font-family rules, text runs --------------------------------------------------

var (
	reFontFace  = regexp.MustCompile(`@font-face\s*\{\s*font-family:\s*"?([\w-]+)"?\s*;\s*src:\s*url\("data:application/font-woff;base64,([A-Za-z0-9+/=]*)"\)\s*;?\s*\}`)
	reAtBlock   = regexp.MustCompile(`@[\w-]+[^{}]*\{(?:[^{}]*\{[^{}]*\})*[^{}]*\}`)
	reComment   = regexp.MustCompile(`(?s)/\*.*?\*/`)
	reRule      = regexp.MustCompile(`([^{}]+)\{([^{}]*)\}`)
	reFamily    = regexp.MustCompile(`(?:^|;|\s)font-family:\s*"?([^";}]+?)"?\s*(?:;|$)`)
	reSimpleSel = regexp.MustCompile(`^[\w.\- ]+$`)
)

type cssRule struct {
	compounds [][]string // each compound: [tag-or-"", class, class...]
	family    string
	spec      int
	order     int
}

type svgFonts struct {
	faces    map[string][]byte // family name -> WOFF bytes
	rules    []cssRule
	skipped  int // selectors with a font-family declaration that the matcher does not understand
	faceErrs []string
}

func parseStyles(css string) *svgFonts {
	sf := &svgFonts{faces: map[string][]byte{}}
	css = reComment.ReplaceAllString(css, "")
	for _, m := range reFontFace.FindAllStringSubmatch(css, -1) {
		b, err := base64.StdEncoding.DecodeString(m[2])
		if err != nil {
			sf.faceErrs = append(sf.faceErrs, m[1]+": "+err.Error())
			continue
		}
		sf.faces[m[1]] = b
	}
	css = reAtBlock.ReplaceAllString(css, "")
	for i, m := range reRule.FindAllStringSubmatch(css, -1) {
		fm := reFamily.FindStringSubmatch(strings.TrimSpace(m[2]))
		if fm == nil || fm[1] == "inherit" {
			continue
		}
		for _, sel := range strings.Split(m[1], ",") {
			sel = strings.Join(strings.Fields(sel), " ")
			if sel == "" {
				continue
			}
			if !reSimpleSel.MatchString(sel) {
				sf.skipped++
				continue
			}
			r := cssRule{family: strings.TrimSpace(fm[1]), order: i}
			for _, comp := range strings.Split(sel, " ") {
				parts := strings.Split(comp, ".")
				r.compounds = append(r.compounds, parts)
				if parts[0] != "" {
					r.spec++
				}
				r.spec += 100 * (len(parts) - 1)
			}
			sf.rules = append(sf.rules, r)
		}
	}
	return sf
}

func compoundMatches(c []string, e xmlElem) bool {
	if c[0] != "" && c[0] != e.Name {
		return false
	}
	if len(c) > 1 {
		cls := strings.Fields(e.Attrs["class"])
		for _, want := range c[1:] {
			ok := false
			for _, x := range cls {
				if x == want {
					ok = true
				}
			}
			if !ok {
				return false
			}
		}
	}
	return true
}

// ruleMatches: descendant-combinator selector against path[0..i] with the last compound on path[i].
func ruleMatches(r cssRule, path []xmlElem, i int) bool {
	n := len(r.compounds)
	if !compoundMatches(r.compounds[n-1], path[i]) {
		return false
	}
	k := n - 2
	for j := i - 1; j >= 0 && k >= 0; j-- {
		if compoundMatches(r.compounds[k], path[j]) {
			k--
		}
	}
	return k < 0
}

// familyOf: the computed font-family of a text node = the best rule on the innermost ancestor that has one.
func (sf *svgFonts) familyOf(path []xmlElem) string {
	for i := len(path) - 1; i >= 0; i-- {
		best := -1
		for ri, r := range sf.rules {
			if ruleMatches(r, path, i) {
				if best < 0 || r.spec > sf.rules[best].spec || (r.spec == sf.rules[best].spec && r.order >= sf.rules[best].order) {
					best = ri
				}
			}
		}
		if best >= 0 {
			return sf.rules[best].family
		}
	}
	return ""
}

// ---- positions -------------------------------------------------------------------------------------------

type c47Pos struct {
	Name string
	// Mono: the position draws with the mono family (else the proportional one); only used to choose which
	// fonts' runes are enumerated here: the union of the cmaps of all styles of that family.
	Mono     bool
	MD       bool // text is markdown source: ASCII punctuation is left out
	Appendix bool // run appendix.Append after rendering (PNG/PDF path)
	Src      func(q, raw string) string
}

var c47Positions = []c47Pos{
	{Name: "shape-label", Mono: false, Src: func(q, _ string) string { return "a: " + q + "\n" }},
	{Name: "container-label", Mono: false, Src: func(q, _ string) string { return "a: " + q + " {b}\n" }},
	{Name: "shape-label-bold", Mono: false, Src: func(q, _ string) string { return "a: " + q + " {style.bold: true}\n" }},
	{Name: "shape-label-italic", Mono: false, Src: func(q, _ string) string { return "a: " + q + " {style.bold: false; style.italic: true}\n" }},
	{Name: "shape-label-mono", Mono: true, Src: func(q, _ string) string { return "a: " + q + " {style.font: mono; style.bold: false}\n" }},
	{Name: "shape-label-mono-bold", Mono: true, Src: func(q, _ string) string {
		return "a: " + q + " {style.font: mono; style.bold: true}\n"
	}},
	{Name: "shape-label-mono-italic", Mono: true, Src: func(q, _ string) string {
		return "a: " + q + " {style.font: mono; style.bold: false; style.italic: true}\n"
	}},
	{Name: "connection-label", Mono: false, Src: func(q, _ string) string { return "a -> b: " + q + "\n" }},
	{Name: "connection-label-bold", Mono: false, Src: func(q, _ string) string {
		return "a -> b: " + q + " {style.bold: true; style.italic: false}\n"
	}},
	// one position per diagram text slot, so that a slot missing from the corpus cannot hide behind another
	{Name: "arrowhead-label-source", Mono: false, Src: func(q, _ string) string { return "a <-> b: {source-arrowhead: " + q + "}\n" }},
	{Name: "arrowhead-label-target", Mono: false, Src: func(q, _ string) string { return "a <-> b: {target-arrowhead.label: " + q + "}\n" }},
	{Name: "uml-class-field-name", Mono: true, Src: func(q, _ string) string { return "a: {shape: class\n  " + q + ": int\n}\n" }},
	{Name: "uml-class-field-type", Mono: true, Src: func(q, _ string) string { return "a: {shape: class\n  f: " + q + "\n}\n" }},
	{Name: "uml-class-method-name", Mono: true, Src: func(_, raw string) string { return "a: {shape: class\n  " + dq(raw+"(x)") + ": void\n}\n" }},
	{Name: "uml-class-method-return", Mono: true, Src: func(q, _ string) string { return "a: {shape: class\n  m(): " + q + "\n}\n" }},
	{Name: "uml-class-header", Mono: true, Src: func(q, _ string) string { return "a: " + q + " {shape: class; f: int}\n" }},
	{Name: "sql-column-name", Mono: false, Src: func(q, _ string) string { return "a: {shape: sql_table\n  " + q + ": int\n}\n" }},
	{Name: "sql-column-type", Mono: false, Src: func(q, _ string) string { return "a: {shape: sql_table\n  c: " + q + "\n}\n" }},
	{Name: "sql-column-constraint", Mono: false, Src: func(q, _ string) string {
		return "a: {shape: sql_table\n  c: int {constraint: " + q + "}\n}\n"
	}},
	{Name: "sql-header", Mono: false, Src: func(q, _ string) string { return "a: " + q + " {shape: sql_table; id: int}\n" }},
	{Name: "code-block", Mono: true, Src: func(_, raw string) string { return "a: |||go\n" + raw + "\n|||\n" }},
	{Name: "connection-code-label", Mono: true, Src: func(_, raw string) string { return "a -> b: |||go\n" + raw + "\n|||\n" }},
	{Name: "markdown-plain", Mono: false, MD: true, Src: func(_, raw string) string { return "a: |||md\nx" + raw + "x\n|||\n" }},
	{Name: "markdown-bold", Mono: false, MD: true, Src: func(_, raw string) string { return "a: |||md\n**x" + raw + "x**\n|||\n" }},
	{Name: "markdown-italic", Mono: false, MD: true, Src: func(_, raw string) string { return "a: |||md\n*x" + raw + "x*\n|||\n" }},
	{Name: "markdown-code", Mono: true, MD: true, Src: func(_, raw string) string { return "a: |||md\n`x" + raw + "x`\n|||\n" }},
	{Name: "markdown-heading", Mono: false, MD: true, Src: func(_, raw string) string { return "a: |||md\n# x" + raw + "x\n|||\n" }},
	{Name: "connection-markdown-label", Mono: false, MD: true, Src: func(_, raw string) string {
		return "a -> b: |||md\nx" + raw + "x\n|||\n"
	}},
	{Name: "tooltip-appendix", Mono: false, Appendix: true, Src: func(q, _ string) string { return "a.tooltip: " + q + "\n" }},
	{Name: "link-appendix", Mono: false, Appendix: true, Src: func(_, raw string) string {
		return "a.link: " + dq("https://example.com/"+raw) + "\n"
	}},
	{Name: "tooltip-positioned", Mono: false, MD: true, Src: func(_, raw string) string {
		return "a: {tooltip: " + dq("x"+raw+"x") + "; tooltip.near: top-center}\n"
	}},
	{Name: "legend-title", Mono: false, Src: func(q, _ string) string {
		return "vars: {d2-legend: " + q + " {\n  a: e {shape: circle}\n}}\nx -> y\n"
	}},
	{Name: "legend-shape-entry", Mono: false, Src: func(q, _ string) string {
		return "vars: {d2-legend: {\n  a: " + q + " {shape: circle}\n}}\nx -> y\n"
	}},
	{Name: "legend-connection-entry", Mono: false, Src: func(q, _ string) string {
		return "vars: {d2-legend: {\n  a -> b: " + q + "\n}}\nx -> y\n"
	}},
}

func c47PosByName(n string) *c47Pos {
	for i := range c47Positions {
		if c47Positions[i].Name == n {
			return &c47Positions[i]
		}
	}
	return nil
}

// familyFonts: the full fonts of the family a position draws with (sketch switches the proportional family).
func familyFonts(mono, sketch bool) []*fullFont {
	fam := d2fonts.SourceSansPro
	if sketch {
		fam = d2fonts.HandDrawn
	}
	if mono {
		fam = d2fonts.SourceCodePro
	}
	var out []*fullFont
	for _, ff := range fullFonts() {
		if ff.key.Family == fam {
			out = append(out, ff)
		}
	}
	return out
}

// ---- oracle ------------------------------------------------------------------------------------------------

type c47In struct {
	Pos       string `json:"pos"`
	Text      string `json:"text"`
	Sketch    bool   `json:"sketch,omitempty"`
	Terminal  bool   `json:"terminal,omitempty"`
	Transform string `json:"transform,omitempty"`
}

var c47Renders, c47RunesChecked, c47RunsNoFont atomic.Int64

func c47Oracle(in string) eng.Res {
	var q c47In
	if err := json.Unmarshal([]byte(in), &q); err != nil {
		panic("harness: bad C47 input: " + err.Error())
	}
	pos := c47PosByName(q.Pos)
	if pos == nil {
		panic("harness: unknown position " + q.Pos)
	}
	src := pos.Src(dq(q.Text), q.Text)
	if q.Transform != "" {
		src += "*.style.text-transform: " + q.Transform + "\n(* -> *)[*].style.text-transform: " + q.Transform + "\n"
	}
	var ro d2svg.RenderOpts
	if q.Sketch {
		ro.Sketch = ptr(true)
	}
	if q.Terminal {
		ro.ThemeID = ptr(int64(300))
	}
	d, _, err := compileLayout(src, "dagre", &ro)
	if err != nil {
		return eng.OK("E:"+u.ErrClass(err), false)
	}
	c47Renders.Add(1)
	r := ro
	svg, err := d2svg.Render(d, &r)
	if err != nil {
		return eng.OK("RE:"+err.Error(), false)
	}
	if pos.Appendix {
		svg = appendix.Append(d, &r, ruler(), svg)
	}
	x := scanXML(svg, "", true)
	if x.Err != "" {
		return eng.OK("svg-not-well-formed (C30's business): "+x.ErrKind, false)
	}
	var css strings.Builder
	for _, t := range x.Texts {
		if t.Path[len(t.Path)-1].Name == "style" {
			css.WriteString(t.Text)
			css.WriteString("\n")
		}
	}
	sf := parseStyles(css.String())
	if len(sf.faceErrs) > 0 {
		return eng.Bad("embedded-font-undecodable:base64", strings.Join(sf.faceErrs, "; ")+"\nd2:\n"+src)
	}
	type sub struct {
		f    *sfnt.Font
		full *fullFont
	}
	subs := map[string]*sub{}
	var famNames []string
	for fam := range sf.faces {
		famNames = append(famNames, fam)
	}
	sort.Strings(famNames)
	for _, fam := range famNames {
		suffix := fam[strings.Index(fam, "font-")+5:]
		raw, err := woffToSfnt(sf.faces[fam])
		if err != nil {
			return eng.Bad("embedded-font-undecodable:"+suffix, fmt.Sprintf("@font-face %s: %v\nd2:\n%s", fam, err, src))
		}
		f, err := sfnt.Parse(raw)
		if err != nil {
			return eng.Bad("embedded-font-undecodable:"+suffix, fmt.Sprintf("@font-face %s: sfnt: %v\nd2:\n%s", fam, err, src))
		}
		s := &sub{f: f}
		name := fontName(f)
		for _, ff := range fullFonts() {
			if ff.name == name {
				s.full = ff
				break
			}
		}
		if s.full == nil {
			return eng.Bad("embedded-font-unidentified:"+suffix, fmt.Sprintf("@font-face %s carries the name %q which is none of d2's fonts\nd2:\n%s", fam, name, src))
		}
		subs[fam] = s
	}
	corpus := d.GetCorpus()
	checked, runs := 0, 0
	var deferred *eng.Res
	faces := map[string]bool{}
	for _, t := range x.Texts {
		drawn := false
		for _, e := range t.Path {
			switch e.Name {
			case "text", "foreignObject":
				drawn = true
			}
		}
		switch t.Path[len(t.Path)-1].Name {
		case "style", "title", "desc", "script":
			drawn = false
		}
		if !drawn || strings.TrimSpace(t.Text) == "" {
			continue
		}
		fam := sf.familyOf(t.Path)
		s := subs[fam]
		if s == nil {
			c47RunsNoFont.Add(1)
			continue
		}
		runs++
		suffix := fam[strings.Index(fam, "font-")+5:]
		faces[suffix] = true
		for _, r := range t.Text {
			if unicode.IsSpace(r) || unicode.IsControl(r) {
				continue
			}
			fi, ok := hasGlyph(s.full.f, r)
			if !ok {
				continue
			}
			checked++
			si, ok := hasGlyph(s.f, r)
			if !ok {
				where := "subsetter-drops-bmp-rune-present-in-corpus:" + suffix
				if r > 0xffff {
					where = "subsetter-drops-supplementary-plane-rune"
				}
				if !strings.ContainsRune(corpus, r) {
					where = "corpus-omits-drawn-text:" + pos.Name
					if pos.MD && strings.Contains(q.Text, "&") && !strings.ContainsRune(q.Text, r) {
						where = "markdown-character-reference-resolved-after-corpus-collection"
					}
				}
				res := eng.Bad("glyph-missing-from-subset:"+where,
					fmt.Sprintf("U+%04X %q is drawn with %s (%s, full font has glyph %d) in run %q but the embedded subset has no glyph for it\nd2:\n%s", r, r, fam, s.full.name, fi, clipb([]byte(t.Text), 120), src))
				if r > 0xffff && strings.ContainsRune(corpus, r) {
					if deferred == nil {
						deferred = &res // keep looking: a failure of another kind takes precedence
					}
					continue
				}
				return res
			}
			fo, ferr := outline(s.full.f, fi)
			so, serr := outline(s.f, si)
			if ferr == nil && (serr != nil || !reflect.DeepEqual(fo, so)) {
				return eng.Bad("glyph-outline-differs-from-full-font:"+suffix,
					fmt.Sprintf("U+%04X %q drawn with %s (%s): full font glyph %d and subset glyph %d have different outlines (subset error: %v)\nd2:\n%s", r, r, fam, s.full.name, fi, si, serr, src))
			}
		}
	}
	if deferred != nil {
		return *deferred
	}
	c47RunesChecked.Add(int64(checked))
	fs := sortedKeys(faces)
	return eng.OK(fmt.Sprintf("%s/faces=%s/runs=%d/skippedSel=%d", pos.Name, strings.Join(fs, ","), runs, sf.skipped), checked > 0)
}

// ---- enumeration ----------------------------------------------------------------------------------------

func isMDSafe(r rune) bool {
	if r < 0x80 {
		return unicode.IsLetter(r) || unicode.IsDigit(r)
	}
	return !unicode.IsPunct(r) && !unicode.IsSymbol(r) || r > 0x2000
}

// runes absent from every d2 font, 4 of which accompany each chunk.
func c47Absent() []rune {
	var out []rune
	add := func(lo, n rune) {
		for r := lo; r < lo+n; r++ {
			ok := false
			for _, ff := range fullFonts() {
				if _, has := hasGlyph(ff.f, r); has {
					ok = true
				}
			}
			if !ok {
				out = append(out, r)
			}
		}
	}
	add(0x4e00, 100)
	add(0x0900, 50)
	add(0x1f600, 50)
	return out
}

func c47Chunks(rs []rune, n int, absent []rune) []string {
	var out []string
	for i := 0; i < len(rs); i += n {
		j := i + n
		if j > len(rs) {
			j = len(rs)
		}
		s := string(rs[i:j])
		if len(absent) > 0 {
			k := (i / n * 4) % len(absent)
			for m := 0; m < 4; m++ {
				s += string(absent[(k+m)%len(absent)])
			}
		}
		out = append(out, s)
	}
	return out
}

const c47Sample = "aßéǆ ω ž ŉ ǰ ﬁ iı ÿ µ"

func init() {
	eng.Register(&eng.Check{
		ID: "C47", Level: "exploration", HangBound: 900 * time.Second,
		QuickBudget: 110 * time.Second, ThoroughBudget: 24 * time.Minute,
		Rule: "for every font family d2 can embed (SourceSansPro regular/bold/italic/semibold, SourceCodePro regular/bold/italic, HandDrawn regular/bold/italic in sketch mode): every drawable rune of the union of the full fonts' cmaps (U+0021..U+2FFFF), packed 44 per diagram together with 4 runes no d2 font has, placed in every text position that draws with that family (shape/container/connection/arrowhead labels with bold/italic/mono styles, UML class members and header, SQL columns and header, code blocks, markdown plain/bold/italic/code/heading, tooltip and link appendix, positioned tooltip, legend title and entries); plus every position x text-transform {none, uppercase, lowercase, capitalize} x theme {default, terminal} x sketch {off,on} with a case-sensitive sample text; each diagram goes d2lib.Compile (dagre) -> d2svg.Render (-> appendix.Append), the @font-face WOFF data URIs are decoded (own WOFF1->sfnt reassembly, golang.org/x/image/font/sfnt), text runs are attributed to faces by evaluating the SVG's own font-family CSS rules, and every drawn rune that the full font (identified by the subset's name table) has must have a glyph with the identical outline in the subset; non-trivial = at least one drawn rune was compared",
		Assumptions: []string{
			"text runs = character data under <text> or <foreignObject>, excluding <style>/<title>/<desc>; a run whose computed font-family has no @font-face in the document is not judged (counted in runs_without_embedded_font)",
			"CSS matching covers the selector forms the renderer emits (descendant combinators of tag/class compounds, specificity, source order); selectors with other syntax that carry a font-family would be counted in the outcome (skippedSel) — none occur",
			"glyph identity is compared through sfnt.LoadGlyph outlines at ppem = unitsPerEm without hinting; metrics, kerning and OpenType layout features are not compared",
			"markdown positions use letters, digits and non-ASCII runes only (ASCII punctuation would be markdown syntax); LaTeX is outside the space",
			"custom font families (--font-regular etc.) are outside the space",
		},
		Oracles: map[string]eng.Oracle{"draw": c47Oracle},
		Run: func(w *eng.W) {
			runtime.GOMAXPROCS(2)
			absent := c47Absent()
			ev := func(q c47In) {
				b, _ := json.Marshal(q)
				w.Eval("draw", string(b))
			}
			runeCache := map[string][]rune{}
			runesFor := func(p c47Pos, sketch bool) []rune {
				key := fmt.Sprint(p.Mono, sketch)
				rs := runeCache[key]
				if rs == nil {
					set := map[rune]bool{}
					for _, ff := range familyFonts(p.Mono, sketch) {
						for _, r := range cmapRunes(ff.f) {
							set[r] = true
						}
					}
					for r := range set {
						rs = append(rs, r)
					}
					sort.Slice(rs, func(i, j int) bool { return rs[i] < rs[j] })
					runeCache[key] = rs
				}
				if p.MD {
					var f []rune
					for _, r := range rs {
						if isMDSafe(r) {
							f = append(f, r)
						}
					}
					rs = f
				}
				return rs
			}
			w.Phase("positions x transforms x themes x sketch, sample text", func() {
				for _, p := range c47Positions {
					for _, tr := range []string{"", "uppercase", "lowercase", "capitalize"} {
						for _, term := range []bool{false, true} {
							for _, sk := range []bool{false, true} {
								ev(c47In{Pos: p.Name, Text: c47Sample, Transform: tr, Terminal: term, Sketch: sk})
							}
						}
					}
				}
			})
			w.Phase("markdown positions x character references", func() {
				for _, p := range c47Positions {
					if !p.MD {
						continue
					}
					for _, ref := range []string{"&copy;", "&eacute;", "&Omega;", "&hellip;", "&#937;", "&#x3A9;", "&amp;", "&lt;", "a&nbsp;b"} {
						ev(c47In{Pos: p.Name, Text: ref})
					}
				}
			})
			for _, sk := range []bool{false, true} {
				sk := sk
				name := "every cmap rune x every position of its family, 44+4 per diagram"
				if sk {
					name += ", sketch"
				}
				w.Phase(name, func() {
					for _, p := range c47Positions {
						if sk && p.Mono {
							continue // sketch mode does not change the mono family
						}
						for _, t := range c47Chunks(runesFor(p, sk), 44, absent) {
							ev(c47In{Pos: p.Name, Text: t, Sketch: sk})
						}
					}
				})
			}
			if w.Thorough() {
				w.Phase("every cmap rune alone, one position per face", func() {
					alone := map[string]bool{"sql-header": true, "shape-label": true, "shape-label-italic": true, "markdown-heading": true,
						"code-block": true, "shape-label-mono-bold": true, "shape-label-mono-italic": true}
					for _, sk := range []bool{false, true} {
						for _, p := range c47Positions {
							if !alone[p.Name] || (sk && p.Mono) {
								continue
							}
							for _, r := range runesFor(p, sk) {
								ev(c47In{Pos: p.Name, Text: string(r), Sketch: sk})
							}
						}
					}
				})
				w.Phase("every cmap rune x every position, terminal theme + uppercase", func() {
					for _, p := range c47Positions {
						for _, t := range c47Chunks(runesFor(p, false), 44, absent) {
							ev(c47In{Pos: p.Name, Text: t, Terminal: true})
							ev(c47In{Pos: p.Name, Text: t, Transform: "uppercase"})
						}
					}
				})
			}
			w.Count("svg_renders", c47Renders.Load())
			w.Count("drawn_runes_compared", c47RunesChecked.Load())
			w.Count("runs_without_embedded_font", c47RunsNoFont.Load())
			w.Count("worker_cpu_ms", int64(cpuNow()/time.Millisecond))
		},
	})
}
