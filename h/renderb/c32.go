package renderb

import (
	"fmt"
	"runtime"
	"strings"
	"sync/atomic"
	"time"

	"oss.terrastruct.com/d2/d2renderers/d2ascii"
	"oss.terrastruct.com/d2/d2renderers/d2ascii/charset"
	"oss.terrastruct.com/d2/d2renderers/d2svg"
	"verif/h/eng"
	"verif/h/u"
)

// shapes whose ASCII drawing is a frame with one label ("plain shapes" of the statement); class, sql_table,
// image, text, code and diagram-typed shapes carry structured content and are only checked for totality / 7-bit.
var c32PlainShapes = []string{
	"rectangle", "square", "page", "parallelogram", "document", "cylinder", "queue", "package", "step", "callout",
	"stored_data", "person", "diamond", "oval", "circle", "hexagon", "cloud", "c4-person",
}

var c32OtherShapes = []string{"class", "sql_table", "text", "code", "image", "sequence_diagram", "hierarchy"}

var c32Labels = []string{"", "x", "hello", "é", "a b", "héllo"}

// second statement(s): connections with labels and arrowheads, containers, multiple, direction, label positions.
var c32Contexts = []string{
	"",
	"a -> b",
	"b -> a: hello",
	"a <-> b: é",
	"a -- b: a b",
	"a -> a",
	"a -> b: {source-arrowhead: x; target-arrowhead: {shape: diamond; label: hello}}",
	"c: hello {d}\na -> c.d",
	"c: Контейнер {d}\na -> c.d",
	"c: héllo wörld {d; e}\na -> c.d\nc.e -> a",
	// routes that enter a container from above cross its label row; a label of non-ASCII letters only, as wide as the
	// container, is crossed on a multi-byte letter wherever the route runs
	"c: Контейнер {d: inner; e: other}\na -> c.d\na -> c.e",
	"c: ЖЖЖЖЖЖЖЖЖЖЖЖЖЖЖЖЖЖЖЖ {d; e; f}\na -> c.d\na -> c.e\na -> c.f",
	"a.style.multiple: true",
	"direction: right\na -> b: x",
	"a.label.near: bottom-center",
	"a.label.near: outside-top-center",
	"a.e: x",
	"b -> a\na -> b",
	"b: é {shape: circle}\nb -> a: x {style.animated: true}",
}

func c32Source(shape, label, ctx string) string {
	var b strings.Builder
	switch shape {
	case "class":
		fmt.Fprintf(&b, "a: %s {shape: class; +f: int; -m(): void}\n", dq(label))
	case "sql_table":
		fmt.Fprintf(&b, "a: %s {shape: sql_table; id: int {constraint: primary_key}; n: text}\n", dq(label))
	case "code":
		fmt.Fprintf(&b, "a: |go\n  %s := 1\n|\n", "v")
		if label != "" {
			fmt.Fprintf(&b, "a.label: %s\n", dq(label))
		}
	case "image":
		fmt.Fprintf(&b, "a: %s {shape: image; icon: https://example.com/i.png}\n", dq(label))
	case "sequence_diagram":
		fmt.Fprintf(&b, "a: %s {shape: sequence_diagram; p -> q: hello}\n", dq(label))
	default:
		fmt.Fprintf(&b, "a: %s {shape: %s}\n", dq(label), shape)
	}
	if ctx != "" {
		b.WriteString(ctx)
		b.WriteString("\n")
	}
	return b.String()
}

var c32Layouts, c32AsciiRenders atomic.Int64

type c32Scale struct {
	name string
	v    *float64
}

var c32Scales = []c32Scale{{"default", nil}, {"0.5", ptr(0.5)}, {"2", ptr(2.0)}}

func c32IsPlain(t string) bool {
	for _, s := range c32PlainShapes {
		if s == t {
			return true
		}
	}
	return t == ""
}

// c32Oracle: input is D2 text. ELK layout (what d2cli does for txt output), then d2ascii in both charsets and
// three scales.
func c32Oracle(in string) eng.Res {
	var ro d2svg.RenderOpts
	c32Layouts.Add(1)
	d, _, err := compileLayout(in, "elk", &ro)
	if err != nil {
		return eng.OK("E:"+u.ErrClass(err), false)
	}
	// label vocabulary: every rune of every user-visible string may appear in the output
	labelRunes := map[rune]bool{}
	addRunes := func(s string) {
		for _, r := range s {
			labelRunes[r] = true
		}
	}
	isContainer := map[string]bool{}
	for _, s := range d.Shapes {
		addRunes(s.Label)
		for _, o := range d.Shapes {
			if strings.HasPrefix(o.ID, s.ID+".") {
				isContainer[s.ID] = true
			}
		}
		for _, f := range s.Fields {
			addRunes(f.Name + f.Type + f.Visibility)
		}
		for _, m := range s.Methods {
			addRunes(m.Name + m.Return + m.Visibility)
		}
		for _, c := range s.Columns {
			addRunes(c.Name.Label + c.Type.Label + c.ConstraintAbbr())
		}
	}
	for _, c := range d.Connections {
		addRunes(c.Label)
		if c.SrcLabel != nil {
			addRunes(c.SrcLabel.Label)
		}
		if c.DstLabel != nil {
			addRunes(c.DstLabel.Label)
		}
	}
	var outcome []string
	for _, cs := range []charset.Type{charset.ASCII, charset.Unicode} {
		csName := "ascii"
		if cs == charset.Unicode {
			csName = "unicode"
		}
		for _, sc := range c32Scales {
			c32AsciiRenders.Add(1)
			out, err := d2ascii.NewASCIIartist().Render(u.Bgctx, d, &d2ascii.RenderOpts{Scale: sc.v, Charset: cs})
			if err != nil {
				return eng.Bad("render-error:"+csName, fmt.Sprintf("charset %s scale %s: %v\nd2:\n%s", csName, sc.name, err, in))
			}
			text := string(out)
			if cs == charset.ASCII {
				for _, r := range text {
					if r >= 0x80 && !labelRunes[r] {
						return eng.Bad(fmt.Sprintf("non-ascii-outside-labels:U+%04X", r),
							fmt.Sprintf("standard charset, scale %s: U+%04X %q is no label character\nd2:\n%s\noutput:\n%s", sc.name, r, r, in, text))
					}
				}
			}
			if sc.v == nil {
				lines := strings.Split(text, "\n")
				for _, s := range d.Shapes {
					if !c32IsPlain(s.Type) || s.Label == "" || strings.Contains(s.Label, "\n") {
						continue
					}
					found := false
					for _, l := range lines {
						if strings.Contains(l, s.Label) {
							found = true
							break
						}
					}
					if !found {
						kind := "ascii-only-label:" + s.Type
						for _, r := range s.Label {
							if r >= 0x80 {
								kind = "label-with-multibyte-rune:" + s.Type
							}
						}
						if c32Gapped(lines, s.Label) {
							// every rune sits at its UTF-8 byte offset instead of its rune offset
							kind = "runes-drawn-at-byte-offsets"
						}
						return eng.Bad("label-not-in-output:"+kind,
							fmt.Sprintf("charset %s: label %q of shape %s (%s) is on no output line\nd2:\n%s\noutput:\n%s", csName, s.Label, s.ID, s.Type, in, text))
					}
				}
			}
			outcome = append(outcome, fmt.Sprintf("%s@%s:%dx%d", csName, sc.name, len(strings.Split(text, "\n")), len(text)))
		}
	}
	return eng.OK(strings.Join(outcome, " "), true)
}

// c32Gapped: some line shows the label with each rune at column start+byteOffset(rune) (other cells arbitrary).
func c32Gapped(lines []string, label string) bool {
	if len(label) == len([]rune(label)) {
		return false
	}
	for _, l := range lines {
		lr := []rune(l)
		for start := 0; start+len(label) <= len(lr)+3; start++ {
			ok := true
			for i, r := range label {
				if start+i >= len(lr) || lr[start+i] != r {
					ok = false
					break
				}
			}
			if ok {
				return true
			}
		}
	}
	return false
}

func init() {
	eng.Register(&eng.Check{
		ID: "C32", Level: "exploration", HangBound: 900 * time.Second,
		QuickBudget: 300 * time.Second, ThoroughBudget: 24 * time.Minute,
		Rule: "diagram = object a with (shape in all 18 plain shapes + class, sql_table, text, code, image, sequence_diagram, hierarchy) x (label in {none, x, hello, é, 'a b', héllo}) x (context in 15: none, connections in every arrow direction with and without labels, arrowhead shape+labels, self loop, container with crossing connection, multiple, direction right, inside/outside label positions, a as container, two opposite connections, animated connection to a labelled circle); laid out by ELK through d2lib.Compile as d2cli does for txt output, rendered by d2ascii in both character sets and scales {default, 0.5, 2}; non-trivial = the diagram compiled and was rendered",
		Assumptions: []string{
			"'label characters' = every rune of any shape label, class/table member text, connection label or arrowhead label of the diagram; in the standard charset every other output rune must be < 0x80",
			"'plain shape' = the 18 frame-with-one-label shapes, containers included; class, sql_table, text, code, image and diagram-typed shapes are checked for totality and 7-bit only",
			"label visibility (the label is a substring of one output line) is demanded at the default scale only; at scales 0.5 and 2 only totality and 7-bit are checked, since the statement does not say labels must fit a shrunken grid",
			"quick tier uses the first 17 contexts for plain shapes and the first five for the structured (non-plain) shapes; thorough adds the rest and all ordered pairs of plain shapes joined by a labelled connection",
		},
		Oracles: map[string]eng.Oracle{"ascii": c32Oracle},
		Run: func(w *eng.W) {
			runtime.GOMAXPROCS(2)
			nctx := w.Pick(17, len(c32Contexts))
			w.Phase(fmt.Sprintf("plain shapes x labels x first %d contexts", nctx), func() {
				for _, s := range c32PlainShapes {
					for _, l := range c32Labels {
						for _, c := range c32Contexts[:nctx] {
							w.Eval("ascii", c32Source(s, l, c))
						}
					}
				}
			})
			w.Phase("structured shapes x labels x basic contexts", func() {
				for _, s := range c32OtherShapes {
					for _, l := range c32Labels {
						for _, c := range c32Contexts[:5] {
							w.Eval("ascii", c32Source(s, l, c))
						}
					}
				}
			})
			if w.Thorough() {
				w.Phase("structured shapes x labels x all contexts", func() {
					for _, s := range c32OtherShapes {
						for _, l := range c32Labels {
							for _, c := range c32Contexts[5:] {
								w.Eval("ascii", c32Source(s, l, c))
							}
						}
					}
				})
				w.Phase("plain shape pairs connected, all labels", func() {
					for _, s1 := range c32PlainShapes {
						for _, s2 := range c32PlainShapes {
							for _, l := range c32Labels[1:] {
								w.Eval("ascii", fmt.Sprintf("a: %s {shape: %s}\nb: %s {shape: %s}\na -> b: %s\n", dq(l), s1, dq(l), s2, dq(l)))
							}
						}
					}
				})
			}
			w.Count("elk_layouts", c32Layouts.Load())
			w.Count("ascii_renders", c32AsciiRenders.Load())
			w.Count("worker_cpu_ms", int64(cpuNow()/time.Millisecond))
		},
	})
}
