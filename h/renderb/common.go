// Package renderb holds the checks of group "renderb": C30 (SVG well-formed, no markup injection),
// C47 (embedded font subsets cover the drawn characters) and C32 (ASCII renderer total, 7-bit, labels visible).
package renderb

import (
	"strings"

	"oss.terrastruct.com/d2/d2graph"
	"oss.terrastruct.com/d2/d2layouts/d2dagrelayout"
	"oss.terrastruct.com/d2/d2layouts/d2elklayout"
	"oss.terrastruct.com/d2/d2lib"
	"oss.terrastruct.com/d2/d2renderers/d2svg"
	"oss.terrastruct.com/d2/d2target"
	"oss.terrastruct.com/d2/lib/textmeasure"
	"verif/h/u"
)

var rulerCache *textmeasure.Ruler

func ruler() *textmeasure.Ruler {
	if rulerCache == nil {
		r, err := textmeasure.NewRuler()
		if err != nil {
			panic("harness: textmeasure.NewRuler: " + err.Error())
		}
		rulerCache = r
	}
	return rulerCache
}

func layoutResolver(engine string) (d2graph.LayoutGraph, error) {
	if strings.EqualFold(engine, "elk") {
		return d2elklayout.DefaultLayout, nil
	}
	return d2dagrelayout.DefaultLayout, nil
}

// compileLayout is d2lib.Compile the way d2cli calls it: ruler, layout resolver, the render options object
// that is afterwards used for rendering (Compile fills in what the source's d2-config says).
func compileLayout(src, layout string, ro *d2svg.RenderOpts) (*d2target.Diagram, *d2graph.Graph, error) {
	co := &d2lib.CompileOptions{
		Ruler:          ruler(),
		Layout:         &layout,
		LayoutResolver: layoutResolver,
		InputPath:      "index.d2",
	}
	return d2lib.Compile(u.Bgctx, src, co, ro)
}

// dq quotes s as a D2 double-quoted string.
func dq(s string) string {
	var b strings.Builder
	b.WriteByte('"')
	for _, r := range s {
		switch r {
		case '"':
			b.WriteString(`\"`)
		case '\\':
			b.WriteString(`\\`)
		case '\n':
			b.WriteString(`\n`)
		case '$':
			b.WriteString(`\$`) // no substitution
		default:
			b.WriteRune(r)
		}
	}
	b.WriteByte('"')
	return b.String()
}

func ptr[T any](v T) *T { return &v }
