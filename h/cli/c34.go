package cli

import (
	"encoding/json"
	"fmt"
	"os"
	"path/filepath"
	"regexp"
	"runtime"
	"sort"
	"strings"
	"time"

	"oss.terrastruct.com/d2/d2graph"

	"verif/h/eng"
	"verif/h/u"
)

// N34 of DESIGN.md
// (backslash is an ordinary file-name character on Linux: `..\y` must stay one file name inside the location)
var n34 = []string{"x", "index", "..", ".", "a/b", "../y", "../../z", "a.b", "x.svg", "layers", "/abs", `C:\w`, " ", "é", `..\y`, `..\..\z`, `a\b`}

// the sub-alphabet used where the full product would not fit the tier
var n34small = []string{"x", "index", "..", "../y"}

var boardKinds = []string{"layers", "scenarios", "steps"}

const c34Levels = 8

// sandbox: <root>/l1/l2/…/l8/work with a sentinel file in every directory on the way and in a sibling
// directory of every level; an escaping write reaches at most 4 levels up (work/out/layers/<name>/…).
type sandbox struct {
	root, work string
}

func newSandbox(id string) *sandbox {
	sb := &sandbox{root: filepath.Join(scratch(id), "sb")}
	p := sb.root
	for i := 1; i <= c34Levels; i++ {
		p = filepath.Join(p, fmt.Sprintf("l%d", i))
	}
	sb.work = filepath.Join(p, "work")
	return sb
}

func mustWrite(p, s string) {
	if err := os.MkdirAll(filepath.Dir(p), 0o755); err != nil {
		panic(err)
	}
	if err := os.WriteFile(p, []byte(s), 0o644); err != nil {
		panic(err)
	}
}

// reset rebuilds the sandbox from scratch. extra: work-relative files to pre-create.
func (sb *sandbox) reset(extra map[string]string) {
	if !strings.HasPrefix(sb.root, "/verif/.scratch/") {
		panic("sandbox outside scratch")
	}
	os.RemoveAll(sb.root)
	p := sb.root
	mustWrite(filepath.Join(p, "SENTINEL"), "sentinel "+p)
	for i := 1; i <= c34Levels; i++ {
		p = filepath.Join(p, fmt.Sprintf("l%d", i))
		mustWrite(filepath.Join(p, "SENTINEL"), "sentinel "+p)
		mustWrite(filepath.Join(p, "sib", "SENTINEL"), "sentinel sibling of "+p)
		// names an escaping board file would take
		mustWrite(filepath.Join(p, "y.svg"), "pre-existing y.svg at "+p)
		mustWrite(filepath.Join(p, "z.svg"), "pre-existing z.svg at "+p)
	}
	mustWrite(filepath.Join(sb.work, "keep.txt"), "a user file next to the input")
	mustWrite(filepath.Join(sb.work, "y.svg"), "pre-existing y.svg next to the input")
	mustWrite(filepath.Join(sb.work, "z.svg"), "pre-existing z.svg next to the input")
	mustWrite(filepath.Join(sb.work, "sib", "SENTINEL"), "sentinel in a sibling directory of the output")
	mustWrite(filepath.Join(sb.work, "layers", "SENTINEL"), "a user directory called layers next to the output")
	for _, k := range sortedKeys(extra) {
		mustWrite(filepath.Join(sb.work, k), extra[k])
	}
}

var workerSandbox *sandbox

func getSandbox(id string) *sandbox {
	if workerSandbox == nil {
		workerSandbox = newSandbox(id)
	}
	return workerSandbox
}

// nameShape describes the board names of a tree by the most "dangerous" lexical feature present: it is
// part of the failure class so that a finding about '..' names cannot hide a failure on ordinary names.
func nameShape(t *btree) string { return nameShapeOf(t, nil) }

// nameShapeOf restricts the description to the boards listed in only (nil = all boards).
func nameShapeOf(t *btree, only map[int]bool) string {
	rank := 0
	for bi, b := range t.Boards {
		if only != nil && !only[bi+1] {
			continue
		}
		r := 0
		els := strings.Split(b.Name, "/")
		for _, e := range els {
			if e == ".." || e == "." {
				r = 4
			}
		}
		if r == 0 && len(els) > 1 {
			r = 3
		}
		if r == 0 && b.Name == "index" {
			r = 2
		}
		if r == 0 && (b.Name == "layers" || b.Name == "scenarios" || b.Name == "steps") {
			r = 1
		}
		if r > rank {
			rank = r
		}
	}
	return []string{"plain-names", "kind-keyword-name", "index-name", "slash-in-name", "dot-element-in-name"}[rank]
}

var markRe = regexp.MustCompile(`MARK[0-9]+X`)

func markerSet(s string) string {
	m := map[string]bool{}
	for _, x := range markRe.FindAllString(s, -1) {
		m[x] = true
	}
	return strings.Join(sortedKeys(m), "+")
}

// boardMarkerSets lists, for every non-folder board of the compiled graph, the set of markers it shows.
func boardMarkerSets(g *d2graph.Graph, out *[]string) {
	if !g.IsFolderOnly {
		var ls []string
		for _, o := range g.Objects {
			ls = append(ls, o.Label.Value)
		}
		*out = append(*out, markerSet(strings.Join(ls, " ")))
	}
	for _, l := range [][]*d2graph.Graph{g.Layers, g.Scenarios, g.Steps} {
		for _, c := range l {
			boardMarkerSets(c, out)
		}
	}
}

type c34Result struct {
	cliErr     error
	compileErr error
	diff       []string
	written    map[string]string // sandbox-root-relative path of every regular file created/modified -> content
	sb         *sandbox
	multi      bool
	locDir     string // root-relative location directory (multi) …
	locFile    string // … or file (single)
	graph      *d2graph.Graph
	trace      []ctEntry // Traced: mutating system calls on the sandbox (paths "$SB/…")
}

const c34D2Bin = "/verif/.scratch/C34/d2-traced"

// c34BuildBinary (parent, thorough only) builds the real CLI for the syscall-level phase.
func c34BuildBinary() {
	if os.Getenv("VERIF_TIER") != "thorough" && !strings.Contains(strings.Join(os.Args, " "), "thorough") {
		return
	}
	p, err := buildD2("C34")
	if err == nil {
		err = ensureCrashtrace()
	}
	if err == nil {
		err = os.Rename(p, c34D2Bin)
	}
	if err != nil {
		fmt.Fprintln(os.Stderr, "HARNESS ERROR: C34 binary build:", err)
		os.Exit(2)
	}
}

// c34RunTraced runs `d2 in.d2 <out>` (the built binary) in sb.work under crashtrace, watching the whole sandbox.
func c34RunTraced(sb *sandbox, out string) (error, []ctEntry) {
	logp := filepath.Join(filepath.Dir(sb.root), "ct.log")
	if _, err := os.Stat(c34D2Bin); err != nil { // replay outside a full run
		p, err := buildD2("C34")
		if err == nil {
			err = ensureCrashtrace()
		}
		if err != nil {
			panic("harness: " + err.Error())
		}
		os.Rename(p, c34D2Bin)
	}
	empty := "/verif/.scratch/empty-path"
	os.MkdirAll(empty, 0o755)
	rc, outp, err := runCmd(300*time.Second, sb.work, cleanEnv(empty), crashtraceBin, "-w", sb.root, "-o", logp, "log", "--", c34D2Bin, "--bundle=false", "in.d2", out)
	if err != nil {
		panic("harness: traced run: " + err.Error() + "\n" + outp)
	}
	ents, _, err := parseCtLog(logp, sb.root)
	if err != nil {
		panic("harness: traced run: " + err.Error() + "\n" + outp)
	}
	if rc != 0 {
		return fmt.Errorf("exit %d: %s", rc, clip(outp, 300)), ents
	}
	return nil, ents
}

// c34Render runs the CLI on the tree in a fresh sandbox and collects the file-system effects.
func c34Render(id string, t *btree) *c34Result {
	t0 := time.Now()
	r := &c34Result{sb: getSandbox(id)}
	src := t.source()
	g, _, cerr := u.Compile(src)
	r.graph, r.compileErr = g, cerr
	out := t.Out
	if out == "" {
		out = "out.svg"
	}
	ext := filepath.Ext(out)
	outAbs := filepath.Join(r.sb.work, out)
	base := strings.TrimSuffix(outAbs, ext)
	stale := map[string]string{"in.d2": src}
	if cerr == nil {
		all, _ := countBoards(g)
		r.multi = all > 1
	}
	if r.multi {
		// a stale board file of an earlier render inside the location: d2 may delete it
		rel, _ := filepath.Rel(r.sb.work, base)
		stale[filepath.Join(rel, "stale"+ext)] = "stale board file"
	}
	r.sb.reset(stale)
	r.locDir, _ = filepath.Rel(r.sb.root, base)
	r.locFile, _ = filepath.Rel(r.sb.root, outAbs)
	t1 := time.Now()
	before := snapshot(r.sb.root)
	t2 := time.Now()
	if t.Traced {
		r.cliErr, r.trace = c34RunTraced(r.sb, out)
	} else {
		r.cliErr, _ = runCLI(r.sb.work, "in.d2", out)
	}
	t3 := time.Now()
	after := snapshot(r.sb.root)
	if os.Getenv("C34_TIMING") != "" {
		fmt.Fprintf(os.Stderr, "reset+compile %v snapshot %v cli %v snapshot %v\n", t1.Sub(t0), t2.Sub(t1), t3.Sub(t2), time.Since(t3))
	}
	r.diff = before.diff(after)
	r.written = map[string]string{}
	for _, d := range r.diff {
		f := strings.SplitN(d, " ", 2)
		if f[0] == "deleted" || !strings.HasPrefix(after[f[1]], "f:") {
			continue
		}
		b, _ := os.ReadFile(filepath.Join(r.sb.root, f[1]))
		r.written[f[1]] = string(b)
	}
	return r
}

func c34Oracle(in string) eng.Res {
	var t btree
	if err := json.Unmarshal([]byte(in), &t); err != nil {
		panic(err)
	}
	r := c34Render("C34", &t)
	shape := nameShape(&t)
	workRel, _ := filepath.Rel(r.sb.root, r.sb.work)
	inside := func(p string) bool {
		if r.compileErr != nil { // nothing should be written at all; be lenient: either form of the location
			return hasPrefixPath(p, r.locDir) || p == r.locFile
		}
		if r.multi {
			return hasPrefixPath(p, r.locDir)
		}
		return p == r.locFile
	}
	var outside []string
	var esc []string
	for _, d := range r.diff {
		f := strings.SplitN(d, " ", 2)
		op, p := f[0], f[1]
		if inside(p) {
			continue
		}
		// ancestors of the location below work (e.g. work/dir for dir/out.svg) may be created
		if op == "created" && hasPrefixPath(p, workRel) && p != workRel && (hasPrefixPath(r.locDir, p) || hasPrefixPath(r.locFile, p)) && p != r.locFile {
			continue
		}
		// the literal output path next to a multi-board directory (out.svg beside out/) is neither required nor
		// forbidden by the statement: not judged here, but it does not count as a board file either
		if r.multi && p == r.locFile && op == "created" {
			continue
		}
		outside = append(outside, op)
		esc = append(esc, d)
	}
	if len(outside) > 0 {
		ops := map[string]bool{}
		for _, o := range outside {
			ops[o] = true
		}
		// one class per most severe effect: deleted > modified > created
		worst := "created"
		if ops["modified"] {
			worst = "modified"
		}
		if ops["deleted"] {
			worst = "deleted"
		}
		return eng.Bad(fmt.Sprintf("%s-outside-location:%s", worst, shape),
			fmt.Sprintf("d2 in.d2 %s (cli error: %v) changed paths outside the output location %s (paths relative to the sandbox root, work dir = %s):\n  %s\nsource:\n%s",
				t.Out, r.cliErr, r.locDir, workRel, strings.Join(esc, "\n  "), t.source()))
	}
	if t.Traced {
		// every mutating call must name a path inside the location (a call outside it that left no trace in the
		// snapshot is a transient escape)
		var bad []string
		for _, e := range r.trace {
			if e.Call == "close" || e.Call == "fsync" || e.Call == "fdatasync" {
				continue
			}
			for _, p := range []string{e.P1, e.P2} {
				if p == "" {
					continue
				}
				rp := strings.TrimPrefix(strings.TrimPrefix(p, "$SB"), "/")
				if !strings.HasPrefix(p, "$SB") || inside(rp) {
					continue
				}
				if strings.HasPrefix(e.Call, "mkdir") && hasPrefixPath(rp, workRel) && rp != workRel && (hasPrefixPath(r.locDir, rp) || hasPrefixPath(r.locFile, rp)) {
					continue
				}
				if r.multi && rp == r.locFile {
					continue
				}
				// the atomic-write temp file lives next to its target: judge it by the target's name
				if d, b := filepath.Split(rp); strings.HasPrefix(b, "tmp-") && strings.HasSuffix(b, "-N") {
					if tp := d + strings.TrimSuffix(strings.TrimPrefix(b, "tmp-"), "-N"); inside(tp) || (r.multi && tp == r.locFile) {
						continue
					}
				}
				bad = append(bad, e.String())
			}
		}
		if len(bad) > 0 {
			return eng.Bad("transient-syscall-outside-location:"+shape, fmt.Sprintf("d2 in.d2 %s left no trace outside %s in the snapshot, but issued mutating system calls there:\n  %s\nsource:\n%s", t.Out, r.locDir, strings.Join(bad, "\n  "), t.source()))
		}
	}
	outcome := fmt.Sprintf("compile=%v cli=%v", r.compileErr == nil, r.cliErr == nil)
	if r.compileErr == nil && r.cliErr == nil {
		var want, got, files []string
		boardMarkerSets(r.graph, &want)
		for _, p := range sortedKeys(r.written) {
			if inside(p) {
				got = append(got, markerSet(r.written[p]))
				rel, _ := filepath.Rel(workRel, p)
				files = append(files, rel)
			}
		}
		sort.Strings(want)
		sort.Strings(got)
		if strings.Join(want, "|") != strings.Join(got, "|") {
			kind := "wrong-content"
			if len(got) < len(want) {
				kind = "fewer-files-than-boards"
				// attribute to the boards whose file is missing
				have := map[string]int{}
				for _, g := range got {
					have[g]++
				}
				missing := map[int]bool{}
				for i := len(t.Boards); i >= 0; i-- {
					if b := findBoard(r.graph, t.path(i)); b != nil && !b.IsFolderOnly {
						if ms := boardMarkers(b); have[ms] > 0 {
							have[ms]--
						} else {
							missing[i] = true
						}
					}
				}
				if len(missing) > 0 && !missing[0] {
					shape = nameShapeOf(&t, missing)
				}
			} else if len(got) > len(want) {
				kind = "more-files-than-boards"
			}
			return eng.Bad(fmt.Sprintf("board-files:%s:%s", kind, shape),
				fmt.Sprintf("d2 in.d2 %s succeeded; %d non-folder boards showing markers %v, but the files written inside the location are %v showing %v\nall changes: %v\nsource:\n%s",
					t.Out, len(want), want, files, got, r.diff, t.source()))
		}
		outcome += " files=" + strings.Join(files, ",")
	} else if r.cliErr != nil {
		outcome += " err=" + clip(u.StripDigits(r.cliErr.Error()), 80)
	}
	return eng.OK(outcome, len(r.diff) > 0)
}

func c34Eval(w *eng.W, t *btree, out string, rootEmpty bool) {
	if !w.Mine() {
		return
	}
	c := *t
	c.Out, c.RootEmpty = out, rootEmpty
	b, _ := json.Marshal(&c)
	w.EvalMine("render", string(b))
}

func init() {
	// h-cli dbg-c34 '<tree json>' : show what one render does
	eng.Internal["dbg-c34"] = func(args []string) {
		var t btree
		if err := json.Unmarshal([]byte(args[0]), &t); err != nil {
			panic(err)
		}
		for i := 0; i < 4; i++ {
			t0 := time.Now()
			c34Render("dbg-c34", &t)
			fmt.Println("render took", time.Since(t0))
		}
		r := c34Render("dbg-c34", &t)
		fmt.Printf("source:\n%s\ncompile err: %v\ncli err: %v\nmulti=%v locDir=%s locFile=%s\nchanges:\n  %s\n", t.source(), r.compileErr, r.cliErr, r.multi, r.locDir, r.locFile, strings.Join(r.diff, "\n  "))
		for _, p := range sortedKeys(r.written) {
			fmt.Printf("written %s markers=%s\n", p, markerSet(r.written[p]))
		}
		res := c34Oracle(args[0])
		if res.Fail != nil {
			fmt.Println("FAIL", res.Fail.Class)
		} else {
			fmt.Println("OK", res.Outcome)
		}
		os.RemoveAll(scratch("dbg-c34"))
	}
	eng.Register(&eng.Check{
		ID: "C34", Level: "exploration",
		Rule: "every board tree (siblings unordered, depth <= 2, kinds layers/scenarios/steps, one marker shape per board) with up to the phase's number of non-root boards over the phase's name alphabet, times every output path of the phase, is rendered by the real CLI entry point d2cli.Run in-process into <sandbox>/l1/…/l8/work; a snapshot (paths, sizes, hashes) of the whole sandbox — sentinel files in every ancestor and sibling directory, a user file and a user directory `layers` next to the input, a stale board file inside the location — is taken before and after; non-trivial = the run changed the file system; trees are distinct by construction",
		Assumptions: []string{
			"location derived from the output path: for a diagram with more than one board the directory <output path without extension>/ (creating its missing parents is allowed), for a single board exactly the output file; a file created at the literal output path next to that directory is not judged as an escape (but is not counted as a board file)",
			"the expected board files are taken from d2's own compile result: one file per board whose IsFolderOnly is false, identified by the set of marker labels the board shows",
			"the CLI runs in-process (d2cli.Run with an xmain.State, as e2etests-cli does), SVG output, dagre, --bundle=false; transient create-then-delete outside the location would not be seen by the snapshot diff",
			"board names are written single-quoted in the source; names containing a single quote are not in the alphabet",
		},
		QuickBudget: 150 * time.Second, ThoroughBudget: 22 * time.Minute, HangBound: 150 * time.Second,
		Oracles: map[string]eng.Oracle{"render": c34Oracle},
		Pre:     c34BuildBinary,
		Run: func(w *eng.W) {
			runtime.GOMAXPROCS(2) // 16 worker processes: keep each one's GC and goja threads from oversubscribing the machine
			defer func() {
				if workerSandbox != nil {
					os.RemoveAll(filepath.Dir(workerSandbox.root))
				}
			}()
			outsQ := []string{"out.svg", "out", "dir/out.svg"}
			outsT := []string{"out.svg", "out", "dir/out.svg", "out.txt", "a.b/out.svg"}
			outs := outsQ
			if w.Thorough() {
				outs = outsT
			}
			// output file names with more than one dot or a leading dot: the location is <name minus its LAST extension>/
			outsDots := append(append([]string{}, outs...), "out.v2.svg", ".out.svg", "dir/a.b.svg")
			w.Phase("boards<=1 x N34 x outputs x root-empty", func() {
				for n := 0; n <= 1; n++ {
					enumTrees(n, boardKinds, n34, func(t *btree) {
						for _, o := range outsDots {
							c34Eval(w, t, o, false)
							c34Eval(w, t, o, true)
						}
					})
				}
			})
			// one phase per choice of the first board, so that a deadline ends the run at a phase boundary
			// (the engine looks at the clock only every 1024 evaluations of a worker)
			perFirst := func(label string, n int, names []string, f func(t *btree)) {
				for _, k := range boardKinds {
					for _, nm := range names {
						k, nm := k, nm
						w.Phase(fmt.Sprintf("%s first=%s.%s", label, k, quoteName(nm)), func() {
							enumTrees(n, boardKinds, names, func(t *btree) {
								if t.Boards[0].Kind == k && t.Boards[0].Name == nm {
									f(t)
								}
							})
						})
					}
				}
			}
			if !w.Thorough() {
				perFirst("boards=2 x N34small x outputs", 2, n34small, func(t *btree) {
					for _, o := range outs {
						c34Eval(w, t, o, false)
					}
				})
				return
			}
			w.Phase("syscall-level: built binary under crashtrace, boards<=1 x N34 x {out.svg,dir/out.svg}", func() {
				for n := 0; n <= 1; n++ {
					enumTrees(n, boardKinds, n34, func(t *btree) {
						for _, o := range []string{"out.svg", "dir/out.svg"} {
							if !w.Mine() {
								continue
							}
							c := *t
							c.Out, c.Traced = o, true
							b, _ := json.Marshal(&c)
							w.EvalMine("render", string(b))
						}
					})
				}
			})
			perFirst("boards=2 x N34 x outputs x root-empty", 2, n34, func(t *btree) {
				for _, o := range outs {
					c34Eval(w, t, o, false)
					c34Eval(w, t, o, true)
				}
			})
			perFirst("boards=3 x N34small x {out.svg,dir/out.svg}", 3, n34small, func(t *btree) {
				c34Eval(w, t, "out.svg", false)
				c34Eval(w, t, "dir/out.svg", false)
			})
		},
	})
}
