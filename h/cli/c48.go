package cli

import (
	"encoding/json"
	"fmt"
	"os"
	"path/filepath"
	"regexp"
	"sort"
	"strconv"
	"strings"
	"sync"
	"time"

	"verif/h/eng"
)

// ---- scenarios -----------------------------------------------------------------------------------

type c48Scn struct {
	Name     string
	Cmd      string            // fmt | render-svg | render-txt  (first part of every failure class)
	Files    map[string]string // initial sandbox content
	Args     []string          // d2 arguments (cwd = sandbox)
	Targets  []string          // files that must hold their complete old or complete new content
	Links    map[string]string // symbolic links created after the files: name -> target (relative to the link's directory)
	Thorough bool              // only in the thorough tier
}

// unformatted D2 source of exactly n bytes (n == 1 or n >= 7)
func c48FmtInput(n int) string {
	if n < 7 {
		return strings.Repeat("a", n)
	}
	var b strings.Builder
	for i := 0; ; i++ {
		l := fmt.Sprintf("x%d->y%d\n", i, i)
		if b.Len()+len(l) > n {
			break
		}
		b.WriteString(l)
		if i >= 3 && n-b.Len() < 40 { // leave the rest to the padding comment
			break
		}
	}
	r := n - b.Len()
	switch {
	case r == 1:
		b.WriteString("\n")
	case r >= 2:
		b.WriteString("#" + strings.Repeat("p", r-2) + "\n")
	}
	s := b.String()
	if len(s) != n {
		panic(fmt.Sprintf("c48FmtInput(%d) produced %d bytes", n, len(s)))
	}
	return s
}

// single-board diagram with n shapes in a chain plus a few containers
func c48Diagram(n int) string {
	var b strings.Builder
	for i := 0; i < n; i++ {
		fmt.Fprintf(&b, "n%d: node %d\n", i, i)
		if i > 0 {
			fmt.Fprintf(&b, "n%d -> n%d: e%d\n", i-1, i, i)
		}
		if i%7 == 3 {
			fmt.Fprintf(&b, "n%d.shape: cylinder\n", i)
		}
	}
	return b.String()
}

func c48Old(n int) string {
	l := "<!-- the previous rendering -->\n"
	s := strings.Repeat(l, n/len(l)+1)
	return s[:n]
}

func c48Scenarios() []c48Scn {
	var s []c48Scn
	for _, n := range []int{1, 100, 4095, 4096, 65537, 1 << 20} {
		s = append(s, c48Scn{Name: fmt.Sprintf("fmt-%dB", n), Thorough: n == 4095 || n == 1<<20, Cmd: "fmt", Files: map[string]string{"f.d2": c48FmtInput(n)}, Args: []string{"fmt", "f.d2"}, Targets: []string{"f.d2"}})
	}
	s = append(s,
		c48Scn{Name: "fmt-shrinking", Thorough: true, Cmd: "fmt", Files: map[string]string{"f.d2": "a -> b\n" + strings.Repeat("\n", 9000) + "c -> d\n"}, Args: []string{"fmt", "f.d2"}, Targets: []string{"f.d2"}},
		c48Scn{Name: "fmt-two-files", Cmd: "fmt", Files: map[string]string{"f.d2": c48FmtInput(100), "g.d2": c48FmtInput(5000)}, Args: []string{"fmt", "f.d2", "g.d2"}, Targets: []string{"f.d2", "g.d2"}},
		c48Scn{Name: "fmt-dir-arg", Cmd: "fmt", Files: map[string]string{"proj/index.d2": c48FmtInput(300)}, Args: []string{"fmt", "proj"}, Targets: []string{"proj/index.d2"}},
		c48Scn{Name: "svg-2-shapes-old-small", Cmd: "render-svg", Files: map[string]string{"in.d2": "x -> y\n", "out.svg": c48Old(33)}, Args: []string{"in.d2", "out.svg"}, Targets: []string{"out.svg"}},
		c48Scn{Name: "svg-25-shapes-old-1MiB", Cmd: "render-svg", Files: map[string]string{"in.d2": c48Diagram(25), "out.svg": c48Old(1 << 20)}, Args: []string{"in.d2", "out.svg"}, Targets: []string{"out.svg"}},
		c48Scn{Name: "svg-default-output-name", Thorough: true, Cmd: "render-svg", Files: map[string]string{"in.d2": c48Diagram(4), "in.svg": c48Old(4096)}, Args: []string{"in.d2"}, Targets: []string{"in.svg"}},
		c48Scn{Name: "svg-subdir-sketch", Thorough: true, Cmd: "render-svg", Files: map[string]string{"in.d2": c48Diagram(6), "o/out.svg": c48Old(70000)}, Args: []string{"--sketch", "in.d2", "o/out.svg"}, Targets: []string{"o/out.svg"}},
		c48Scn{Name: "svg-root-board-of-multiboard", Thorough: true, Cmd: "render-svg", Files: map[string]string{"in.d2": "a -> b\nlayers: {l: {c}}\n", "out.svg": c48Old(500)}, Args: []string{"--target", "", "in.d2", "out.svg"}, Targets: []string{"out.svg"}},
		// the output path exists as a symbolic link to an ordinary file: the link may be replaced or followed, but neither name
		// may ever show a partial file
		c48Scn{Name: "svg-output-is-a-symlink", Cmd: "render-svg", Files: map[string]string{"in.d2": "x -> y\n", "real.svg": c48Old(4096)}, Links: map[string]string{"out.svg": "real.svg"}, Args: []string{"in.d2", "out.svg"}, Targets: []string{"out.svg", "real.svg"}},
		c48Scn{Name: "txt-output-is-a-symlink", Cmd: "render-txt", Files: map[string]string{"in.d2": "x -> y\n", "store/real.txt": c48Old(300)}, Links: map[string]string{"out.txt": "store/real.txt"}, Args: []string{"in.d2", "out.txt"}, Targets: []string{"out.txt", "store/real.txt"}},
		c48Scn{Name: "txt-2-shapes-old-small", Cmd: "render-txt", Files: map[string]string{"in.d2": "x -> y\n", "out.txt": "old text\n"}, Args: []string{"in.d2", "out.txt"}, Targets: []string{"out.txt"}},
		c48Scn{Name: "txt-12-shapes-old-64KiB", Thorough: true, Cmd: "render-txt", Files: map[string]string{"in.d2": c48Diagram(12), "out.txt": c48Old(65537)}, Args: []string{"in.d2", "out.txt"}, Targets: []string{"out.txt"}},
		c48Scn{Name: "txt-ascii-standard", Thorough: true, Cmd: "render-txt", Files: map[string]string{"in.d2": c48Diagram(3), "out.txt": c48Old(4095)}, Args: []string{"--ascii-mode", "standard", "in.d2", "out.txt"}, Targets: []string{"out.txt"}},
		c48Scn{Name: "svg-150-shapes", Thorough: true, Cmd: "render-svg", Files: map[string]string{"in.d2": c48Diagram(150), "out.svg": c48Old(65537)}, Args: []string{"in.d2", "out.svg"}, Targets: []string{"out.svg"}},
		c48Scn{Name: "txt-25-shapes", Thorough: true, Cmd: "render-txt", Files: map[string]string{"in.d2": c48Diagram(25), "out.txt": c48Old(100)}, Args: []string{"in.d2", "out.txt"}, Targets: []string{"out.txt"}},
		c48Scn{Name: "fmt-8MiB", Thorough: true, Cmd: "fmt", Files: map[string]string{"f.d2": c48FmtInput(8 << 20)}, Args: []string{"fmt", "f.d2"}, Targets: []string{"f.d2"}},
		c48Scn{Name: "svg-dark-theme-center-pad", Thorough: true, Cmd: "render-svg", Files: map[string]string{"in.d2": c48Diagram(9), "out.svg": c48Old(20000)}, Args: []string{"--dark-theme", "200", "--center", "--pad", "7", "in.d2", "out.svg"}, Targets: []string{"out.svg"}},
		c48Scn{Name: "svg-layer-target", Thorough: true, Cmd: "render-svg", Files: map[string]string{"in.d2": "a -> b\nlayers: {l: {c -> d}}\n", "out.svg": c48Old(500)}, Args: []string{"--target", "layers.l", "in.d2", "out.svg"}, Targets: []string{"out.svg"}},
	)
	return s
}

// ---- crashtrace log --------------------------------------------------------------------------------

type ctEntry struct {
	Idx   int
	Call  string
	P1    string // sandbox-relative ("$SB/…") or absolute when outside
	P2    string
	Flags uint64
	N     int64 // -1 when absent
}

func (e ctEntry) String() string {
	s := e.Call + " " + e.P1
	if e.P2 != "" {
		s += " -> " + e.P2
	}
	if e.Flags != 0 {
		s += fmt.Sprintf(" flags=%#x", e.Flags)
	}
	if e.N >= 0 {
		s += fmt.Sprintf(" n=%d", e.N)
	}
	return s
}

var tmpSuffixRe = regexp.MustCompile(`(^|/)tmp-([^/]*)-[0-9]+$`)

func normPath(p, sb string) string {
	if hasPrefixPath(p, sb) {
		p = "$SB" + p[len(sb):]
	}
	return tmpSuffixRe.ReplaceAllString(p, "${1}tmp-${2}-N")
}

func parseCtLog(path, sb string) (ents []ctEntry, end string, err error) {
	b, err := os.ReadFile(path)
	if err != nil {
		return nil, "", err
	}
	for _, l := range strings.Split(strings.TrimRight(string(b), "\n"), "\n") {
		if strings.HasPrefix(l, "# end") {
			end = l
			continue
		}
		if l == "" || strings.HasPrefix(l, "#") {
			continue
		}
		f := strings.Split(l, "\t")
		if len(f) < 3 {
			return nil, "", fmt.Errorf("bad log line %q", l)
		}
		e := ctEntry{N: -1}
		e.Idx, _ = strconv.Atoi(f[0])
		e.Call = f[1]
		e.P1 = normPath(f[2], sb)
		for _, x := range f[3:] {
			switch {
			case strings.HasPrefix(x, "-> "):
				e.P2 = normPath(x[3:], sb)
			case strings.HasPrefix(x, "flags=0x"):
				e.Flags, _ = strconv.ParseUint(x[8:], 16, 64)
			case strings.HasPrefix(x, "n="):
				e.N, _ = strconv.ParseInt(x[2:], 10, 64)
			}
		}
		ents = append(ents, e)
	}
	if end == "" {
		return ents, "", fmt.Errorf("log %s has no end line (tracer died?)", path)
	}
	return ents, end, nil
}

func entsString(es []ctEntry) string {
	var b strings.Builder
	for _, e := range es {
		fmt.Fprintf(&b, "%d %s\n", e.Idx, e)
	}
	return b.String()
}

// ---- reference runs ----------------------------------------------------------------------------------

type c48Ref struct {
	ents []ctEntry
	old  map[string]string
	new  map[string]string
	init snap
	err  error
}

var (
	c48refMu sync.Mutex
	c48refs  = map[string]*c48Ref{}
	c48runNo int
)

func c48Base() string { return scratch("C48") }

func c48Populate(sb string, sc *c48Scn) error {
	for _, name := range sortedKeys(sc.Files) {
		p := filepath.Join(sb, name)
		if err := os.MkdirAll(filepath.Dir(p), 0o755); err != nil {
			return err
		}
		if err := os.WriteFile(p, []byte(sc.Files[name]), 0o644); err != nil {
			return err
		}
	}
	for _, name := range sortedKeys(sc.Links) {
		p := filepath.Join(sb, name)
		if err := os.MkdirAll(filepath.Dir(p), 0o755); err != nil {
			return err
		}
		if err := os.Symlink(sc.Links[name], p); err != nil {
			return err
		}
	}
	return nil
}

// c48Run executes one traced run in a fresh sandbox and returns the sandbox, the parsed log and crashtrace's exit code.
func c48Run(sc *c48Scn, mode []string) (sb string, ents []ctEntry, end string, rc int, out string, err error) {
	d2, err := buildD2("C48")
	if err != nil {
		return "", nil, "", 0, "", err
	}
	if err = ensureCrashtrace(); err != nil {
		return "", nil, "", 0, "", err
	}
	c48refMu.Lock()
	c48runNo++
	no := c48runNo
	c48refMu.Unlock()
	dir := filepath.Join(c48Base(), "runs", fmt.Sprintf("%s-%d", sc.Name, no))
	sb = filepath.Join(dir, "sb")
	empty := filepath.Join(dir, "emptybin")
	os.MkdirAll(empty, 0o755)
	if err = os.MkdirAll(sb, 0o755); err != nil {
		return
	}
	if err = c48Populate(sb, sc); err != nil {
		return
	}
	logp := filepath.Join(dir, "ct.log")
	args := append([]string{"-w", sb, "-o", logp}, mode...)
	args = append(args, "--", d2)
	args = append(args, sc.Args...)
	rc, out, err = runCmd(c48RunTimeout, sb, cleanEnv(empty), crashtraceBin, args...)
	if err != nil {
		return
	}
	ents, end, err = parseCtLog(logp, sb)
	return
}

func c48GetRef(sc *c48Scn) *c48Ref {
	c48refMu.Lock()
	r := c48refs[sc.Name]
	c48refMu.Unlock()
	if r != nil {
		return r
	}
	r = &c48Ref{old: map[string]string{}, new: map[string]string{}}
	fail := func(f string, a ...any) *c48Ref {
		r.err = fmt.Errorf("scenario %s: "+f, append([]any{sc.Name}, a...)...)
		return r
	}
	for _, t := range sc.Targets {
		r.old[t] = sc.Files[t]
		if l, ok := sc.Links[t]; ok { // read through the link
			r.old[t] = sc.Files[filepath.Join(filepath.Dir(t), l)]
		}
	}
	var first []ctEntry
	for pass := 0; pass < 2; pass++ {
		sb, ents, end, rc, out, err := c48Run(sc, []string{"log"})
		if err != nil {
			return fail("reference run: %v\n%s", err, out)
		}
		if rc != 0 {
			return fail("reference run: d2 exit %d (%s)\n%s", rc, end, out)
		}
		if pass == 0 {
			first = ents
			for _, t := range sc.Targets {
				b, err := os.ReadFile(filepath.Join(sb, t))
				if err != nil {
					return fail("reference run left no %s", t)
				}
				r.new[t] = string(b)
				if r.new[t] == r.old[t] && t == sc.Targets[0] { // later targets are bystanders: they need not change, only stay whole
					return fail("reference run did not change %s (vacuous scenario)", t)
				}
			}
			// initial snapshot, from a pristine copy
			pr := filepath.Join(filepath.Dir(sb), "pristine")
			os.MkdirAll(pr, 0o755)
			c48Populate(pr, sc)
			r.init = snapshot(pr)
		} else {
			if entsString(first) != entsString(ents) {
				return fail("two uninterrupted runs give different syscall lists:\n%s---\n%s", entsString(first), entsString(ents))
			}
			for _, t := range sc.Targets {
				b, _ := os.ReadFile(filepath.Join(sb, t))
				if string(b) != r.new[t] {
					return fail("two uninterrupted runs give different content for %s", t)
				}
			}
		}
		os.RemoveAll(filepath.Dir(sb))
	}
	r.ents = first
	if len(r.ents) == 0 {
		return fail("no mutating syscall observed")
	}
	c48refMu.Lock()
	c48refs[sc.Name] = r
	c48refMu.Unlock()
	return r
}

// ---- one crash run -------------------------------------------------------------------------------------

type c48Wit struct {
	Scn  string `json:"scenario"`
	Mode string `json:"mode"` // kill | tear
	K    int    `json:"k"`
	N    int64  `json:"bytes,omitempty"` // tear: bytes the write is cut to
	At   string `json:"at,omitempty"`    // informational: the syscall at k
}

type harnessError struct{ msg string }

// runTimeout is raised when one traced run exceeds its wall-clock allowance (an overloaded machine): the crash
// point stays unexplored and the run is reported as not exhaustive.
type runTimeout struct{ msg string }

const c48RunTimeout = 300 * time.Second

const oTRUNC = 0x200

// state of a target after the crash
func c48State(got []byte, exists bool, old, new string) string {
	g := string(got)
	switch {
	case !exists:
		return "missing"
	case g == old:
		return "old"
	case g == new:
		return "new"
	case len(g) == 0:
		return "empty"
	case strings.HasPrefix(new, g):
		return "partial-new"
	case strings.HasPrefix(old, g):
		return "partial-old"
	case len(g) > 0 && len(g) <= len(old) && len(g) <= len(new):
		return "mixed"
	}
	return "other"
}

// mechanism = the last completed mutating call (before the crash) that names the target
func c48Mechanism(done []ctEntry, target string, tornZero bool) string {
	tp := "$SB/" + target
	for i := len(done) - 1; i >= 0; i-- {
		e := done[i]
		if e.P1 != tp && e.P2 != tp {
			continue
		}
		switch {
		case e.Call == "close" || e.Call == "fsync" || e.Call == "fdatasync" || e.Call == "fchmod" || e.Call == "chmod" || e.Call == "fchmodat":
			continue
		case (e.Call == "write" || e.Call == "pwrite64") && tornZero && i == len(done)-1:
			continue
		case strings.HasPrefix(e.Call, "open") || e.Call == "creat":
			if e.Flags&oTRUNC != 0 || e.Call == "creat" {
				return "in-place-truncate"
			}
			return "in-place-open"
		case strings.HasPrefix(e.Call, "write") || strings.HasPrefix(e.Call, "pwrite"):
			return "in-place-write"
		case strings.HasPrefix(e.Call, "rename"):
			if e.P2 == tp {
				return "rename-onto-target"
			}
			return "rename-away"
		case strings.HasPrefix(e.Call, "unlink") || e.Call == "rmdir":
			return "unlink"
		case strings.Contains(e.Call, "truncate"):
			return "truncate"
		default:
			return e.Call
		}
	}
	return "untouched"
}

// c48Derived: "<base>@after-kill-<k>" is the base scenario started from the sandbox that a run of the base scenario
// killed at crash point k leaves behind (non-initial state: leftover temporary files of an earlier crash).
var c48derived = map[string]*c48Scn{}

func c48Scn_(name string) *c48Scn {
	if i := strings.Index(name, "@after-kill-"); i > 0 {
		c48refMu.Lock()
		d := c48derived[name]
		c48refMu.Unlock()
		if d != nil {
			return d
		}
		base := c48Scn_(name[:i])
		k, err := strconv.Atoi(name[i+len("@after-kill-"):])
		if base == nil || err != nil {
			return nil
		}
		sb, _, _, _, out, err := c48Run(base, []string{"kill", strconv.Itoa(k)})
		if err != nil {
			panic(harnessError{fmt.Sprintf("%s: first crash: %v\n%s", name, err, out)})
		}
		defer os.RemoveAll(filepath.Dir(sb))
		files := map[string]string{}
		links := map[string]string{}
		filepath.Walk(sb, func(p string, fi os.FileInfo, err error) error {
			if err != nil {
				return nil
			}
			rel, _ := filepath.Rel(sb, p)
			switch {
			case fi.Mode().IsRegular():
				b, _ := os.ReadFile(p)
				files[rel] = string(b)
			case fi.Mode()&os.ModeSymlink != 0: // the post-crash state keeps its symbolic links
				if l, err := os.Readlink(p); err == nil {
					links[rel] = l
				}
			}
			return nil
		})
		d = &c48Scn{Name: name, Cmd: base.Cmd, Files: files, Links: links, Args: base.Args, Targets: base.Targets, Thorough: base.Thorough}
		c48refMu.Lock()
		c48derived[name] = d
		c48refMu.Unlock()
		return d
	}
	for _, s := range c48Scenarios() {
		if s.Name == name {
			s := s
			return &s
		}
	}
	return nil
}

func c48Crash(in string) eng.Res {
	var w c48Wit
	if err := json.Unmarshal([]byte(in), &w); err != nil {
		panic(harnessError{"bad witness: " + err.Error()})
	}
	sc := c48Scn_(w.Scn)
	if sc == nil {
		panic(harnessError{"unknown scenario " + w.Scn})
	}
	ref := c48GetRef(sc)
	if ref.err != nil {
		panic(harnessError{ref.err.Error()})
	}
	if w.K < 1 || w.K > len(ref.ents) {
		panic(harnessError{fmt.Sprintf("%s: k=%d outside 1..%d", w.Scn, w.K, len(ref.ents))})
	}
	mode := []string{"kill", strconv.Itoa(w.K)}
	if w.Mode == "tear" {
		mode = []string{"tear", strconv.Itoa(w.K), strconv.FormatInt(w.N, 10)}
	}
	sb, ents, end, rc, out, err := c48Run(sc, mode)
	defer os.RemoveAll(filepath.Dir(sb))
	if err != nil && strings.HasPrefix(err.Error(), "timeout after") {
		panic(runTimeout{fmt.Sprintf("%s %v: %v", w.Scn, mode, err)})
	}
	if err != nil {
		panic(harnessError{fmt.Sprintf("%s %v: %v\n%s", w.Scn, mode, err, out)})
	}
	if rc != 0 || !strings.Contains(end, "killed=") {
		panic(harnessError{fmt.Sprintf("%s %v: crashtrace exit %d (%s)\n%s", w.Scn, mode, rc, end, out)})
	}
	// determinism: the killed run's list must be the first k entries of the reference list
	if entsString(ents) != entsString(ref.ents[:w.K]) {
		panic(harnessError{fmt.Sprintf("%s %v: syscall list of the killed run is not a prefix of the reference list:\n%s--- reference:\n%s", w.Scn, mode, entsString(ents), entsString(ref.ents))})
	}
	done := ref.ents[:w.K-1]
	if w.Mode == "tear" {
		done = ref.ents[:w.K]
	}
	var states []string
	var bad *eng.Fail
	for _, t := range sc.Targets {
		got, rerr := os.ReadFile(filepath.Join(sb, t))
		st := c48State(got, rerr == nil, ref.old[t], ref.new[t])
		states = append(states, st)
		if st != "old" && st != "new" && bad == nil {
			mech := c48Mechanism(done, t, w.Mode == "tear" && w.N == 0)
			bad = &eng.Fail{Class: fmt.Sprintf("%s:%s:target-%s", sc.Cmd, mech, st),
				Detail: fmt.Sprintf("d2 %s killed %s; %s then holds %d bytes (old content %d bytes, new content %d bytes): %q\ncompleted mutating calls before the crash:\n%s",
					strings.Join(sc.Args, " "), c48Where(w, ref), t, len(got), len(ref.old[t]), len(ref.new[t]), clip(string(got), 80), entsString(done))}
		}
	}
	if bad != nil {
		return eng.Res{Nontrivial: true, Outcome: "FAIL:" + bad.Class, Fail: bad}
	}
	// non-trivial: the sandbox already differed from its initial state when the process died
	d := ref.init.diff(snapshot(sb))
	left := 0
	for _, x := range d {
		if strings.HasPrefix(x, "created ") {
			left++
		}
	}
	return eng.OK(fmt.Sprintf("%s targets=%s leftover-files=%d", sc.Cmd, strings.Join(states, ","), left), len(d) > 0)
}

func c48Where(w c48Wit, ref *c48Ref) string {
	e := ref.ents[w.K-1]
	if w.Mode == "tear" {
		return fmt.Sprintf("right after mutating call %d (%s) was cut short to %d bytes", w.K, e, w.N)
	}
	return fmt.Sprintf("at the entry of mutating call %d (%s)", w.K, e)
}

// ---- the check ---------------------------------------------------------------------------------------

func c48Solo(p *eng.Solo) {
	defer os.RemoveAll(c48Base())
	t0 := time.Now()
	if _, err := buildD2("C48"); err != nil {
		p.HarnessErr = err.Error()
		return
	}
	if err := ensureCrashtrace(); err != nil {
		p.HarnessErr = err.Error()
		return
	}
	var scns []c48Scn
	for _, s := range c48Scenarios() {
		if !s.Thorough || p.Thorough() {
			scns = append(scns, s)
		}
	}
	p.Coverage["build_s"] = time.Since(t0).Seconds()

	var mu sync.Mutex
	var herr, timeouts []string
	var evals, nontriv int64
	outcomes := map[string]int{}
	killOutcome := map[string]string{} // "<scenario>/<k>" -> outcome of the kill run
	var allWits []c48Wit
	perScn := []any{}
	planned, finished, refRuns := 0, 0, 0

	// one round: reference runs (parallel), then every crash point of every scenario of the round
	round := func(scns []c48Scn) bool {
		parallel(len(scns), 0, nil, func(i int) {
			r := c48GetRef(&scns[i])
			if r.err != nil {
				mu.Lock()
				herr = append(herr, r.err.Error())
				mu.Unlock()
			}
		})
		refRuns += 2 * len(scns)
		if len(herr) > 0 {
			return false
		}
		var wits []c48Wit
		for i := range scns {
			r := c48GetRef(&scns[i])
			writes, tears := 0, 0
			for k, e := range r.ents {
				wits = append(wits, c48Wit{Scn: scns[i].Name, Mode: "kill", K: k + 1, At: e.String()})
				if (e.Call == "write" || e.Call == "pwrite64") && e.N >= 0 {
					writes++
					seen := map[int64]bool{}
					for _, c := range []int64{0, 1, e.N / 2, e.N - 1} {
						if c < 0 || c > e.N || seen[c] {
							continue
						}
						seen[c] = true
						tears++
						wits = append(wits, c48Wit{Scn: scns[i].Name, Mode: "tear", K: k + 1, N: c, At: e.String()})
					}
				}
			}
			var calls []string
			for _, e := range r.ents {
				calls = append(calls, e.String())
			}
			perScn = append(perScn, map[string]any{"scenario": scns[i].Name, "d2_args": scns[i].Args, "mutating_calls": calls, "kill_points": len(r.ents), "write_calls": writes, "tear_points": tears})
		}
		planned += len(wits)
		allWits = append(allWits, wits...)
		done := parallel(len(wits), 0, p.Expired, func(i int) {
			b, _ := json.Marshal(wits[i])
			var res eng.Res
			func() {
				defer func() {
					if r := recover(); r != nil {
						if to, ok := r.(runTimeout); ok {
							mu.Lock()
							timeouts = append(timeouts, to.msg)
							mu.Unlock()
							return
						}
						he, ok := r.(harnessError)
						if !ok {
							he = harnessError{fmt.Sprint(r)}
						}
						mu.Lock()
						herr = append(herr, he.msg)
						mu.Unlock()
					}
				}()
				res = c48Crash(string(b))
			}()
			mu.Lock()
			defer mu.Unlock()
			if res.Outcome == "" && res.Fail == nil {
				return // timed out or harness error: not an evaluation
			}
			evals++
			if res.Nontrivial {
				nontriv++
			}
			if res.Outcome != "" {
				outcomes[res.Outcome]++
				if wits[i].Mode == "kill" {
					killOutcome[fmt.Sprintf("%s/%d", wits[i].Scn, wits[i].K)] = res.Outcome
				}
			}
			if res.Fail != nil {
				res.Fail.Oracle, res.Fail.Witness = "crash", string(b)
				p.Fail(*res.Fail)
			}
		})
		finished += done
		return len(herr) == 0
	}

	t0 = time.Now()
	ok := round(scns)
	p.Coverage["first_round_s"] = time.Since(t0).Seconds()
	if ok && !p.Expired() {
		// second round — start from non-initial states: every distinct kind of sandbox state that a killed run of a
		// render scenario leaves behind with the target still old (leftover temporary files of an earlier crash) becomes
		// the initial state of a derived scenario whose own crash points are enumerated completely (two crashes in a row)
		t0 = time.Now()
		var derived []c48Scn
		var names []string
		seenState := map[string]bool{}
		for _, w := range allWits {
			sc := c48Scn_(w.Scn)
			if w.Mode != "kill" || sc == nil || sc.Cmd == "fmt" || (!p.Thorough() && sc.Name != "svg-2-shapes-old-small" && sc.Name != "txt-2-shapes-old-small") {
				continue
			}
			oc := killOutcome[fmt.Sprintf("%s/%d", w.Scn, w.K)]
			if !strings.Contains(oc, "targets=old") || strings.Contains(oc, "leftover-files=0") {
				continue
			}
			kind := w.Scn + "|" + oc + "|" + strings.SplitN(w.At, " ", 2)[0] // one representative per (state kind, call kind at the crash point)
			if seenState[kind] {
				continue
			}
			seenState[kind] = true
			name := fmt.Sprintf("%s@after-kill-%d", w.Scn, w.K)
			func() {
				defer func() {
					if r := recover(); r != nil {
						herr = append(herr, fmt.Sprint(r))
					}
				}()
				if d := c48Scn_(name); d != nil {
					derived = append(derived, *d)
					names = append(names, name)
				}
			}()
		}
		p.Coverage["derived_scenarios_started_from_crashed_states"] = names
		if len(derived) > 0 && len(herr) == 0 {
			round(derived)
		}
		p.Coverage["second_round_s"] = time.Since(t0).Seconds()
	}
	if len(herr) > 0 {
		sort.Strings(herr)
		p.HarnessErr = clip(strings.Join(herr, "\n"), 8000)
		return
	}
	samples := []any{}
	for i := 0; i < len(allWits) && len(samples) < 12; i += 1 + len(allWits)/12 {
		samples = append(samples, allWits[i])
	}
	oc := map[string]any{}
	for k, v := range outcomes {
		oc[k] = v
	}
	p.Coverage["evaluations"] = evals
	p.Coverage["distinct_nontrivial"] = nontriv
	p.Coverage["samples"] = samples
	p.Coverage["scenarios"] = perScn
	p.Coverage["crash_points_planned"] = planned
	p.Coverage["outcomes"] = oc
	p.Coverage["outcome_classes"] = len(outcomes)
	p.Coverage["exhaustive"] = finished == planned && len(timeouts) == 0
	if len(timeouts) > 0 {
		sort.Strings(timeouts)
		p.Coverage["runs_timed_out"] = timeouts
	}
	p.Coverage["reference_runs"] = refRuns
}

func init() {
	eng.Register(&eng.Check{
		ID: "C48", Level: "fault_enumeration",
		Rule: "for each scenario (a d2 command line on a sandbox with a pre-existing target file) the real d2 binary, built from the current tree, runs under the ptrace tracer tools/crashtrace.c, which lists every file-system-mutating system call touching the sandbox in one global order; then the command is re-run once per list index k and SIGKILLed at the entry of call k (the call is cancelled), and for every write call additionally with its byte count cut to {0,1,n/2,n-1} and killed at the call's return; every (scenario,k,cut) is distinct by construction; non-trivial = at the moment of death the sandbox already differed from its initial state; each killed run's call list must equal the first k entries of the reference list (temp-file suffixes normalised) or the run is a harness error",
		Assumptions: []string{
			"crash model = the process is killed (SIGKILL) between or inside system calls; the kernel and disk survive, so page-cache contents count as written (no power-loss model, fsync ordering is not examined)",
			"only system calls are crash points (a kill between two calls is equivalent to a kill at the entry of the next one); writes through mmap or io_uring would be invisible to the tracer — the Go os package uses neither",
			"the non-atomic fallback branch of d2cli.Write (taken only when the temp-file write or rename fails) is not reached: the harness runs as root on a writable directory",
			"x86_64 Linux; the tracer serialises watched calls of different threads (d2 issues all of them from one goroutine)",
			"targets are regular files on the same file system as their directory; symlinked or cross-device targets are out of scope",
		},
		QuickBudget: 150 * time.Second, ThoroughBudget: 20 * time.Minute,
		Oracles: map[string]eng.Oracle{"crash": func(in string) (res eng.Res) {
			defer func() {
				if r := recover(); r != nil {
					if he, ok := r.(harnessError); ok {
						fmt.Fprintln(os.Stderr, "HARNESS ERROR:", he.msg)
						os.Exit(2)
					}
					panic(r)
				}
			}()
			defer os.RemoveAll(c48Base())
			return c48Crash(in)
		}},
		Solo: c48Solo,
	})
}
