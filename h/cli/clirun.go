package cli

import (
	"context"
	"fmt"
	"io"
	"os"
	"strings"
	"sync"
	"time"

	"oss.terrastruct.com/util-go/cmdlog"
	"oss.terrastruct.com/util-go/xmain"
	"oss.terrastruct.com/util-go/xos"

	"oss.terrastruct.com/d2/d2cli"
	"oss.terrastruct.com/d2/d2graph"
	"oss.terrastruct.com/d2/lib/log"
)

type nopWC struct{ io.Writer }

func (nopWC) Close() error { return nil }

var cliEnvOnce sync.Once

// runCLI runs the real d2 CLI entry point (d2cli.Run) in-process with working directory pwd, the way
// e2etests-cli does. No plugins on PATH, no browser, no network (SVG/TXT output only, bundling off).
func runCLI(pwd string, args ...string) (err error, stderr string) {
	cliEnvOnce.Do(func() {
		empty := "/verif/.scratch/empty-path"
		os.MkdirAll(empty, 0o755)
		os.Setenv("PATH", empty)
	})
	var buf strings.Builder
	env := xos.NewEnv([]string{"HOME=/nonexistent", "D2_LAYOUT=dagre", "NO_COLOR=1"})
	ms := &xmain.State{
		Name:   "d2",
		Stdin:  strings.NewReader(""),
		Stdout: nopWC{io.Discard},
		Stderr: nopWC{&buf},
		Env:    env,
		PWD:    pwd,
	}
	ms.Log = cmdlog.New(env, ms.Stderr)
	ms.Opts = xmain.NewOpts(env, append([]string{"--bundle=false"}, args...))
	ctx, cancel := context.WithTimeout(log.WithDefault(context.Background()), 100*time.Second)
	defer cancel()
	err = d2cli.Run(ctx, ms)
	return err, buf.String()
}

// ---- board trees ---------------------------------------------------------------------------------

// bnode is one non-root board of a generated tree.
type bnode struct {
	Parent int    `json:"p"` // 0 = root, i = i-th board (1-based)
	Kind   string `json:"k"` // layers | scenarios | steps
	Name   string `json:"n"`
	Link   string `json:"l,omitempty"` // C35: link value of this board's linking object
}

type btree struct {
	Boards    []bnode `json:"b"`
	RootEmpty bool    `json:"re,omitempty"` // root board has no shape (folder-only root)
	RootLink  string  `json:"rl,omitempty"`
	Out       string  `json:"o,omitempty"` // CLI output path argument
	Traced    bool    `json:"tr,omitempty"` // C34 thorough: run the built binary under crashtrace instead of in-process
}

func quoteName(s string) string {
	if !strings.Contains(s, "'") {
		return "'" + s + "'"
	}
	return `"` + strings.NewReplacer(`\`, `\\`, `"`, `\"`).Replace(s) + `"`
}

func marker(i int) string { return fmt.Sprintf("MARK%dX", i) }

// source renders the tree as D2 text. Board i contains one shape labelled marker(i) (root: marker(0)).
func (t *btree) source() string {
	var b strings.Builder
	var emit func(board int, ind string)
	emit = func(board int, ind string) {
		if !(board == 0 && t.RootEmpty) {
			fmt.Fprintf(&b, "%sm%d: %s\n", ind, board, marker(board))
			link := t.RootLink
			if board > 0 {
				link = t.Boards[board-1].Link
			}
			if link != "" {
				fmt.Fprintf(&b, "%sm%d.link: %s\n", ind, board, link)
			}
		}
		for _, kind := range []string{"layers", "scenarios", "steps"} {
			open := false
			for j, c := range t.Boards {
				if c.Parent != board || c.Kind != kind {
					continue
				}
				if !open {
					fmt.Fprintf(&b, "%s%s: {\n", ind, kind)
					open = true
				}
				fmt.Fprintf(&b, "%s  %s: {\n", ind, quoteName(c.Name))
				emit(j+1, ind+"    ")
				fmt.Fprintf(&b, "%s  }\n", ind)
			}
			if open {
				fmt.Fprintf(&b, "%s}\n", ind)
			}
		}
	}
	emit(0, "")
	return b.String()
}

func (t *btree) depth(i int) int {
	d := 0
	for i > 0 {
		i = t.Boards[i-1].Parent
		d++
	}
	return d
}

// enumTrees visits every tree with exactly n non-root boards of depth <= 2 over kinds x names;
// siblings are unordered (same-parent boards are generated in non-decreasing (kind,name) order) and two
// siblings never share (kind,name).
func enumTrees(n int, kinds, names []string, visit func(t *btree)) {
	t := &btree{}
	type key struct{ k, n int }
	var rec func(i int, last map[int]key)
	rec = func(i int, last map[int]key) {
		if i == n {
			c := *t
			c.Boards = append([]bnode(nil), t.Boards...)
			visit(&c)
			return
		}
		for p := 0; p <= i; p++ {
			if p > 0 && t.depth(p) >= 2 {
				continue
			}
			// canonical order: parents non-decreasing
			if i > 0 && p < t.Boards[i-1].Parent {
				continue
			}
			for ki := range kinds {
				for ni := range names {
					if lk, ok := last[p]; ok && (ki < lk.k || (ki == lk.k && ni <= lk.n)) {
						continue
					}
					t.Boards = append(t.Boards, bnode{Parent: p, Kind: kinds[ki], Name: names[ni]})
					old, had := last[p]
					last[p] = key{ki, ni}
					rec(i+1, last)
					if had {
						last[p] = old
					} else {
						delete(last, p)
					}
					t.Boards = t.Boards[:len(t.Boards)-1]
				}
			}
		}
	}
	rec(0, map[int]key{})
}

// countBoards walks a compiled graph: total boards and non-folder boards.
func countBoards(g *d2graph.Graph) (all, nonFolder int) {
	all = 1
	if !g.IsFolderOnly {
		nonFolder = 1
	}
	for _, l := range [][]*d2graph.Graph{g.Layers, g.Scenarios, g.Steps} {
		for _, c := range l {
			a, n := countBoards(c)
			all += a
			nonFolder += n
		}
	}
	return
}
