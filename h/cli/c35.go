package cli

import (
	"encoding/json"
	"fmt"
	"html"
	"os"
	"path/filepath"
	"regexp"
	"runtime"
	"strings"
	"time"

	"oss.terrastruct.com/d2/d2graph"

	"verif/h/eng"
	"verif/h/u"
)

// ---- inputs ----------------------------------------------------------------------------------------

type c35In struct {
	T    btree  `json:"t"`
	From int    `json:"from"` // linking board (0 = root)
	Link string `json:"link"`
	Imp  string `json:"imp,omitempty"` // "" | spread | object | board : how the linking object reaches the board
	CLI  bool   `json:"cli,omitempty"` // also render with the CLI and follow the hrefs
}

func (t *btree) path(i int) []string {
	if i == 0 {
		return []string{"root"}
	}
	b := t.Boards[i-1]
	return append(t.path(b.Parent), b.Kind, b.Name)
}

func (t *btree) parent(i int) int {
	if i == 0 {
		return -1
	}
	return t.Boards[i-1].Parent
}

// c35Source renders the tree with the single linking object; returns index.d2 and (maybe) imp.d2.
func c35Source(in *c35In) (index, imp string) {
	t := &in.T
	linkObj := func(b *strings.Builder, ind string) {
		switch in.Imp {
		case "", "board":
			fmt.Fprintf(b, "%sm%d.link: %s\n", ind, in.From, in.Link)
		case "spread":
			fmt.Fprintf(b, "%s...@imp\n", ind)
		case "object":
			fmt.Fprintf(b, "%so: @imp\n", ind)
		}
	}
	var emit func(b *strings.Builder, board int, ind string)
	emit = func(b *strings.Builder, board int, ind string) {
		fmt.Fprintf(b, "%sm%d: %s\n", ind, board, marker(board))
		if board == in.From {
			linkObj(b, ind)
		}
		for _, kind := range boardKinds {
			open := false
			for j, c := range t.Boards {
				if c.Parent != board || c.Kind != kind {
					continue
				}
				if !open {
					fmt.Fprintf(b, "%s%s: {\n", ind, kind)
					open = true
				}
				if in.Imp == "board" && j+1 == in.From {
					fmt.Fprintf(b, "%s  %s: @imp\n", ind, quoteName(c.Name))
					var ib strings.Builder
					emit(&ib, j+1, "")
					imp = ib.String()
					continue
				}
				fmt.Fprintf(b, "%s  %s: {\n", ind, quoteName(c.Name))
				emit(b, j+1, ind+"    ")
				fmt.Fprintf(b, "%s  }\n", ind)
			}
			if open {
				fmt.Fprintf(b, "%s}\n", ind)
			}
		}
	}
	var b strings.Builder
	emit(&b, 0, "")
	if in.Imp == "spread" || in.Imp == "object" {
		imp = fmt.Sprintf("q: IMPQ\nq.link: %s\n", in.Link)
	}
	return b.String(), imp
}

// linkObjectID: AbsID of the linking object inside board From.
func (in *c35In) linkObjectID() string {
	switch in.Imp {
	case "spread":
		return "q"
	case "object":
		return "o.q"
	}
	return fmt.Sprintf("m%d", in.From)
}

// ---- reference resolver of board links -------------------------------------------------------------
//
// A link value is a board link when its first path element is root, layers, scenarios, steps or _ .
// It is interpreted relative to the board that contains the linking object (for an imported file: the
// board that contains the import); each leading _ goes one board up. The result is kept — as the absolute
// path root.<kind>.<name>… — iff that board exists and is not the linking board itself.
//
// Inside an imported file the file's own root stands for the importing board, so there an explicit `root`
// prefix is rebased too (d2's own tests: import-link-underscore-*, spread-import-link).
func c35Resolve(t *btree, from int, v string, imported bool) (kind string, abs []string) {
	if strings.Contains(v, "://") || strings.HasPrefix(v, "/") {
		return "remote", nil
	}
	els := strings.Split(v, ".")
	switch els[0] {
	case "root":
		abs = els
		if imported {
			abs = append(append([]string{}, t.path(from)...), els[1:]...)
		}
	case "layers", "scenarios", "steps", "_":
		scope := t.path(from)
		for len(els) > 0 && els[0] == "_" {
			if len(scope) < 3 {
				return "drop:above-root", nil
			}
			scope = scope[:len(scope)-2]
			els = els[1:]
		}
		abs = append(append([]string{}, scope...), els...)
	default:
		return "drop:not-a-board-link", nil
	}
	target := -1
	for i := 0; i <= len(t.Boards); i++ {
		if strings.Join(t.path(i), "\x00") == strings.Join(abs, "\x00") {
			target = i
		}
	}
	if target < 0 {
		return "drop:missing", nil
	}
	if target == from {
		return "drop:self", nil
	}
	return "board", abs
}

// c35Candidates: every way to name every board of the tree from board `from`, plus missing / remote values.
func c35Candidates(t *btree, from int) []string {
	var out []string
	seen := map[string]bool{}
	add := func(s string) {
		if s != "" && !seen[s] {
			seen[s] = true
			out = append(out, s)
		}
	}
	for target := 0; target <= len(t.Boards); target++ {
		tp := t.path(target)
		add(strings.Join(tp, "."))
		anc, ups := from, 0
		for anc >= 0 {
			ap := t.path(anc)
			if len(tp) >= len(ap) && strings.Join(tp[:len(ap)], "\x00") == strings.Join(ap, "\x00") {
				rel := append(strings.Split(strings.Repeat("_ ", ups), " ")[:ups], tp[len(ap):]...)
				add(strings.Join(rel, "."))
			}
			anc = t.parent(anc)
			ups++
		}
	}
	d := t.depth(from)
	add("layers.missing")
	add("root.layers.missing")
	add("steps.1")
	add(strings.Repeat("_.", d+1) + "layers.x")
	if d > 0 {
		add("_.scenarios.missing")
	}
	add("https://e.com")
	add("/abs")
	return out
}

func findBoard(g *d2graph.Graph, path []string) *d2graph.Graph {
	if len(path) > 0 && path[0] == "root" {
		path = path[1:]
	}
	for len(path) >= 2 {
		var l []*d2graph.Graph
		switch path[0] {
		case "layers":
			l = g.Layers
		case "scenarios":
			l = g.Scenarios
		case "steps":
			l = g.Steps
		}
		var nx *d2graph.Graph
		for _, c := range l {
			if c.Name == path[1] {
				nx = c
			}
		}
		if nx == nil {
			return nil
		}
		g, path = nx, path[2:]
	}
	if len(path) != 0 {
		return nil
	}
	return g
}

func boardMarkers(g *d2graph.Graph) string {
	var ls []string
	for _, o := range g.Objects {
		ls = append(ls, o.Label.Value)
	}
	return markerSet(strings.Join(ls, " "))
}

var hrefRe = regexp.MustCompile(`(?s)<a href="([^"]*)"[^>]*>(.*?)</a>`)

func c35Form(in *c35In) string {
	f := "relative"
	switch {
	case strings.HasPrefix(in.Link, "root"):
		f = "absolute"
	case strings.HasPrefix(in.Link, "_"):
		f = "underscore"
	}
	if in.Imp != "" {
		f += ",imported-" + in.Imp
	}
	return f
}

func c35Oracle(s string) eng.Res {
	var in c35In
	if err := json.Unmarshal([]byte(s), &in); err != nil {
		panic(err)
	}
	t := &in.T
	index, imp := c35Source(&in)
	files := u.Files{}
	if imp != "" {
		files["imp.d2"] = imp
	}
	g, _, err := u.CompileFS("index.d2", index, files)
	kind, abs := c35Resolve(t, in.From, in.Link, in.Imp != "")
	form := c35Form(&in)
	src := "index.d2:\n" + index
	if imp != "" {
		src += "imp.d2:\n" + imp
	}
	if err != nil {
		// the statement says such links are dropped, not rejected; a compile error for a well-formed tree is a failure
		return eng.Bad("compile-error:"+form, fmt.Sprintf("link %q in board %s (expected %s %v): %v\n%s", in.Link, strings.Join(t.path(in.From), "."), kind, abs, err, src))
	}
	fb := findBoard(g, t.path(in.From))
	if fb == nil {
		panic("harness: linking board not found in compiled graph\n" + src)
	}
	var obj *d2graph.Object
	for _, o := range fb.Objects {
		if o.AbsID() == in.linkObjectID() {
			obj = o
		}
	}
	if obj == nil {
		panic("harness: linking object " + in.linkObjectID() + " not found\n" + src)
	}
	got := "<nil>"
	if obj.Link != nil {
		got = obj.Link.Value
	}
	depth := fmt.Sprintf("depth%d", t.depth(in.From))
	detail := func(msg string) string {
		return fmt.Sprintf("%s: link %q on object %s of board %s compiled to %s; reference resolver: %s %s\n%s", msg, in.Link, in.linkObjectID(), strings.Join(t.path(in.From), "."), got, kind, strings.Join(abs, "."), src)
	}
	switch kind {
	case "remote":
		if got != in.Link {
			return eng.Bad("compile:remote-link-changed:"+form, detail("remote link not kept verbatim"))
		}
	case "board":
		want := strings.Join(abs, ".")
		if obj.Link == nil {
			return eng.Bad("compile:link-to-existing-board-dropped:"+form, detail("dropped"))
		}
		if got != want {
			return eng.Bad("compile:wrong-absolute-path:"+form, detail("want "+want))
		}
	default:
		if obj.Link != nil {
			if kind == "drop:self" {
				return eng.Bad("compile:self-link-kept:linking-board-"+depth, detail("a link to the linking board itself must be dropped"))
			}
			return eng.Bad(fmt.Sprintf("compile:link-not-dropped:%s:%s", strings.TrimPrefix(kind, "drop:"), form), detail("should be dropped ("+kind+")"))
		}
	}
	outcome := fmt.Sprintf("%s %s from-depth=%d -> %s", form, kind, t.depth(in.From), got)
	if !in.CLI {
		return eng.OK(outcome, kind == "board")
	}

	// ---- CLI: render all boards and follow the link of the linking board's file
	sb := getSandbox("C35")
	extra := map[string]string{"in.d2": index}
	if imp != "" {
		extra["imp.d2"] = imp
	}
	sb.reset(extra)
	before := snapshot(sb.root)
	cerr, stderr := runCLI(sb.work, "in.d2", "out.svg")
	if cerr != nil {
		return eng.Bad("cli:error:"+form, detail(fmt.Sprintf("d2 in.d2 out.svg failed: %v %s", cerr, clip(stderr, 300))))
	}
	after := snapshot(sb.root)
	byMarkers := map[string][]string{} // marker set -> files
	content := map[string]string{}
	for _, d := range before.diff(after) {
		f := strings.SplitN(d, " ", 2)
		if f[0] == "deleted" || !strings.HasPrefix(after[f[1]], "f:") || !strings.HasSuffix(f[1], ".svg") {
			continue
		}
		b, _ := os.ReadFile(filepath.Join(sb.root, f[1]))
		content[f[1]] = string(b)
		ms := markerSet(string(b))
		byMarkers[ms] = append(byMarkers[ms], f[1])
	}
	fromFiles := byMarkers[boardMarkers(fb)]
	if len(fromFiles) != 1 {
		return eng.Bad("cli:linking-board-file-not-unique", detail(fmt.Sprintf("files showing the linking board's markers %s: %v (all: %v)", boardMarkers(fb), fromFiles, byMarkers)))
	}
	fromFile := fromFiles[0]
	// the <a href> that wraps the linking object: the one whose body shows the object's label
	label := marker(in.From)
	if in.Imp == "spread" || in.Imp == "object" {
		label = "IMPQ"
	}
	var hrefs []string
	for _, m := range hrefRe.FindAllStringSubmatch(content[fromFile], -1) {
		if strings.Contains(m[2], ">"+label+"<") {
			hrefs = append(hrefs, html.UnescapeString(m[1]))
		}
	}
	rel := func(p string) string { r, _ := filepath.Rel(mustRel(sb.root, sb.work), p); return r }
	cliDetail := func(msg string) string {
		return detail(fmt.Sprintf("%s; board file %s has hrefs %v on the linking object; files written: %v", msg, rel(fromFile), hrefs, byMarkers))
	}
	switch kind {
	case "remote":
		if len(hrefs) != 1 || hrefs[0] != in.Link {
			return eng.Bad("cli:remote-href-changed:"+form, cliDetail("remote link must stay verbatim"))
		}
	case "board":
		if len(hrefs) != 1 {
			return eng.Bad("cli:href-missing:"+form, cliDetail("expected exactly one href"))
		}
		tb := findBoard(g, abs)
		dest := filepath.Join(filepath.Dir(fromFile), hrefs[0])
		want := byMarkers[boardMarkers(tb)]
		if _, ok := content[dest]; !ok {
			return eng.Bad("cli:href-dangling:"+form, cliDetail(fmt.Sprintf("href resolves to %s which was not written (target board file: %v)", rel(dest), want)))
		}
		if markerSet(content[dest]) != boardMarkers(tb) {
			return eng.Bad("cli:href-resolves-to-wrong-board:"+form, cliDetail(fmt.Sprintf("href resolves to %s showing %s, target board %s shows %s", rel(dest), markerSet(content[dest]), strings.Join(abs, "."), boardMarkers(tb))))
		}
		outcome += " href=" + hrefs[0]
	default:
		if len(hrefs) != 0 {
			return eng.Bad("cli:href-present-for-dropped-link:"+form, cliDetail("no href expected"))
		}
	}
	return eng.OK(outcome+" cli", kind == "board")
}

func mustRel(a, b string) string { r, _ := filepath.Rel(a, b); return r }

// c35Trees: trees with n boards named x, y, z in generation order (kinds vary, depth <= 2).
func c35Trees(n int, visit func(t *btree)) {
	names := []string{"x", "y", "z"}
	t := &btree{}
	var rec func(i int)
	rec = func(i int) {
		if i == n {
			c := *t
			c.Boards = append([]bnode(nil), t.Boards...)
			visit(&c)
			return
		}
		for p := 0; p <= i; p++ {
			if p > 0 && t.depth(p) >= 2 {
				continue
			}
			if i > 0 && p < t.Boards[i-1].Parent {
				continue
			}
			for _, k := range boardKinds {
				t.Boards = append(t.Boards, bnode{Parent: p, Kind: k, Name: names[i]})
				rec(i + 1)
				t.Boards = t.Boards[:len(t.Boards)-1]
			}
		}
	}
	rec(0)
}

func init() {
	eng.Register(&eng.Check{
		ID: "C35", Level: "exploration",
		Rule: "every board tree with up to the phase's number of boards (names x,y,z; kinds layers/scenarios/steps; depth <= 2; one marker shape per board) x every board as the linking board x every link value generated from the tree (each board of the tree named absolutely and by every valid relative/underscore expression, plus missing boards, too many underscores, a URL and an absolute path) x how the linking object reaches the board (written in place, spread-imported into the board, or the whole board imported); compiled with d2compiler and compared with a reference resolver; in the cli phases the tree is also rendered by d2cli.Run into a sandbox and the href around the linking object is followed from the linking board's file; non-trivial = the reference says the link names another existing board",
		Assumptions: []string{
			"only the board in which the linking object is defined is examined; the copies of that object inherited by scenarios/steps are not (the statement does not say relative to which board an inherited link resolves)",
			"a link in an imported file is read relative to the board that contains the import (the statement's `rebased onto the importing board`), an explicit `root` prefix included; files imported as the value of a nested OBJECT (`o: @imp`) are left out: d2 rebases their links onto the object path, so they are all dropped, and the statement only speaks of importing boards",
			"links on connections, links with quoted or upper-case path elements and board names needing quotes are outside the generated space",
			"board files are identified by the set of marker labels they show (SVG text), hrefs by the <a href> element wrapping the linking object's label",
		},
		QuickBudget: 150 * time.Second, ThoroughBudget: 22 * time.Minute, HangBound: 150 * time.Second,
		Oracles: map[string]eng.Oracle{"link": c35Oracle},
		Run: func(w *eng.W) {
			runtime.GOMAXPROCS(2)
			defer func() {
				if workerSandbox != nil {
					os.RemoveAll(filepath.Dir(workerSandbox.root))
				}
			}()
			each := func(n int, imps []string, cli bool) {
				c35Trees(n, func(t *btree) {
					for from := 0; from <= n; from++ {
						for _, v := range c35Candidates(t, from) {
							for _, imp := range imps {
								if imp == "board" && from == 0 {
									continue
								}
								if !w.Mine() {
									continue
								}
								b, _ := json.Marshal(&c35In{T: *t, From: from, Link: v, Imp: imp, CLI: cli})
								w.EvalMine("link", string(b))
							}
						}
					}
				})
			}
			allImps := []string{"", "spread", "board"}
			maxN := w.Pick(2, 3)
			for n := 0; n <= 3; n++ {
				n := n
				w.Phase(fmt.Sprintf("compile boards=%d x from x links x import-modes", n), func() { each(n, allImps, false) })
			}
			for n := 1; n <= maxN; n++ {
				n := n
				imps := []string{""}
				if w.Thorough() {
					imps = []string{"", "spread"}
				}
				if n <= 2 {
					w.Phase(fmt.Sprintf("cli boards=%d x from x links", n), func() { each(n, imps, true) })
					continue
				}
				// split by the kind of the first board so that a deadline ends the run at a phase boundary
				for _, k := range boardKinds {
					k := k
					w.Phase(fmt.Sprintf("cli boards=%d first=%s x from x links", n, k), func() {
						c35Trees(n, func(t *btree) {
							if t.Boards[0].Kind != k {
								return
							}
							for from := 0; from <= n; from++ {
								for _, v := range c35Candidates(t, from) {
									for _, imp := range imps {
										if !w.Mine() {
											continue
										}
										b, _ := json.Marshal(&c35In{T: *t, From: from, Link: v, Imp: imp, CLI: true})
										w.EvalMine("link", string(b))
									}
								}
							}
						})
					})
				}
			}
		},
	})
}
