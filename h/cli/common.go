// Package cli holds the checks of group "cli": C48 (crash points of in-place rewrites, engine E3),
// C34 (multi-board output stays inside the output location) and C35 (board links).
package cli

import (
	"bytes"
	"context"
	"crypto/sha256"
	"encoding/hex"
	"fmt"
	"io/fs"
	"os"
	"os/exec"
	"path/filepath"
	"runtime"
	"sort"
	"strings"
	"sync"
	"time"
)

const goFallback = "/root/go/pkg/mod/golang.org/toolchain@v0.0.1-go1.25.0.linux-amd64/bin/go"

// scratch returns a per-process scratch directory below /verif/.scratch/<id>/ (two concurrent runs of
// the same check do not disturb each other).
func scratch(id string) string {
	d := filepath.Join("/verif/.scratch", id, fmt.Sprintf("p%d", os.Getpid()))
	os.MkdirAll(d, 0o755)
	return d
}

var (
	d2binOnce sync.Once
	d2binPath string
	d2binErr  error
)

// buildD2 builds the real d2 CLI from /repo's current working tree (honouring VERIF_OVERLAY).
func buildD2(id string) (string, error) {
	d2binOnce.Do(func() {
		gobin := os.Getenv("GO")
		if gobin == "" {
			gobin = goFallback
		}
		out := filepath.Join(scratch(id), "d2")
		args := []string{"build"}
		if ov := os.Getenv("VERIF_OVERLAY"); ov != "" {
			args = append(args, "-overlay", ov)
		}
		args = append(args, "-o", out, "/repo")
		cmd := exec.Command(gobin, args...)
		cmd.Dir = "/repo"
		cmd.Env = append(os.Environ(), "GOFLAGS=-mod=mod", "GOPROXY=off", "GOTOOLCHAIN=local", "GOSUMDB=off", "CGO_ENABLED=0")
		b, err := cmd.CombinedOutput()
		if err != nil {
			d2binErr = fmt.Errorf("go build /repo: %v\n%s", err, b)
			return
		}
		d2binPath = out
	})
	return d2binPath, d2binErr
}

var (
	ctOnce sync.Once
	ctErr  error
)

const crashtraceBin = "/verif/.bin/crashtrace"

func ensureCrashtrace() error {
	ctOnce.Do(func() {
		b, err := exec.Command("/verif/tools/setup_extra.sh").CombinedOutput()
		if err != nil {
			ctErr = fmt.Errorf("setup_extra.sh: %v\n%s", err, b)
			return
		}
		if _, err := os.Stat(crashtraceBin); err != nil {
			ctErr = err
		}
	})
	return ctErr
}

// cleanEnv is the environment every d2 child gets: nothing inherited, no plugins on PATH, no HOME.
func cleanEnv(emptyDir string) []string {
	return []string{"PATH=" + emptyDir, "HOME=/nonexistent", "D2_LAYOUT=dagre", "NO_COLOR=1", "LANG=C"}
}

// snap is a file-system snapshot: relative path -> "d" for directories, "l:<target>" for symlinks,
// "f:<size>:<sha256/12>" for files.
type snap map[string]string

func snapshot(root string) snap {
	s := snap{}
	filepath.WalkDir(root, func(p string, d fs.DirEntry, err error) error {
		if err != nil {
			return nil
		}
		rel, _ := filepath.Rel(root, p)
		if rel == "." {
			return nil
		}
		switch {
		case d.IsDir():
			s[rel] = "d"
		case d.Type()&fs.ModeSymlink != 0:
			t, _ := os.Readlink(p)
			s[rel] = "l:" + t
		default:
			b, err := os.ReadFile(p)
			if err != nil {
				s[rel] = "f:unreadable"
			} else {
				h := sha256.Sum256(b)
				s[rel] = fmt.Sprintf("f:%d:%s", len(b), hex.EncodeToString(h[:6]))
			}
		}
		return nil
	})
	return s
}

// diff lists "created P", "deleted P", "modified P" (sorted).
func (a snap) diff(b snap) []string {
	var out []string
	for p, v := range b {
		if w, ok := a[p]; !ok {
			out = append(out, "created "+p)
		} else if w != v {
			out = append(out, "modified "+p)
		}
	}
	for p := range a {
		if _, ok := b[p]; !ok {
			out = append(out, "deleted "+p)
		}
	}
	sort.Strings(out)
	return out
}

// parallel runs f(i) for i in [0,n) on up to w goroutines; stops handing out work when stop() is true.
func parallel(n, w int, stop func() bool, f func(i int)) (done int) {
	if w <= 0 {
		w = runtime.NumCPU()
	}
	var mu sync.Mutex
	next := 0
	var wg sync.WaitGroup
	for g := 0; g < w; g++ {
		wg.Add(1)
		go func() {
			defer wg.Done()
			for {
				mu.Lock()
				if next >= n || (stop != nil && stop()) {
					mu.Unlock()
					return
				}
				i := next
				next++
				mu.Unlock()
				f(i)
				mu.Lock()
				done++
				mu.Unlock()
			}
		}()
	}
	wg.Wait()
	return done
}

func runCmd(timeout time.Duration, dir string, env []string, name string, args ...string) (rc int, out string, err error) {
	ctx, cancel := context.WithTimeout(context.Background(), timeout)
	defer cancel()
	cmd := exec.CommandContext(ctx, name, args...)
	cmd.Dir = dir
	cmd.Env = env
	var buf bytes.Buffer
	cmd.Stdout, cmd.Stderr = &buf, &buf
	err = cmd.Run()
	if ctx.Err() != nil {
		return -1, buf.String(), fmt.Errorf("timeout after %v", timeout)
	}
	if ee, ok := err.(*exec.ExitError); ok {
		return ee.ExitCode(), buf.String(), nil
	}
	if err != nil {
		return -1, buf.String(), err
	}
	return 0, buf.String(), nil
}

func clip(s string, n int) string {
	if len(s) > n {
		return s[:n] + "…"
	}
	return s
}

func sortedKeys[M ~map[string]V, V any](m M) []string {
	ks := make([]string, 0, len(m))
	for k := range m {
		ks = append(ks, k)
	}
	sort.Strings(ks)
	return ks
}

func hasPrefixPath(p, dir string) bool {
	return p == dir || strings.HasPrefix(p, dir+"/")
}
