package layouta

import (
	"fmt"
	"strings"
	"time"

	"oss.terrastruct.com/d2/d2graph"
	"oss.terrastruct.com/d2/d2layouts/d2sequence"
	"oss.terrastruct.com/d2/d2target"

	"verif/h/eng"
	"verif/h/u"
)

// structure snapshot of one board: everything the property statement names, nothing else.
type snapObj struct {
	AbsID    string
	Parent   string
	Children []string
}
type snapEdge struct {
	Src, Dst           string
	SrcArrow, DstArrow bool
	Index              int
	Label              string
}
type snap struct {
	Objects      []snapObj
	Edges        []snapEdge
	RootChildren []string
}

func snapshot(g *d2graph.Graph, afterLayout bool) snap {
	var s snap
	for _, o := range g.Objects {
		so := snapObj{AbsID: o.AbsID()}
		if o.Parent != nil {
			so.Parent = o.Parent.AbsID()
		} else {
			so.Parent = "<nil>"
		}
		for _, c := range o.ChildrenArray {
			so.Children = append(so.Children, c.AbsID())
		}
		s.Objects = append(s.Objects, so)
	}
	for _, c := range g.Root.ChildrenArray {
		s.RootChildren = append(s.RootChildren, c.AbsID())
	}
	for _, e := range g.Edges {
		if afterLayout && e.Dst != nil && d2sequence.IsLifelineEnd(e.Dst) {
			continue // lifelines of sequence diagrams are drawn as synthetic connections added by d2sequence
		}
		se := snapEdge{SrcArrow: e.SrcArrow, DstArrow: e.DstArrow, Index: e.Index, Label: e.Label.Value}
		if e.Src != nil {
			se.Src = e.Src.AbsID()
		} else {
			se.Src = "<nil>"
		}
		if e.Dst != nil {
			se.Dst = e.Dst.AbsID()
		} else {
			se.Dst = "<nil>"
		}
		s.Edges = append(s.Edges, se)
	}
	return s
}

// situation names where in the nesting an object sits (mechanism part of the failure class).
func situation(g *d2graph.Graph, absID string) string {
	for _, o := range g.Objects {
		if o.AbsID() == absID {
			var tags []string
			for p := o; p != nil && p != g.Root; p = p.Parent {
				switch {
				case p.IsConstantNear():
					tags = append(tags, "near")
				case p.IsSequenceDiagram():
					tags = append(tags, "sequence")
				case p.IsGridDiagram():
					tags = append(tags, "grid")
				}
			}
			if g.Root.IsSequenceDiagram() {
				tags = append(tags, "sequence")
			}
			if g.Root.IsGridDiagram() {
				tags = append(tags, "grid")
			}
			if len(tags) == 0 {
				return "plain"
			}
			// innermost first; dedupe consecutive
			var out []string
			for _, t := range tags {
				if len(out) == 0 || out[len(out)-1] != t {
					out = append(out, t)
				}
			}
			return strings.Join(out, "<")
		}
	}
	return "unknown"
}

func edgeSituation(g *d2graph.Graph, e snapEdge) string {
	a, b := situation(g, e.Src), situation(g, e.Dst)
	if a == b {
		return a
	}
	return a + "~" + b
}

// compareSnap returns class, detail ("" = equal). g0 is the compiled (pre-layout) graph, used for situations.
func compareSnap(engine, path string, g0 *d2graph.Graph, before, after snap) (string, string) {
	// objects: multiset, duplicates, parents, children order, order
	cnt := map[string]int{}
	for _, o := range after.Objects {
		cnt[o.AbsID]++
	}
	bcnt := map[string]int{}
	for _, o := range before.Objects {
		bcnt[o.AbsID]++
	}
	for _, o := range before.Objects {
		if cnt[o.AbsID] == 0 {
			return "object-dropped:" + engine + ":" + situation(g0, o.AbsID), fmt.Sprintf("board %s: object %q exists after compilation but not after layout", path, o.AbsID)
		}
		if cnt[o.AbsID] > bcnt[o.AbsID] {
			return "object-duplicated:" + engine + ":" + situation(g0, o.AbsID), fmt.Sprintf("board %s: object %q occurs %d times after layout", path, o.AbsID, cnt[o.AbsID])
		}
	}
	for _, o := range after.Objects {
		if bcnt[o.AbsID] == 0 {
			return "object-added:" + engine, fmt.Sprintf("board %s: object %q exists only after layout", path, o.AbsID)
		}
	}
	bidx := map[string]snapObj{}
	for _, o := range before.Objects {
		bidx[o.AbsID] = o
	}
	for _, o := range after.Objects {
		b := bidx[o.AbsID]
		if b.Parent != o.Parent {
			return "object-reparented:" + engine + ":" + situation(g0, o.AbsID), fmt.Sprintf("board %s: object %q parent %q -> %q", path, o.AbsID, b.Parent, o.Parent)
		}
		if strings.Join(b.Children, "\x00") != strings.Join(o.Children, "\x00") {
			return "children-order-changed:" + engine + ":" + situation(g0, o.AbsID), fmt.Sprintf("board %s: children of %q %q -> %q", path, o.AbsID, b.Children, o.Children)
		}
	}
	if strings.Join(before.RootChildren, "\x00") != strings.Join(after.RootChildren, "\x00") {
		return "root-children-changed:" + engine, fmt.Sprintf("board %s: root children %q -> %q", path, before.RootChildren, after.RootChildren)
	}
	for i := range before.Objects {
		if before.Objects[i].AbsID != after.Objects[i].AbsID {
			return "object-order-changed:" + engine + ":" + situation(g0, before.Objects[i].AbsID), fmt.Sprintf("board %s: Objects[%d] %q -> %q", path, i, before.Objects[i].AbsID, after.Objects[i].AbsID)
		}
	}
	// edges
	key := func(e snapEdge) string {
		return fmt.Sprintf("%s\x00%s\x00%v\x00%v\x00%d\x00%s", e.Src, e.Dst, e.SrcArrow, e.DstArrow, e.Index, e.Label)
	}
	ecnt, becnt := map[string]int{}, map[string]int{}
	for _, e := range after.Edges {
		ecnt[key(e)]++
	}
	for _, e := range before.Edges {
		becnt[key(e)]++
	}
	for _, e := range before.Edges {
		if ecnt[key(e)] < becnt[key(e)] {
			return "connection-dropped-or-changed:" + engine + ":" + edgeSituation(g0, e), fmt.Sprintf("board %s: connection %+v of the compiled graph has no equal after layout (after: %+v)", path, e, after.Edges)
		}
	}
	for _, e := range after.Edges {
		if ecnt[key(e)] > becnt[key(e)] {
			return "connection-added-or-duplicated:" + engine + ":" + edgeSituation(g0, e), fmt.Sprintf("board %s: connection %+v occurs %d times after layout, %d after compilation", path, e, ecnt[key(e)], becnt[key(e)])
		}
	}
	for i := range before.Edges {
		if key(before.Edges[i]) != key(after.Edges[i]) {
			return "connection-order-changed:" + engine + ":" + edgeSituation(g0, before.Edges[i]), fmt.Sprintf("board %s: Edges[%d] %+v -> %+v", path, i, before.Edges[i], after.Edges[i])
		}
	}
	return "", ""
}

// coherence: the pointer structure after layout must describe the same tree as the IDs do.
func coherence(engine, path string, g *d2graph.Graph) (string, string) {
	inObjects := map[*d2graph.Object]bool{}
	for _, o := range g.Objects {
		inObjects[o] = true
	}
	for _, o := range g.Objects {
		if o.Parent == nil {
			return "nil-parent-after-layout:" + engine, fmt.Sprintf("board %s: object %q", path, o.AbsID())
		}
		n := 0
		for _, c := range o.Parent.ChildrenArray {
			if c == o {
				n++
			}
		}
		if n != 1 {
			return "object-not-exactly-once-in-parent-children:" + engine + objKind(o), fmt.Sprintf("board %s: object %q occurs %d times in ChildrenArray of %q", path, o.AbsID(), n, o.Parent.AbsID())
		}
		if o.Parent != g.Root && !inObjects[o.Parent] {
			return "parent-not-in-graph-objects:" + engine + objKind(o), fmt.Sprintf("board %s: parent of %q is an object that is not in Graph.Objects", path, o.AbsID())
		}
		for _, c := range o.ChildrenArray {
			if c.Parent != o {
				return "child-parent-pointer-mismatch:" + engine + objKind(o), fmt.Sprintf("board %s: %q lists child %q whose Parent is %q", path, o.AbsID(), c.AbsID(), c.Parent.AbsID())
			}
		}
	}
	for _, e := range g.Edges {
		if e.Dst != nil && d2sequence.IsLifelineEnd(e.Dst) {
			continue
		}
		if e.Src == nil || e.Dst == nil {
			return "connection-nil-endpoint:" + engine, fmt.Sprintf("board %s: %q", path, e.AbsID())
		}
		if !inObjects[e.Src] || !inObjects[e.Dst] {
			return "connection-endpoint-not-in-graph-objects:" + engine + edgeKind(e), fmt.Sprintf("board %s: connection %q points at an object that is not in Graph.Objects (stale pointer)", path, e.AbsID())
		}
	}
	return "", ""
}

func c18Oracle(in string) eng.Res {
	engine, src := splitIn(in)
	g0, _, err := u.Compile(src)
	if err != nil {
		return eng.OK("not-compilable", false)
	}
	if why := unsupported(engine, g0); why != "" {
		return eng.OK("unsupported-feature", false)
	}
	d, g, err := layout(engine, src)
	if err != nil {
		return eng.OK("layout-error(C17):"+errClass(err), false)
	}
	// walk both board trees in parallel
	var class, detail string
	var sig []string
	var rec func(path string, b0, b1 *d2graph.Graph)
	rec = func(path string, b0, b1 *d2graph.Graph) {
		if class != "" {
			return
		}
		before, after := snapshot(b0, false), snapshot(b1, true)
		if class, detail = compareSnap(engine, path, b0, before, after); class != "" {
			return
		}
		if class, detail = coherence(engine, path, b1); class != "" {
			return
		}
		for _, o := range before.Objects {
			sig = append(sig, situation(b0, o.AbsID))
		}
		for _, e := range before.Edges {
			sig = append(sig, "e:"+edgeSituation(b0, e))
		}
		for _, l := range [][2][]*d2graph.Graph{{b0.Layers, b1.Layers}, {b0.Scenarios, b1.Scenarios}, {b0.Steps, b1.Steps}} {
			if len(l[0]) != len(l[1]) {
				class, detail = "board-count-changed:"+engine, fmt.Sprintf("board %s: %d -> %d sub-boards", path, len(l[0]), len(l[1]))
				return
			}
			for i := range l[0] {
				rec(path+"/"+l[0][i].Name, l[0][i], l[1][i])
			}
		}
	}
	rec("root", g0, g)
	if class != "" {
		return eng.Bad(class, detail)
	}
	// exported diagram is one-to-one with the graph (what the renderer sees)
	boardsOf(d, g, func(path string, bd *d2target.Diagram, bg *d2graph.Graph) {
		if class == "" && (len(bd.Shapes) != len(bg.Objects) || len(bd.Connections) != len(bg.Edges)) {
			class, detail = "export-count-mismatch:"+engine, fmt.Sprintf("board %s: %d shapes for %d objects, %d connections for %d edges", path, len(bd.Shapes), len(bg.Objects), len(bd.Connections), len(bg.Edges))
		}
	})
	if class != "" {
		return eng.Bad(class, detail)
	}
	nested := false
	for _, s := range sig {
		if s != "plain" && s != "e:plain" {
			nested = true
		}
	}
	return eng.OK(engine+"|"+strings.Join(sig, ","), nested)
}

// FLNest: the nesting sub-fragment (special diagrams inside each other, near groups, container grid
// cells, connections that cross diagram boundaries).
func FLNest() []string {
	return []string{
		"a",
		"c.d -> a",
		"g: {grid-columns: 2; x; y; z}",
		"g.x: {k -> l}",
		"g.x -> g.y",
		"a -> g.x",
		"g.x.k -> a",
		"c.g2: {grid-rows: 1; x; y}",
		"c.g2.x -> g.y",
		"s: {shape: sequence_diagram; p -> q}",
		"c.s2: {shape: sequence_diagram; p -> q: hi; q.t -> p}",
		"g.sq: {shape: sequence_diagram; p -> q}",
		"g.sq -> g.x",
		"c.s2 -> a",
		"s.p: {grid-rows: 1; u; v}",
		"c.s2.grp: {p -> q}",
		// a group declared BEFORE a later actor (d2sequence re-sorts the children as actors first, then groups)
		"c.s3: {shape: sequence_diagram; p; q; grp: {p -> q}; r; q -> r}",
		"shape: sequence_diagram; p; q; grp: {p -> q}; r; q -> r",
		"n: {near: top-center; x -> y}",
		"n: {near: bottom-left; grid-rows: 1; x; y}",
		"m: {near: top-right; shape: sequence_diagram; p -> q}",
		"n.x -> n.y.z",
		"layers: {l1: {g: {grid-rows: 1; x.k -> y}}}",
	}
}

func FLNestCore() []string {
	return []string{
		"c.d -> a",
		"g: {grid-columns: 2; x; y; z}",
		"g.x: {k -> l}",
		"g.x -> g.y",
		"g.x.k -> a",
		"c.g2: {grid-rows: 1; x; y}",
		"c.g2.x -> g.y",
		"c.s2: {shape: sequence_diagram; p -> q: hi; q.t -> p}",
		"g.sq: {shape: sequence_diagram; p -> q}",
		"g.sq -> g.x",
		"c.s2 -> a",
		"c.s3: {shape: sequence_diagram; p; q; grp: {p -> q}; r; q -> r}",
		"n: {near: top-center; x -> y}",
		"n: {near: bottom-left; grid-rows: 1; x; y}",
		"m: {near: top-right; shape: sequence_diagram; p -> q}",
	}
}

func init() {
	eng.Register(&eng.Check{
		ID: "C18", Level: "exploration", HangBound: 900 * time.Second,
		QuickBudget: 240 * time.Second, ThoroughBudget: 24 * time.Minute,
		Rule: "every program of <=k statements over the nesting fragment FLnest (grids, container grid cells, sequence diagrams in containers and grids and as the whole board, a sequence group declared before a later actor, grid inside a sequence actor, constant-near groups that are containers/grids/sequence diagrams, connections crossing diagram boundaries, a layer) and over FLcore, laid out through d2lib.Compile with dagre and ELK; the structure (object ids in order, parent ids, children order, connections with endpoints/arrows/index/label in order) of every board after d2compiler.Compile is compared with the structure after layout; non-trivial = at least one object or connection sits inside a special (grid/sequence/near) diagram",
		Assumptions: []string{
			"compilation is deterministic (C08), so compiling twice gives the pre-layout structure without a hook",
			"lifeline connections that d2sequence appends for drawing (destination is a synthetic lifeline-end object) are not counted as added connections",
			"diagrams using features the engine declares unsupported, and diagrams whose layout errors (C17), are outside the space",
			"pointer coherence (each object exactly once in its parent's children, connection endpoints are members of Graph.Objects) is checked as part of 'same parent relations and endpoints'",
		},
		Oracles: map[string]eng.Oracle{"layout": c18Oracle},
		Run: func(w *eng.W) {
			nest, ncore, core, small := FLNest(), FLNestCore(), FLCore(), FLSmall()
			w.Note("alphabet_sizes", fmt.Sprintf("FLnest=%d FLnestcore=%d FLcore=%d FLsmall=%d", len(nest), len(ncore), len(core), len(small)))
			chunked(w, "FLnest<=2:dagre", 2, func(emit func(string, string)) {
				for k := 1; k <= 2; k++ {
					forPrograms("", nest, k, func(src string) { emit("layout", mkIn("dagre", src)) })
				}
			})
			if !w.Thorough() {
				chunked(w, "FLnestcore<=2:elk", 4, func(emit func(string, string)) {
					for k := 1; k <= 2; k++ {
						forPrograms("", ncore, k, func(src string) { emit("layout", mkIn("elk", src)) })
					}
				})
				chunked(w, "FLnestcore=3:dagre", 6, func(emit func(string, string)) {
					forPrograms("", ncore, 3, func(src string) { emit("layout", mkIn("dagre", src)) })
				})
				chunked(w, "FLsmall=2:dagre", 2, func(emit func(string, string)) {
					forPrograms("", small, 2, func(src string) { emit("layout", mkIn("dagre", src)) })
				})
			} else {
				chunked(w, "FLnest<=2:elk", 8, func(emit func(string, string)) {
					for k := 1; k <= 2; k++ {
						forPrograms("", nest, k, func(src string) { emit("layout", mkIn("elk", src)) })
					}
				})
				chunked(w, "FLnest=3:dagre", 16, func(emit func(string, string)) {
					forPrograms("", nest, 3, func(src string) { emit("layout", mkIn("dagre", src)) })
				})
				chunked(w, "FLnestcore=3:elk", 16, func(emit func(string, string)) {
					forPrograms("", ncore, 3, func(src string) { emit("layout", mkIn("elk", src)) })
				})
				chunked(w, "FLcore=2:dagre", 8, func(emit func(string, string)) {
					forPrograms("", core, 2, func(src string) { emit("layout", mkIn("dagre", src)) })
				})
				chunked(w, "FLsmall=2:elk", 8, func(emit func(string, string)) {
					forPrograms("", small, 2, func(src string) { emit("layout", mkIn("elk", src)) })
				})
			}
		},
	})
}
