package layouta

import (
	"fmt"
	"os"
	"time"

	"oss.terrastruct.com/d2/d2graph"
	"oss.terrastruct.com/d2/d2target"

	"verif/h/eng"
	"verif/h/u"
)

// dbg-layouta <engine> <file|-e src>: lay out one diagram and dump geometry (development aid).
func init() {
	eng.Internal["dbg-layouta"] = func(args []string) {
		if len(args) >= 1 && args[0] == "corpus" {
			c := corpusFiles()
			fmt.Println(len(u.Corpus()), len(c))
			return
		}
		engine := args[0]
		var src string
		if args[1] == "-e" {
			src = args[2]
		} else {
			b, err := os.ReadFile(args[1])
			if err != nil {
				panic(err)
			}
			src = string(b)
		}
		t0 := time.Now()
		d, g, err := layout(engine, src)
		fmt.Println("err:", err, "took", time.Since(t0))
		if err != nil {
			return
		}
		boardsOf(d, g, func(path string, bd *d2target.Diagram, bg *d2graph.Graph) {
			fmt.Println("board", path)
			for i, o := range bg.Objects {
				lp, ip := "-", "-"
				if o.LabelPosition != nil {
					lp = *o.LabelPosition
				}
				if o.IconPosition != nil {
					ip = *o.IconPosition
				}
				fmt.Printf("  obj %-12q shape=%-10s tl=%v w=%v h=%v label=%dx%d lp=%s ip=%s exported=(%d,%d %dx%d)\n", o.AbsID(), o.Shape.Value, o.TopLeft, o.Width, o.Height, o.LabelDimensions.Width, o.LabelDimensions.Height, lp, ip, bd.Shapes[i].Pos.X, bd.Shapes[i].Pos.Y, bd.Shapes[i].Width, bd.Shapes[i].Height)
			}
			for _, e := range bg.Edges {
				fmt.Printf("  edge %-14q %s\n", e.AbsID(), routeStr(e))
			}
		})
		for _, id := range []string{"C17", "C18", "C19", "C20", "C24", "C26"} {
			c := eng.Registry[id]
			if c == nil {
				continue
			}
			if o := c.Oracles["layout"]; o != nil {
				r := o(mkIn(engine, src))
				if r.Fail != nil {
					fmt.Printf("%s: FAIL %s\n   %s\n", id, r.Fail.Class, r.Fail.Detail)
				} else {
					fmt.Printf("%s: ok %.100s\n", id, r.Outcome)
				}
			}
		}
	}
}
