package layouta

import (
	"fmt"
	"math"
	"strings"
	"time"

	"oss.terrastruct.com/d2/d2graph"
	"oss.terrastruct.com/d2/lib/label"

	"verif/h/eng"
	"verif/h/u"
)

type fbox struct{ x0, y0, x1, y1 float64 }

func (b fbox) String() string {
	return fmt.Sprintf("[x %.1f..%.1f, y %.1f..%.1f]", b.x0, b.x1, b.y0, b.y1)
}

func (b *fbox) add(x0, y0, x1, y1 float64) {
	b.x0, b.y0 = math.Min(b.x0, x0), math.Min(b.y0, y0)
	b.x1, b.y1 = math.Max(b.x1, x1), math.Max(b.y1, y1)
}

func emptyBox() fbox { return fbox{math.Inf(1), math.Inf(1), math.Inf(-1), math.Inf(-1)} }

func objBox(o *d2graph.Object) fbox {
	return fbox{o.TopLeft.X, o.TopLeft.Y, o.TopLeft.X + o.Width, o.TopLeft.Y + o.Height}
}

// mainBoxes returns the bounding box of the main content (objects without a constant-near ancestor):
// shapes only, and shapes + outside labels + connection routes (what is drawn for the main content,
// connection labels aside). With no main content both are the point (0,0).
func mainBoxes(g *d2graph.Graph) (shapes, drawn fbox, n int) {
	shapes, drawn = emptyBox(), emptyBox()
	for _, o := range g.Objects {
		if o.OuterNearContainer() != nil && o.OuterNearContainer().IsConstantNear() {
			continue
		}
		n++
		b := objBox(o)
		shapes.add(b.x0, b.y0, b.x1, b.y1)
		drawn.add(b.x0, b.y0, b.x1, b.y1)
		if o.HasLabel() && o.LabelPosition != nil {
			lp := label.FromString(*o.LabelPosition)
			if lp.IsOutside() {
				tl := lp.GetPointOnBox(o.Box, label.PADDING, float64(o.LabelDimensions.Width), float64(o.LabelDimensions.Height))
				drawn.add(tl.X, tl.Y, tl.X+float64(o.LabelDimensions.Width), tl.Y+float64(o.LabelDimensions.Height))
			}
		}
	}
	for _, e := range g.Edges {
		if e.Src == nil || e.Dst == nil || e.Src.OuterNearContainer() != nil || e.Dst.OuterNearContainer() != nil {
			continue
		}
		for _, p := range e.Route {
			drawn.add(p.X, p.Y, p.X, p.Y)
		}
	}
	if n == 0 {
		shapes, drawn = fbox{}, fbox{}
	}
	return
}

const c24Tol = 1.0

func nearKindOf(o *d2graph.Object) string {
	k := "leaf"
	if len(o.ChildrenArray) > 0 {
		k = "container"
	}
	if o.LabelPosition != nil && label.FromString(*o.LabelPosition).IsOutside() {
		k += "+outside-label"
	}
	return k
}

func c24Oracle(in string) eng.Res {
	engine, src := splitIn(in)
	g0, _, err := u.Compile(src)
	if err != nil {
		return eng.OK("not-compilable", false)
	}
	if why := unsupported(engine, g0); why != "" {
		return eng.OK("unsupported-feature", false)
	}
	_, g, err := layout(engine, src)
	if err != nil {
		return eng.OK("layout-error(C17):"+errClass(err), false)
	}
	if g.Root.IsGridDiagram() || g.Root.IsSequenceDiagram() {
		return eng.OK("root-special-diagram", false)
	}
	bs, bd, nmain := mainBoxes(g)
	var sig []string
	nn := 0
	for _, o := range g.Objects {
		if o.Parent != g.Root || !o.IsConstantNear() {
			continue
		}
		nn++
		pos := d2graph.Key(o.NearKey)[0]
		nb := objBox(o)
		kind := nearKindOf(o)
		fail := func(what, detail string) eng.Res {
			return eng.Bad("near-"+what+":"+engine+":"+pos+":"+kind, fmt.Sprintf("near shape %q (%s) at %v; main content shapes box %v, drawn box %v (%d main objects): %s", o.AbsID(), pos, nb, bs, bd, nmain, detail))
		}
		v, h, _ := strings.Cut(pos, "-")
		switch v {
		case "top":
			if nb.y1 > bs.y0+c24Tol {
				return fail("not-above", fmt.Sprintf("bottom %.1f > top of content %.1f", nb.y1, bs.y0))
			}
		case "bottom":
			if nb.y0 < bs.y1-c24Tol {
				return fail("not-below", fmt.Sprintf("top %.1f < bottom of content %.1f", nb.y0, bs.y1))
			}
		case "center":
			c := (nb.y0 + nb.y1) / 2
			if math.Abs(c-(bs.y0+bs.y1)/2) > c24Tol && math.Abs(c-(bd.y0+bd.y1)/2) > c24Tol {
				return fail("not-centred-vertically", fmt.Sprintf("centre y %.1f, content centre %.1f (shapes) / %.1f (drawn)", c, (bs.y0+bs.y1)/2, (bd.y0+bd.y1)/2))
			}
		}
		switch h {
		case "left":
			if nb.x1 > bs.x0+c24Tol {
				return fail("not-left", fmt.Sprintf("right %.1f > left of content %.1f", nb.x1, bs.x0))
			}
		case "right":
			if nb.x0 < bs.x1-c24Tol {
				return fail("not-right", fmt.Sprintf("left %.1f < right of content %.1f", nb.x0, bs.x1))
			}
		case "center":
			c := (nb.x0 + nb.x1) / 2
			if math.Abs(c-(bs.x0+bs.x1)/2) > c24Tol && math.Abs(c-(bd.x0+bd.x1)/2) > c24Tol {
				return fail("not-centred-horizontally", fmt.Sprintf("centre x %.1f, content centre %.1f (shapes) / %.1f (drawn)", c, (bs.x0+bs.x1)/2, (bd.x0+bd.x1)/2))
			}
		}
		sig = append(sig, fmt.Sprintf("%s:%s:%.0f,%.0f", pos, kind, nb.x0-bs.x0, nb.y0-bs.y0))
	}
	return eng.OK(engine+"|"+strings.Join(sig, " "), nn > 0)
}

var c24Mains = []string{
	"",
	"a",
	"a -> b -> c2",
	"c.d -> c.e",
	"a; b; c2; d2; e2",
	"a -> b -> c2 -> d2",
	"a: Lorem ipsum dolor sit {label.near: outside-left-center}\na -> b\nb: {label.near: outside-bottom-center}",
	"g: {grid-rows: 2; x; y; z}\na -> g",
	"direction: right\na -> b: Lorem ipsum dolor sit amet\nb -> a",
}

// near shape kinds: %s is the constant
var c24Kinds = []string{
	"{near: %s}",
	"Lorem ipsum dolor sit amet consectetur adipiscing {near: %s}",
	"{near: %s; x -> y}",
	"{near: %s; label.near: outside-top-center}",
	"{near: %s; label.near: outside-left-center}",
	"{near: %s; x; label.near: outside-bottom-center}",
}

// c24Programs enumerates main × every subset of exactly k constants × every assignment of kinds.
func c24Programs(k, nkinds int, visit func(src string)) { c24ProgramsM(c24Mains, k, nkinds, visit) }

func c24ProgramsM(mains []string, k, nkinds int, visit func(src string)) {
	n := len(nearConstants)
	var subset []int
	var recSub func(start int)
	recSub = func(start int) {
		if len(subset) == k {
			idx := make([]string, nkinds)
			for i := range idx {
				idx[i] = string(rune('0' + i))
			}
			u.Seqs(idx, k, func(ks []string) {
				for _, m := range mains {
					var sb strings.Builder
					sb.WriteString(m)
					for j, ci := range subset {
						if sb.Len() > 0 {
							sb.WriteString("\n")
						}
						fmt.Fprintf(&sb, "t%d: "+c24Kinds[int(ks[j][0]-'0')], j+1, nearConstants[ci])
					}
					visit(sb.String())
				}
			})
			return
		}
		for i := start; i < n; i++ {
			subset = append(subset, i)
			recSub(i + 1)
			subset = subset[:len(subset)-1]
		}
	}
	recSub(0)
}

func init() {
	eng.Register(&eng.Check{
		ID: "C24", Level: "exploration", HangBound: 900 * time.Second,
		QuickBudget: 240 * time.Second, ThoroughBudget: 24 * time.Minute,
		Rule: "main content in 9 small diagrams (empty, leaf, chain, container, row of leaves, tall chain, outside labels, grid + connection, horizontal with labelled connections) x every subset of <=k of the 8 near constants x every assignment of near-shape kinds (leaf, long label, container with a connection, outside-top label, outside-left label, container with outside-bottom label), plus every ordered pair of different kinds sharing one constant (8 constants x 12 / 30 pairs x 4 / 9 mains), laid out with dagre / ELK; each top-level constant-near shape's box is compared with the bounding box of the main content; non-trivial = at least one near shape was placed; outcome = offsets of the near shapes from the content box",
		Assumptions: []string{
			"'outside the bounding box' is judged against the box of the main content's shapes only (the weakest reading: outside labels and connection routes enlarge the box d2near uses, which only moves near shapes further out)",
			"'centred' accepts the centre of the shapes-only box or of the box of shapes + outside labels + connection routes, within 1 px",
			"float geometry of the laid-out graph is used (the exported integers are its truncation)",
			"diagrams whose root is itself a grid or sequence diagram are outside the space; near shapes that share a constant may overlap each other (overlap between near shapes is not part of the statement); each is still judged against the main content",
		},
		Oracles: map[string]eng.Oracle{"layout": c24Oracle},
		Run: func(w *eng.W) {
			w.Note("space", fmt.Sprintf("mains=%d kinds=%d constants=%d", len(c24Mains), len(c24Kinds), len(nearConstants)))
			chunked(w, "subsets=1:6kinds:dagre+elk", 3, func(emit func(string, string)) {
				c24Programs(1, 6, func(src string) {
					emit("layout", mkIn("dagre", src))
					emit("layout", mkIn("elk", src))
				})
			})
			// two (thorough: also three) near shapes of different kinds (hence sizes) sharing ONE constant: each must be
			// placed for its own size (a placement remembered per constant puts the second one over the content or off-centre)
			chunked(w, "shared-constant:ordered-kind-pairs:dagre+elk", 4, func(emit func(string, string)) {
				nk := w.Pick(4, 6)
				mains := c24Mains[:w.Pick(4, len(c24Mains))]
				for _, c := range nearConstants {
					for i := 0; i < nk; i++ {
						for j := 0; j < nk; j++ {
							if i == j {
								continue
							}
							for _, m := range mains {
								src := m
								if src != "" {
									src += "\n"
								}
								src += fmt.Sprintf("t1: "+c24Kinds[i]+"\nt2: "+c24Kinds[j], c, c)
								emit("layout", mkIn("dagre", src))
								emit("layout", mkIn("elk", src))
							}
						}
					}
				}
			})
			if !w.Thorough() {
				chunked(w, "subsets=2:4kinds:dagre", 8, func(emit func(string, string)) {
					c24Programs(2, 4, func(src string) { emit("layout", mkIn("dagre", src)) })
				})
			} else {
				chunked(w, "subsets=2:6kinds:dagre", 8, func(emit func(string, string)) {
					c24Programs(2, 6, func(src string) { emit("layout", mkIn("dagre", src)) })
				})
				chunked(w, "subsets=2:4kinds:elk", 16, func(emit func(string, string)) {
					c24Programs(2, 4, func(src string) { emit("layout", mkIn("elk", src)) })
				})
				chunked(w, "subsets=3:3kinds:dagre", 16, func(emit func(string, string)) {
					c24Programs(3, 3, func(src string) { emit("layout", mkIn("dagre", src)) })
				})
			}
		},
	})
}
