package layouta

import (
	"strings"
	"bytes"
	"context"
	"fmt"
	"os"
	"path/filepath"

	"oss.terrastruct.com/d2/d2graph"
	"oss.terrastruct.com/d2/d2lib"
	"oss.terrastruct.com/d2/d2plugin"
	"oss.terrastruct.com/d2/d2renderers/d2svg"
	"oss.terrastruct.com/util-go/go2"
	"oss.terrastruct.com/util-go/xmain"

	"verif/h/eng"
	"verif/h/u"
)

// The real child-process protocol: the harness binary itself serves as an external plugin
// "dagrex" (= d2plugin.Serve of the bundled dagre plugin under another name, because ListPlugins
// drops binaries whose name equals a bundled plugin). A two-line shell script d2plugin-dagrex on PATH
// execs it; d2plugin.ListPlugins/FindPlugin then build the genuine execPlugin.

type renamedPlugin struct {
	d2plugin.Plugin
	name string
}

func (r renamedPlugin) Info(ctx context.Context) (*d2plugin.PluginInfo, error) {
	i, err := r.Plugin.Info(ctx)
	if err != nil {
		return nil, err
	}
	c := *i
	c.Name = r.name
	return &c, nil
}

func init() {
	eng.Internal["d2plugin-dagrex"] = func(args []string) {
		os.Args = append([]string{"d2plugin-dagrex"}, args...)
		xmain.Main(d2plugin.Serve(renamedPlugin{&d2plugin.DagrePlugin, "dagrex"}))
	}
}

const execPluginDir = "/verif/.scratch/C26/bin"

var (
	execTries  int
	execPlugin d2plugin.Plugin
	execErr    error
)

// theExecPlugin sets the plugin up once; a failed set-up (the 10 s `info` limit on a loaded machine) is retried on the
// next two calls.
func theExecPlugin() (d2plugin.Plugin, error) {
	if execPlugin != nil || execTries >= 3 {
		return execPlugin, execErr
	}
	execTries++
	execErr = nil
	func() {
		self, err := os.Executable()
		if err != nil {
			execErr = err
			return
		}
		os.MkdirAll(execPluginDir, 0o755)
		script := filepath.Join(execPluginDir, "d2plugin-dagrex")
		tmp := fmt.Sprintf("%s.%d", script, os.Getpid())
		if err := os.WriteFile(tmp, []byte("#!/bin/sh\nexec "+self+" d2plugin-dagrex \"$@\"\n"), 0o755); err != nil {
			execErr = err
			return
		}
		os.Rename(tmp, script)
		os.Setenv("PATH", execPluginDir+":"+os.Getenv("PATH"))
		ps, err := d2plugin.ListPlugins(u.Bgctx)
		if err != nil {
			execErr = err
			return
		}
		execPlugin, execErr = d2plugin.FindPlugin(u.Bgctx, ps, "dagrex")
		if execErr != nil {
			execPlugin = nil
		}
	}()
	return execPlugin, execErr
}

// c26ExecOracle: in-process dagre vs. the same diagram laid out by a child process over stdin/stdout.
func c26ExecOracle(in string) eng.Res {
	_, src := splitIn(in)
	g0, _, err := u.Compile(src)
	if err != nil {
		return eng.OK("not-compilable", false)
	}
	if why := unsupported("dagre", g0); why != "" {
		return eng.OK("unsupported-feature", false)
	}
	d1, _, err := layout("dagre", src)
	if err != nil {
		return eng.OK("layout-error(C17):"+errClass(err), false)
	}
	p, err := theExecPlugin()
	if err != nil {
		// d2plugin gives a plugin 10 s to answer `info`; on a loaded machine starting the harness binary as a plugin can
		// take longer. That says nothing about the property: the input is counted as not evaluated.
		return eng.OK("inconclusive:exec-plugin-did-not-start:"+errClass(err), false)
	}
	if info, ierr := p.Info(u.Bgctx); info == nil || info.Type != "binary" {
		if ierr != nil {
			return eng.OK("inconclusive:exec-plugin-info-failed:"+errClass(ierr), false)
		}
		panic("harness: dagrex did not resolve to a binary plugin")
	}
	opts := &d2lib.CompileOptions{
		Ruler:  theRuler(),
		Layout: go2.Pointer("dagrex"),
		LayoutResolver: func(string) (d2graph.LayoutGraph, error) {
			return p.Layout, nil
		},
	}
	d2, _, err := d2lib.Compile(u.Bgctx, src, opts, &d2svg.RenderOpts{})
	if err != nil {
		if m := err.Error(); strings.Contains(m, "signal: killed") || strings.Contains(m, "deadline exceeded") || strings.Contains(m, "timed out") {
			return eng.OK("inconclusive:exec-plugin-timeout", false) // d2plugin's own wall-clock limits on a loaded machine
		}
		return eng.Bad("exec-protocol-layout-error:"+errClass(err), err.Error())
	}
	s1, e1 := d2svg.RenderMultiboard(d1, &d2svg.RenderOpts{})
	s2, e2 := d2svg.RenderMultiboard(d2, &d2svg.RenderOpts{})
	if e1 != nil || e2 != nil {
		if (e1 == nil) != (e2 == nil) {
			return eng.Bad("exec-protocol-render-error-differs", fmt.Sprintf("in-process: %v, protocol: %v", e1, e2))
		}
		return eng.OK("render-error-both", false)
	}
	same := len(s1) == len(s2)
	for i := 0; same && i < len(s1); i++ {
		same = bytes.Equal(s1[i], s2[i])
	}
	if !same {
		j1, j2 := mustJSON(d1), mustJSON(d2)
		paths := u.JSONDiffPaths(j1, j2)
		return eng.Bad("exec-protocol-result-differs:"+normPaths(paths), fmt.Sprintf("SVG differs; exported diagram differs at %v\n%s", paths, u.FirstDiff(j1, j2)))
	}
	total := 0
	for _, b := range s1 {
		total += len(b)
	}
	return eng.OK(fmt.Sprintf("exec|svg%d", total), len(g0.Objects) > 0)
}
