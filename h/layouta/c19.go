package layouta

import (
	"fmt"
	"sort"
	"strings"
	"time"

	"oss.terrastruct.com/d2/d2graph"
	"oss.terrastruct.com/d2/d2target"

	"verif/h/eng"
	"verif/h/u"
)

type ibox struct{ x0, y0, x1, y1 int }

func boxOf(s *d2target.Shape) ibox {
	return ibox{s.Pos.X, s.Pos.Y, s.Pos.X + s.Width, s.Pos.Y + s.Height}
}

func (b ibox) String() string {
	return fmt.Sprintf("[x %d..%d, y %d..%d]", b.x0, b.x1, b.y0, b.y1)
}

// containerKind names the layout mechanism responsible for placing the children of parent.
func containerKind(g *d2graph.Graph, parent *d2graph.Object) string {
	switch {
	case parent == g.Root && g.Root.IsGridDiagram():
		return "root-grid"
	case parent == g.Root:
		return "top-level"
	case parent.IsGridDiagram():
		return "grid"
	case parent.IsSequenceDiagram():
		return "sequence"
	}
	k := "container"
	for p := parent; p != nil && p != g.Root; p = p.Parent {
		if p.Parent != nil && p.Parent.IsGridDiagram() {
			k = "container-in-grid-cell"
		}
		if p.IsConstantNear() {
			k = "container-in-near"
		}
	}
	return k
}

func childKind(o *d2graph.Object) string {
	switch {
	case o.IsSequenceDiagram():
		return "sequence-diagram"
	case o.IsGridDiagram():
		return "grid-diagram"
	case len(o.ChildrenArray) > 0:
		return "container"
	}
	return "leaf"
}

const c19Tol = 1

// checkContainment validates C19 on one board. Returns class, detail.
func checkContainment(engine, path string, bd *d2target.Diagram, bg *d2graph.Graph) (string, string, int) {
	idx := map[*d2graph.Object]int{}
	for i, o := range bg.Objects {
		idx[o] = i
	}
	checked := 0
	inSeq := func(o *d2graph.Object) bool { return o.OuterSequenceDiagram() != nil }
	// containment
	for i, o := range bg.Objects {
		if o.Parent == nil || o.Parent == bg.Root || inSeq(o) {
			continue
		}
		pi, ok := idx[o.Parent]
		if !ok {
			continue // C18 reports stale parents
		}
		cb, pb := boxOf(&bd.Shapes[i]), boxOf(&bd.Shapes[pi])
		checked++
		if cb.x0 < pb.x0-c19Tol || cb.y0 < pb.y0-c19Tol || cb.x1 > pb.x1+c19Tol || cb.y1 > pb.y1+c19Tol {
			side := ""
			if cb.x0 < pb.x0-c19Tol {
				side += "L"
			}
			if cb.x1 > pb.x1+c19Tol {
				side += "R"
			}
			if cb.y0 < pb.y0-c19Tol {
				side += "T"
			}
			if cb.y1 > pb.y1+c19Tol {
				side += "B"
			}
			return "child-outside-container:" + engine + ":" + containerKind(bg, o.Parent) + ">" + childKind(o),
				fmt.Sprintf("board %s: %q %v is not inside its container %q %v (sides %s)", path, o.AbsID(), cb, o.Parent.AbsID(), pb, side), checked
		}
	}
	// sibling overlap
	groups := map[*d2graph.Object][]int{}
	var parents []*d2graph.Object
	for i, o := range bg.Objects {
		if o.Parent == nil || inSeq(o) {
			continue
		}
		if o.Parent == bg.Root && o.IsConstantNear() {
			continue // placed by d2near relative to the bounding box: C24
		}
		if _, seen := groups[o.Parent]; !seen {
			parents = append(parents, o.Parent)
		}
		groups[o.Parent] = append(groups[o.Parent], i)
	}
	for _, p := range parents {
		ix := groups[p]
		for a := 0; a < len(ix); a++ {
			for b := a + 1; b < len(ix); b++ {
				ba, bb := boxOf(&bd.Shapes[ix[a]]), boxOf(&bd.Shapes[ix[b]])
				checked++
				ox := min(ba.x1, bb.x1) - max(ba.x0, bb.x0)
				oy := min(ba.y1, bb.y1) - max(ba.y0, bb.y0)
				if ox > c19Tol && oy > c19Tol {
					ka, kb := childKind(bg.Objects[ix[a]]), childKind(bg.Objects[ix[b]])
					if ka > kb {
						ka, kb = kb, ka
					}
					return "siblings-overlap:" + engine + ":" + containerKind(bg, p) + ":" + ka + "+" + kb,
						fmt.Sprintf("board %s: %q %v and %q %v (same container %q) overlap by %dx%d px", path, bg.Objects[ix[a]].AbsID(), ba, bg.Objects[ix[b]].AbsID(), bb, p.AbsID(), ox, oy), checked
				}
			}
		}
	}
	return "", "", checked
}

func c19Oracle(in string) eng.Res {
	engine, src := splitIn(in)
	g0, _, err := u.Compile(src)
	if err != nil {
		return eng.OK("not-compilable", false)
	}
	if why := unsupported(engine, g0); why != "" {
		return eng.OK("unsupported-feature", false)
	}
	d, g, err := layout(engine, src)
	if err != nil {
		return eng.OK("layout-error(C17):"+errClass(err), false)
	}
	var class, detail string
	total := 0
	var sig []string
	boardsOf(d, g, func(path string, bd *d2target.Diagram, bg *d2graph.Graph) {
		if class != "" || len(bd.Shapes) != len(bg.Objects) {
			return
		}
		var n int
		class, detail, n = checkContainment(engine, path, bd, bg)
		total += n
		for i := range bd.Shapes {
			b := boxOf(&bd.Shapes[i])
			sig = append(sig, fmt.Sprintf("%d,%d,%d,%d", b.x0, b.y0, b.x1, b.y1))
		}
	})
	if class != "" {
		return eng.Bad(class, detail)
	}
	sort.Strings(sig)
	return eng.OK(engine+"|"+strings.Join(sig, " "), total > 0)
}

// FLGeo = FL without sequence-diagram-only statements whose content is excluded anyway, plus a few
// statements that crowd a container (several children, wide labels) — used by C19.
func FLGeo() []string {
	return cat(
		[]string{"a: Lorem ipsum dolor sit amet consectetur", "b: \"\""},
		[]string{"a.shape: circle", "a.shape: cloud", "a.shape: person", "a.shape: text", "a.shape: hexagon",
			"a: {shape: class; +f: int; -m(): void}", "a: {shape: image; icon: " + icon + "}"},
		[]string{"c.d", "c.e", "c.d.f", "c: Container label that is rather long", "c.shape: cloud", "c.shape: circle", "c.d.shape: diamond",
			"c.d: Lorem ipsum dolor sit amet", "c.h.i.j"},
		[]string{"a -> b", "a -> a", "a <-> b: Lorem ipsum dolor", "a -> c", "c.d -> c.e", "c.d -> c.e: Lorem ipsum dolor sit", "a -> c.d", "c.d.f -> a", "c.d -> c.d", "c.e -> c.d.f"},
		flDirections(),
		[]string{"n.near: top-center", "n.x -> n.y"},
		[]string{"g: {grid-rows: 2; x; y; z}", "g.grid-gap: 0", "g.x.k -> g.x.l", "g.x -> g.y", "a -> g.x", "c.g2: {grid-columns: 1; x; y}"},
		[]string{"c.s2: {shape: sequence_diagram; p -> q}"},
		[]string{"a.label.near: outside-top-left", "c.d.label.near: outside-right-center", "c.label.near: bottom-right", "c.label.near: outside-left-center",
			"c: {icon: " + icon + "; icon.near: top-left}", "c.d: {icon: " + icon + "; icon.near: outside-left-center}", "c.label.near: border-top-center"},
		[]string{"a.style.3d: true", "c.d.style.3d: true", "c.d.style.multiple: true", "a.width: 300", "c.d.width: 300", "c.d.height: 10", "c.style.3d: true", "c.style.stroke-width: 15"},
	)
}

// c19GridGaps: grid bodies x placements (top-level container, inside a container, inside a grid cell, with a sibling and
// a connection) x every assignment of {unset, 0, 10, 100} to grid-gap, horizontal-gap and vertical-gap. The padding
// between a nested grid's container and its cells is computed from these keywords at two separate sites of d2grid.
func c19GridGaps(thorough bool, visit func(src string, elk bool)) {
	bodies := []string{"grid-rows: 2; x; y; z", "grid-columns: 2; x; y; z", "grid-rows: 2; grid-columns: 2; x; y; z; w: Lorem ipsum dolor"}
	places := []string{"g: {%s}", "c.g: {%s}\nc.d", "o: {grid-columns: 1; g: {%s}; k}", "g: Grid label {%s}\na -> g"}
	vals := []string{"", "0", "10", "100"}
	for _, b := range bodies {
		for pi, pl := range places {
			for _, gg := range vals {
				for _, hg := range vals {
					for _, vg := range vals {
						body := b
						if gg != "" {
							body += "; grid-gap: " + gg
						}
						if hg != "" {
							body += "; horizontal-gap: " + hg
						}
						if vg != "" {
							body += "; vertical-gap: " + vg
						}
						visit(fmt.Sprintf(pl, body), thorough || (pi == 0 && gg == ""))
					}
				}
			}
		}
	}
}

// c19Overflow: grids that declare BOTH grid-rows and grid-columns (in either order: the first keyword is the dominant
// direction) and hold more cells than rows*columns, so that d2grid has to grow the other dimension.
func c19Overflow(visit func(src string)) {
	names := []string{"a", "b", "c2", "d", "e", "f", "h", "i", "j", "k", "l", "m", "n2", "o", "p", "q", "r", "s", "t"}
	for r := 1; r <= 4; r++ {
		for c := 1; c <= 4; c++ {
			for extra := 1; extra <= 3; extra++ {
				n := r*c + extra
				for _, rowsFirst := range []bool{true, false} {
					body := fmt.Sprintf("grid-columns: %d; grid-rows: %d", c, r)
					if rowsFirst {
						body = fmt.Sprintf("grid-rows: %d; grid-columns: %d", r, c)
					}
					body += "; " + strings.Join(names[:n], "; ")
					visit("g: {" + body + "}")
					visit("c.g: {" + body + "}\nc.d -> c.g")
				}
			}
		}
	}
}

func init() {
	eng.Register(&eng.Check{
		ID: "C19", Level: "exploration", HangBound: 900 * time.Second,
		QuickBudget: 240 * time.Second, ThoroughBudget: 24 * time.Minute,
		Rule: "every program of <=k statements over the geometry fragment FLgeo (FL without stand-alone sequence diagrams, plus crowded containers: several children, long labels, outside labels/icons, 3d/multiple, explicit sizes, grids and a sequence diagram as children) laid out with dagre and ELK, plus nested grids (3 bodies x 4 placements) x every assignment of {unset,0,10,100} to grid-gap / horizontal-gap / vertical-gap, plus grids with both grid-rows and grid-columns <=4 in either keyword order holding 1..3 cells more than rows*columns (top level and inside a container); on the exported d2target.Diagram every shape must lie inside its parent shape's box and shapes with the same parent (top level included) must not overlap, both within 1 px; non-trivial = at least one child/parent or sibling pair was compared; outcome = multiset of exported boxes",
		Assumptions: []string{
			"objects inside sequence diagrams are excluded (C23); the sequence diagram object itself is checked as a child and sibling",
			"top-level constant-near shapes are excluded from the sibling clause (C24 places them relative to the bounding box)",
			"boxes only: labels, icons and 3d/multiple decorations outside the box are not part of this property",
			"diagrams using features the engine declares unsupported, and diagrams whose layout errors (C17), are outside the space",
		},
		Oracles: map[string]eng.Oracle{"layout": c19Oracle},
		Run: func(w *eng.W) {
			geo, small, full := FLGeo(), FLSmall(), FLFull()
			w.Note("alphabet_sizes", fmt.Sprintf("FLgeo=%d FLsmall=%d FLfull=%d", len(geo), len(small), len(full)))
			chunked(w, "FLfull<=1:dagre+elk", 2, func(emit func(string, string)) {
				forPrograms("", full, 1, func(src string) {
					emit("layout", mkIn("dagre", src))
					emit("layout", mkIn("elk", src))
				})
			})
			chunked(w, "FLgeo=2:dagre", 6, func(emit func(string, string)) {
				forPrograms("", geo, 2, func(src string) { emit("layout", mkIn("dagre", src)) })
			})
			chunked(w, "nested-grids*gap-cube:dagre(+elk)", 4, func(emit func(string, string)) {
				c19GridGaps(w.Thorough(), func(src string, elk bool) {
					emit("layout", mkIn("dagre", src))
					if elk {
						emit("layout", mkIn("elk", src))
					}
				})
			})
			chunked(w, "overflowing-grids:rows,cols<=4:dagre+elk", 2, func(emit func(string, string)) {
				c19Overflow(func(src string) {
					emit("layout", mkIn("dagre", src))
					emit("layout", mkIn("elk", src))
				})
			})
			if !w.Thorough() {
				chunked(w, "FLsmall=2:elk", 6, func(emit func(string, string)) {
					forPrograms("", small, 2, func(src string) { emit("layout", mkIn("elk", src)) })
				})
			} else {
				chunked(w, "FLgeo=2:elk", 16, func(emit func(string, string)) {
					forPrograms("", geo, 2, func(src string) { emit("layout", mkIn("elk", src)) })
				})
				chunked(w, "FLsmall=3:dagre", 16, func(emit func(string, string)) {
					forPrograms("", small, 3, func(src string) { emit("layout", mkIn("dagre", src)) })
				})
			}
		},
	})
}
