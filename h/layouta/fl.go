package layouta

import "strings"

// The layout fragment FL (DESIGN.md §3 Group C). One statement = one top-level D2 declaration
// (possibly a map). All statements talk about the same small name pool so that programs of two or
// three statements interact:
//
//	a, b      leaves                 c        container (children d, e; d.f makes depth 3)
//	g         grid                   s        sequence diagram
//	n, m      constant-near shapes
//
// Sub-fragments are tagged so each property can pick the part that matters to it.

const icon = "https://icons.terrastruct.com/essentials/004-picture.svg"

var allShapes = []string{
	"rectangle", "square", "page", "parallelogram", "document", "cylinder", "queue", "package", "step",
	"callout", "stored_data", "person", "c4-person", "diamond", "oval", "circle", "hexagon", "cloud", "text",
	"code", "hierarchy",
}

var nearConstants = []string{
	"top-left", "top-center", "top-right", "center-left", "center-right", "bottom-left", "bottom-center", "bottom-right",
}

var directions = []string{"right", "left", "up", "down"}

// ---- statement groups --------------------------------------------------------------------------

var flLeaves = []string{
	"a",
	"b: \"\"",
	"a: Lorem ipsum dolor sit amet consectetur",
	"a: \"l1\\nl2\\nl3\"",
	"b: |md # Title\n  some *text*\n|",
}

func flShapes(name string) []string {
	var out []string
	for _, s := range allShapes {
		out = append(out, name+".shape: "+s)
	}
	out = append(out,
		name+": {shape: image; icon: "+icon+"}",
		name+": {shape: class; +f: int; -m(): void}",
		name+": {shape: sql_table; id: int {constraint: primary_key}; nm: text}",
	)
	return out
}

var flContainers = []string{
	"c.d",
	"c.e",
	"c.d.f",
	"c: Container label",
	"c.shape: circle",
	"c.shape: cloud",
}

var flConns = []string{
	"a -> b",
	"b -> a",
	"a -> a",
	"a -> b: lbl",
	"a <-> b: Lorem ipsum dolor",
	"a -- b",
	"a <- b",
	"a -> c",
	"c -> a",
	"c.d -> c.e",
	"a -> c.d",
	"c.d -> b",
	"c.d.f -> a",
	"a -> b: {source-arrowhead: 1; target-arrowhead: * {shape: diamond}}",
}

// connections that dagre's plugin declares unsupported (ELK supports them)
var flConnsDescendant = []string{
	"c -> c.d",
	"c -> c",
}

func flDirections() []string {
	var out []string
	for _, d := range directions {
		out = append(out, "direction: "+d)
	}
	return out
}

func flNears(name string) []string {
	var out []string
	for _, n := range nearConstants {
		out = append(out, name+".near: "+n)
	}
	return out
}

var flNearExtra = []string{
	"n.x -> n.y",                   // makes n a container with an inner connection
	"n: Lorem ipsum dolor sit amet", // long label
	"m.near: top-center",
	"m.near: bottom-right",
	"a.near: b", // near an object: neither bundled engine supports it
}

var flGrids = []string{
	"g: {grid-rows: 2; x; y; z}",
	"g: {grid-columns: 2; x; y; z}",
	"g: {grid-rows: 2; grid-columns: 2; x; y; z; w}",
	"g.grid-gap: 0",
	"g.vertical-gap: 40",
	"g.x.k -> g.x.l", // container cell with inner connection
	"g.x -> g.y",
	"a -> g.x",
	"g.grid-rows: 1",
}

var flSeqs = []string{
	"s: {shape: sequence_diagram; p -> q; q -> p: hi}",
	"s.shape: sequence_diagram",
	"s.p -> s.q: msg",
	"s.p.t -> s.q", // span
	"s.q -> s.q",   // self message
	"a -> s",
	"c.s2: {shape: sequence_diagram; p -> q}",
	"g.sq: {shape: sequence_diagram; p -> q}",
}

func flLabelIcon(name string) []string {
	out := []string{
		name + ".icon: " + icon,
	}
	for _, p := range []string{"top-left", "center-center", "bottom-right", "outside-top-left", "outside-top-center", "outside-left-center", "outside-right-bottom", "outside-bottom-center", "border-top-center", "border-left-center", "border-bottom-right"} {
		out = append(out, name+".label.near: "+p)
	}
	for _, p := range []string{"top-left", "outside-top-right", "outside-left-center", "outside-bottom-center", "border-right-center"} {
		out = append(out, name+": {icon: "+icon+"; icon.near: "+p+"}")
	}
	return out
}

func flStyles(name string) []string {
	return []string{
		name + ".style.3d: true",
		name + ".style.multiple: true",
		name + ".style.shadow: true",
		name + ".style.double-border: true",
		name + ".style.stroke-width: 0",
		name + ".style.stroke-width: 15",
		name + ".width: 300",
		name + ".height: 10",
		name + ".tooltip: tip text",
		name + ".link: https://example.com",
	}
}

var flNames = []string{
	"'x`y' -> b",
	"'${z}'.k",
	"'${z}' -> b",
	"\"q\\\\r\" -> \"l\\nf\"",
	"\"é 漢\": {\"→\"}",
	"c.'a.b' -> a",
}

var flBoards = []string{
	"layers: {l1: {a -> x.y}}",
	"scenarios: {s1: {c.d -> q}}",
}

func cat(groups ...[]string) []string {
	var out []string
	seen := map[string]bool{}
	for _, g := range groups {
		for _, s := range g {
			if !seen[s] {
				seen[s] = true
				out = append(out, s)
			}
		}
	}
	return out
}

// FLFull is the whole fragment (used at depth 1 everywhere and at depth 2 under dagre in thorough).
func FLFull() []string {
	return cat(flLeaves, flShapes("a"), flContainers, flConns, flConnsDescendant, flDirections(), flNears("n"), flNearExtra,
		flGrids, flSeqs, flLabelIcon("a"), flLabelIcon("c"), flStyles("a"), flStyles("c"), flNames, flBoards)
}

// FLCore is the part used at depth 2 under dagre in quick (≈ 60 statements): one representative per
// construct family, the families that interact geometrically kept whole.
func FLCore() []string {
	return cat(
		[]string{"a: Lorem ipsum dolor sit amet consectetur", "b: \"\""},
		[]string{"a.shape: circle", "a.shape: cloud", "a.shape: person", "a.shape: text", "a.shape: hexagon", "a.shape: cylinder",
			"a: {shape: class; +f: int; -m(): void}", "a: {shape: sql_table; id: int {constraint: primary_key}; nm: text}", "a: {shape: image; icon: " + icon + "}"},
		[]string{"c.d", "c.d.f", "c: Container label", "c.shape: cloud"},
		[]string{"a -> b", "a -> a", "a <-> b: Lorem ipsum dolor", "a <- b", "a -> c", "c.d -> c.e", "a -> c.d", "c.d.f -> a",
			"a -> b: {source-arrowhead: 1; target-arrowhead: * {shape: diamond}}"},
		flDirections(),
		[]string{"n.near: top-left", "n.near: top-center", "n.near: center-right", "n.near: bottom-center", "n.x -> n.y", "m.near: top-center"},
		[]string{"g: {grid-rows: 2; x; y; z}", "g: {grid-rows: 2; grid-columns: 2; x; y; z; w}", "g.grid-gap: 0", "g.x.k -> g.x.l", "g.x -> g.y", "a -> g.x"},
		[]string{"s: {shape: sequence_diagram; p -> q; q -> p: hi}", "s.p.t -> s.q", "a -> s", "c.s2: {shape: sequence_diagram; p -> q}", "g.sq: {shape: sequence_diagram; p -> q}"},
		[]string{"a.icon: " + icon, "a.label.near: outside-top-left", "a.label.near: outside-right-bottom", "a.label.near: border-bottom-right", "c.label.near: bottom-right",
			"c.label.near: outside-left-center", "c: {icon: " + icon + "; icon.near: top-left}", "a: {icon: " + icon + "; icon.near: outside-left-center}"},
		[]string{"a.style.3d: true", "a.style.multiple: true", "a.style.stroke-width: 15", "a.width: 300", "a.height: 10", "c.style.3d: true", "c.width: 300", "a.link: https://example.com"},
		[]string{"\"q\\\\r\" -> \"l\\nf\""},
		[]string{"layers: {l1: {a -> x.y}}"},
	)
}

// FLSmall is the part used at depth 2 under ELK in quick and at depth 3 under dagre in thorough (≈ 25).
func FLSmall() []string {
	return []string{
		"a: Lorem ipsum dolor sit amet consectetur",
		"a.shape: circle",
		"a.shape: cloud",
		"a: {shape: sql_table; id: int {constraint: primary_key}; nm: text}",
		"c.d",
		"c.d.f",
		"c: Container label",
		"a -> b",
		"a -> a",
		"a <-> b: Lorem ipsum dolor",
		"a -> c",
		"c.d -> c.e",
		"c.d.f -> a",
		"direction: right",
		"direction: up",
		"n.near: top-center",
		"n.near: center-right",
		"n.x -> n.y",
		"g: {grid-rows: 2; x; y; z}",
		"g.x.k -> g.x.l",
		"a -> g.x",
		"s: {shape: sequence_diagram; p -> q; q -> p: hi}",
		"a.label.near: outside-top-left",
		"c: {icon: " + icon + "; icon.near: top-left}",
		"a.style.3d: true",
		"a.width: 300",
	}
}

func hasAny(src string, subs ...string) bool {
	for _, s := range subs {
		if strings.Contains(src, s) {
			return true
		}
	}
	return false
}
