package layouta

import (
	"fmt"
	"time"

	"verif/h/eng"
)

func init() {
	eng.Internal["dbg-layouta-time"] = func(args []string) {
		for i := 0; i < 4; i++ {
			for _, e := range []string{"dagre", "elk"} {
				t0 := time.Now()
				_, _, err := layout(e, args[0])
				fmt.Println(e, err, time.Since(t0))
			}
		}
	}
}
