package layouta

import (
	"fmt"
	"syscall"
	"time"

	"verif/h/eng"
)

func cpuNow() time.Duration {
	var ru syscall.Rusage
	syscall.Getrusage(syscall.RUSAGE_SELF, &ru)
	return time.Duration(ru.Utime.Nano() + ru.Stime.Nano())
}

func init() {
	eng.Internal["dbg-layouta-time"] = func(args []string) {
		for i := 0; i < 4; i++ {
			for _, e := range []string{"dagre", "elk"} {
				t0, c0 := time.Now(), cpuNow()
				r := c17Oracle(mkIn(e, args[0]))
				fmt.Println(e, r.Fail == nil, "wall", time.Since(t0), "cpu", cpuNow()-c0)
			}
		}
	}
}
