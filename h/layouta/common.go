// Package layouta holds the layout checks C17, C18, C19, C20, C24, C26: one shared diagram
// enumerator (statement alphabet FL of DESIGN.md §3 Group C) and one layout driver that goes through
// the same d2lib.Compile path the CLI uses, for both bundled engines (dagre, ELK).
package layouta

import (
	"context"
	"fmt"
	"math"
	"regexp"
	"strings"
	"sync"

	"oss.terrastruct.com/d2/d2graph"
	"oss.terrastruct.com/d2/d2layouts/d2dagrelayout"
	"oss.terrastruct.com/d2/d2layouts/d2elklayout"
	"oss.terrastruct.com/d2/d2lib"
	"oss.terrastruct.com/d2/d2plugin"
	"oss.terrastruct.com/d2/d2renderers/d2svg"
	"oss.terrastruct.com/d2/d2target"
	"oss.terrastruct.com/d2/lib/textmeasure"
	"oss.terrastruct.com/util-go/go2"

	"verif/h/eng"
	"verif/h/u"
)

var (
	rulerOnce sync.Once
	ruler     *textmeasure.Ruler
)

func theRuler() *textmeasure.Ruler {
	rulerOnce.Do(func() {
		r, err := textmeasure.NewRuler()
		if err != nil {
			panic("textmeasure.NewRuler: " + err.Error())
		}
		ruler = r
	})
	return ruler
}

// coreLayout returns the engine's layout function exactly as the e2e tests and the CLI plugins wire it.
func coreLayout(engine string) d2graph.LayoutGraph {
	if engine == "elk" {
		return d2elklayout.DefaultLayout
	}
	return d2dagrelayout.DefaultLayout
}

// compileOpts builds d2lib options for an engine; wrap, if non-nil, decorates the core layout function.
func compileOpts(engine string, wrap func(d2graph.LayoutGraph) d2graph.LayoutGraph) *d2lib.CompileOptions {
	return &d2lib.CompileOptions{
		Ruler:  theRuler(),
		Layout: go2.Pointer(engine),
		LayoutResolver: func(e string) (d2graph.LayoutGraph, error) {
			l := coreLayout(e)
			if wrap != nil {
				l = wrap(l)
			}
			return l, nil
		},
	}
}

// layout compiles and lays out src with engine via d2lib.Compile.
func layout(engine, src string) (*d2target.Diagram, *d2graph.Graph, error) {
	return d2lib.Compile(u.Bgctx, src, compileOpts(engine, nil), &d2svg.RenderOpts{})
}

// unsupported tells whether the engine's plugin declares that it does not support a feature g uses
// (the CLI reports that as a user error after compiling); such diagrams are outside every layout
// property's space.
func unsupported(engine string, g *d2graph.Graph) string {
	var p d2plugin.Plugin = &d2plugin.DagrePlugin
	if engine == "elk" {
		p = &d2plugin.ELKPlugin
	}
	info, err := p.Info(context.Background())
	if err != nil {
		return ""
	}
	return featureErrAllBoards(info, g)
}

func featureErrAllBoards(info *d2plugin.PluginInfo, g *d2graph.Graph) string {
	if err := d2plugin.FeatureSupportCheck(info, g); err != nil {
		return err.Error()
	}
	for _, l := range [][]*d2graph.Graph{g.Layers, g.Scenarios, g.Steps} {
		for _, b := range l {
			if s := featureErrAllBoards(info, b); s != "" {
				return s
			}
		}
	}
	return ""
}

// splitIn splits a witness "engine\nsource".
func splitIn(in string) (engine, src string) {
	i := strings.IndexByte(in, '\n')
	if i < 0 {
		return in, ""
	}
	return in[:i], in[i+1:]
}

func mkIn(engine, src string) string { return engine + "\n" + src }

func finite(f float64) bool { return !math.IsNaN(f) && !math.IsInf(f, 0) }

// prog joins statements into a program.
func prog(stmts []string) string { return strings.Join(stmts, "\n") }

// forPrograms enumerates every sequence of exactly k statements over alpha, optionally after a fixed prefix.
func forPrograms(prefix string, alpha []string, k int, visit func(src string)) {
	u.Seqs(alpha, k, func(s []string) {
		p := prog(s)
		if prefix != "" {
			if p == "" {
				p = prefix
			} else {
				p = prefix + "\n" + p
			}
		}
		visit(p)
	})
}

// evalBoth evaluates oracle on src for the given engines.
func evalEngines(w *eng.W, oracle string, engines []string, src string) {
	for _, e := range engines {
		w.Eval(oracle, mkIn(e, src))
	}
}

var both = []string{"dagre", "elk"}
var dagreOnly = []string{"dagre"}
var elkOnly = []string{"elk"}

// errClass reduces an error message to a mechanism-level class (no names, no numbers).
var jsErrRe = regexp.MustCompile(`\b(SyntaxError|TypeError|ReferenceError|RangeError|EvalError|URIError|InternalError|GoError)\b`)

func errClass(err error) string {
	s := err.Error()
	if strings.Contains(s, "invalid position with infinity value") {
		return "object has invalid position with infinity value (validateObjectPositions)"
	}
	if m := jsErrRe.FindString(s); m != "" {
		// an error raised inside the JavaScript engine bridge: the JS error type is the mechanism; the
		// message text depends on the characters that leaked into the script
		pre := s
		if i := strings.Index(s, ":"); i > 0 {
			pre = s[:i]
		}
		return pre + ": js " + m
	}
	// strip quoted parts and digits
	var b strings.Builder
	inq := false
	for _, r := range s {
		switch {
		case r == '"' || r == '`':
			inq = !inq
			b.WriteRune('"')
		case inq:
		case r >= '0' && r <= '9':
			b.WriteByte('N')
		case r == '\n':
			b.WriteByte(' ')
		default:
			b.WriteRune(r)
		}
	}
	out := b.String()
	for strings.Contains(out, "NN") {
		out = strings.ReplaceAll(out, "NN", "N")
	}
	if len(out) > 110 {
		out = out[:110]
	}
	return out
}

func boardsOf(d *d2target.Diagram, g *d2graph.Graph, visit func(path string, d *d2target.Diagram, g *d2graph.Graph)) {
	var rec func(path string, d *d2target.Diagram, g *d2graph.Graph)
	rec = func(path string, d *d2target.Diagram, g *d2graph.Graph) {
		visit(path, d, g)
		for i := range g.Layers {
			if d != nil && i < len(d.Layers) {
				rec(path+"/layers."+g.Layers[i].Name, d.Layers[i], g.Layers[i])
			}
		}
		for i := range g.Scenarios {
			if d != nil && i < len(d.Scenarios) {
				rec(path+"/scenarios."+g.Scenarios[i].Name, d.Scenarios[i], g.Scenarios[i])
			}
		}
		for i := range g.Steps {
			if d != nil && i < len(d.Steps) {
				rec(path+"/steps."+g.Steps[i].Name, d.Steps[i], g.Steps[i])
			}
		}
	}
	rec("root", d, g)
}

func sprintf(f string, a ...any) string { return fmt.Sprintf(f, a...) }

// byDesignLayoutError: user-facing validations that d2 performs in the layout stage on purpose; the
// messages are pinned as expected errors by e2etests/regression_test.go. Diagrams rejected this way
// are treated like diagrams that do not compile.
func byDesignLayoutError(err error) bool {
	s := err.Error()
	for _, m := range []string{
		"no actors declared in sequence diagram",
		"could not find center of",
		"actors in sequence diagrams cannot themselves be sequence diagrams",
	} {
		if strings.Contains(s, m) {
			return true
		}
	}
	return false
}
