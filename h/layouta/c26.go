package layouta

import (
	"bytes"
	"context"
	"encoding/json"
	"fmt"
	"io"
	"strings"
	"time"

	"oss.terrastruct.com/d2/d2graph"
	"oss.terrastruct.com/d2/d2layouts/d2sequence"
	"oss.terrastruct.com/d2/d2lib"
	"oss.terrastruct.com/d2/d2plugin"
	"oss.terrastruct.com/d2/d2renderers/d2svg"
	"oss.terrastruct.com/util-go/cmdlog"
	"oss.terrastruct.com/util-go/xmain"
	"oss.terrastruct.com/util-go/xos"

	"verif/h/eng"
	"verif/h/u"
)

// projection of a graph onto what the property statement names: objects (hierarchy, order),
// connections (endpoints, direction, index), attributes, geometry, plus RootLevel and Data.
type projObj struct {
	AbsID    string          `json:"abs_id"`
	Parent   string          `json:"parent"`
	Children []string        `json:"children"`
	Fields   json.RawMessage `json:"fields"` // every serialisable field of the object except References
}
type projEdge struct {
	Src    string          `json:"src"`
	Dst    string          `json:"dst"`
	Fields json.RawMessage `json:"fields"`
}
type proj struct {
	Root      projObj         `json:"root"`
	Objects   []projObj       `json:"objects"`
	Edges     []projEdge      `json:"edges"`
	RootLevel int             `json:"root_level"`
	Data      json.RawMessage `json:"data"`
}

func projectObj(o *d2graph.Object) (projObj, error) {
	c := *o
	c.References = nil
	b, err := json.Marshal(&c)
	if err != nil {
		return projObj{}, err
	}
	p := projObj{AbsID: o.AbsID(), Fields: b}
	if o.Parent != nil {
		p.Parent = o.Parent.AbsID()
	} else {
		p.Parent = "<nil>"
	}
	for _, ch := range o.ChildrenArray {
		p.Children = append(p.Children, ch.AbsID())
	}
	return p, nil
}

// project: lifelineIdx (optional) marks connections whose destination is a synthetic sequence
// lifeline end; their destination is normalised so the rest of the graph can still be compared.
func project(g *d2graph.Graph, lifelineIdx map[int]bool) (*proj, error) {
	p := &proj{RootLevel: g.RootLevel}
	var err error
	if p.Root, err = projectObj(g.Root); err != nil {
		return nil, err
	}
	for _, o := range g.Objects {
		po, err := projectObj(o)
		if err != nil {
			return nil, err
		}
		p.Objects = append(p.Objects, po)
	}
	for i, e := range g.Edges {
		c := *e
		c.References = nil
		b, err := json.Marshal(&c)
		if err != nil {
			return nil, err
		}
		pe := projEdge{Fields: b}
		if e.Src != nil {
			pe.Src = e.Src.AbsID()
		}
		if e.Dst != nil {
			pe.Dst = e.Dst.AbsID()
		}
		if lifelineIdx != nil && lifelineIdx[i] {
			pe.Dst = "<lifeline-end>"
		}
		p.Edges = append(p.Edges, pe)
	}
	if len(g.Data) > 0 {
		p.Data, _ = json.Marshal(g.Data)
	}
	return p, nil
}

// roundTrip serialises g, reads it back into a fresh graph and compares projections.
func roundTrip(stage string, g *d2graph.Graph) (string, string) {
	lifelines := map[int]bool{}
	for i, e := range g.Edges {
		if e.Dst != nil && d2sequence.IsLifelineEnd(e.Dst) {
			lifelines[i] = true
		}
	}
	before, err := project(g, lifelines)
	if err != nil {
		return "project-error:" + stage, err.Error()
	}
	b, err := d2graph.SerializeGraph(g)
	if err != nil {
		return "serialize-error:" + stage + ":" + errClass(err), err.Error()
	}
	var g2 d2graph.Graph
	if err := d2graph.DeserializeGraph(b, &g2); err != nil {
		return "deserialize-error:" + stage + ":" + errClass(err), err.Error()
	}
	after, err := project(&g2, lifelines)
	if err != nil {
		return "project-error-after:" + stage, err.Error()
	}
	jb, _ := json.Marshal(before)
	ja, _ := json.Marshal(after)
	if !bytes.Equal(jb, ja) {
		paths := u.JSONDiffPaths(string(jb), string(ja))
		return "round-trip-differs:" + stage + ":" + normPaths(paths), fmt.Sprintf("differing paths %v\n%s", paths, u.FirstDiff(string(jb), string(ja)))
	}
	for i := range lifelines {
		if i < len(g2.Edges) && g2.Edges[i].Dst == nil {
			return "sequence-lifeline-destination-lost:" + stage, fmt.Sprintf("connection %d (a sequence-diagram lifeline from %q) has destination %q before and nil after the round trip: the synthetic lifeline-end object is not in Graph.Objects, so DeserializeGraph cannot resolve it", i, g.Edges[i].Src.AbsID(), g.Edges[i].Dst.ID)
		}
	}
	// second generation must be byte-identical on the wire
	b2, err := d2graph.SerializeGraph(&g2)
	if err != nil {
		return "serialize-error-second-generation:" + stage, err.Error()
	}
	if !bytes.Equal(b, b2) {
		return "wire-bytes-not-stable:" + stage, u.FirstDiff(string(b), string(b2))
	}
	return "", ""
}

func normPaths(paths []string) string {
	if len(paths) == 0 {
		return "?"
	}
	p := paths[0]
	if len(p) > 80 {
		p = p[:80]
	}
	return p
}

// protocolWrap replaces the core layout by the plugin protocol of d2plugin: the caller's side is
// execPlugin.Layout (SerializeGraph -> stdin, stdout -> DeserializeGraph into the same graph), the
// plugin's side is the real d2plugin.Serve(plugin) "layout" sub-command, run in-process on buffers.
func protocolWrap(engine string) func(d2graph.LayoutGraph) d2graph.LayoutGraph {
	return func(d2graph.LayoutGraph) d2graph.LayoutGraph {
		return func(ctx context.Context, g *d2graph.Graph) error {
			in, err := d2graph.SerializeGraph(g)
			if err != nil {
				return fmt.Errorf("protocol: serialize: %w", err)
			}
			var p d2plugin.Plugin = &d2plugin.DagrePlugin
			if engine == "elk" {
				p = &d2plugin.ELKPlugin
			}
			env := xos.NewEnv(nil)
			var out bytes.Buffer
			ms := &xmain.State{
				Name:   "d2plugin-" + engine,
				Stdin:  bytes.NewReader(in),
				Stdout: nopCloser{&out},
				Stderr: nopCloser{io.Discard},
				Env:    env,
				Opts:   xmain.NewOpts(env, []string{"layout"}),
			}
			ms.Log = cmdlog.New(env, io.Discard)
			if err := d2plugin.Serve(p)(ctx, ms); err != nil {
				return fmt.Errorf("protocol: plugin side: %w", err)
			}
			if err := d2graph.DeserializeGraph(out.Bytes(), g); err != nil {
				return fmt.Errorf("protocol: failed to unmarshal json: %w", err)
			}
			return nil
		}
	}
}

type nopCloser struct{ io.Writer }

func (nopCloser) Close() error { return nil }

func c26Oracle(in string) eng.Res {
	engine, src := splitIn(in)
	g0, _, err := u.Compile(src)
	if err != nil {
		return eng.OK("not-compilable", false)
	}
	// stage 1: after compilation + SetDimensions (what the CLI hands to a plugin for a plain diagram)
	var pre []*d2graph.Graph
	var walk func(g *d2graph.Graph)
	walk = func(g *d2graph.Graph) {
		pre = append(pre, g)
		for _, l := range [][]*d2graph.Graph{g.Layers, g.Scenarios, g.Steps} {
			for _, b := range l {
				walk(b)
			}
		}
	}
	walk(g0)
	for _, b := range pre {
		if len(b.Objects) > 0 {
			if err := b.SetDimensions(nil, theRuler(), nil, nil); err != nil {
				return eng.OK("set-dimensions-error", false)
			}
		}
		if class, detail := roundTrip("before-layout", b); class != "" {
			return eng.Bad(class, detail)
		}
	}
	if why := unsupported(engine, g0); why != "" {
		return eng.OK("unsupported-feature(after-stage-1)", false)
	}
	// stage 2: in-process layout, then round trip of the laid-out graph (what a plugin sends back)
	d1, g1, err := layout(engine, src)
	if err != nil {
		return eng.OK("layout-error(C17):"+errClass(err), false)
	}
	var class, detail string
	var post []*d2graph.Graph
	pre = nil
	walk(g1)
	post = pre
	var deferredClass, deferredDetail string
	for _, b := range post {
		if class, detail = roundTrip("after-layout", b); class != "" {
			if strings.HasPrefix(class, "sequence-lifeline-destination-lost") {
				// reported only if nothing else is wrong, so the protocol stage still runs on these diagrams
				deferredClass, deferredDetail = class, detail
				continue
			}
			return eng.Bad(class, detail)
		}
	}
	// stage 3: the same diagram laid out through the plugin protocol must give the same result
	d2, _, err := d2lib.Compile(u.Bgctx, src, compileOpts(engine, protocolWrap(engine)), &d2svg.RenderOpts{})
	if err != nil {
		return eng.Bad("protocol-layout-error:"+engine+":"+errClass(err), err.Error())
	}
	j1, _ := json.Marshal(d1)
	j2, _ := json.Marshal(d2)
	outcome := fmt.Sprintf("%s|o%d", engine, len(j1))
	if !bytes.Equal(j1, j2) {
		s1, e1 := d2svg.RenderMultiboard(d1, &d2svg.RenderOpts{})
		s2, e2 := d2svg.RenderMultiboard(d2, &d2svg.RenderOpts{})
		if (e1 == nil) != (e2 == nil) {
			return eng.Bad("protocol-render-error-differs:"+engine, fmt.Sprintf("in-process: %v, protocol: %v", e1, e2))
		}
		same := len(s1) == len(s2)
		for i := 0; same && i < len(s1); i++ {
			same = bytes.Equal(s1[i], s2[i])
		}
		if !same {
			paths := u.JSONDiffPaths(string(j1), string(j2))
			return eng.Bad("protocol-result-differs:"+normPaths(paths), fmt.Sprintf("exported diagram differs at %v and the rendered SVG differs too\n%s", paths, u.FirstDiff(string(j1), string(j2))))
		}
		outcome += "|json-differs-svg-equal"
	}
	if deferredClass != "" {
		return eng.Bad(deferredClass, deferredDetail)
	}
	nobj := 0
	for _, b := range post {
		nobj += len(b.Objects)
	}
	return eng.OK(outcome, nobj > 0)
}

// statements that matter to the wire format in particular
var flSerde = []string{
	"label: Diagram title",
	"vars: {d2-config: {data: {k: v; n: [1, 2]}}}",
	"a.class: k\nclasses: {k: {style.fill: red}}",
	"a: {shape: sql_table; id: int {constraint: [primary_key; unique]}; fk: int {constraint: foreign_key}}\na.fk -> b.id\nb: {shape: sql_table; id: int}",
	"a: |go\n  x := 1\n|",
	"a: |latex \\\\frac{1}{2} |",
	"a.style: {fill: \"#aabbcc\"; opacity: 0.4; font-size: 20; bold: true; border-radius: 5; fill-pattern: dots}",
	"a -> b: {style.animated: true; style.stroke-dash: 3}",
	"(a -> b)[0].label: first",
	"a -> b\na -> b\nb -> a",
	"'a.b'.'c.d' -> \"x\\\"y\"",
	"A.x -> a.X",
	// different objects whose ids read alike once quotes are dropped: a quoted dotted name next to the real nested path
	"'a.b'\na.b",
	"'a.b' -> a.b\na.b -> 'a.b'",
	"c.'d.e'\nc.d.e\nc.d.e -> c.'d.e'",
	"'\"a\"' -> a",
	"'a.b'.c\na.'b.c'\na.b.c",
	"a.near: top-center",
	"x: {near: bottom-right; y -> z}",
	"c.d.near: c.e",
}

func FLSerde() []string { return cat(FLCore(), flSerde, flNames) }

func init() {
	eng.Register(&eng.Check{
		ID: "C26", Level: "exploration", HangBound: 900 * time.Second,
		QuickBudget: 240 * time.Second, ThoroughBudget: 24 * time.Minute,
		Rule: "every program of <=k statements over FLcore + a wire-format fragment (root label, config data, classes, sql tables with column connections, code/latex, styles, indexed/parallel connections, quoted/dotted/case-differing ids, quoted dotted names next to the nested path that spells the same text, nears) and the C17 name family; for every board: DeserializeGraph(SerializeGraph(g)) into a fresh graph is compared with g after compilation+SetDimensions and again after layout (objects in order, parents, children order, connection endpoints, every serialisable field of objects/connections except References, RootLevel, Data; second-generation wire bytes identical); then the diagram is laid out through the plugin protocol (execPlugin's serialize/deserialize around the real d2plugin.Serve layout sub-command, on in-process buffers) and the exported diagram / SVG compared with the in-process result; non-trivial = at least one object",
		Assumptions: []string{
			"AST references (Object.References, Scalar.MapKey) are not part of the statement's list and are not compared directly; their loss is only a violation if it changes the protocol result",
			"the plugin side runs in the same process (d2plugin.Serve on buffers) instead of a child process; the pipe itself is trusted",
			"a difference in the exported diagram JSON counts only if the rendered SVG differs too",
			"diagrams using features the engine declares unsupported, and diagrams whose layout errors (C17), are outside the space",
		},
		Oracles: map[string]eng.Oracle{"layout": c26Oracle, "name": c26NameOracle, "exec": c26ExecOracle},
		Run: func(w *eng.W) {
			serde, small, full := FLSerde(), FLSmall(), FLFull()
			w.Note("alphabet_sizes", fmt.Sprintf("FLserde=%d FLsmall=%d FLfull=%d", len(serde), len(small), len(full)))
			chunked(w, "FLfull+FLserde<=1:dagre+elk", 4, func(emit func(string, string)) {
				forPrograms("", cat(full, serde), 1, func(src string) {
					emit("layout", mkIn("dagre", src))
					emit("layout", mkIn("elk", src))
				})
			})
			chunked(w, "names<=1:3forms:dagre", 1, func(emit func(string, string)) {
				for _, s := range sigmaS {
					for _, form := range []string{"N", "N->b", "c:{N}"} {
						emit("name", mkIn("dagre", mkIn(form, s)))
					}
				}
			})
			if w.Thorough() {
				chunked(w, "child-process-protocol:FLfull+FLserde<=1:dagre", 8, func(emit func(string, string)) {
					forPrograms("", cat(full, serde), 1, func(src string) { emit("exec", mkIn("dagre", src)) })
				})
			}
			if !w.Thorough() {
				pairs := cat(flSerde, flNames, small)
				chunked(w, "FLserde'=2:dagre", 6, func(emit func(string, string)) {
					forPrograms("", pairs, 2, func(src string) { emit("layout", mkIn("dagre", src)) })
				})
			} else {
				chunked(w, "FLfull+FLserde=2:dagre", 16, func(emit func(string, string)) {
					forPrograms("", cat(full, serde), 2, func(src string) { emit("layout", mkIn("dagre", src)) })
				})
				chunked(w, "FLsmall=2:elk", 8, func(emit func(string, string)) {
					forPrograms("", small, 2, func(src string) { emit("layout", mkIn("elk", src)) })
				})
				chunked(w, "names=2:N->b,c:{N}:dagre", 8, func(emit func(string, string)) {
					u.Seqs(sigmaS, 2, func(s []string) {
						emit("name", mkIn("dagre", mkIn("N->b", s[0]+s[1])))
						emit("name", mkIn("dagre", mkIn("c:{N}", s[0]+s[1])))
					})
				})
			}
		},
	})
}

func c26NameOracle(in string) eng.Res {
	engine, rest := splitIn(in)
	form, name := splitIn(rest)
	src := nameProgram(form, name)
	g0, _, err := u.Compile(src)
	if err != nil {
		return eng.OK("name-not-compilable", false)
	}
	found := false
	for _, o := range g0.Objects {
		if o.IDVal == name {
			found = true
		}
	}
	if !found {
		return eng.OK("name-not-reproduced-by-key-encoding", false)
	}
	r := c26Oracle(mkIn(engine, src))
	if r.Fail != nil {
		r.Fail.Detail = fmt.Sprintf("program %q\n%s", src, r.Fail.Detail)
	}
	return r
}

var _ = strings.Join

func mustJSON(v any) string {
	b, _ := json.Marshal(v)
	return string(b)
}
