package layouta

import (
	"fmt"
	"regexp"
	"sort"
	"strings"
	"time"

	"oss.terrastruct.com/d2/d2ast"
	"oss.terrastruct.com/d2/d2format"
	"oss.terrastruct.com/d2/d2graph"
	"oss.terrastruct.com/d2/d2renderers/d2svg"
	"oss.terrastruct.com/d2/d2target"

	"verif/h/eng"
	"verif/h/u"
)

// chunked runs enumerate in n phases "name[i/n]" so the engine's deadline (checked at phase start and
// only every 1024 evaluations inside a phase) is honoured even though one evaluation costs 0.05-0.6 s.
// enumerate must call emit for every item, in a deterministic order.
func chunked(w *eng.W, name string, n int, enumerate func(emit func(oracle, in string))) {
	total := 0
	enumerate(func(string, string) { total++ })
	if n < 1 {
		n = 1
	}
	for c := 0; c < n; c++ {
		lo, hi := c*total/n, (c+1)*total/n
		pn := name
		if n > 1 {
			pn = fmt.Sprintf("%s[%d/%d]", name, c+1, n)
		}
		w.Phase(pn, func() {
			i := 0
			enumerate(func(oracle, in string) {
				if i >= lo && i < hi {
					w.Eval(oracle, in)
				}
				i++
			})
		})
	}
}

// keyOf renders name as one D2 key segment the way d2oracle does (d2ast.RawString + d2format).
func keyOf(name string) string {
	return d2format.Format(&d2ast.KeyPath{Path: []*d2ast.StringBox{d2ast.RawStringBox(name, true)}})
}

// Σ_s: one representative per lexical / escaping class that can matter to a layout bridge.
var sigmaS = []string{
	"a", "Z", "0", "_", " ", "`", "$", "{", "}", "\\", "\"", "'", "\n", "\r", "\t", ".", "-", ">", "<", "*", "&", "!", "(", ")",
	"[", "]", "|", ":", ";", "#", "@", "%", "/", "é", "漢", "😀", " ",
}

// nameProgram builds the family member; form ∈ {"N", "N->b", "c:{N}"}.
func nameProgram(form, name string) string {
	k := keyOf(name)
	switch form {
	case "N":
		return k
	case "N->b":
		return k + " -> b"
	default:
		return "c: {" + k + "}"
	}
}

// checkGeometry validates the C17 post-conditions on one board; returns class, detail.
func checkGeometry(engine, path string, g *d2graph.Graph) (string, string) {
	for _, o := range g.Objects {
		if o.TopLeft == nil {
			return "nil-position:" + engine + objKind(o), fmt.Sprintf("board %s object %q has no position after layout", path, o.AbsID())
		}
		if !finite(o.TopLeft.X) || !finite(o.TopLeft.Y) {
			return "non-finite-position:" + engine + objKind(o), fmt.Sprintf("board %s object %q at (%v,%v)", path, o.AbsID(), o.TopLeft.X, o.TopLeft.Y)
		}
		if !finite(o.Width) || !finite(o.Height) {
			return "non-finite-size:" + engine + objKind(o), fmt.Sprintf("board %s object %q size %v x %v", path, o.AbsID(), o.Width, o.Height)
		}
		if o.Width < 0 || o.Height < 0 {
			return "negative-size:" + engine + objKind(o), fmt.Sprintf("board %s object %q size %v x %v", path, o.AbsID(), o.Width, o.Height)
		}
	}
	for _, e := range g.Edges {
		if len(e.Route) < 2 {
			return "route-shorter-than-2-points:" + engine + edgeKind(e), fmt.Sprintf("board %s connection %q has %d route points", path, e.AbsID(), len(e.Route))
		}
		for _, p := range e.Route {
			if p == nil {
				return "nil-route-point:" + engine + edgeKind(e), fmt.Sprintf("board %s connection %q", path, e.AbsID())
			}
			if !finite(p.X) || !finite(p.Y) {
				return "non-finite-route-point:" + engine + edgeKind(e), fmt.Sprintf("board %s connection %q route %v", path, e.AbsID(), routeStr(e))
			}
		}
	}
	return "", ""
}

func routeStr(e *d2graph.Edge) string {
	var sb strings.Builder
	for _, p := range e.Route {
		if p == nil {
			sb.WriteString("<nil> ")
			continue
		}
		fmt.Fprintf(&sb, "(%.1f,%.1f) ", p.X, p.Y)
	}
	return sb.String()
}

// objKind names the structural situation of an object (mechanism, not input).
func objKind(o *d2graph.Object) string {
	k := ""
	switch {
	case o.OuterSequenceDiagram() != nil:
		k = ":in-sequence"
	case o.Parent != nil && o.Parent.IsGridDiagram():
		k = ":grid-cell"
	case o.IsGridDiagram():
		k = ":grid"
	case o.IsConstantNear():
		k = ":constant-near"
	case len(o.ChildrenArray) > 0:
		k = ":container"
	}
	return k
}

func edgeKind(e *d2graph.Edge) string {
	switch {
	case e.Src == nil || e.Dst == nil:
		return ":nil-endpoint"
	case e.Src.OuterSequenceDiagram() != nil && e.Src.OuterSequenceDiagram() == e.Dst.OuterSequenceDiagram():
		return ":sequence-message"
	case e.Src == e.Dst:
		return ":self-loop"
	case len(e.Src.ChildrenArray) > 0 || len(e.Dst.ChildrenArray) > 0:
		return ":container-endpoint"
	}
	return ""
}

// scriptTrigger refines the class of an error raised by the JavaScript bridge with the lexical
// mechanism that can make a generated script invalid: the dagre bridge interpolates connection ids
// into JavaScript template literals, whose metacharacters are the back-tick and "${".
func scriptTrigger(err error, g *d2graph.Graph) string {
	if jsErrRe.FindString(err.Error()) == "" {
		return ""
	}
	bt, db := false, false
	var walk func(g *d2graph.Graph)
	walk = func(g *d2graph.Graph) {
		for _, e := range g.Edges {
			id := e.AbsID()
			bt = bt || strings.Contains(id, "`")
			db = db || strings.Contains(id, "${")
		}
		for _, l := range [][]*d2graph.Graph{g.Layers, g.Scenarios, g.Steps} {
			for _, b := range l {
				walk(b)
			}
		}
	}
	walk(g)
	switch {
	case bt:
		return ":connection-id-contains-backtick"
	case db:
		return ":connection-id-contains-dollar-brace"
	}
	return ":no-template-metacharacter-in-connection-ids"
}

// c17Oracle: input "engine\nsource".
var infObjRe = regexp.MustCompile(`object "((?:[^"\\]|\\.)*)" has invalid position`)

// infObjectKind says what kind of object validateObjectPositions complained about (the mechanisms that produce an
// infinite coordinate differ by the layout that placed the object).
func infObjectKind(err error, g *d2graph.Graph) string {
	m := infObjRe.FindStringSubmatch(err.Error())
	if m == nil {
		return "object-unknown"
	}
	for _, o := range g.Objects {
		if o.AbsID() == m[1] || strings.HasSuffix(o.AbsID(), "."+m[1]) { // nested diagrams are laid out as extracted graphs: ids are relative
			switch {
			case o.OuterSequenceDiagram() != nil:
				return "object-inside-sequence-diagram"
			case o.OuterNearContainer() != nil || o.IsConstantNear():
				return "constant-near-shape"
			case o.Parent != nil && o.Parent.IsGridDiagram():
				return "grid-cell"
			}
			return "object-in-core-layout"
		}
	}
	return "object-unknown"
}

func c17Oracle(in string) eng.Res {
	engine, src := splitIn(in)
	g0, _, err := u.Compile(src)
	if err != nil {
		return eng.OK("not-compilable", false)
	}
	if why := unsupported(engine, g0); why != "" {
		return eng.OK("unsupported-feature:"+errClass(fmt.Errorf("%s", why)), false)
	}
	d, g, err := layout(engine, src)
	if err != nil {
		if byDesignLayoutError(err) {
			return eng.OK("rejected-by-sequence-diagram-validation", false)
		}
		cls := errClass(err)
		if trig := scriptTrigger(err, g0); trig != "" && trig != ":no-template-metacharacter-in-connection-ids" {
			// which JS error type results depends on the neighbouring characters; the mechanism is the metacharacter
			cls = "generated script broken" + trig
		} else {
			cls += trig
		}
		if strings.Contains(cls, "infinity value") {
			cls += ":" + infObjectKind(err, g0)
		}
		return eng.Bad("layout-error:"+engine+":"+cls, err.Error())
	}
	if d == nil || g == nil {
		return eng.Bad("nil-result:"+engine, "d2lib.Compile returned nil diagram or graph without error")
	}
	var class, detail string
	nobj, nedge := 0, 0
	var sig []string
	boardsOf(d, g, func(path string, bd *d2target.Diagram, bg *d2graph.Graph) {
		nobj += len(bg.Objects)
		nedge += len(bg.Edges)
		if class == "" {
			class, detail = checkGeometry(engine, path, bg)
		}
		for _, o := range bg.Objects {
			if o.TopLeft != nil {
				sig = append(sig, fmt.Sprintf("%s@%.0f,%.0f,%.0fx%.0f", o.Shape.Value, o.TopLeft.X, o.TopLeft.Y, o.Width, o.Height))
			}
		}
		for _, e := range bg.Edges {
			sig = append(sig, fmt.Sprintf("e%d", len(e.Route)))
		}
	})
	if class != "" {
		return eng.Bad(class, detail)
	}
	var svg [][]byte
	svg, err = d2svg.RenderMultiboard(d, &d2svg.RenderOpts{})
	if err != nil {
		return eng.Bad("render-error:"+engine+":"+errClass(err), err.Error())
	}
	for _, b := range svg {
		if len(b) == 0 {
			return eng.Bad("render-empty:"+engine, "d2svg.RenderMultiboard returned an empty board")
		}
	}
	sort.Strings(sig)
	return eng.OK(engine+"|"+strings.Join(sig, " "), nobj > 0)
}

// c17NameOracle: input "engine\nform\nname" — the name is kept raw in the witness; the program is built here.
func c17NameOracle(in string) eng.Res {
	engine, rest := splitIn(in)
	form, name := splitIn(rest)
	src := nameProgram(form, name)
	g0, _, err := u.Compile(src)
	if err != nil {
		return eng.OK("name-not-compilable", false)
	}
	found := false
	for _, o := range g0.Objects {
		if o.IDVal == name {
			found = true
		}
	}
	if !found {
		// the key encoder did not reproduce the name (a quoting question, property C05/C06) — not a layout input
		return eng.OK("name-not-reproduced-by-key-encoding", false)
	}
	r := c17Oracle(mkIn(engine, src))
	if r.Fail != nil {
		r.Fail.Detail = fmt.Sprintf("program %q\n%s", src, r.Fail.Detail)
	}
	return r
}

func init() {
	eng.Register(&eng.Check{
		ID: "C17", Level: "exploration", HangBound: 900 * time.Second,
		QuickBudget: 240 * time.Second, ThoroughBudget: 24 * time.Minute,
		Pre: u.WriteCorpusCache,
		Rule: "every program of <=k statements over the layout fragment FL (leaves, 24 shapes, containers depth<=3, 16 connection forms, 4 directions, 8 constant nears, grids, sequence diagrams, label/icon positions, 3d/multiple/stroke/size styles, special names, boards) laid out through d2lib.Compile with dagre and with ELK, plus boards made of constant-near shapes only or of one leaf and nears (every subset of <=2, thorough <=3, of the 8 constants x 2 near-shape kinds), plus a name family (every object name of <=2 symbols over a 39-symbol alphabet in the forms N, N -> b, c: {N}) and every compilable .d2 file of the repository; non-trivial = the diagram compiles, the engine supports its features and it has at least one object; outcome = multiset of laid-out boxes and route lengths",
		Assumptions: []string{
			"diagrams that use a feature the engine's plugin declares unsupported (d2plugin.FeatureSupportCheck: near-object, container dimensions/descendant connections under dagre, top/left) are outside the space: the CLI rejects them",
			"names the d2ast.RawString key encoder does not reproduce exactly are skipped (quoting is C05/C06)",
			"ELK is run on smaller sub-spaces than dagre (0.5 s per diagram); see phases",
			"render = d2svg.RenderMultiboard with default options returns without error and non-empty",
			"sequence diagrams that d2sequence rejects on purpose (no actors declared / could not find center of X / actor is itself a sequence diagram: expected errors of e2etests/regression_test.go) count as not compilable",
		},
		Oracles: map[string]eng.Oracle{"layout": c17Oracle, "name": c17NameOracle},
		Run: func(w *eng.W) {
			full, core, small := FLFull(), FLCore(), FLSmall()
			w.Note("alphabet_sizes", fmt.Sprintf("FLfull=%d FLcore=%d FLsmall=%d sigma_s=%d", len(full), len(core), len(small), len(sigmaS)))
			chunked(w, "FLfull<=1:dagre+elk", 2, func(emit func(string, string)) {
				for k := 0; k <= 1; k++ {
					forPrograms("", full, k, func(src string) {
						emit("layout", mkIn("dagre", src))
						emit("layout", mkIn("elk", src))
					})
				}
			})
			// boards that consist of constant-near shapes only (or of one leaf plus nears): d2near computes the bounding box
			// of the main content, which is empty here
			chunked(w, "near-only boards: subsets<=2(3) of the 8 constants x 2 kinds:dagre+elk", 2, func(emit func(string, string)) {
				maxK := 2
				if w.Thorough() {
					maxK = 3
				}
				for k := 1; k <= maxK; k++ {
					c24ProgramsM([]string{"", "a"}, k, 2, func(src string) {
						emit("layout", mkIn("dagre", src))
						emit("layout", mkIn("elk", src))
					})
				}
			})
			chunked(w, "names<=1:3forms:dagre+elk", 1, func(emit func(string, string)) {
				for _, s := range sigmaS {
					for _, form := range []string{"N", "N->b", "c:{N}"} {
						emit("name", mkIn("dagre", mkIn(form, s)))
						emit("name", mkIn("elk", mkIn(form, s)))
					}
				}
			})
			chunked(w, "names=2:N->b:dagre", 2, func(emit func(string, string)) {
				u.Seqs(sigmaS, 2, func(s []string) { emit("name", mkIn("dagre", mkIn("N->b", s[0]+s[1]))) })
			})
			if w.Thorough() {
				chunked(w, "names=2:N,c:{N}:dagre", 4, func(emit func(string, string)) {
					u.Seqs(sigmaS, 2, func(s []string) {
						emit("name", mkIn("dagre", mkIn("N", s[0]+s[1])))
						emit("name", mkIn("dagre", mkIn("c:{N}", s[0]+s[1])))
					})
				})
				chunked(w, "names=2:N->b:elk", 8, func(emit func(string, string)) {
					u.Seqs(sigmaS, 2, func(s []string) { emit("name", mkIn("elk", mkIn("N->b", s[0]+s[1]))) })
				})
			}
			if !w.Thorough() {
				core2 := append(append([]string{}, core[:45]...), core[len(core)-2:]...) // without the label/icon/style tail (kept at depth 1)
				chunked(w, "FLcore'=2:dagre", 6, func(emit func(string, string)) {
					forPrograms("", core2, 2, func(src string) { emit("layout", mkIn("dagre", src)) })
				})
				chunked(w, "FLsmall[:20]=2:elk", 6, func(emit func(string, string)) {
					forPrograms("", small[:20], 2, func(src string) { emit("layout", mkIn("elk", src)) })
				})
			} else {
				chunked(w, "FLfull=2:dagre", 16, func(emit func(string, string)) {
					forPrograms("", full, 2, func(src string) { emit("layout", mkIn("dagre", src)) })
				})
				chunked(w, "FLcore=2:elk", 16, func(emit func(string, string)) {
					forPrograms("", core, 2, func(src string) { emit("layout", mkIn("elk", src)) })
				})
				chunked(w, "FLsmall=3:dagre", 16, func(emit func(string, string)) {
					forPrograms("", small, 3, func(src string) { emit("layout", mkIn("dagre", src)) })
				})
			}
			chunked(w, "corpus-d2-files:dagre", 2, func(emit func(string, string)) {
				for _, src := range corpusFiles() {
					emit("layout", mkIn("dagre", src))
				}
			})
			if w.Thorough() {
				chunked(w, "corpus-d2-files:elk", 8, func(emit func(string, string)) {
					for _, src := range corpusFiles() {
						emit("layout", mkIn("elk", src))
					}
				})
			}
		},
	})
}

// corpusFiles: corpus entries that compile on their own and are not huge (layout of the largest e2e
// inputs takes tens of seconds under ELK; the bound is stated in the rule).
func corpusFiles() []string {
	var out []string
	for _, s := range u.Corpus() {
		if len(s) > 2000 || !strings.Contains(s, "\n") {
			continue
		}
		if strings.Contains(s, "@") || strings.Contains(s, "...") { // imports need a file system
			continue
		}
		out = append(out, s)
	}
	return out
}
