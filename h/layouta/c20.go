package layouta

import (
	"fmt"
	"math"
	"strconv"
	"strings"
	"time"

	"oss.terrastruct.com/d2/d2graph"
	"oss.terrastruct.com/d2/d2layouts/d2sequence"
	"oss.terrastruct.com/d2/d2target"
	"oss.terrastruct.com/d2/lib/geo"
	"oss.terrastruct.com/d2/lib/label"

	"verif/h/eng"
	"verif/h/u"
)

// distance from p to the border (not the interior) of an axis-aligned rectangle
func distToRectBorder(px, py float64, b fbox) float64 {
	inside := px >= b.x0 && px <= b.x1 && py >= b.y0 && py <= b.y1
	if inside {
		return math.Min(math.Min(px-b.x0, b.x1-px), math.Min(py-b.y0, b.y1-py))
	}
	dx := math.Max(math.Max(b.x0-px, 0), px-b.x1)
	dy := math.Max(math.Max(b.y0-py, 0), py-b.y1)
	return math.Hypot(dx, dy)
}

// nearPerimeter tells whether some element of the perimeter passes within tau of p: a star of eight
// probe segments of half-length tau through p is intersected with every perimeter element.
func nearPerimeter(per []geo.Intersectable, px, py, tau float64) bool {
	dirs := [][2]float64{{1, 0}, {0, 1}, {math.Sqrt2 / 2, math.Sqrt2 / 2}, {math.Sqrt2 / 2, -math.Sqrt2 / 2},
		{0.9239, 0.3827}, {0.3827, 0.9239}, {0.9239, -0.3827}, {0.3827, -0.9239}}
	for _, d := range dirs {
		seg := geo.Segment{Start: geo.NewPoint(px-d[0]*tau, py-d[1]*tau), End: geo.NewPoint(px+d[0]*tau, py+d[1]*tau)}
		for _, el := range per {
			if len(el.Intersections(seg)) > 0 {
				return true
			}
		}
	}
	return false
}

// extent describes the drawn extent of an object as a list of named regions whose borders a
// connection may legitimately end on.
type region struct {
	name string
	box  fbox
	per  []geo.Intersectable // non-nil for non-rectangular outlines (then box is its bounding box)
}

func visualExtent(o *d2graph.Object) []region {
	var rs []region
	b := objBox(o)
	s := o.ToShape()
	per := s.Perimeter()
	rs = append(rs, region{"box", b, nil})
	if len(per) > 0 {
		rs = append(rs, region{"outline", b, per})
	}
	if dx, dy := o.GetModifierElementAdjustments(); dx != 0 || dy != 0 {
		sb := fbox{b.x0 + dx, b.y0 - dy, b.x1 + dx, b.y1 - dy}
		rs = append(rs, region{"3d/multiple-offset-box", sb, nil})
		if len(per) > 0 {
			// outline of the shifted shape
			c := *o
			bx := *o.Box
			tl := *o.TopLeft
			tl.X += dx
			tl.Y -= dy
			bx.TopLeft = &tl
			c.Box = &bx
			rs = append(rs, region{"3d/multiple-offset-outline", sb, c.ToShape().Perimeter()})
		}
	}
	if o.HasLabel() && o.LabelPosition != nil {
		lp := label.FromString(*o.LabelPosition)
		if lp.IsOutside() {
			w, h := float64(o.LabelDimensions.Width), float64(o.LabelDimensions.Height)
			tl := lp.GetPointOnBox(o.Box, label.PADDING, w, h)
			rs = append(rs, region{"outside-label", fbox{tl.X, tl.Y, tl.X + w, tl.Y + h}, nil})
			rs = append(rs, region{"outside-label-padded", fbox{tl.X - label.PADDING, tl.Y, tl.X + w + label.PADDING, tl.Y + h}, nil})
		}
	}
	if o.HasIcon() && o.IconPosition != nil {
		ip := label.FromString(*o.IconPosition)
		if ip.IsOutside() {
			for _, sz := range []float64{d2target.MAX_ICON_SIZE, float64(d2target.GetIconSize(o.Box, ip.String()))} {
				tl := ip.GetPointOnBox(o.Box, label.PADDING, sz, sz)
				rs = append(rs, region{"outside-icon", fbox{tl.X, tl.Y, tl.X + sz, tl.Y + sz}, nil})
			}
		}
	}
	// the box extended by label, icon and 3d/multiple offsets as one rectangle, in d2's own two
	// paddings (GetMargin: label.PADDING, Spacing: 2*label.PADDING)
	m1 := o.GetMargin()
	rs = append(rs, region{"extended-box(GetMargin)", fbox{b.x0 - m1.Left, b.y0 - m1.Top, b.x1 + m1.Right, b.y1 + m1.Bottom}, nil})
	m2, _ := o.Spacing()
	rs = append(rs, region{"extended-box(Spacing)", fbox{b.x0 - m2.Left, b.y0 - m2.Top, b.x1 + m2.Right, b.y1 + m2.Bottom}, nil})
	return rs
}

// displacedRegions: the outside label / icon boxes moved by the 3d/multiple offset. They are NOT part
// of the visual extent (label and icon are drawn relative to the unshifted box); they only serve to
// name the mechanism when an endpoint sits on one of them.
func displacedRegions(o *d2graph.Object) []region {
	dx, dy := o.GetModifierElementAdjustments()
	if dx == 0 && dy == 0 {
		return nil
	}
	var out []region
	for _, r := range visualExtent(o) {
		if strings.HasPrefix(r.name, "outside-") {
			out = append(out, region{"displaced-" + r.name, fbox{r.box.x0 + dx, r.box.y0 - dy, r.box.x1 + dx, r.box.y1 - dy}, nil})
		}
	}
	return out
}

func hasMargin(o *d2graph.Object) bool {
	m, _ := o.Spacing()
	return m.Left != 0 || m.Right != 0 || m.Top != 0 || m.Bottom != 0
}

// offBorderClass names the mechanism of an endpoint that is not on the extent's border.
func offBorderClass(mech, end string, o *d2graph.Object, p *geo.Point, tau float64, selfLoop bool) string {
	for _, r := range displacedRegions(o) {
		if distToRectBorder(p.X, p.Y, r.box) <= tau {
			return "endpoint-clipped-to-label/icon-box-displaced-by-3d/multiple-offset:" + mech + ":" + end
		}
	}
	if c := coveredBy(o, p, tau); c != "" && !selfLoop {
		return "endpoint-hidden-inside-3d/multiple-pair:" + mech + ":" + end + ":inside-" + c
	}
	strictlyIn := func(b fbox) bool { return p.X > b.x0 && p.X < b.x1 && p.Y > b.y0 && p.Y < b.y1 }
	where := "detached"
	for _, r := range visualExtent(o) {
		switch {
		case r.name == "box" && strictlyIn(r.box):
			where = "inside-box"
		case r.name == "outside-label" && strictlyIn(r.box) && where == "detached":
			where = "inside-outside-label"
		case r.name == "outside-icon" && strictlyIn(r.box) && where == "detached":
			where = "inside-outside-icon"
		}
	}
	if selfLoop {
		k := "plain-shape"
		if hasMargin(o) {
			k = "shape-with-margin(outside-label/icon/3d/multiple)"
		}
		return "self-loop-endpoint-off-border:" + mech + ":" + k + ":" + where
	}
	if where == "inside-outside-label" || where == "inside-outside-icon" {
		// the route stops in the middle of the endpoint's own outside label / icon
		return "endpoint-" + where + ":" + mech + ":" + end
	}
	return "endpoint-off-border:" + mech + ":" + end + ":" + endKind(o) + ":" + where
}

// coveredBy: for a rectangular shape with a 3d/multiple copy, the name of the copy (base box or offset box) whose
// interior contains p deeper than tau. Such a point is on the border of one copy but hidden inside the union of
// the two, i.e. not on the border of the visual extent. d2 itself (dagre and ELK layout) decides which copy to clip
// against by exactly this union reading.
func coveredBy(o *d2graph.Object, p *geo.Point, tau float64) string {
	dx, dy := o.GetModifierElementAdjustments()
	if (dx == 0 && dy == 0) || len(o.ToShape().Perimeter()) > 0 {
		return ""
	}
	b := objBox(o)
	for _, r := range []region{{"box", b, nil}, {"3d/multiple-offset-box", fbox{b.x0 + dx, b.y0 - dy, b.x1 + dx, b.y1 - dy}, nil}} {
		if p.X > r.box.x0+tau && p.X < r.box.x1-tau && p.Y > r.box.y0+tau && p.Y < r.box.y1-tau {
			return r.name
		}
	}
	return ""
}

func onExtentBorder(o *d2graph.Object, p *geo.Point, tau float64) (bool, string) {
	var ds []string
	if c := coveredBy(o, p, tau); c != "" {
		return false, fmt.Sprintf("more than tau inside the %s of the 3d/multiple pair", c)
	}
	for _, r := range visualExtent(o) {
		if r.per != nil {
			if nearPerimeter(r.per, p.X, p.Y, tau) {
				return true, ""
			}
			ds = append(ds, r.name+":not within tau")
			continue
		}
		d := distToRectBorder(p.X, p.Y, r.box)
		if d <= tau {
			return true, ""
		}
		ds = append(ds, fmt.Sprintf("%s %v: %.1f px", r.name, r.box, d))
	}
	return false, strings.Join(ds, "; ")
}

// routedBy names the mechanism that produced a connection's route.
func routedBy(engine string, g *d2graph.Graph, e *d2graph.Edge) string {
	diagramOf := func(o *d2graph.Object) *d2graph.Object {
		// innermost enclosing special diagram (grid / sequence / constant near / grid-cell container), nil = the board's core layout
		for p := o.Parent; p != nil && p != g.Root; p = p.Parent {
			if p.IsGridDiagram() || p.IsSequenceDiagram() || (p.Parent == g.Root && p.IsConstantNear()) {
				return p
			}
			if p.Parent != nil && p.Parent.IsGridDiagram() {
				return p
			}
		}
		if o.Parent == g.Root && o.IsConstantNear() {
			return o
		}
		return nil
	}
	ds, dd := diagramOf(e.Src), diagramOf(e.Dst)
	if g.Root.IsGridDiagram() && e.Src.Parent == g.Root && e.Dst.Parent == g.Root {
		return "grid-router"
	}
	if ds != dd {
		return "cross-diagram-router"
	}
	if ds != nil && ds.IsGridDiagram() && e.Src.Parent == ds && e.Dst.Parent == ds {
		return "grid-router"
	}
	return engine
}

func endKind(o *d2graph.Object) string {
	k := strings.ToLower(o.Shape.Value)
	if len(o.ChildrenArray) > 0 {
		k += "-container"
	}
	if o.Is3D() {
		k += "+3d"
	} else if o.IsMultiple() {
		k += "+multiple"
	}
	if o.HasLabel() && o.LabelPosition != nil && label.FromString(*o.LabelPosition).IsOutside() {
		k += "+outside-label"
	}
	if o.HasIcon() && o.IconPosition != nil && label.FromString(*o.IconPosition).IsOutside() {
		k += "+outside-icon"
	}
	return k
}

func strokeOf(o *d2graph.Object) float64 {
	if o.Style.StrokeWidth != nil {
		if f, err := strconv.ParseFloat(o.Style.StrokeWidth.Value, 64); err == nil {
			return f
		}
	}
	return 2
}

func c20Oracle(in string) eng.Res {
	engine, src := splitIn(in)
	g0, _, err := u.Compile(src)
	if err != nil {
		return eng.OK("not-compilable", false)
	}
	if why := unsupported(engine, g0); why != "" {
		return eng.OK("unsupported-feature", false)
	}
	d, g, err := layout(engine, src)
	if err != nil {
		return eng.OK("layout-error(C17):"+errClass(err), false)
	}
	var res *eng.Res
	var sig []string
	nchecked := 0
	boardsOf(d, g, func(path string, bd *d2target.Diagram, bg *d2graph.Graph) {
		if res != nil {
			return
		}
		for _, e := range bg.Edges {
			if e.Src == nil || e.Dst == nil || d2sequence.IsLifelineEnd(e.Dst) || e.Src.TopLeft == nil || e.Dst.TopLeft == nil {
				continue
			}
			if e.Src.OuterSequenceDiagram() != nil || e.Dst.OuterSequenceDiagram() != nil {
				continue // messages attach to lifelines (C23)
			}
			if len(e.Route) < 2 || e.Route[0] == nil || e.Route[len(e.Route)-1] == nil {
				continue // C17
			}
			mech := routedBy(engine, bg, e)
			for _, end := range []struct {
				name string
				o    *d2graph.Object
				p    *geo.Point
			}{{"src", e.Src, e.Route[0]}, {"dst", e.Dst, e.Route[len(e.Route)-1]}} {
				nchecked++
				tau := 2 + strokeOf(end.o)
				ok, why := onExtentBorder(end.o, end.p, tau)
				if !ok {
					b := objBox(end.o)
					r := eng.Bad(offBorderClass(mech, end.name, end.o, end.p, tau, e.Src == e.Dst),
						fmt.Sprintf("board %s connection %q: %s point (%.1f,%.1f) is not within %.0f px of the border of %q's visual extent (box %v; distances: %s); route %s", path, e.AbsID(), end.name, end.p.X, end.p.Y, tau, end.o.AbsID(), b, why, routeStr(e)))
					res = &r
					return
				}
				b := objBox(end.o)
				sig = append(sig, fmt.Sprintf("%s:%s:%.0f,%.0f", mech, endKind(end.o), end.p.X-b.x0, end.p.Y-b.y0))
			}
		}
	})
	if res != nil {
		return *res
	}
	return eng.OK(engine+"|"+strings.Join(sig, " "), nchecked > 0)
}

// ---- space ---------------------------------------------------------------------------------------

var c20Conns = []string{
	"a -> b",
	"b <- a",
	"a -> a",
	"a <-> b: Lorem ipsum",
	"a -> b\na -> b",
	"a -> c.d",
	"c -> a",
	"a -> c\nc.d",
	"c.d -> c.e\nc.e -> a",
	"g: {grid-rows: 1; a; b}\ng.a -> g.b\ng.b -> a",
	// endpoints of very different heights with an offset (3d / multiple) box on the tall or on the short side
	"a -> b\nb.style.3d: true\nb.height: 300",
	"a -> b\nb.style.multiple: true\nb.height: 300",
	"a -> b\na.style.3d: true\na.height: 300",
	"a -> b\na.style.multiple: true\nb.height: 300",
}

func c20Mods() (all, small []string) {
	all = cat(flShapes("a"), flShapes("b"),
		[]string{"a.label.near: outside-top-center", "a.label.near: outside-bottom-center", "a.label.near: outside-left-center", "a.label.near: outside-right-center",
			"a.label.near: outside-top-left", "a.label.near: outside-bottom-right", "a.label.near: border-top-center", "a.label.near: top-left",
			"b.label.near: outside-top-center", "b.label.near: outside-bottom-center", "b.label.near: outside-left-center",
			"a: Lorem ipsum dolor sit amet consectetur",
			"a: {icon: " + icon + "; icon.near: outside-top-left}", "a: {icon: " + icon + "; icon.near: outside-bottom-center}",
			"a: {icon: " + icon + "; icon.near: outside-left-center}", "a: {icon: " + icon + "; icon.near: outside-right-center}",
			"b: {icon: " + icon + "; icon.near: outside-top-center}",
			"a.style.3d: true", "a.style.multiple: true", "b.style.3d: true", "b.style.multiple: true",
			"a.style.stroke-width: 15", "a.width: 300", "a.height: 200", "b.width: 300",
			"c: Container label", "c.label.near: outside-top-center", "c.label.near: outside-bottom-center", "c.style.3d: true", "c.style.multiple: true",
			"c.d.style.3d: true", "c.d.label.near: outside-top-center", "c.shape: circle", "c.shape: cloud",
		})
	small = []string{
		"a.shape: circle", "a.shape: cloud", "a.shape: person", "a: {shape: image; icon: " + icon + "}", "a.shape: hexagon", "b.shape: diamond", "b.shape: cylinder",
		"a.label.near: outside-top-center", "a.label.near: outside-left-center", "b.label.near: outside-bottom-center",
		"a: {icon: " + icon + "; icon.near: outside-top-left}",
		"a.style.3d: true", "a.style.multiple: true", "b.style.3d: true",
		"a: Lorem ipsum dolor sit amet consectetur", "a.width: 300",
		"c: Container label", "c.style.3d: true",
	}
	return
}

func c20Programs(conns, dirs, mods []string, k int, visit func(src string)) {
	for _, c := range conns {
		for _, dir := range dirs {
			prefix := c
			if dir != "" {
				prefix = "direction: " + dir + "\n" + c
			}
			forPrograms(prefix, mods, k, visit)
		}
	}
}

func init() {
	allDirs := []string{"", "right", "left", "up"}
	eng.Register(&eng.Check{
		ID: "C20", Level: "exploration", HangBound: 900 * time.Second,
		QuickBudget: 240 * time.Second, ThoroughBudget: 24 * time.Minute,
		Rule: "14 connection scenes (leaf-leaf both arrow directions, self-loop, labelled two-way, parallel pair, into a container's child, container endpoints, inside a container, grid cells + cross-diagram, four scenes with a 3d/multiple endpoint much taller or shorter than its peer) x 4 directions x <=k modifier statements (every shape keyword on source and on destination, outside/border/inside label positions, outside icons, 3d, multiple, stroke width, explicit sizes, container labels/shapes) laid out with dagre and ELK; for every non-sequence connection the first and last route point must lie within 2 px + stroke width of the border of a component of the endpoint's visual extent (box, lib/shape outline, box/outline shifted by the 3d/multiple offset, outside label box with or without its padding, outside icon box); non-trivial = at least one endpoint checked; outcome = endpoint offsets relative to the shape box",
		Assumptions: []string{
			"'border of the visual extent' is weakened to 'border of one of its components' (a point on a component border but inside another component is accepted), except that for rectangular shapes with a 3d/multiple copy a point deeper than the tolerance inside the base box or the offset copy is rejected (union reading, the one d2's own clipping code uses)",
			"nearness to a non-rectangular outline is decided with d2's own lib/geo intersection routines (star of 8 probe segments of half-length tau around the point against shape.Perimeter())",
			"connections with an endpoint inside a sequence diagram are excluded (C23)",
			"diagrams using features the engine declares unsupported, and diagrams whose layout errors (C17), are outside the space",
		},
		Oracles: map[string]eng.Oracle{"layout": c20Oracle},
		Run: func(w *eng.W) {
			all, small := c20Mods()
			w.Note("space", fmt.Sprintf("conns=%d mods_all=%d mods_small=%d", len(c20Conns), len(all), len(small)))
			chunked(w, "conns*4dirs*mods<=1:dagre", 6, func(emit func(string, string)) {
				for k := 0; k <= 1; k++ {
					c20Programs(c20Conns, allDirs, all, k, func(src string) { emit("layout", mkIn("dagre", src)) })
				}
			})
			if !w.Thorough() {
				chunked(w, "conns*2dirs*modsSmall<=1:elk", 6, func(emit func(string, string)) {
					for k := 0; k <= 1; k++ {
						c20Programs(c20Conns, []string{"", "right"}, small, k, func(src string) { emit("layout", mkIn("elk", src)) })
					}
				})
				chunked(w, "conns*2dirs*modsSmall=2:dagre", 8, func(emit func(string, string)) {
					c20Programs(c20Conns, []string{"", "right"}, small, 2, func(src string) { emit("layout", mkIn("dagre", src)) })
				})
			} else {
				chunked(w, "conns*4dirs*mods<=1:elk", 16, func(emit func(string, string)) {
					for k := 0; k <= 1; k++ {
						c20Programs(c20Conns, allDirs, all, k, func(src string) { emit("layout", mkIn("elk", src)) })
					}
				})
				chunked(w, "conns*4dirs*modsSmall=2:dagre", 16, func(emit func(string, string)) {
					c20Programs(c20Conns, allDirs, small, 2, func(src string) { emit("layout", mkIn("dagre", src)) })
				})
				chunked(w, "conns*1dir*modsSmall=2:elk", 16, func(emit func(string, string)) {
					c20Programs(c20Conns, []string{""}, small, 2, func(src string) { emit("layout", mkIn("elk", src)) })
				})
				chunked(w, "FLcore=2:dagre", 16, func(emit func(string, string)) {
					forPrograms("", FLCore(), 2, func(src string) { emit("layout", mkIn("dagre", src)) })
				})
			}
		},
	})
}
