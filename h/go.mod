module verif/h

go 1.25

require (
	oss.terrastruct.com/d2 v0.0.0
	oss.terrastruct.com/util-go v0.0.0-20250213174338-243d8661088a
)

require (
	github.com/PuerkitoBio/goquery v1.10.0 // indirect
	github.com/alecthomas/chroma/v2 v2.14.0 // indirect
	github.com/andybalholm/cascadia v1.3.2 // indirect
	github.com/dlclark/regexp2 v1.11.4 // indirect
	github.com/dop251/goja v0.0.0-20240927123429-241b342198c2 // indirect
	github.com/go-sourcemap/sourcemap v2.1.4+incompatible // indirect
	github.com/golang/freetype v0.0.0-20170609003504-e2365dfdc4a0 // indirect
	github.com/google/pprof v0.0.0-20240927180334-d43a67379298 // indirect
	github.com/lucasb-eyer/go-colorful v1.2.0 // indirect
	github.com/mazznoer/csscolorparser v0.1.5 // indirect
	github.com/rivo/uniseg v0.4.7 // indirect
	github.com/spf13/pflag v1.0.5 // indirect
	github.com/yuin/goldmark v1.7.4 // indirect
	go.uber.org/multierr v1.11.0 // indirect
	golang.org/x/exp v0.0.0-20240909161429-701f63a606c0 // indirect
	golang.org/x/image v0.20.0 // indirect
	golang.org/x/net v0.35.0 // indirect
	golang.org/x/sys v0.30.0 // indirect
	golang.org/x/term v0.29.0 // indirect
	golang.org/x/text v0.22.0 // indirect
	golang.org/x/xerrors v0.0.0-20240903120638-7835f813f4da // indirect
)

replace oss.terrastruct.com/d2 => /repo
