package checks

import (
	"encoding/json"
	"fmt"
	"strconv"

	"oss.terrastruct.com/d2/d2ast"
	"verif/h/eng"
	. "verif/h/u"
)

func init() {
	eng.Internal["dbg-parse"] = func(args []string) {
		for _, a := range args {
			src := a
			if u, err := strconv.Unquote(a); err == nil {
				src = u
			}
			m, err := parseMode(src, false)
			fmt.Printf("== %q\nerr: %v\n", src, err)
			var walk func(n d2ast.Node, d int)
			walk = func(n d2ast.Node, d int) {
				if IsNilNode(n) {
					return
				}
				r := n.GetRange()
				fmt.Printf("%*s%s %s-%s\n", d*2, "", tname(n), r.Start.Debug(), r.End.Debug())
				for _, c := range n.Children() {
					walk(c, d+1)
				}
			}
			walk(m, 0)
		}
	}
	eng.Internal["dbg-compile"] = func(args []string) {
		for _, a := range args {
			src := a
			if u, err := strconv.Unquote(a); err == nil {
				src = u
			}
			g, cfg, err := Compile(src)
			fmt.Printf("== %q\nerr: %v\n", src, err)
			if g != nil {
				var v any
				json.Unmarshal([]byte(Canon(g, cfg)), &v)
				b, _ := json.MarshalIndent(v, "", " ")
				fmt.Println(string(b))
			}
		}
	}
}
