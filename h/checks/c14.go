package checks

import (
	"encoding/json"
	"fmt"
	"sort"
	"strings"

	"verif/h/eng"
	. "verif/h/u"
)

// C14: imports behave like inlining (two placements the property defines) and cycles are always reported.

// body statements of an imported file, with what the inlined twin must contain instead (globs of the imported
// file other than *** must not reach the importing file: the twin holds their expansion on the file's own objects).
type istmt struct {
	Text string
	Objs []string // top-level objects the statement declares (for expanding the file's own * / ** globs)
	Glob string   // "" | "*" | "**" | "***"
	Body string   // glob body suffix, e.g. ": g" or ".style.opacity: 0.4"
	Dir  bool     // only meaningful when imported from a sub-directory (relative icon)
	P1   bool     // only for the top-of-file placement (boards / links are file-level things)
}

var f14 = []istmt{
	{Text: "p", Objs: []string{"p"}},
	{Text: "p: lp", Objs: []string{"p"}},
	{Text: "p.q", Objs: []string{"p"}},
	{Text: "p -> r", Objs: []string{"p", "r"}},
	{Text: "p -> r: e", Objs: []string{"p", "r"}},
	{Text: "P.style.opacity: 0.5", Objs: []string{"P"}},
	{Text: "*: g", Glob: "*", Body: ": g"},
	{Text: "*.style.opacity: 0.4", Glob: "*", Body: ".style.opacity: 0.4"},
	{Text: "**.shape: circle", Glob: "**", Body: ".shape: circle"},
	{Text: "***.style.fill: red", Glob: "***", Body: ".style.fill: red"},
	{Text: "p.icon: ./i.png", Objs: []string{"p"}, Dir: true},
	{Text: "classes: {k: {style.stroke: blue}}"},
	{Text: "p.class: k", Objs: []string{"p"}},
	{Text: "vars: {v: 7}"},
	{Text: "p: ${v}", Objs: []string{"p"}},
	{Text: "layers: {l: {z}}", P1: true},
	{Text: "p.link: layers.l", Objs: []string{"p"}, P1: true},
}

var f14Index = map[string]istmt{}

// statements of the importing file that follow the import (placement 1)
var f14After = []string{"", "s", "p: over", "s -> p", "p.style.opacity: 0.9", "s: {t}"}

func init() {
	for _, s := range f14 {
		f14Index[s.Text] = s
	}
}

type c14Case struct {
	Place string   // "top" | "map-spread" | "map-value"
	Imp   string   // import path as written: x | ./x | x.d2 | d/x
	Body  []string // imported file body
	After string   // importer statement after the import (top placement)
}

// inlineBody: the imported file's content as it must behave when written in place.
func inlineBody(body []string, nested bool) []string {
	var names []string
	deep := map[string]bool{}
	for _, l := range body {
		st := f14Index[l]
		for _, o := range st.Objs {
			found := false
			for _, n := range names {
				if strings.EqualFold(n, o) {
					found = true
				}
			}
			if !found {
				names = append(names, o)
			}
		}
		if l == "p.q" {
			deep["p.q"] = true
		}
	}
	var out []string
	for _, l := range body {
		st := f14Index[l]
		switch st.Glob {
		case "*", "**":
			// the file's own objects only; declared first so that the expansion does not depend on statement order
			for _, n := range names {
				out = append(out, n, n+st.Body)
			}
			if st.Glob == "**" && deep["p.q"] {
				out = append(out, "p.q", "p.q"+st.Body)
			}
		default:
			out = append(out, l)
		}
	}
	return out
}

func c14Oracle(in string) eng.Res {
	var c c14Case
	if err := json.Unmarshal([]byte(in), &c); err != nil {
		return eng.Bad("harness-error", err.Error())
	}
	file := "x.d2"
	dir := ""
	if strings.HasPrefix(c.Imp, "d/") {
		file, dir = "d/x.d2", "d"
	}
	files := Files{file: strings.Join(c.Body, "\n") + "\n"}
	var prog, twin string
	inl := inlineBody(c.Body, c.Place != "top")
	if dir != "" {
		for i, l := range inl {
			if l == "p.icon: ./i.png" {
				inl[i] = "p.icon: d/i.png" // relative icons are rebased onto the import directory
			}
		}
	}
	switch c.Place {
	case "top":
		prog = "...@" + c.Imp + "\n" + c.After
		twin = strings.Join(inl, "\n") + "\n" + c.After
	case "map-spread":
		prog = "k: {...@" + c.Imp + "}"
		twin = "k: {\n" + strings.Join(inl, "\n") + "\n}"
	case "map-value":
		prog = "k: @" + c.Imp
		twin = "k: {\n" + strings.Join(inl, "\n") + "\n}"
	}
	g1, c1, err1 := CompileFS("index.d2", prog, files)
	g2, c2, err2 := CompileFS("index.d2", twin, files)
	if err2 != nil {
		if err1 != nil {
			return eng.OK("both-rejected", false)
		}
		return eng.OK("twin-rejected", false) // content that is only legal at file level (e.g. vars use without definition order) — not comparable
	}
	if err1 != nil {
		return eng.Bad("import-rejected-but-inlined-content-accepted:"+msgKind(firstErr(err1)), fmt.Sprintf("files %v\nprogram %q: %v\ntwin %q compiles", files, prog, err1))
	}
	o := CanonOpts{SortObjects: true, SortChildren: true}
	a, b := CanonWith(g1, c1, o), CanonWith(g2, c2, o)
	if a != b {
		paths := JSONDiffPaths(a, b)
		p := "?"
		if len(paths) > 0 {
			p = paths[0]
		}
		return eng.Bad("differs-from-inlined-twin:"+c.Place+":"+p, fmt.Sprintf("files %v\nprogram %q\ntwin    %q\ndiffering fields %v\n%s", files, prog, twin, paths, FirstDiff(a, b)))
	}
	return eng.OK(fmt.Sprintf("%s o%d e%d", c.Place, len(g1.Objects), len(g1.Edges)), true)
}

// ---- imports across directories: relative icons are rebased through every import hop ----------------------------------

// c14Dirs: input JSON {Outer, Inner, Icon}: index.d2 imports sub/a.d2 (Outer form), which imports ../shared/b.d2 (Inner
// form, written with a `../` prefix), which sets a relative icon. The twin has the icon written relative to index.d2.
func c14Dirs(in string) eng.Res {
	var c struct{ Outer, Inner, Icon string }
	if err := json.Unmarshal([]byte(in), &c); err != nil {
		return eng.Bad("harness-error", err.Error())
	}
	files := Files{
		"sub/a.d2":    fmt.Sprintf(c.Inner, "../shared/b") + "\n",
		"shared/b.d2": "p.icon: " + c.Icon + "\nq\n",
	}
	prog := fmt.Sprintf(c.Outer, "sub/a") + "\n"
	want := c.Icon
	if !strings.Contains(c.Icon, "://") && !strings.HasPrefix(c.Icon, "/") {
		want = pathJoin("shared", c.Icon)
	}
	g, _, err := CompileFS("index.d2", prog, files)
	if err != nil {
		return eng.OK("rejected:"+msgKind(firstErr(err)), false)
	}
	var got []string
	for _, o := range g.Objects {
		if o.Icon != nil {
			got = append(got, o.Icon.String())
		}
	}
	if len(got) != 1 {
		return eng.Bad("imported-icon-lost-or-duplicated", fmt.Sprintf("files %v program %q: icons %v", files, prog, got))
	}
	if got[0] != want {
		return eng.Bad("relative-icon-not-rebased-onto-the-imported-file's-directory", fmt.Sprintf("files %v program %q: icon %q, the file lies at %q", files, prog, got[0], want))
	}
	return eng.OK("icon:"+want, true)
}

// ---- chains: index -> mid -> lib, the middle file extends what it imported -----------------------------------------

// c14Chain: input JSON {Outer, Inner, Lib, Mid}: lib.d2 = Lib; mid.d2 = <Inner import of lib> + Mid statements;
// index.d2 = <Outer import of mid>. The twin is the text with both imports written out in place (the bodies have no globs,
// variables or file-level constructs, so textual inlining is exact).
func c14Chain(in string) eng.Res {
	var c struct {
		Outer, Inner string
		Lib, Mid     []string
	}
	if err := json.Unmarshal([]byte(in), &c); err != nil {
		return eng.Bad("harness-error", err.Error())
	}
	inline := func(form, name string, body []string) []string {
		b := strings.Join(body, "\n")
		switch form {
		case "...@%s":
			return body
		case "k: @%s":
			return []string{"k: {\n" + b + "\n}"}
		case "k: {...@%s}":
			return []string{"k: {\n" + b + "\n}"}
		case "k.j: @%s":
			return []string{"k.j: {\n" + b + "\n}"}
		}
		panic("harness: form " + form)
	}
	// mid statements are written relative to where lib's content lands in mid: prefix "k." / "k.j." for the mounted forms
	prefix := map[string]string{"...@%s": "", "k: @%s": "k.", "k: {...@%s}": "k.", "k.j: @%s": "k.j."}[c.Inner]
	var midStmts []string
	for _, m := range c.Mid {
		midStmts = append(midStmts, strings.ReplaceAll(m, "§", prefix))
	}
	midBody := append(append([]string{}, fmt.Sprintf(c.Inner, "lib")), midStmts...)
	files := Files{"lib.d2": strings.Join(c.Lib, "\n") + "\n", "mid.d2": strings.Join(midBody, "\n") + "\n"}
	prog := fmt.Sprintf(c.Outer, "mid") + "\n"
	midInlined := append(inline(c.Inner, "lib", c.Lib), midStmts...)
	twin := strings.Join(inline(c.Outer, "mid", midInlined), "\n") + "\n"
	g1, c1, err1 := CompileFS("index.d2", prog, files)
	g2, c2, err2 := CompileFS("index.d2", twin, Files{})
	if err2 != nil {
		return eng.OK("twin-rejected", false)
	}
	if err1 != nil {
		return eng.Bad("import-chain-rejected-but-inlined-content-accepted:"+msgKind(firstErr(err1)), fmt.Sprintf("files %v\nprogram %q: %v\ntwin %q compiles", files, prog, err1))
	}
	o := CanonOpts{SortObjects: true, SortChildren: true}
	a, b := CanonWith(g1, c1, o), CanonWith(g2, c2, o)
	if a != b {
		paths := JSONDiffPaths(a, b)
		p := "?"
		if len(paths) > 0 {
			p = paths[0]
		}
		return eng.Bad("chain-differs-from-inlined-twin:"+p, fmt.Sprintf("files %v\nprogram %q\ntwin    %q\ndiffering fields %v\n%s", files, prog, twin, paths, FirstDiff(a, b)))
	}
	return eng.OK(fmt.Sprintf("chain o%d e%d", len(g1.Objects), len(g1.Edges)), true)
}

func pathJoin(dir, rel string) string {
	parts := strings.Split(dir+"/"+rel, "/")
	var out []string
	for _, p := range parts {
		switch p {
		case "", ".":
		case "..":
			if len(out) > 0 {
				out = out[:len(out)-1]
			}
		default:
			out = append(out, p)
		}
	}
	return strings.Join(out, "/")
}

// ---- cycles -------------------------------------------------------------------------------------------

// c14Cycle: input JSON {"Files": {...}}; each file holds one object and at most one import of any form.
func c14Cycle(in string) eng.Res {
	var fs struct{ Files Files }
	if err := json.Unmarshal([]byte(in), &fs); err != nil {
		return eng.Bad("harness-error", err.Error())
	}
	// independent reachability: does following imports from index.d2 lead back to a file on the current chain?
	target := func(body string) string {
		i := strings.Index(body, "@")
		if i < 0 {
			return ""
		}
		t := body[i+1:]
		t = strings.TrimPrefix(t, "\"./")
		t = strings.TrimPrefix(t, "./")
		end := strings.IndexAny(t, "\"}\n].")
		if end >= 0 {
			t = t[:end]
		}
		return t + ".d2"
	}
	cyclic := false
	var chain []string
	var walk func(f string, depth int)
	walk = func(f string, depth int) {
		if cyclic || depth > 8 {
			return
		}
		for _, c := range chain {
			if c == f {
				cyclic = true
				return
			}
		}
		chain = append(chain, f)
		if t := target(fs.Files[f]); t != "" {
			walk(t, depth+1)
		}
		chain = chain[:len(chain)-1]
	}
	walk("index.d2", 0)
	g, _, err := CompileFS("index.d2", fs.Files["index.d2"], fs.Files)
	if cyclic {
		if err == nil {
			return eng.Bad("import-cycle-not-reported", fmt.Sprintf("files %v compile (objects %d) although the import chain returns to a file being imported", fs.Files, len(g.Objects)))
		}
		if !strings.Contains(err.Error(), "cyclic import") {
			return eng.Bad("import-cycle-reported-as-something-else:"+msgKind(firstErr(err)), fmt.Sprintf("files %v: %v", fs.Files, err))
		}
		return eng.OK("cycle-reported", true)
	}
	if err != nil && strings.Contains(err.Error(), "cyclic import") {
		return eng.Bad("acyclic-imports-reported-as-cycle", fmt.Sprintf("files %v: %v", fs.Files, err))
	}
	return eng.OK("acyclic:"+ErrClass(err), true)
}

func init() {
	eng.Register(&eng.Check{
		ID: "C14", Level: "exploration",
		Rule: "equivalence: every imported file body of ≤2 (quick) / ≤3 (thorough) statements over the 17-statement fragment F14 (objects, labels, nesting, connections, case variant, *, ** and *** globs, relative icon, class, vars, layer, board link) × import spelling {x, ./x, x.d2, d/x} × placement {spread import as first statement of the file followed by one of 6 importer statements; `k: {...@x}`; `k: @x`}, compared with the inlined twin (imported * / ** globs expanded on the imported file's own objects, relative icon rebased, positions ignored) through the real compiler; cycles: every assignment of one import statement of 7 forms (or none) pointing at any file to each of 3 (quick) / 4 (thorough) files — all cycle lengths 1..n, reachable and unreachable — ; a three-file chain across directories (index → sub/a → ../shared/b, 5×5 import forms × 6 icon spellings) must rebase a relative icon onto the imported file's directory; three-file chains index → mid → lib (4×4 import forms × 4 library bodies × 8 ways in which the middle file re-opens, extends or connects what it imported) compared with the text in which both imports are written out; cycles must report a cyclic-import error exactly when an independent reachability walk finds the chain returning to a file being imported",
		Assumptions: []string{"only the two placements the property defines are compared (top of file; sole content of a map)", "board blocks and board links of the imported file are compared only in the top-of-file placement"},
		Oracles: map[string]eng.Oracle{"inline": c14Oracle, "cycle": c14Cycle, "dirs": c14Dirs, "chain": c14Chain},
		Run: func(w *eng.W) {
			var alpha []string
			for _, s := range f14 {
				alpha = append(alpha, s.Text)
			}
			imps := []string{"x", "./x", "x.d2", "d/x"}
			for k := 1; k <= w.Pick(2, 3); k++ {
				k := k
				w.Phase(fmt.Sprintf("inline-body<=%d", k), func() {
					Seqs(alpha, k, func(body []string) {
						dupGlob := false
						for i := range body {
							for j := 0; j < i; j++ {
								if body[i] == body[j] && f14Index[body[i]].Glob != "" {
									dupGlob = true // a glob statement repeated verbatim runs into a recorded C12 defect on the import side
								}
							}
						}
						if dupGlob {
							return
						}
						for _, imp := range imps {
							hasDirOnly, hasP1 := false, false
							for _, l := range body {
								if f14Index[l].Dir {
									hasDirOnly = true
								}
								if f14Index[l].P1 {
									hasP1 = true
								}
							}
							if hasDirOnly && imp != "d/x" {
								continue // a relative icon in the same directory has nothing to rebase
							}
							for _, after := range f14After {
								b, _ := json.Marshal(c14Case{Place: "top", Imp: imp, Body: append([]string{}, body...), After: after})
								w.Eval("inline", string(b))
							}
							if !hasP1 {
								for _, pl := range []string{"map-spread", "map-value"} {
									b, _ := json.Marshal(c14Case{Place: pl, Imp: imp, Body: append([]string{}, body...)})
									w.Eval("inline", string(b))
								}
							}
						}
					})
				})
			}
			w.Phase("imports-across-directories", func() {
				forms := []string{"...@%s", "k: @%s", "k: {...@%s}", "...@\"%s\"", "k: @\"%s.d2\""}
				icons := []string{"./img/i.png", "img/i.png", "../up.png", "i.png", "https://example.com/i.png", "./a/../b.png"}
				for _, o := range forms {
					for _, i := range forms {
						for _, ic := range icons {
							b, _ := json.Marshal(map[string]string{"Outer": o, "Inner": i, "Icon": ic})
							w.Eval("dirs", string(b))
						}
					}
				}
			})
			w.Phase("three-file-chains", func() {
				forms := []string{"...@%s", "k: @%s", "k: {...@%s}", "k.j: @%s"}
				libs := [][]string{{"c: {a}"}, {"c: lc {a}", "d"}, {"c.a -> d"}, {"c: {a: {b}}", "c.a.b -> c"}}
				// § = the path prefix under which lib's content sits inside mid
				mids := [][]string{{}, {"§c: {z}"}, {"§c.z"}, {"§c: over"}, {"§c: {a: {y}}"}, {"§c.a -> n"}, {"§c: {z}", "§c.z -> §c.a"}, {"n", "§c: {style.opacity: 0.4}"}}
				for _, o := range forms {
					for _, i := range forms {
						for _, l := range libs {
							for _, m := range mids {
								b, _ := json.Marshal(map[string]any{"Outer": o, "Inner": i, "Lib": l, "Mid": m})
								w.Eval("chain", string(b))
							}
						}
					}
				}
			})
			w.Phase("cycles", func() {
				names := []string{"index", "x", "y"}
				if w.Thorough() {
					names = append(names, "z")
				}
				forms := []string{"...@%s", "k: @%s", "k: {...@%s}", "...@\"./%s\"", "k: @%s.d2", "k: [@%s]", "k: {j: @%s}"}
				type spec struct{ form, tgt int }
				specs := []spec{{-1, 0}}
				for f := range forms {
					for t := range names {
						specs = append(specs, spec{f, t})
					}
				}
				idx := make([]string, len(specs))
				for i := range specs {
					idx[i] = string(rune(i + 1))
				}
				Seqs(idx, len(names), func(s []string) {
					fs := Files{}
					for fi, name := range names {
						sp := specs[int([]rune(s[fi])[0])-1]
						body := fmt.Sprintf("o%d\n", fi)
						if sp.form >= 0 {
							body += fmt.Sprintf(forms[sp.form], names[sp.tgt]) + "\n"
						}
						fs[name+".d2"] = body
					}
					keys := make([]string, 0, len(fs))
					for k := range fs {
						keys = append(keys, k)
					}
					sort.Strings(keys)
					b, _ := json.Marshal(map[string]any{"Files": fs})
					w.Eval("cycle", string(b))
				})
			})
		},
	})
}
