package checks

import (
	"encoding/json"
	"fmt"
	"strings"

	"oss.terrastruct.com/d2/d2graph"
	"verif/h/eng"
	. "verif/h/u"
)

// C15: boards inherit from their base and never leak back. Metamorphic twins compiled by the real compiler:
//   root board        == program without board blocks
//   scenario S        == base statements that precede the block + S's statements
//   step i            == base statements that precede the block + statements of steps 1..i
//   layer L           == base classes / vars / *** globs that precede the block + L's statements

type c15Case struct {
	Pre    []string   // base statements before the board block
	Kind   string     // layers | scenarios | steps
	Boards [][]string // statements of each board (named b1, b2)
	Post   []string   // base statements after the block
}

var c15Base = []string{"a", "a: x", "a -> b", "classes: {k: {style.fill: red}}", "a.class: k", "*.style.opacity: 0.3", "***.shape: circle", "vars: {v: 1}", "b.style.stroke: blue", "(* -> *)[*].style.stroke: red", "(a -> *)[*]: lbl", "a.e -> b"}
var c15Board = []string{"c", "a: y", "a: null", "(a -> b)[0]: null", "a -> c", "classes.k.style.fill: blue", "d: ${v}", "**.style.stroke: green", "c.class: k", "a.style.opacity: 0.9", "b: null", "a.e: null"}

func (c c15Case) text() string {
	var sb strings.Builder
	for _, l := range c.Pre {
		sb.WriteString(l + "\n")
	}
	sb.WriteString(c.Kind + ": {\n")
	for i, b := range c.Boards {
		sb.WriteString(fmt.Sprintf("  b%d: {\n", i+1))
		for _, l := range b {
			sb.WriteString("    " + l + "\n")
		}
		sb.WriteString("  }\n")
	}
	sb.WriteString("}\n")
	for _, l := range c.Post {
		sb.WriteString(l + "\n")
	}
	return sb.String()
}

func boardContent(b *d2graph.Graph) string {
	cb := CanonBoardOf(b, "", CanonOpts{SortObjects: true, SortChildren: true})
	cb.Name, cb.Kind, cb.Boards, cb.FolderOnly = "", "", nil, false
	j, _ := json.Marshal(cb)
	return string(j)
}

func isBoardWide(l string) bool {
	return strings.HasPrefix(l, "classes") || strings.HasPrefix(l, "vars") || strings.HasPrefix(l, "***")
}

func c15Oracle(in string) eng.Res {
	var c c15Case
	if err := json.Unmarshal([]byte(in), &c); err != nil {
		return eng.Bad("harness-error", err.Error())
	}
	prog := c.text()
	g, _, err := Compile(prog)
	if err != nil {
		return eng.OK("uncompilable", false)
	}
	var boards []*d2graph.Graph
	switch c.Kind {
	case "layers":
		boards = g.Layers
	case "scenarios":
		boards = g.Scenarios
	case "steps":
		boards = g.Steps
	}
	if len(boards) != len(c.Boards) {
		return eng.Bad("board-count-differs:"+c.Kind, fmt.Sprintf("program %q: %d boards, expected %d", prog, len(boards), len(c.Boards)))
	}
	cmp := func(what string, got *d2graph.Graph, twinStmts []string) *eng.Res {
		twin := strings.Join(twinStmts, "\n")
		tg, _, terr := Compile(twin)
		if terr != nil {
			return nil // the standalone twin is not a legal program (e.g. deleting something that never existed is fine, undefined var is not): not comparable
		}
		a, b := boardContent(got), boardContent(tg)
		if a != b {
			hasGlob, hasNullOrVars := false, false
			for _, l := range twinStmts {
				if strings.Contains(l, "*") {
					hasGlob = true
				}
				if strings.Contains(l, "null") || strings.Contains(l, "${") {
					hasNullOrVars = true
				}
			}
			if hasGlob && hasNullOrVars {
				// the standalone twin itself runs into recorded glob defects (C12: a glob is not re-applied to an object
				// re-created after null; a *** glob is lost when a vars use follows): the twin is not a usable reference here
				return nil
			}
			paths := JSONDiffPaths(a, b)
			p := "?"
			if len(paths) > 0 {
				p = paths[0]
			}
			r := eng.Bad(what+":"+p, fmt.Sprintf("program %q\n%s differs from standalone twin %q\ndiffering fields %v\n%s", prog, what, twin, paths, FirstDiff(a, b)))
			return &r
		}
		return nil
	}
	// isolation: the root board is the program without its board blocks
	if r := cmp("root-board-changed-by-its-boards:"+c.Kind, g, append(append([]string{}, c.Pre...), c.Post...)); r != nil {
		return *r
	}
	for _, l := range c.Post {
		if isBoardWide(l) {
			// classes / vars / *** globs written after the block also reach the boards in d2; the statement does not
			// settle that, so only the root board is compared for such programs
			return eng.OK(fmt.Sprintf("%s root-only", c.Kind), true)
		}
	}
	for i, b := range boards {
		if c.Kind == "steps" && i > 0 {
			globBefore := false
			for j := 0; j < i; j++ {
				for _, l := range c.Boards[j] {
					if strings.Contains(l, "*") {
						globBefore = true
					}
				}
			}
			if globBefore {
				continue // whether a glob of an earlier step keeps acting on objects created in a later step is not settled
			}
		}
		var twin []string
		switch c.Kind {
		case "scenarios":
			twin = append(append([]string{}, c.Pre...), c.Boards[i]...)
		case "steps":
			twin = append([]string{}, c.Pre...)
			for j := 0; j <= i; j++ {
				twin = append(twin, c.Boards[j]...)
			}
		case "layers":
			for _, l := range c.Pre {
				if isBoardWide(l) {
					twin = append(twin, l)
				}
			}
			twin = append(twin, c.Boards[i]...)
		}
		what := fmt.Sprintf("%s-board-differs-from-inheritance-twin", strings.TrimSuffix(c.Kind, "s"))
		if r := cmp(what, b, twin); r != nil {
			return *r
		}
	}
	sig := boardContent(g)
	for _, b := range boards {
		sig += boardContent(b)
	}
	return eng.OK(c.Kind+" "+sig, true)
}

func init() {
	eng.Register(&eng.Check{
		ID: "C15", Level: "exploration",
		Rule: "every program made of ≤2 base statements before the board block (12-statement base fragment: objects, label, connection, a connection from a nested object, class definition and use, * glob, *** glob, vars, style, two connection globs) × board kind {layers, scenarios, steps} (incl. two connection globs) × 1–2 boards each holding ≤2 (quick: second board ≤1) statements of the 12-statement board fragment (add, relabel, delete object, delete a nested object that the base connects, delete connection, connect to new object, change class, use variable, ** glob, use class, style, delete other endpoint) × ≤1 base statement after the block; oracle (all through the real compiler, order-insensitive canonical content): root board == program without the block; scenario == preceding base + own statements; step i == preceding base + steps 1..i; layer == preceding classes/vars/*** globs + own statements",
		Assumptions: []string{"a board whose standalone twin does not compile is not compared", "what a board inherits from base statements written AFTER the board block is not asserted for boards (only that the root board has them)"},
		Oracles: map[string]eng.Oracle{"boards": c15Oracle},
		Run: func(w *eng.W) {
			emit := func(c c15Case) {
				b, _ := json.Marshal(c)
				w.Eval("boards", string(b))
			}
			kinds := []string{"layers", "scenarios", "steps"}
			var pres [][]string
			pres = append(pres, nil)
			for k := 1; k <= 2; k++ {
				Seqs(c15Base, k, func(s []string) { pres = append(pres, append([]string{}, s...)) })
			}
			var bodies1, bodies2 [][]string
			Seqs(c15Board, 1, func(s []string) { bodies1 = append(bodies1, append([]string{}, s...)) })
			Seqs(c15Board, 2, func(s []string) { bodies2 = append(bodies2, append([]string{}, s...)) })
			w.Phase("one-board", func() {
				for _, pre := range pres {
					for _, kind := range kinds {
						for _, b := range append(append([][]string{}, bodies1...), bodies2...) {
							emit(c15Case{Pre: pre, Kind: kind, Boards: [][]string{b}})
							for _, post := range c15Base {
								if len(pre) <= 1 {
									emit(c15Case{Pre: pre, Kind: kind, Boards: [][]string{b}, Post: []string{post}})
								}
							}
						}
					}
				}
			})
			w.Phase("two-boards", func() {
				second := bodies1
				if w.Thorough() {
					second = append(append([][]string{}, bodies1...), bodies2...)
				}
				for _, pre := range pres {
					if len(pre) > 1 && !w.Thorough() {
						continue
					}
					for _, kind := range kinds {
						for _, b1 := range append(append([][]string{}, bodies1...), bodies2...) {
							for _, b2 := range second {
								emit(c15Case{Pre: pre, Kind: kind, Boards: [][]string{b1, b2}})
							}
						}
					}
				}
			})
		},
	})
}
