package checks

import (
	"context"
	"crypto/sha256"
	"encoding/hex"
	"encoding/json"
	"fmt"
	"os"
	"os/exec"
	"path/filepath"
	"runtime"
	"strconv"
	"strings"
	"sync"
	"time"

	"oss.terrastruct.com/d2/d2graph"
	"oss.terrastruct.com/d2/d2layouts/d2dagrelayout"
	"oss.terrastruct.com/d2/d2layouts/d2elklayout"
	"oss.terrastruct.com/d2/d2lib"
	"oss.terrastruct.com/d2/d2renderers/d2svg"
	"oss.terrastruct.com/d2/lib/textmeasure"
	"verif/h/eng"
	. "verif/h/u"
)

// ---- C08: compile determinism ---------------------------------------------------------------------------------

var c08Files = Files{"x.d2": "p: {q}\np -> r: imported\n*.style.opacity: 0.6\n", "y.d2": "...@x\nz: 1\n",
	// one imported file seen from importers with different variables: substitutions in plain values, in quoted strings
	// and inside block strings are resolved in the importer's context
	// (one file per kind: the parser represents them differently)
	"t.d2": "m: |md hello ${who}, welcome |\n", "t2.d2": "n: ${who}\nn -> o: ${who}\n", "t3.d2": "o: \"to ${who}\"\n"}

var c08Progs = []string{
	"a -> b: hello\nb -> c\nc.shape: circle\n",
	"*.style.fill: red\n**.shape: oval\na; b: {c; d}\n(* -> *)[*].style.stroke: blue\na -> b\nb.c -> b.d\n",
	"vars: {v: 1; w: ${v}x}\na: ${w}\nb: \"q ${v}\"\nc: {vars: {v: 2}; d: ${v}}\n",
	"...@x\nk: @y\ns -> p\n",
	"a; b\nlayers: {l1: {x -> y}; l2: {z}}\nscenarios: {s1: {a: changed}; s2: {b: null}}\nsteps: {1: {c}; 2: {d}}\n",
	"classes: {k: {style.fill: green; shape: diamond}; j: {style.stroke-width: 3}}\na.class: k\nb.class: [k; j]\na -> b: {class: j}\n",
	"t: {shape: sql_table; id: int {constraint: primary_key}; name: text}\nu: {shape: sql_table; tid: int {constraint: foreign_key}}\nu.tid -> t.id\nc: {shape: class; +f: int; -m(): void}\n",
	"s: {shape: sequence_diagram; a -> b: one; b -> a: two; a.sp -> b.sp; g: {a -> b: grouped}}\n",
	"g: {grid-rows: 2; grid-gap: 7; a; b; c; d: {e; f}}\nn: {near: top-center}\nm.near: g\n",
	"a -> b; a -> b; a -> b\n(a -> b)[1]: mid\n(a -> b)[0]: null\nx: null\na.style.opacity: 0.3\na.style.opacity: null\nA.label: upper\n",
	"a: |md # title\n  text |\nb: |go x := 1|\nc: |latex \\\\frac{1}{2}|\nd.icon: https://icons.terrastruct.com/x.svg\ne.link: https://example.com\ne.tooltip: tip\n",
	"bad: {shape: nothing}\na.style.opacity: 7\n(q -> r)[3]: x\n...@missing\n",
	"vars: {who: alice}\n...@t\n...@t2\n...@t3\n",
	"vars: {who: bob}\n...@t\n...@t2\n...@t3\nn.shape: circle\n",
	"vars: {who: carol}\nc: @t\nd: {vars: {who: dave}; ...@t; ...@t3}\ne: @t2\n",
}

func c08Result(i int) string {
	g, cfg, err := CompileFS("index.d2", c08Progs[i], c08Files)
	if err != nil {
		return "ERR:" + err.Error()
	}
	return Canon(g, cfg)
}

func refPath(id string) string { return filepath.Join(eng.Scratch(), id+"-ref.json") }

// freshRefs runs `self <cmd> i` in a fresh process per index and stores the outputs' hashes.
func freshRefs(id, cmd string, n int) {
	self, _ := os.Executable()
	out := make([]string, n)
	var wg sync.WaitGroup
	sem := make(chan struct{}, 8)
	for i := 0; i < n; i++ {
		wg.Add(1)
		go func(i int) {
			defer wg.Done()
			sem <- struct{}{}
			defer func() { <-sem }()
			b, err := exec.Command(self, cmd, strconv.Itoa(i)).Output()
			if err != nil {
				out[i] = "FRESH-PROCESS-FAILED:" + err.Error()
				return
			}
			out[i] = strings.TrimSpace(string(b))
		}(i)
	}
	wg.Wait()
	b, _ := json.Marshal(out)
	os.MkdirAll(filepath.Dir(refPath(id)), 0o755)
	os.WriteFile(refPath(id), b, 0o644)
}

var refCache = map[string][]string{}

func loadRefs(id string) []string {
	if r, ok := refCache[id]; ok {
		return r
	}
	var r []string
	b, _ := os.ReadFile(refPath(id))
	json.Unmarshal(b, &r)
	refCache[id] = r
	return r
}

func hashOf(s string) string {
	h := sha256.Sum256([]byte(s))
	return hex.EncodeToString(h[:8])
}

func parseIdx(in string) []int {
	var out []int
	for _, p := range strings.Split(in, ",") {
		n, _ := strconv.Atoi(p)
		out = append(out, n)
	}
	return out
}

// c08Hist runs one history and returns the position of the first compilation that differs from its fresh-process
// reference (-1 = none).
func c08Hist(idx []int) int {
	refs := loadRefs("C08")
	for pos, i := range idx {
		if hashOf(c08Result(i)) != refs[i] {
			return pos
		}
	}
	return -1
}

// selfContained turns a history that failed inside a long-lived worker (whose earlier evaluations may have left state
// behind) into a history that fails when run alone in a fresh process: the history itself, or the history after one
// more program. cmd is the Internal sub-command that runs a history and prints the failing position.
func selfContained(cmd, in string, nprogs int) (string, bool) {
	// one confirmed witness per worker and oracle is enough (each confirmation costs up to nprogs+1 processes); later
	// failures of the worker carry it as their witness and name their own history in the detail
	if h, ok := selfContainedCache[cmd]; ok {
		return h, h != ""
	}
	h, ok := selfContainedSearch(cmd, in, nprogs)
	selfContainedCache[cmd] = h
	return h, ok
}

var selfContainedCache = map[string]string{}

func selfContainedSearch(cmd, in string, nprogs int) (string, bool) {
	self, _ := os.Executable()
	fails := func(h string) bool {
		b, err := exec.Command(self, cmd, h).Output()
		return err == nil && strings.TrimSpace(string(b)) != "-1" && strings.TrimSpace(string(b)) != ""
	}
	if fails(in) {
		return in, true
	}
	for p := 0; p < nprogs; p++ {
		if h := strconv.Itoa(p) + "," + in; fails(h) {
			return h, true
		}
	}
	return "", false
}

func c08Seq(in string) eng.Res {
	idx := parseIdx(in)
	if pos := c08Hist(idx); pos >= 0 {
		r := eng.Bad("compile-result-depends-on-earlier-compilations-in-the-process", fmt.Sprintf("history %v: compilation #%d (program %d) differs from the same program compiled in a fresh process", idx, pos, idx[pos]))
		if os.Getenv("VERIF_NO_SELFCONTAINED") == "" {
			if h, ok := selfContained("c08-hist", in, len(c08Progs)); ok {
				r.Fail.Witness = h
				if h != in {
					r.Fail.Detail += fmt.Sprintf("\n(first seen in a worker that had evaluated other histories before; reproduced alone in a fresh process as history [%s])", h)
				}
			} else {
				r.Fail.Detail += "\n(seen in a worker that had evaluated other histories before; neither this history nor this history after one more program reproduces it in a fresh process: the state was left by a longer sequence of earlier compilations)"
			}
		}
		return r
	}
	refs := loadRefs("C08")
	return eng.OK(in[len(in)-1:]+refs[idx[len(idx)-1]], true)
}

// c08Concurrent: the programs of the history compiled at the same time on real threads (free-running companion).
func c08Concurrent(in string) eng.Res {
	refs := loadRefs("C08")
	idx := parseIdx(in)
	old := runtime.GOMAXPROCS(4)
	defer runtime.GOMAXPROCS(old)
	var wg sync.WaitGroup
	bad := make([]string, len(idx))
	for t, i := range idx {
		wg.Add(1)
		go func(t, i int) {
			defer wg.Done()
			defer func() {
				if r := recover(); r != nil {
					bad[t] = fmt.Sprintf("panic: %v", r)
				}
			}()
			for rep := 0; rep < 4; rep++ {
				if hashOf(c08Result(i)) != refs[i] {
					bad[t] = fmt.Sprintf("program %d differs from its fresh-process result", i)
				}
			}
		}(t, i)
	}
	wg.Wait()
	for _, b := range bad {
		if b != "" {
			return eng.Bad("compile-result-depends-on-concurrent-compilations", fmt.Sprintf("threads %v: %s", idx, b))
		}
	}
	return eng.OK("conc"+in, true)
}

func c08Twice(in string) eng.Res {
	r := func() string {
		g, cfg, err := CompileFS("index.d2", in, c07Files)
		if err != nil {
			return "ERR:" + err.Error()
		}
		return Canon(g, cfg)
	}
	a, b := r(), r()
	if a != b {
		return eng.Bad("two-compilations-of-the-same-input-differ", fmt.Sprintf("input %q\n%s", in, FirstDiff(a, b)))
	}
	return eng.OK(hashOf(a), true)
}

func globalsNote(w *eng.W, dirs []string) {
	gs, err := scanMutableGlobals(dirs)
	if err != nil {
		w.Note("mutable_package_state", "scan failed: "+err.Error())
		return
	}
	seen := map[string]bool{}
	var names []string
	for _, g := range gs {
		k := g.Pkg + "." + g.Name
		if !seen[k] {
			seen[k] = true
			names = append(names, k)
		}
	}
	w.Note("mutable_package_state", strings.Join(names, " "))
}

// ---- C25: render determinism -----------------------------------------------------------------------------------

type c25Prog struct {
	Src    string
	Engine string
	Sketch bool
}

var c25Progs = []c25Prog{
	{"a -> b: hello\nb -> c\n", "dagre", false},
	{"a -> b: hello\nb -> c\n", "dagre", true},
	{"a -> b: hello\nb -> c\n", "elk", false},
	{"x: {y: {z}}\nx.y.z -> w: lbl {style.animated: true}\nw.style.font: mono\n", "dagre", false},
	{"m: |md # Title\n  *it* **bold** `code`\n|\nc: |go\n  func main() {}\n|\n", "dagre", false},
	{"l: |latex \\\\frac{a}{b} |\nl -> q\n", "dagre", false},
	{"t: {shape: sql_table; id: int {constraint: primary_key}; n: text}\nk: {shape: class; +f: int; -m(): void}\nt -> k\n", "dagre", false},
	{"s: {shape: sequence_diagram; a -> b: one; b -> a: two}\n", "dagre", false},
	{"g: {grid-rows: 2; a; b; c; d}\nn: {near: top-center}\n", "dagre", false},
	{"a.style: {3d: true; fill: red; shadow: true}\nb.style.multiple: true\nc: {shape: cloud; style.fill-pattern: dots}\na -> b -> c\n", "dagre", true},
	{"a: {tooltip: tip; link: https://example.com}\nb.icon: https://icons.terrastruct.com/essentials/004-picture.svg\nb.shape: image\na -> b\n", "dagre", false},
	{"vars: {d2-config: {theme-id: 4; dark-theme-id: 200; pad: 20}}\na -> b: {style.stroke: linear-gradient(red, blue)}\nc.style.fill: \"radial-gradient(#fff, #000)\"\n", "dagre", false},
	{"x: {y: {z}}\nx.y.z -> w\ne -> x.y\n", "elk", false},
	{"é: 世界 😀\nlong label with several words here -> é\n", "dagre", false},
	{"a; b\nlayers: {l: {c -> d}}\nscenarios: {s: {a: changed}}\n", "dagre", false},
	{"a -> b: {source-arrowhead: 1 {shape: diamond}; target-arrowhead: * {shape: cf-many}}\nb -> b\n", "dagre", true},
	// TeX definitions made in one diagram and used, undefined, in another: a typesetter kept across renders would leak them
	{"d: |latex \\DeclareMathOperator{\\zq}{zq} \\definecolor{zc}{RGB}{200,30,30} \\newcommand{\\zn}{n+1} \\zq x + \\color{zc} \\zn |\nd -> e\n", "dagre", false},
	{"u: |latex \\zq x + \\color{zc} \\zn |\nu -> v\n", "dagre", false},
}

var (
	c25RulerOnce sync.Once
	c25Ruler     *textmeasure.Ruler
)

func c25Render(i int) string {
	c25RulerOnce.Do(func() { c25Ruler, _ = textmeasure.NewRuler() })
	return c25RenderWith(i, c25Ruler)
}

// c25RenderWith renders with the given ruler. A textmeasure.Ruler caches measurements and is not documented as safe
// for concurrent use, so concurrent renders get a ruler each (as separate invocations of the library would).
func c25RenderWith(i int, ruler *textmeasure.Ruler) string {
	p := c25Progs[i]
	resolver := func(engine string) (d2graph.LayoutGraph, error) {
		if engine == "elk" {
			return func(ctx context.Context, g *d2graph.Graph) error { return d2elklayout.Layout(ctx, g, nil) }, nil
		}
		return func(ctx context.Context, g *d2graph.Graph) error { return d2dagrelayout.Layout(ctx, g, nil) }, nil
	}
	eg := p.Engine
	ro := &d2svg.RenderOpts{Sketch: &p.Sketch}
	d, _, err := d2lib.Compile(Bgctx, p.Src, &d2lib.CompileOptions{Ruler: ruler, Layout: &eg, LayoutResolver: resolver}, ro)
	if err != nil {
		return "ERR:" + err.Error()
	}
	svg, err := d2svg.Render(d, ro)
	if err != nil {
		return "ERR:" + err.Error()
	}
	return string(svg)
}

func c25Hist(idx []int) int {
	refs := loadRefs("C25")
	for pos, i := range idx {
		if hashOf(c25Render(i)) != refs[i] {
			return pos
		}
	}
	return -1
}

func c25Seq(in string) eng.Res {
	refs := loadRefs("C25")
	idx := parseIdx(in)
	for _, i := range idx {
		if strings.HasPrefix(refs[i], "FRESH") {
			return eng.Bad("harness-error", refs[i])
		}
	}
	if pos := c25Hist(idx); pos >= 0 {
		i := idx[pos]
		r := eng.Bad("svg-depends-on-earlier-renders-in-the-process", fmt.Sprintf("history %v: render #%d (diagram %d, %s, sketch=%v) is not byte-identical to the same diagram rendered in a fresh process", idx, pos, i, c25Progs[i].Engine, c25Progs[i].Sketch))
		if h, ok := selfContained("c25-hist", in, len(c25Progs)); ok {
			r.Fail.Witness = h
			if h != in {
				r.Fail.Detail += fmt.Sprintf("\n(first seen in a worker that had evaluated other histories before; reproduced alone in a fresh process as history [%s])", h)
			}
		} else {
			r.Fail.Detail += "\n(seen in a worker that had evaluated other histories before; neither this history nor this history after one more diagram reproduces it in a fresh process)"
		}
		return r
	}
	// second in-process repetition of the last one
	last := idx[len(idx)-1]
	if hashOf(c25Render(last)) != refs[last] {
		return eng.Bad("svg-differs-on-repetition", fmt.Sprintf("history %v: repeating diagram %d gives different bytes", idx, last))
	}
	return eng.OK(refs[last], true)
}

func c25Concurrent(in string) eng.Res {
	refs := loadRefs("C25")
	idx := parseIdx(in)
	old := runtime.GOMAXPROCS(4)
	defer runtime.GOMAXPROCS(old)
	var wg sync.WaitGroup
	bad := make([]string, len(idx))
	for t, i := range idx {
		wg.Add(1)
		go func(t, i int) {
			defer wg.Done()
			defer func() {
				if r := recover(); r != nil {
					bad[t] = fmt.Sprintf("panic: %v", r)
				}
			}()
			ruler, _ := textmeasure.NewRuler()
			for rep := 0; rep < 2; rep++ {
				if hashOf(c25RenderWith(i, ruler)) != refs[i] {
					bad[t] = fmt.Sprintf("diagram %d differs from its fresh-process SVG", i)
				}
			}
		}(t, i)
	}
	wg.Wait()
	for _, b := range bad {
		if b != "" {
			return eng.Bad("svg-depends-on-concurrent-renders", fmt.Sprintf("threads %v: %s", idx, b))
		}
	}
	return eng.OK("conc"+in, true)
}

func init() {
	eng.Internal["c08-ref"] = func(args []string) {
		i, _ := strconv.Atoi(args[0])
		fmt.Println(hashOf(c08Result(i)))
	}
	eng.Internal["c08-hist"] = func(args []string) {
		os.Setenv("VERIF_NO_SELFCONTAINED", "1")
		fmt.Println(c08Hist(parseIdx(args[0])))
	}
	eng.Internal["c25-hist"] = func(args []string) {
		fmt.Println(c25Hist(parseIdx(args[0])))
	}
	eng.Internal["c25-ref"] = func(args []string) {
		i, _ := strconv.Atoi(args[0])
		fmt.Println(hashOf(c25Render(i)))
	}
	idxAlpha := func(n int) []string {
		a := make([]string, n)
		for i := range a {
			a[i] = strconv.Itoa(i)
		}
		return a
	}
	eng.Register(&eng.Check{
		ID: "C08", Level: "model_checking",
		Pre: func() { WriteCorpusCache(); freshRefs("C08", "c08-ref", len(c08Progs)) },
		Rule: "histories: every sequence of ≤3 compilations over 15 structurally different programs (three of them import one file from contexts with different variables; connections, globs, vars, imports, all board kinds, classes, sql_table/class, sequence diagram, grid/near, nulls and indexes, block strings/icons/links, an erroneous program) in one process; every compilation of the history is compared (canonical diagram incl. object/connection order, or the error list) with the same program compiled in a fresh process. inputs: every program of ≤2 statements over the 260-statement core alphabet and the corpus compiled twice. schedules: the per-run source scan of the compile closure (21 packages) lists every package-level variable written outside init; when that list is empty, threads compiling different programs share no mutable state, so all interleavings are equivalent to a sequential history (covered above); all pairs and triples are additionally compiled concurrently on real threads. states = histories, transitions = compilations",
		Assumptions: []string{"the schedule quantifier is reduced to sequential histories by independence: the scan found no package-level state written by the compile path (evidence key mutable_package_state); pointer-reachable shared state passed in by the caller (FS) is read-only", "varying GOMAXPROCS and separate OS processes are covered only by the fresh-process reference and the free-running concurrent pass"},
		Oracles: map[string]eng.Oracle{"history": c08Seq, "concurrent": c08Concurrent, "twice": c08Twice},
		Run: func(w *eng.W) {
			if w.Shard == 0 {
				globalsNote(w, compileClosure)
			}
			a := idxAlpha(len(c08Progs))
			for k := 1; k <= 3; k++ {
				k := k
				w.Phase(fmt.Sprintf("histories<=%d", k), func() {
					Seqs(a, k, func(s []string) {
						if w.Shard == 0 {
							w.State()
							w.Transition()
						}
						w.Eval("history", strings.Join(s, ","))
					})
				})
			}
			w.Phase("concurrent-pairs-and-triples", func() {
				for k := 2; k <= w.Pick(2, 3); k++ {
					Seqs(a, k, func(s []string) { w.Eval("concurrent", strings.Join(s, ",")) })
				}
			})
			w.Phase("inputs-compiled-twice", func() {
				Seqs(c07Core, w.Pick(1, 2), func(s []string) { w.Eval("twice", strings.Join(s, "\n")) })
				for _, src := range Corpus() {
					w.Eval("twice", src)
				}
			})
		},
	})
	eng.Register(&eng.Check{
		ID: "C25", Level: "model_checking", Workers: 8, HangBound: 900 * time.Second,
		Pre: func() { freshRefs("C25", "c25-ref", len(c25Progs)) },
		Rule: "histories: every ordered sequence of ≤2 (quick) / ≤3 (thorough) compile→layout→render runs over 18 diagrams chosen to touch every shared resource (dagre and ELK, sketch on/off, default and mono fonts, markdown, code, latex, class, sql_table, sequence, grid, near, 3d/multiple/patterns, icons, tooltips/links, themes and gradients, non-ASCII text, boards, arrowhead labels) in one process; every SVG of the history and one more repetition of the last are compared bytewise (sha256) with the same diagram rendered in a fresh process. schedules: the per-run source scan of the render closure lists every package-level variable written outside init (font registry behind a mutex, the JS runner's once); all pairs (thorough: triples of the first 8) are additionally rendered concurrently on real threads. states = histories, transitions = renders",
		Assumptions: []string{"the schedule quantifier is decided only up to the independence argument of the scan plus the free-running concurrent pass; goja / chroma / goldmark internals are not instrumented", "varying GOMAXPROCS is not enumerated"},
		Oracles: map[string]eng.Oracle{"history": c25Seq, "concurrent": c25Concurrent},
		Run: func(w *eng.W) {
			if w.Shard == 0 {
				globalsNote(w, renderClosure)
			}
			a := idxAlpha(len(c25Progs))
			for k := 1; k <= w.Pick(2, 3); k++ {
				k := k
				w.Phase(fmt.Sprintf("histories<=%d", k), func() {
					Seqs(a, k, func(s []string) {
						if w.Shard == 0 {
							w.State()
							w.Transition()
						}
						w.Eval("history", strings.Join(s, ","))
					})
				})
			}
			w.Phase("concurrent", func() {
				Seqs(a, 2, func(s []string) {
					if s[0] < s[1] || w.Thorough() {
						w.Eval("concurrent", strings.Join(s, ","))
					}
				})
			})
		},
	})
}
