package checks

import (
	"encoding/json"
	"errors"
	"fmt"
	"sort"
	"strings"
	"time"

	"oss.terrastruct.com/d2/d2ast"
	"oss.terrastruct.com/d2/d2parser"
	"verif/h/eng"
	. "verif/h/u"
)

var c07Files = Files{
	"x.d2":   "p: {q}\nk: v\np -> k\n",
	"y.d2":   "...@x\nz: 1\n",
	"d/x.d2": "w: {icon: ./i.png}\n",
	"f.d2":   "k\n...${v}\nm: {n}\n",
}

// checkCompileResult is the shared "graph xor positioned errors" oracle.
func checkCompileResult(gNil bool, err error, paths map[string]bool) (string, *eng.Res) {
	if err == nil {
		if gNil {
			r := eng.Bad("nil-graph-without-error", "")
			return "", &r
		}
		return "ok", nil
	}
	if !gNil {
		r := eng.Bad("graph-and-error-both-returned", err.Error())
		return "", &r
	}
	var pe *d2parser.ParseError
	if !errors.As(err, &pe) {
		r := eng.Bad("error-without-positions", fmt.Sprintf("%T: %v", err, err))
		return "", &r
	}
	if len(pe.Errors) == 0 {
		r := eng.Bad("empty-error-list", err.Error())
		return "", &r
	}
	for _, e := range pe.Errors {
		if !paths[e.Range.Path] {
			r := eng.Bad("error-range-path-not-an-input-file", fmt.Sprintf("path %q in %q", e.Range.Path, e.Message))
			return "", &r
		}
		if e.Range.Start.Line < 0 || e.Range.Start.Column < 0 || e.Range.End.Line < e.Range.Start.Line ||
			(e.Range.End.Line == e.Range.Start.Line && e.Range.End.Column < e.Range.Start.Column) {
			r := eng.Bad("error-range-disordered-or-negative:"+msgKind(e.Message), fmt.Sprintf("%s-%s %q", e.Range.Start.Debug(), e.Range.End.Debug(), e.Message))
			return "", &r
		}
	}
	return ErrClass(err), nil
}

func msgKind(m string) string {
	if i := strings.LastIndex(m, ": "); i >= 0 {
		m = m[i+2:]
	}
	if i := strings.IndexAny(m, "\"'`0123456789"); i >= 0 {
		m = m[:i]
	}
	return strings.TrimSpace(m)
}

func c07Compile(in string) eng.Res {
	g, _, err := CompileFS("index.d2", in, c07Files)
	paths := map[string]bool{"index.d2": true, "x.d2": true, "y.d2": true, "d/x.d2": true, "f.d2": true}
	out, bad := checkCompileResult(g == nil, err, paths)
	if bad != nil {
		return *bad
	}
	if g != nil {
		out = fmt.Sprintf("ok:o%d:e%d:b%d", len(g.Objects), len(g.Edges), len(g.Layers)+len(g.Scenarios)+len(g.Steps))
	}
	return eng.OK(out, true)
}

// c07FileSet: input is JSON {"files": {...}} with entry index.d2
func c07FileSet(in string) eng.Res {
	var fs struct{ Files Files }
	if err := json.Unmarshal([]byte(in), &fs); err != nil {
		return eng.Bad("harness-bad-input", err.Error())
	}
	paths := map[string]bool{}
	for k := range fs.Files {
		paths[k] = true
	}
	g, _, err := CompileFS("index.d2", fs.Files["index.d2"], fs.Files)
	out, bad := checkCompileResult(g == nil, err, paths)
	if bad != nil {
		return *bad
	}
	return eng.OK(out, true)
}

// c07Size: input "<gen>\x00<n>"; time clause = hang bound of the engine (120 s at the largest size).
func c07Size(in string) eng.Res {
	p := strings.Split(in, "\x00")
	var n int
	fmt.Sscan(p[1], &n)
	src := sizeGen[p[0]](n)
	t0 := time.Now()
	g, _, err := CompileFS("index.d2", src, c07Files)
	_ = t0
	out, bad := checkCompileResult(g == nil, err, map[string]bool{"index.d2": true, "x.d2": true, "y.d2": true, "d/x.d2": true, "f.d2": true})
	if bad != nil {
		return *bad
	}
	return eng.OK(p[0]+":"+out, true)
}

var sizeGen = map[string]func(n int) string{
	"deep-maps":      func(n int) string { return strings.Repeat("a: {", n) + strings.Repeat("}", n) },
	"deep-keys":      func(n int) string { return strings.TrimSuffix(strings.Repeat("a.", n), ".") },
	"long-chain":     func(n int) string { return "a" + strings.Repeat(" -> a", n) },
	"many-objects":   func(n int) string { return manyLines(n, func(i int) string { return fmt.Sprintf("o%d", i) }) },
	"many-globs":     func(n int) string { return "a;b;c\n" + manyLines(n, func(i int) string { return "*.style.opacity: 0.5" }) },
	"glob-over-many": func(n int) string { return "**.shape: circle\n" + manyLines(n, func(i int) string { return fmt.Sprintf("o%d.c", i) }) },
	"triple-glob-boards": func(n int) string {
		return "***.style.fill: red\nlayers: {" + manyLines(n, func(i int) string { return fmt.Sprintf("l%d: {x}", i) }) + "}"
	},
	"nested-boards":   func(n int) string { return strings.Repeat("layers: {l: {a;", n) + strings.Repeat("}}", n) },
	"parallel-edges":  func(n int) string { return manyLines(n, func(i int) string { return "a -> b" }) },
	"long-array":      func(n int) string { return "a.class: [" + strings.TrimSuffix(strings.Repeat("k;", n), ";") + "]" },
	"long-string":     func(n int) string { return "a: " + strings.Repeat("x", n) },
	"edge-glob-dense": func(n int) string { return manyLines(n, func(i int) string { return fmt.Sprintf("o%d", i) }) + "\n* -> *" },
	"many-vars":       func(n int) string { return "vars: {v: 1}\n" + manyLines(n, func(i int) string { return fmt.Sprintf("o%d: ${v}", i) }) },
	"many-nulls":      func(n int) string { return manyLines(n, func(i int) string { return "a: x; a: null" }) },
}

func manyLines(n int, f func(i int) string) string {
	var b strings.Builder
	for i := 0; i < n; i++ {
		b.WriteString(f(i))
		b.WriteByte('\n')
	}
	return b.String()
}

// ---- full-language statement alphabet -----------------------------------------------------------------

var valueShapes = []string{"x", "1", "\"q\"", "null", "{a: b}", "[a; b]", "[a\n#c\nb]", "[\"\"\"c\"\"\"]", "[[a]]", "${v}", "@x", "true", "{}", "|md t|", "[${v}]", "[...@x]", "{...@x}", "{...${v}}"}

func reservedSorted() []string {
	var ks []string
	for k := range d2ast.ReservedKeywords {
		ks = append(ks, k)
	}
	sort.Strings(ks)
	return ks
}

// fullAlphabet: every reserved keyword × value shape, in object / style / connection / config contexts + structural statements.
func fullAlphabet() []string {
	var out []string
	for _, k := range reservedSorted() {
		for _, v := range valueShapes {
			out = append(out, fmt.Sprintf("o.%s: %s", k, v))
		}
	}
	// children and connections below a reserved keyword (the keyword's map then has edges and no primary key)
	for _, k := range reservedSorted() {
		out = append(out, fmt.Sprintf("o.%s.a -> o.%s.b", k, k), fmt.Sprintf("o.%s.a -> b", k), fmt.Sprintf("o.%s: {a -> b}", k), fmt.Sprintf("o.%s.a.b", k), fmt.Sprintf("(o.%s.a -> o.%s.b)[0].style.opacity: 1", k, k))
	}
	// the same forms with the keyword spelled with capitals (keywords are matched case-insensitively by the IR but several
	// switches of d2compiler look at the case-preserved name)
	for _, k := range reservedSorted() {
		if k == "" {
			continue
		}
		t, u := strings.ToUpper(k[:1])+k[1:], strings.ToUpper(k)
		out = append(out, fmt.Sprintf("o.%s.a -> o.%s.b", t, t), fmt.Sprintf("o.%s.a -> b", t), fmt.Sprintf("o.%s: {a -> b}", t), fmt.Sprintf("o.%s.a.b", t), fmt.Sprintf("o.%s.a: 1", t), fmt.Sprintf("o: {%s.y: circle}", t),
			fmt.Sprintf("o.%s.a.b", u), fmt.Sprintf("o.%s.a: 1", u), fmt.Sprintf("*.%s.k: 3", t))
	}
	var sk []string
	for k := range d2ast.StyleKeywords {
		sk = append(sk, k)
	}
	sort.Strings(sk)
	for _, k := range sk {
		for _, v := range []string{"x", "1", "null", "{a: b}", "[a]", "${v}", "true"} {
			out = append(out, fmt.Sprintf("o.style.%s: %s", k, v))
		}
		out = append(out, fmt.Sprintf("(a -> b)[0].style.%s: 1", k))
	}
	for _, k := range []string{"sketch", "theme-id", "dark-theme-id", "pad", "center", "layout-engine", "theme-overrides", "dark-theme-overrides", "data", "bogus"} {
		for _, v := range []string{"x", "1", "null", "{a: b}", "[a]", "${v}", "true", "{N1: red}", "{N1: {x}}", "{B1: [a]}"} {
			out = append(out, fmt.Sprintf("vars: {d2-config: {%s: %s}}", k, v))
		}
	}
	out = append(out, c07Core...)
	return out
}

// c07Core: ≈150 statements over the whole language (used at k ≤ 3).
var c07Core = []string{
	"a", "b", "a.b", "a: x", "a: {b}", "a -> b", "a <- b", "a -- b", "a <-> b: l", "a -> b -> c", "a -> a", "(a -> b)[0]: x", "(a -> b)[1]: y", "(a -> b)[*]: g",
	"(a -> b)[0]: null", "a: null", "a.b: null", "(a -> b)[0].style.stroke: red", "(a -> b)[0].source-arrowhead: 1", "(a -> b)[0].target-arrowhead.shape: diamond",
	"*: g", "**: g", "***: g", "*.shape: circle", "**.style.fill: red", "***.style.opacity: 0.4", "a*: x", "*a: x", "*a*: x", "* -> *", "a -> *", "** -> a", "(* -> *)[*]: g", "(** -> **)[*].style.stroke: red",
	"*: {&shape: circle; style.opacity: 0.1}", "*: {!&label: x; shape: oval}", "(* -> *)[*]: {&src: a; label: s}", "*: {&connected: true; x}", "*: {&leaf: true; style.fill: red}", "**: {&level: 1; style.fill: red}",
	"*.*: g", "a.*: g", "*.b: g", "*: null", "**: null", "(* -> *)[*]: null", "* -> *: null", "!*: x", "*: {*: g}", "**: {**: g}", "***: {c: d}", "*: {x -> y}", "* -> y: {z}",
	"vars: {v: 1}", "vars: {v: {k: z}}", "vars: {v: [1; 2]}", "vars: {w: ${v}}", "vars: {v: ${v}}", "vars: 1", "vars: [a]", "vars: null", "vars.v: 2", "a: ${v}", "a: ${v.k}", "a: ${nope}", "...${v}", "a: {...${v}}", "a.class: [${v}; x]", "a: \"q ${v}\"", "a: 'q ${v}'", "a: ${v} ${v}",
	"...@x", "...@y", "...@nope", "...@index", "a: @x", "a: @x.k", "a: @x.p.q", "a: @nope", "a: {...@x}", "a: [@x]", "a.class: @x", "...@d/x", "a: @../x", "...@\"x.d2\"", "a -> b: @x", "(a -> b)[0]: @x", "@x", "a.shape: @x", "...@x.k", "vars: {...@x}", "classes: @x", "layers: @x", "layers: {l: @x}", "layers: {l: {...@x}}",
	"layers: {l: {x}}", "layers: {l: x}", "layers: x", "layers: [a]", "layers: null", "layers: {l: null}", "layers.l.x", "layers.l: {y}", "scenarios: {s: {a: y}}", "scenarios: {s: {a: null}}", "steps: {1: {z}}", "steps: {1: {z}; 2: {w}}", "layers: {l: {layers: {m: {q}}}}", "scenarios: {s: {steps: {1: {t}}}}", "layers: {l: {a.link: _}}", "a.link: layers.l", "a.link: _.layers.l", "a.link: root.layers.l", "layers: {a: {a}}", "layers: {\"..\": {x}}", "layers: {index: {x}}",
	"classes: {k: {style.fill: red}}", "classes: {k: x}", "classes: x", "classes: [a]", "classes.k.shape: circle", "classes: {k: {class: k}}", "classes: {k: {classes: {j: {}}}}", "a.class: k", "a.class: [k; j]", "a.class: nope", "a.class: null", "a.class: {x}", "(a -> b)[0].class: k", "classes: null", "classes.k: null",
	"\"_\"", "a: {\"_\"}", "'_' -> a", "a: {'_'.b -> \"_\"}",
	"_", "_.x", "a: {_.y}", "a: {_._.y}", "a: {_ -> b}", "a: {b -> _.c}", "_ -> a", "a._", "a: {_: x}",
	"style: x", "style.fill: red", "a.style: x", "a.style: {fill: red}", "a.style.fill", "a.style.nope: 1", "a.style.fill.x: 1", "label: x", "a.label.near: top-left", "a.icon.near: outside-top-left", "a.label: {near: bogus}", "shape: circle", "direction: right", "a.direction: up", "near: a", "a.near: b", "a.near: a", "a.near: top-left", "a.near: x.y", "a: {near: b.c}", "a.shape: sql_table", "a: {shape: sql_table; id: int {constraint: primary_key}}", "a: {shape: class; +f: int; -m(): void}", "a: {shape: sequence_diagram; x -> y; x.s -> y.t}", "a: {grid-rows: 2; b; c; d}", "a.shape: image", "a: {shape: image; icon: ./i.png}", "a.shape: text", "a: |md # h|", "a: |latex \\frac{1}{2}|", "a: |go x := 1|",
	"a.width: 10", "a.height: -1", "a.top: 5", "a.left: x", "a.grid-rows: 0", "a.grid-gap: 1", "a.constraint: [a; b]", "a.tooltip: t", "a.link: https://x.y", "a.icon: https://x.y/i.png", "a.icon: i.png",
	"a: suspend", "a: unsuspend", "*: suspend", "a -> b: suspend", "(a -> b)[0]: unsuspend", "**: unsuspend",
	"a: [1]", "a: []", "a: [[]]", "a: [{b}]", "a: {b: [c]}", "a: x {b}", "a: {b} x", "a.b.c.d.e", "\"a.b\".c", "a.\"\"", "\"\"", "a: \"\"", "A", "A.B: y", "a.LABEL: z", "a.Style.Fill: red", "a.SHAPE: Circle",
	"a: {x.style -> _.c}", "a: {b.label -> c}", "a.shape -> b", "vars: {v}", "vars: {v: {}}", "vars: {v: {q: 1}}", "a: \"${v}\"", "a: {...@f}", "x: [@f.k]", "...@f", "a: @f.k", "a: @f.m",
	"legend: {x}", "vars: {d2-legend: {a; a -> b}}", "d2-config: x", "vars: {d2-config: {sketch: true}}", "a.vars: {v: 1}", "a: {vars: {v: 2}; b: ${v}}",
}

func init() {
	eng.Register(&eng.Check{
		ID: "C07", Level: "exploration", Pre: WriteCorpusCache, HangBound: 120 * time.Second,
		Rule: "token strings over Σ_t (len ≤ 3 quick / 4 thorough); statement sequences over the full-language alphabet (every reserved keyword × 18 value shapes and × 5 forms with children/connections below the keyword, the keyword also spelled Title-case (7 forms) and UPPER-case (2 forms), every style keyword × 7 shapes, d2-config keys × 10 shapes, 260 structural statements: globs × filters, vars/spreads, imports, boards, classes, underscores, special shapes) of length ≤ 2 and over the structural core of length ≤ 2 (quick) / 3 (thorough); sequences ≤3 over 12 statements about variables built from spreads of variables (plus a leaf filter and an import whose top level is a spread); all assignments of import statements to ≤3 files (every cycle length); non-ASCII names under glob patterns; a size family (14 generators × 10^1..10^4); corpus + single-token neighbours. Each compiled with an in-memory file set by d2compiler.Compile. Non-trivial: every compile is (distinct inputs by construction); outcome classes = distinct (object/edge/board counts | error message lists)",
		Assumptions: []string{"the time clause is decided as a hang/blow-up detector (120 s per input, sizes up to 10^4), not as a proportionality measurement", "a worker death (stack overflow / OOM) is attributed to the input in flight", "nesting depth (boards, maps, key paths) is capped at 100 (quick) / 1000 (thorough; nested boards 300) in the size family: compile time was measured quadratic in the nesting depth, which a hang detector cannot classify soundly"},
		Oracles: map[string]eng.Oracle{"compile": c07Compile, "fileset": c07FileSet, "size": c07Size},
		Run: func(w *eng.W) {
			for k := 1; k <= w.Pick(3, 4); k++ {
				k := k
				w.Phase(fmt.Sprintf("tokens<=%d", k), func() { Seqs(SigmaT, k, func(s []string) { w.Eval("compile", Join(s)) }) })
			}
			full := fullAlphabet()
			w.Note("full_alphabet_size", fmt.Sprint(len(full)))
			w.Phase("full-alphabet-stmts<=1", func() { Seqs(full, 1, func(s []string) { w.Eval("compile", s[0]) }) })
			if w.Thorough() {
				w.Phase("full-alphabet-stmts<=2", func() {
					Seqs(full, 2, func(s []string) { w.Eval("compile", s[0]+"\n"+s[1]) })
				})
			} else {
				w.Phase("full-alphabet-x-core-stmts<=2", func() { // every keyword×shape statement before and after every structural statement
					for _, a := range full {
						for _, b := range c07Core {
							w.Eval("compile", a+"\n"+b)
							w.Eval("compile", b+"\n"+a)
						}
					}
				})
			}
			w.Phase("full-alphabet-nested", func() {
				Seqs(full, 1, func(s []string) {
					w.Eval("compile", "c: {\n"+s[0]+"\n}")
					w.Eval("compile", "layers: {l: {\n"+s[0]+"\n}}")
					w.Eval("compile", "a -> b: {\n"+strings.TrimPrefix(s[0], "o.")+"\n}")
					w.Eval("compile", "*: {\n"+strings.TrimPrefix(s[0], "o.")+"\n}")
					w.Eval("compile", "classes: {k: {\n"+strings.TrimPrefix(s[0], "o.")+"\n}}\nq.class: k")
				})
			})
			w.Phase("primer-pairs-x-full-alphabet", func() {
				// two-statement primers that put the compiler's bookkeeping into a non-initial state (placeholder fields
				// that are removed or expand to nothing, deletions, globs, import overlays, boards), each followed and
				// preceded by every statement of the full alphabet
				primers := [][]string{
					{"...${v}", "vars: {v: {}}"}, {"...${v}", "vars: {v: {a: b}}\na"}, {"a: {...${v}}", "vars: {v: {}}"}, {"...${v}", "vars: {v: [1]}"},
					{"a: null", "a"}, {"a -> b", "(a -> b)[0]: null"}, {"*: g", "a: null"}, {"**.shape: circle", "a.b"}, {"...@x", "p: null"}, {"k: @x", "k.p: null"},
					{"layers: {l: {x}}", "x"}, {"scenarios: {s: {a: null}}", "a"}, {"classes: {k: {shape: circle}}", "a.class: k"}, {"a: {_.b}", "b: null"},
				}
				for _, pr := range primers {
					for _, st := range full {
						w.Eval("compile", pr[0]+"\n"+pr[1]+"\n"+st)
						w.Eval("compile", pr[0]+"\n"+st+"\n"+pr[1])
						w.Eval("compile", st+"\n"+pr[0]+"\n"+pr[1])
					}
				}
			})
			if w.Thorough() {
				w.Phase("core-stmts<=3", func() {
					Seqs(c07Core, 3, func(s []string) { w.Eval("compile", strings.Join(s, "\n")) })
				})
			}
			w.Phase("vars-built-from-spreads-of-vars<=3", func() {
				// variables whose maps are themselves built from spreads of other variables, consumed by spreads, next to a
				// leaf filter and to an imported file whose top level holds a spread substitution (acyclic by construction)
				stm := []string{"x: {...${v}}", "...${v}", "y: ${v}", "vars: {w: {b: 2}}", "vars: {v: {...${w}; a: 1}}", "vars: {v: {...${w}}}", "vars: {v: {c: ${w}}}", "vars: {v: {a: 1}}",
					"*: {&leaf: true; style.fill: red}", "x: {...@imp}", "...@imp", "k: @imp"}
				imp := "vars: {v: {a: 1}}\n...${v}\nq\n"
				for k := 1; k <= 3; k++ {
					Seqs(stm, k, func(s []string) {
						b, _ := json.Marshal(struct{ Files Files }{Files{"index.d2": strings.Join(s, "\n") + "\n", "imp.d2": imp}})
						w.Eval("fileset", string(b))
					})
				}
			})
			w.Phase("import-file-sets", func() {
				imps := []string{"", "...@%s", "k: @%s", "k: {...@%s}", "k: [@%s]", "...@\"./%s\"", "k: @%s.d2", "...@%s.o", "layers: {l: @%s}"}
				names := []string{"index", "x", "y"}
				if w.Thorough() {
					names = append(names, "z")
				}
				// each file: one body statement + one import statement pointing at any file
				type fileSpec struct{ imp, target int }
				var specs []fileSpec
				for i := range imps {
					if i == 0 {
						specs = append(specs, fileSpec{0, 0})
						continue
					}
					for t := range names {
						specs = append(specs, fileSpec{i, t})
					}
				}
				idx := make([]string, len(specs))
				for i := range specs {
					idx[i] = string(rune(i + 1))
				}
				Seqs(idx, len(names), func(s []string) {
					fs := Files{}
					for fi, name := range names {
						sp := specs[int([]rune(s[fi])[0])-1]
						body := fmt.Sprintf("o%d: v%d\n", fi, fi)
						if sp.imp != 0 {
							body += fmt.Sprintf(imps[sp.imp], names[sp.target]) + "\n"
						}
						fs[name+".d2"] = body
					}
					b, _ := json.Marshal(map[string]any{"Files": fs})
					w.Eval("fileset", string(b))
				})
			})
			w.Phase("non-ascii-names-under-globs", func() {
				names := []string{"é", "İ", "K", "ǅ", "ß", "ſ", "ΐ", "ŉ", "ǰ", "ﬃ", "aİb", "İİ", "ẞ"}
				pats := []string{"*%s", "%s*", "*%s*", "a*%s*", "*%s*b", "%s*%s", "**%s", "*"}
				for _, n := range names {
					for _, n2 := range names {
						for _, p := range pats {
							pat := strings.ReplaceAll(p, "%s", n2)
							w.Eval("compile", fmt.Sprintf("%s\n%s: g\n", n, pat))
							w.Eval("compile", fmt.Sprintf("x%s\n%sy\n%s.shape: circle\n", n, n, pat))
							w.Eval("compile", fmt.Sprintf("%s -> q\n(%s -> *)[*]: g\n", n, pat))
						}
					}
				}
			})
			w.Phase("size-family", func() {
				var gens []string
				for g := range sizeGen {
					gens = append(gens, g)
				}
				sort.Strings(gens)
				for _, g := range gens {
					for _, n := range []int{10, 100, 1000, w.Pick(3000, 10000)} {
						if g == "nested-boards" || g == "deep-maps" || g == "deep-keys" {
							n = n / w.Pick(30, 10) // measured quadratic in the nesting depth (boards: 0.5 s at 100, 52 s at 800; maps: 4 s at 1000, 27 s at 3000 on a loaded machine): kept small, see Assumptions
							if n < 1 {
								n = 1
							}
							if g == "nested-boards" && n > 300 {
								n = 300 // 1000 nested boards need 80+ s on a loaded machine (quadratic, terminates): a wall-clock bound would call it a hang
							}
						}
						if g == "edge-glob-dense" || g == "many-globs" || g == "glob-over-many" || g == "triple-glob-boards" || g == "parallel-edges" {
							if n/30 > 100 {
								n = 3000 // i.e. 100 after the division: measured 3.2 s at 100 and 36.6 s at 200 objects for `* -> *` (see DESIGN 9.2)
							}
							n = n / 30 // quadratic by nature (n^2 edges / n globs × n targets): sizes 1..100 (quick) / 1..333 (thorough); `* -> *` over 1000 objects is 10^6 connections and exceeded the 120 s bound on a loaded machine although it terminates
							if n < 1 {
								n = 1
							}
						}
						w.Eval("size", fmt.Sprintf("%s\x00%d", g, n))
					}
				}
			})
			w.Phase("corpus+single-token-neighbours", func() {
				for _, src := range Corpus() {
					w.Eval("compile", src)
					if len(src) > 600 {
						continue
					}
					for _, nb := range TokenNeighbours(src) {
						w.Eval("compile", nb)
					}
				}
			})
		},
	})
}
