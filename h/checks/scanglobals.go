package checks

import (
	"encoding/json"
	"fmt"
	"go/ast"
	goparser "go/parser"
	"go/token"
	"os"
	"path/filepath"
	"sort"
	"strings"

	"verif/h/eng"
)

// overlaid maps a source path through the build overlay of this run (VERIF_OVERLAY), so that the scan reads the same
// files the harness binary was built from.
func overlaid(path string) string {
	ov := os.Getenv("VERIF_OVERLAY")
	if ov == "" {
		return path
	}
	b, err := os.ReadFile(ov)
	if err != nil {
		return path
	}
	var o struct{ Replace map[string]string }
	if json.Unmarshal(b, &o) == nil {
		if r, ok := o.Replace[path]; ok && r != "" {
			return r
		}
	}
	return path
}

// MutableGlobal is one package-level variable of d2 that is written outside init / its own initialiser.
type MutableGlobal struct {
	Pkg, Name, Where, How string
}

// scanMutableGlobals parses every non-test file of the given package directories (relative to /repo) and reports
// package-level variables that are assigned, incremented, appended to, index-assigned, field-assigned, passed by
// address, or (for sync.Map-like values) have mutating methods called on them, outside `func init` bodies.
// It is deliberately conservative: anything that looks like a write counts.
func scanMutableGlobals(dirs []string) ([]MutableGlobal, error) {
	var out []MutableGlobal
	for _, d := range dirs {
		dir := filepath.Join("/repo", d)
		fset := token.NewFileSet()
		ents, err := os.ReadDir(dir)
		if err != nil {
			return nil, err
		}
		var files []*ast.File
		for _, e := range ents {
			n := e.Name()
			if e.IsDir() || !strings.HasSuffix(n, ".go") || strings.HasSuffix(n, "_test.go") {
				continue
			}
			if strings.HasSuffix(n, "_js.go") || strings.Contains(n, "_wasm") {
				continue
			}
			f, err := goparser.ParseFile(fset, overlaid(filepath.Join(dir, n)), nil, 0)
			if err != nil {
				return nil, err
			}
			files = append(files, f)
		}
		globals := map[string]bool{}
		for _, f := range files {
			for _, decl := range f.Decls {
				gd, ok := decl.(*ast.GenDecl)
				if !ok || gd.Tok != token.VAR {
					continue
				}
				for _, sp := range gd.Specs {
					for _, n := range sp.(*ast.ValueSpec).Names {
						if n.Name != "_" {
							globals[n.Name] = true
						}
					}
				}
			}
		}
		rootIdent := func(e ast.Expr) *ast.Ident {
			for {
				switch x := e.(type) {
				case *ast.Ident:
					return x
				case *ast.SelectorExpr:
					e = x.X
				case *ast.IndexExpr:
					e = x.X
				case *ast.StarExpr:
					e = x.X
				case *ast.ParenExpr:
					e = x.X
				default:
					return nil
				}
			}
		}
		isGlobal := func(id *ast.Ident) bool {
			if id == nil || !globals[id.Name] {
				return false
			}
			if id.Obj == nil {
				return true // unresolved at file scope: declared in another file of the package
			}
			if vs, ok := id.Obj.Decl.(*ast.ValueSpec); ok {
				// top-level ValueSpec?
				for _, f := range files {
					for _, decl := range f.Decls {
						if gd, ok := decl.(*ast.GenDecl); ok {
							for _, sp := range gd.Specs {
								if sp == vs {
									return true
								}
							}
						}
					}
				}
			}
			return false
		}
		for _, f := range files {
			for _, decl := range f.Decls {
				fd, ok := decl.(*ast.FuncDecl)
				if !ok || fd.Body == nil || (fd.Name.Name == "init" && fd.Recv == nil) {
					continue
				}
				add := func(id *ast.Ident, pos token.Pos, how string) {
					p := fset.Position(pos)
					out = append(out, MutableGlobal{Pkg: d, Name: id.Name, Where: fmt.Sprintf("%s:%d (%s)", filepath.Base(p.Filename), p.Line, fd.Name.Name), How: how})
				}
				ast.Inspect(fd.Body, func(n ast.Node) bool {
					switch x := n.(type) {
					case *ast.AssignStmt:
						if x.Tok == token.DEFINE {
							return true
						}
						for _, l := range x.Lhs {
							if id := rootIdent(l); isGlobal(id) {
								add(id, x.Pos(), "assign")
							}
						}
					case *ast.IncDecStmt:
						if id := rootIdent(x.X); isGlobal(id) {
							add(id, x.Pos(), "incdec")
						}
					case *ast.UnaryExpr:
						if x.Op == token.AND {
							if id := rootIdent(x.X); isGlobal(id) {
								add(id, x.Pos(), "address-taken")
							}
						}
					case *ast.CallExpr:
						if sel, ok := x.Fun.(*ast.SelectorExpr); ok {
							switch sel.Sel.Name {
							case "Store", "Set", "Delete", "LoadOrStore", "Lock", "Do", "Add", "Swap", "CompareAndSwap":
								if id := rootIdent(sel.X); isGlobal(id) {
									add(id, x.Pos(), "method:"+sel.Sel.Name)
								}
							}
						}
					}
					return true
				})
			}
		}
	}
	sort.Slice(out, func(i, j int) bool {
		if out[i].Pkg != out[j].Pkg {
			return out[i].Pkg < out[j].Pkg
		}
		if out[i].Name != out[j].Name {
			return out[i].Name < out[j].Name
		}
		return out[i].Where < out[j].Where
	})
	return out, nil
}

// d2 packages in the import closure of compile (C08) and of compile+layout+render (C25).
var compileClosure = []string{"d2ast", "d2parser", "d2ir", "d2compiler", "d2graph", "d2format", "d2target", "d2themes", "d2themes/d2themescatalog", "lib/color", "lib/geo", "lib/label", "lib/shape", "lib/textmeasure", "lib/memfs", "lib/log", "d2renderers/d2fonts", "d2renderers/d2latex", "lib/jsrunner", "lib/font", "lib/svg"}
var renderClosure = append(append([]string{}, compileClosure...), "d2lib", "d2exporter", "d2layouts", "d2layouts/d2dagrelayout", "d2layouts/d2elklayout", "d2layouts/d2grid", "d2layouts/d2near", "d2layouts/d2sequence", "d2renderers/d2svg", "d2renderers/d2svg/appendix", "d2renderers/d2sketch", "d2renderers/d2animate", "lib/imgbundler", "lib/urlenc", "lib/version", "lib/background", "lib/simplelog", "lib/env", "lib/syncmap")

func init() {
	eng.Internal["scan-globals"] = func(args []string) {
		dirs := args
		if len(args) == 1 && args[0] == "compile" {
			dirs = compileClosure
		} else if len(args) == 1 && args[0] == "render" {
			dirs = renderClosure
		}
		gs, err := scanMutableGlobals(dirs)
		if err != nil {
			fmt.Println("error:", err)
			os.Exit(2)
		}
		for _, g := range gs {
			fmt.Printf("%-28s %-28s %-14s %s\n", g.Pkg, g.Name, g.How, g.Where)
		}
	}
}
