package checks

import (
	"errors"
	"fmt"
	"strings"
	"unicode/utf8"

	"oss.terrastruct.com/d2/d2ast"
	"oss.terrastruct.com/d2/d2format"
	"oss.terrastruct.com/d2/d2oracle"
	"oss.terrastruct.com/d2/d2parser"
	"oss.terrastruct.com/d2/lib/urlenc"
	"verif/h/eng"
	. "verif/h/u"
)

// ---- C03 -----------------------------------------------------------------------------------------

func c03Oracle(in string) eng.Res {
	m, err := Parse(in)
	if err != nil || m == nil {
		return eng.OK("unparsable", false)
	}
	y := d2format.Format(m)
	m2, err := Parse(y)
	if err != nil {
		return eng.Bad("formatted-text-does-not-parse:"+c03Mech(in, m, y, "", fmtErrKind(err)), fmt.Sprintf("input %q\nformatted %q\nerror %v", in, y, err))
	}
	z := d2format.Format(m2)
	if z != y {
		return eng.Bad("not-idempotent:"+c03Mech(in, m, y, z, ""), fmt.Sprintf("input %q\nonce  %q\ntwice %q", in, y, z))
	}
	return eng.OK(shapeOf(y), len(m.Nodes) > 0)
}

// shapeOf: a coarse outcome class of formatted text: its punctuation skeleton.
func shapeOf(s string) string {
	var b strings.Builder
	for _, r := range s {
		switch {
		case r == '\n' || r == ' ':
			b.WriteRune(r)
		case r < 0x80 && !(r >= 'a' && r <= 'z') && !(r >= 'A' && r <= 'Z') && !(r >= '0' && r <= '9'):
			b.WriteRune(r)
		default:
			if b.Len() == 0 || !strings.HasSuffix(b.String(), "w") {
				b.WriteByte('w')
			}
		}
		if b.Len() > 60 {
			break
		}
	}
	return b.String()
}

func fmtErrKind(err error) string {
	var pe *d2parser.ParseError
	if asParseError(err, &pe) && len(pe.Errors) > 0 {
		msg := pe.Errors[0].Message
		if i := strings.LastIndex(msg, ": "); i >= 0 {
			msg = msg[i+2:]
		}
		// drop quoted payloads
		if i := strings.IndexAny(msg, "\"'`"); i >= 0 {
			msg = msg[:i]
		}
		return strings.TrimSpace(msg)
	}
	return "other"
}

// c03Mech names the formatter mechanism involved, by a fixed decision list (first match wins) over constructs of
// the input; only when none of the fragile constructs is present is the raw diff/error kind used. A new defect
// that is independent of these constructs also shows in an input without them (enumeration is exhaustive and
// smallest-first), so it cannot hide behind a known class.
func c03Mech(in string, m *d2ast.Map, once, twice, errKind string) string {
	if strings.Contains(in, "\\\n") {
		return "input-has-line-continuation"
	}
	emptyBoard, movedBoard := false, false
	d2ast.Walk(m, func(n d2ast.Node) bool {
		if mp, ok := n.(*d2ast.Map); ok {
			for _, nb := range mp.Nodes {
				if nb.MapKey == nil || nb.MapKey.Key == nil || len(nb.MapKey.Key.Path) != 1 || len(nb.MapKey.Edges) > 0 {
					continue
				}
				switch strings.ToLower(nb.MapKey.Key.Path[0].Unbox().ScalarString()) {
				case "layers", "scenarios", "steps":
					if nb.MapKey.Value.Map != nil && len(nb.MapKey.Value.Map.Nodes) > 0 {
						movedBoard = true
					} else {
						emptyBoard = true
					}
				}
			}
		}
		return true
	})
	if emptyBoard {
		return "board-keyword-key-without-board-map"
	}
	if strings.Contains(in, "\"\"\"") {
		return "input-has-block-comment"
	}
	if errKind != "" {
		if movedBoard {
			return "board-block-moved-last:" + errKind
		}
		return errKind
	}
	k := fmtDiffKind(once, twice)
	if strings.HasPrefix(k, "one-line-") {
		return k
	}
	if movedBoard {
		return "board-block-moved-last"
	}
	return k
}

// inputFlags: constructs of the input that select formatter mechanisms known to be fragile.
func inputFlags(in string) string {
	f := ""
	if strings.Contains(in, "\\\n") {
		f += ":line-continuation-in-input"
	}
	if strings.Contains(in, "\"\"\"") {
		f += ":block-comment-in-input"
	}
	return f
}

// fmtDiffKind classifies the first differing region between two formatted texts by the characters involved.
func fmtDiffKind(a, b string) string {
	i := 0
	for i < len(a) && i < len(b) && a[i] == b[i] {
		i++
	}
	if strings.HasPrefix(a, "; ") && i == 0 {
		return "leading-separator-after-dropped-board-node"
	}
	if i < len(a) && i < len(b) && a[i] == ';' && b[i] == '\n' {
		return "one-line-map-reformatted-multiline"
	}
	if i > 0 && i < len(b) && b[i] == '\n' && (a[i-1] == '[' || a[i-1] == '{') {
		return "one-line-" + string(a[i-1]) + "-reformatted-multiline"
	}
	ca, cb := "EOF", "EOF"
	if i < len(a) {
		ca = charKind(rune(a[i]))
	}
	if i < len(b) {
		cb = charKind(rune(b[i]))
	}
	return ca + "->" + cb
}

func charKind(r rune) string {
	switch {
	case r == '\n':
		return "LF"
	case r == ' ':
		return "SP"
	case r == '\t':
		return "TAB"
	case r >= 'a' && r <= 'z', r >= 'A' && r <= 'Z', r >= '0' && r <= '9', r >= 0x80:
		return "word"
	}
	return string(r)
}

// formatting fragment (DESIGN C03): statements joined by separators from {"\n", "\n\n", "; "}.
var c03Stmts = []string{
	"a", "a: b", "a.b.c: x", "a -> b", "a -> b -> c: l", "a <-> b: {style.stroke: red}", "(a -> b)[0]: x", "(a -> b)[0].style.opacity: 0.4",
	"(a -> b).style.stroke: red", "(a <- b -> c).label: hi", "w.(a -> b).style.stroke: red", "w.(a -> b)[0]: e", "(a -> b)[*].x: y",
	"# comment", "a # trailing", "\"\"\" block\ncomment \"\"\"", "a: {b; c}", "a: {\n  b\n\n\n  c\n}", "a: [1; 2]", "a: [\n 1\n 2\n]", "a: [[1]; x]",
	"a: |md x|", "a: |md\n  # t\n  x | y\n|", "a: ||md x | y ||", "a: |`md x || y `|", "a: |||x|||", "|md k|: v",
	"layers: {l: {x}}", "scenarios: {s: {y}}", "steps: {1: {z}}", "...@x", "a: @x", "a: {...@x}", "...@\"./x.d2\"", "a: @../y", "a: @x.k",
	"vars: {v: 1}", "a: ${v}", "a: pre ${v} post", "a: \"q ${v}\"", "...${v}", "a: {...${v}}", "a: x {b}", "a: \"x\" {b}", "a: 'it''s'", "a: \"q\\\"q\"",
	"a: x\\ny", "a\\.b: c", "a: x;", "a;b", "*: g", "**.shape: circle", "a: {&shape: circle; style.opacity: 0.1}", "a: {!&label: x}", "(* -> *)[*]: g",
	"a: null", "a: true", "a: suspend", "a: 1.50", "a: {}", "a: []", "a: \"\"", "a: ''", "'a b'.c", "\"a\\nb\"", "a.\"b.c\"", "a: {\n  # c1\n  b\n  # c2\n}",
	"style.fill: red", "direction: right", "a.LABEL: x", "Label: x", "a: Shape", "classes: {k: {style.fill: red}}", "a.class: k", "a: {class: [k; j]}",
	"a -> b: {source-arrowhead: 1; target-arrowhead: {shape: diamond}}", "a: {near: top-left}", "a -- b", "a <- b", "_.x", "a: {_.y -> z}",
	"a: x \\\n  y", "a ->\\\n b", "x: {\n\n\n}", "\n\n\na", "a\n\n\n\n", "a:   x   ", "a  ->  b", "a . b", "a:x", "a :x", "a{b}", "a->b", "a-- b", "-a", "a-",
}

// ---- C05 -----------------------------------------------------------------------------------------

var sigmaS = []string{
	"#", ";", "\n", "\\", "{", "}", "[", "]", "'", "\"", "|", ":", ".", "-", "<", ">", "*", "&", "(", ")", "@", "$", "!", "`", "=", ",", "%", "/",
	" ", "\t", "\r", "a", "N", "1", ".5", "é", "世", "😀", "K", "ſ", "İ", "_", " ", " ",
	"null", "NULL", "Null", "true", "TRUE", "false", "False", "suspend", "Suspend", "Unsuspend", "unsuspend", "label", "Shape", "style", "layers", "**", "...", "${", "->", "--",
}

func c05Key(s string) eng.Res {
	if !utf8.ValidString(s) {
		return eng.OK("skip", false)
	}
	kp := &d2ast.KeyPath{Path: []*d2ast.StringBox{d2ast.MakeValueBox(d2ast.RawString(s, true)).StringBox()}}
	txt := d2format.Format(kp)
	k2, err := d2parser.ParseKey(txt)
	if err != nil || k2 == nil {
		return eng.Bad("key-syntax-does-not-parse:"+keyKind(s), fmt.Sprintf("string %q -> syntax %q -> error %v", s, txt, err))
	}
	if len(k2.Path) != 1 {
		return eng.Bad("key-splits-into-segments:"+keyKind(s), fmt.Sprintf("string %q -> syntax %q -> %d segments %q", s, txt, len(k2.Path), k2.StringIDA()))
	}
	got := k2.Path[0].Unbox().ScalarString()
	if got != s {
		return eng.Bad("key-changed:"+keyKind(s)+":"+changeKind(s, got), fmt.Sprintf("string %q -> syntax %q -> parsed %q", s, txt, got))
	}
	return eng.OK(tname(d2ast.RawString(s, true))+":"+charClasses(txt), true)
}

func c05Value(s string) eng.Res {
	if !utf8.ValidString(s) {
		return eng.OK("skip", false)
	}
	v := d2ast.RawString(s, false)
	txt := d2format.Format(v)
	v2, err := d2parser.ParseValue(txt)
	if err != nil || IsNilNode(v2) {
		return eng.Bad("value-syntax-does-not-parse:"+keyKind(s), fmt.Sprintf("string %q -> syntax %q -> error %v", s, txt, err))
	}
	switch x := v2.(type) {
	case *d2ast.Null, *d2ast.Boolean, *d2ast.Suspension:
		return eng.Bad("value-became-"+strings.ToLower(tname(v2))+":"+keyKind(s), fmt.Sprintf("string %q -> syntax %q -> parsed as %s", s, txt, v2.Type()))
	case d2ast.Scalar:
		if got := x.ScalarString(); got != s {
			return eng.Bad("value-changed:"+keyKind(s)+":"+changeKind(s, got), fmt.Sprintf("string %q -> syntax %q -> parsed %q (%s)", s, txt, got, v2.Type()))
		}
	default:
		return eng.Bad("value-became-"+strings.ToLower(tname(v2))+":"+keyKind(s), fmt.Sprintf("string %q -> syntax %q -> parsed as %s", s, txt, v2.Type()))
	}
	return eng.OK(tname(v)+":"+charClasses(txt), true)
}

// c05Set: the editing API writes the value; compiling the resulting text must give exactly that label.
func c05Set(s string) eng.Res {
	if !utf8.ValidString(s) {
		return eng.OK("skip", false)
	}
	g, _, err := Compile("x\n")
	if err != nil {
		return eng.OK("seed-failed", false)
	}
	v := s
	g2, err := d2oracle.Set(g, nil, "x", nil, &v)
	if err != nil {
		return eng.OK("set-refused", false) // refusal is not a violation of C05
	}
	txt := d2format.Format(g2.AST)
	g3, _, err := Compile(txt)
	if err != nil {
		return eng.Bad("set-text-does-not-compile:"+keyKind(s), fmt.Sprintf("Set(x, %q) -> text %q -> %v", s, txt, err))
	}
	if len(g3.Objects) != 1 {
		return eng.Bad("set-changed-object-count:"+keyKind(s), fmt.Sprintf("Set(x, %q) -> text %q -> %d objects", s, txt, len(g3.Objects)))
	}
	if got := g3.Objects[0].Label.Value; got != s {
		return eng.Bad("set-label-changed:"+keyKind(s)+":"+changeKind(s, got), fmt.Sprintf("Set(x, %q) -> text %q -> label %q", s, txt, got))
	}
	return eng.OK(charClasses(txt), true)
}

// keyKind says which family the string belongs to (mechanism, not the input itself).
func keyKind(s string) string {
	l := strings.ToLower(s)
	fam := map[string]string{"null": "null", "true": "bool", "false": "bool", "suspend": "suspension", "unsuspend": "suspension"}[l]
	if fam != "" {
		if l == s {
			return "keyword-" + fam
		}
		return "keyword-" + fam + "-othercase"
	}
	if _, ok := d2ast.ReservedKeywords[l]; ok {
		if l == s {
			return "reserved-lower"
		}
		return "reserved-othercase"
	}
	return "plain"
}

func changeKind(want, got string) string {
	switch {
	case strings.EqualFold(want, got) && strings.ToLower(want) == got:
		return "lowercased"
	case strings.EqualFold(want, got):
		return "case"
	case strings.TrimSpace(want) == got || strings.TrimSpace(want) == strings.TrimSpace(got):
		return "whitespace-trimmed"
	case strings.HasPrefix(want, got):
		return "truncated-at-" + charKind(rune(want[len(got)]))
	case len(got) > len(want) && strings.HasPrefix(got, want):
		return "extended"
	}
	// first differing char
	i := 0
	for i < len(want) && i < len(got) && want[i] == got[i] {
		i++
	}
	if i < len(want) {
		r, _ := utf8.DecodeRuneInString(want[i:])
		return "differs-at-" + charKind(r)
	}
	return "other"
}

func charClasses(s string) string {
	var b strings.Builder
	last := ""
	for _, r := range s {
		k := charKind(r)
		if k != last {
			b.WriteString(k)
			last = k
		}
		if b.Len() > 40 {
			break
		}
	}
	return b.String()
}

// ---- C43 -----------------------------------------------------------------------------------------

func c43Oracle(in string) eng.Res {
	// input: either raw string, or "\x00RUN\x00<byte>\x00<n>" / "\x00DB\x00<n>" descriptors for long strings
	s := in
	if strings.HasPrefix(in, "\x00RUN\x00") {
		var n int
		p := strings.SplitN(in[5:], "\x00", 2)
		fmt.Sscan(p[1], &n)
		s = strings.Repeat(p[0], n)
	} else if strings.HasPrefix(in, "\x00DB\x00") {
		var n int
		fmt.Sscan(in[4:], &n)
		s = deBruijnish(n)
	}
	enc, err := urlenc.Encode(s)
	if err != nil {
		return eng.Bad("encode-error", err.Error())
	}
	for i := 0; i < len(enc); i++ {
		c := enc[i]
		if !(c >= 'A' && c <= 'Z' || c >= 'a' && c <= 'z' || c >= '0' && c <= '9' || c == '-' || c == '_' || c == '=') {
			return eng.Bad("encoded-form-not-url-safe", fmt.Sprintf("char %q in %q", c, enc))
		}
	}
	dec, err := urlenc.Decode(enc)
	if err != nil {
		return eng.Bad("decode-error", err.Error())
	}
	if dec != s {
		return eng.Bad("round-trip-changed", fmt.Sprintf("len %d -> len %d; %s", len(s), len(dec), FirstDiff(s, dec)))
	}
	return eng.OK(fmt.Sprintf("%d->%d", len(s), len(enc)), len(s) > 0)
}

// deBruijnish: deterministic, poorly compressible byte string (xorshift stream; not used for any choice).
func deBruijnish(n int) string {
	b := make([]byte, n)
	x := uint64(0x9E3779B97F4A7C15)
	for i := range b {
		x ^= x << 13
		x ^= x >> 7
		x ^= x << 17
		b[i] = byte(x >> 32)
	}
	return string(b)
}

func init() {
	eng.Register(&eng.Check{
		ID: "C03", Level: "exploration", Pre: WriteCorpusCache,
		Rule: "every token string over Σ_t up to the phase length, every sequence of formatting-fragment statements (97 statements × 3 separators) up to the phase length, every statement at every nesting depth 0..24 (multi-line maps, one-line maps, arrays), the corpus and its single-token neighbours; inputs that parse with errors are skipped (trivial); non-trivial = error-free with at least one node; oracle: Format(Parse(x)) parses without error and is a fixpoint of Format∘Parse",
		Oracles: map[string]eng.Oracle{"idem": c03Oracle},
		Run: func(w *eng.W) {
			for k := 1; k <= w.Pick(3, 4); k++ {
				k := k
				w.Phase(fmt.Sprintf("tokens<=%d", k), func() {
					Seqs(SigmaT, k, func(s []string) { w.Eval("idem", Join(s)) })
				})
			}
			seps := []string{"\n", "\n\n", "; "}
			for k := 1; k <= w.Pick(2, 3); k++ {
				k := k
				w.Phase(fmt.Sprintf("stmts<=%d", k), func() {
					Seqs(c03Stmts, k, func(s []string) {
						for _, sep := range seps {
							if k == 1 && sep != "\n" {
								continue
							}
							w.Eval("idem", strings.Join(s, sep))
						}
					})
				})
			}
			w.Phase("stmts-nested-in-map", func() {
				Seqs(c03Stmts, 2, func(s []string) {
					w.Eval("idem", "k: {\n"+strings.Join(s, "\n")+"\n}")
				})
			})
			// the formatter derives indentation from the nesting depth: every statement at every depth 0..24, in maps written
			// on one line and over several lines, and inside arrays
			w.Phase("stmts x depth<=24", func() {
				for _, st := range c03Stmts {
					for d := 0; d <= 24; d++ {
						w.Eval("idem", strings.Repeat("k: {\n", d)+st+strings.Repeat("\n}", d))
						w.Eval("idem", strings.Repeat("k: {", d)+st+strings.Repeat("}", d))
						if d > 0 {
							w.Eval("idem", "k: "+strings.Repeat("[", d)+st+strings.Repeat("]", d))
						}
					}
				}
			})
			w.Phase("corpus+single-token-neighbours", func() {
				for _, src := range Corpus() {
					w.Eval("idem", src)
					if len(src) > 1500 {
						continue
					}
					for _, nb := range TokenNeighbours(src) {
						w.Eval("idem", nb)
					}
				}
			})
		},
	})

	eng.Register(&eng.Check{
		ID: "C05", Level: "exploration",
		Rule: "every string of up to the phase length over the 62-symbol alphabet Σ_s (all unquoted-key and unquoted-value specials, whitespace kinds, multi-byte and case-folding-special runes, keyword words in several cases); each string is turned into D2 syntax as a key segment (d2ast.RawString(s,true) + d2format), as a value (RawString(s,false) + d2format) and through d2oracle.Set as a label, and parsed/compiled back; non-trivial = the string round-tripped through a real parse",
		Assumptions: []string{"an edit refused by d2oracle.Set is not a C05 violation", "strings are valid UTF-8 (the alphabet contains no invalid bytes)"},
		Oracles: map[string]eng.Oracle{"key": c05Key, "value": c05Value, "set": c05Set},
		Run: func(w *eng.W) {
			for k := 0; k <= w.Pick(3, 4); k++ {
				k := k
				w.Phase(fmt.Sprintf("symbols<=%d", k), func() {
					Seqs(sigmaS, k, func(s []string) {
						in := Join(s)
						w.Eval("key", in)
						w.Eval("value", in)
						if k <= 2 || (w.Thorough() && k <= 3) {
							w.Eval("set", in)
						}
					})
				})
			}
		},
	})

	eng.Register(&eng.Check{
		ID: "C43", Level: "exploration", Pre: WriteCorpusCache,
		Rule: "every byte string of length ≤ 2 over all 256 byte values, every string of length ≤ 4 (thorough 5) over 12 chosen bytes, runs b^n for every byte b and n in {1..10,100,1000,10^4,65535,65536,10^6}, incompressible strings of the same lengths, and the corpus; oracle: Decode(Encode(s)) == s without error and Encode(s) ⊆ [A-Za-z0-9_=-]; non-trivial = non-empty input",
		Oracles: map[string]eng.Oracle{"rt": c43Oracle},
		Run: func(w *eng.W) {
			all := make([]string, 256)
			for i := range all {
				all[i] = string([]byte{byte(i)})
			}
			for k := 0; k <= 2; k++ {
				k := k
				w.Phase(fmt.Sprintf("bytes256<=%d", k), func() { Seqs(all, k, func(s []string) { w.Eval("rt", Join(s)) }) })
			}
			twelve := []string{"a", "\n", " ", "{", "\x00", "\xff", "\xfe", "\x80", "é", "-", ">", "\xc3"}
			for k := 3; k <= w.Pick(4, 5); k++ {
				k := k
				w.Phase(fmt.Sprintf("bytes12<=%d", k), func() { Seqs(twelve, k, func(s []string) { w.Eval("rt", Join(s)) }) })
			}
			lens := []int{1, 2, 3, 4, 5, 6, 7, 8, 9, 10, 100, 1000, 10000, 65535, 65536}
			if w.Thorough() {
				lens = append(lens, 1000000)
			}
			w.Phase("runs", func() {
				for b := 0; b < 256; b++ {
					for _, n := range lens {
						if n > 1000 && b%16 != 0 && !w.Thorough() {
							continue
						}
						w.Eval("rt", fmt.Sprintf("\x00RUN\x00%s\x00%d", string([]byte{byte(b)}), n))
					}
				}
			})
			w.Phase("incompressible", func() {
				for _, n := range append(lens, 32767, 32768, 32769, 131072) {
					w.Eval("rt", fmt.Sprintf("\x00DB\x00%d", n))
				}
			})
			w.Phase("corpus", func() {
				for _, src := range Corpus() {
					w.Eval("rt", src)
				}
			})
		},
	})
}

func asParseError(err error, pe **d2parser.ParseError) bool { return errors.As(err, pe) }
