package checks

import (
	"bytes"
	"errors"
	"fmt"
	"strings"
	"time"
	"unicode/utf16"
	"unicode/utf8"

	"oss.terrastruct.com/d2/d2ast"
	"oss.terrastruct.com/d2/d2parser"
	"verif/h/eng"
	. "verif/h/u"
)

func parseMode(src string, utf16 bool) (*d2ast.Map, error) {
	return d2parser.Parse("index.d2", strings.NewReader(src), &d2parser.ParseOptions{UTF16Pos: utf16})
}


// c01Parse: Parse terminates (hang watchdog in engine), does not panic (engine), returns a tree and a
// consistent error list.
func c01Parse(utf16 bool) eng.Oracle {
	return func(in string) eng.Res {
		m, err := parseMode(in, utf16)
		if m == nil {
			return eng.Bad("nil-tree", "Parse returned a nil map")
		}
		nerr := 0
		if err != nil {
			var pe *d2parser.ParseError
			if !errors.As(err, &pe) {
				return eng.Bad("error-not-ParseError", fmt.Sprintf("%T %v", err, err))
			}
			if len(pe.Errors) == 0 {
				return eng.Bad("non-nil-error-with-empty-list", err.Error())
			}
			nerr = len(pe.Errors)
		}
		nodes := 0
		kinds := &strings.Builder{}
		d2ast.Walk(m, func(n d2ast.Node) bool {
			if IsNilNode(n) {
				return false
			}
			nodes++
			if nodes < 12 {
				kinds.WriteString(n.Type()[:1])
			}
			return true
		})
		return eng.OK(fmt.Sprintf("%s/e%d", kinds.String(), nerr), nodes > 1 || nerr > 0)
	}
}

func c01Entry(in string) eng.Res {
	out := ""
	k, err := d2parser.ParseKey(in)
	if (k == nil) == (err == nil) {
		return eng.Bad("ParseKey-nil/err-mismatch", fmt.Sprintf("k=%v err=%v", k, err))
	}
	if k != nil {
		out += "K"
	}
	mk, err := d2parser.ParseMapKey(in)
	if (mk == nil) == (err == nil) {
		return eng.Bad("ParseMapKey-nil/err-mismatch", fmt.Sprintf("mk=%v err=%v", mk, err))
	}
	if mk != nil {
		out += "M"
	}
	v, err := d2parser.ParseValue(in)
	if (IsNilNode(v)) == (err == nil) {
		return eng.Bad("ParseValue-nil/err-mismatch", fmt.Sprintf("v=%v err=%v", v, err))
	}
	if !IsNilNode(v) {
		out += "V:" + v.Type()
	}
	return eng.OK(out, out != "")
}

// depth family: input is "<opener>\x00<n>\x00<closer>"
func c01Depth(in string) eng.Res {
	p := strings.Split(in, "\x00")
	var n int
	fmt.Sscan(p[1], &n)
	payload := ""
	if len(p) > 3 {
		payload = p[3]
	}
	src := strings.Repeat(p[0], n) + payload + strings.Repeat(p[2], n)
	m, _ := parseMode(src, false)
	if m == nil {
		return eng.Bad("nil-tree", "")
	}
	if len(p) > 3 {
		// the payload family also goes through the UTF-16 mode and the value entry point (arrays and maps are values)
		if m16, _ := parseMode(src, true); m16 == nil {
			return eng.Bad("nil-tree-utf16", "")
		}
		d2parser.ParseValue(src)
		d2parser.ParseValue(strings.TrimPrefix(src, "a: "))
	}
	return eng.OK(fmt.Sprint(len(m.Nodes)), true)
}

// c01Payloads are the leaf statements placed at every nesting depth 0..c01MaxDepth: one per construct whose parsing
// reads the current depth or indentation (block strings with and without text on the opening line, comments, multi-line
// strings) plus plain controls.
var c01Payloads = []string{"b", "b: c", "b: |md x|", "b: |md x\n  y\n|", "b: |md\n  x\n|", "|md x|", "|`md x`|", "b: \"q\\\n  r\"", "# c\n", "\"\"\"\n c\n\"\"\"\n", "a -> b: |md x|", "b: ${v}", "...@x"}

const c01MaxDepth = 40

// ---- C02 ---------------------------------------------------------------------------------------

type posCtx struct {
	units    int   // input length in units
	lineOf   []int // for each unit offset 0..units: line
	colOf    []int // for each unit offset: column
	byteOf   []int // unit offset -> byte offset in input (UTF-8 mode: identity)
	validOff []bool
}

func newPosCtx(in string, u16 bool) *posCtx {
	c := &posCtx{}
	line, col := 0, 0
	add := func(byteOff int, boundary bool) {
		c.lineOf = append(c.lineOf, line)
		c.colOf = append(c.colOf, col)
		c.byteOf = append(c.byteOf, byteOff)
		c.validOff = append(c.validOff, boundary)
	}
	for i, r := range in {
		size := utf8.RuneLen(r)
		if u16 {
			size = utf16.RuneLen(r)
		}
		for k := 0; k < size; k++ {
			add(i, k == 0)
			if k < size-1 {
				col++
			}
		}
		if r == '\n' {
			line++
			col = 0
		} else {
			col++
		}
	}
	add(len(in), true)
	c.units = len(c.lineOf) - 1
	return c
}

func (c *posCtx) checkPos(p d2ast.Position) string {
	if p.Byte < 0 || p.Byte > c.units {
		return fmt.Sprintf("offset %d outside [0,%d]", p.Byte, c.units)
	}
	if c.lineOf[p.Byte] != p.Line || c.colOf[p.Byte] != p.Column {
		return fmt.Sprintf("position %d:%d:%d but offset %d is line %d column %d", p.Line, p.Column, p.Byte, p.Byte, c.lineOf[p.Byte], c.colOf[p.Byte])
	}
	return ""
}

func (c *posCtx) checkRange(r d2ast.Range) string {
	if s := c.checkPos(r.Start); s != "" {
		return "start: " + s
	}
	if s := c.checkPos(r.End); s != "" {
		return "end: " + s
	}
	if r.Start.Byte > r.End.Byte {
		return fmt.Sprintf("start %d after end %d", r.Start.Byte, r.End.Byte)
	}
	return ""
}

func c02Oracle(u16 bool) eng.Oracle {
	return func(in string) eng.Res {
		src := in
		if !utf8.ValidString(src) {
			return eng.OK("skip-invalid-utf8", false)
		}
		m, err := parseMode(src, u16)
		if m == nil {
			return eng.OK("nil", false)
		}
		c := newPosCtx(src, u16)
		nodes := 0
		var fail *eng.Res
		bad := func(class, detail string) {
			if fail == nil {
				r := eng.Bad(class, detail)
				fail = &r
			}
		}
		var pe0 *d2parser.ParseError
		errors.As(err, &pe0)
		touchesErr := func(r d2ast.Range) bool {
			if pe0 == nil {
				return false
			}
			for _, e := range pe0.Errors {
				if e.Range.Start.Byte <= r.End.Byte && r.Start.Byte <= e.Range.End.Byte {
					return true
				}
			}
			return false
		}
		var walk func(n d2ast.Node, parent d2ast.Node)
		walk = func(n d2ast.Node, parent d2ast.Node) {
			if IsNilNode(n) || fail != nil {
				return
			}
			nodes++
			r := n.GetRange()
			if s := c.checkRange(r); s != "" {
				bad("node-range:"+tname(n), s+" in "+fmt.Sprintf("%q", src))
				return
			}
			if parent != nil {
				pr := parent.GetRange()
				if r.Start.Byte < pr.Start.Byte || r.End.Byte > pr.End.Byte {
					bad("child-outside-parent:"+tname(parent)+">"+tname(n), fmt.Sprintf("child %v parent %v in %q", r, pr, src))
					return
				}
			}
			if kp, ok := n.(*d2ast.KeyPath); ok {
				for _, sb := range kp.Path {
					s := sb.Unbox()
					if IsNilNode(s) {
						continue
					}
					sr := s.GetRange()
					if bs, ok := s.(*d2ast.BlockString); ok && strings.Contains(bs.Value, "\n") {
						continue // multi-line block strings are dedented relative to their column; a slice loses that context
					}
					if c.checkRange(sr) != "" || touchesErr(sr) {
						continue // bad ranges are reported when visited as a node; segments cut short by a syntax error cannot re-parse
					}
					txt := src[c.byteOf[sr.Start.Byte]:c.byteOf[sr.End.Byte]]
					k2, err := d2parser.ParseKey(txt)
					if err != nil || k2 == nil || len(k2.Path) != 1 || k2.Path[0].Unbox().ScalarString() != s.ScalarString() {
						got := "<error>"
						if err == nil && k2 != nil {
							got = fmt.Sprint(k2.StringIDA())
						}
						bad("segment-slice-reparse:"+tname(s)+dashSuffix(s, txt), fmt.Sprintf("segment %q has range %v covering %q which parses to %v (in %q)", s.ScalarString(), sr, txt, got, src))
						return
					}
				}
			}
			for _, ch := range n.Children() {
				walk(ch, n)
			}
		}
		walk(m, nil)
		nerr := 0
		if err != nil {
			var pe *d2parser.ParseError
			if errors.As(err, &pe) {
				nerr = len(pe.Errors)
				for _, e := range pe.Errors {
					if s := c.checkRange(e.Range); s != "" {
						bad("error-range:"+e.Message[strings.LastIndex(e.Message, ": ")+2:], s+fmt.Sprintf(" for error %q in %q", e.Message, src))
					}
				}
			}
		}
		if fail != nil {
			return *fail
		}
		return eng.OK(fmt.Sprintf("n%d/e%d", nodes, nerr), nodes > 1 || nerr > 0)
	}
}

func dashSuffix(s d2ast.String, txt string) string {
	if strings.HasSuffix(s.ScalarString(), "-") {
		return ":value-ends-in-dash"
	}
	if u, ok := s.(*d2ast.UnquotedString); ok && len(u.Value) > 0 {
		if raw := u.Value[len(u.Value)-1].StringRaw; raw != nil {
			rs := []rune(*raw)
			if (len(rs) >= 2 && rs[len(rs)-2] == '\\') || (len(rs) >= 1 && rs[len(rs)-1] == '\\') {
				return ":raw-ends-in-escape"
			}
		}
	}
	if strings.HasSuffix(txt, "\\") {
		return ":covered-text-ends-in-line-continuation"
	}
	return ""
}

func tname(n any) string { return strings.TrimPrefix(fmt.Sprintf("%T", n), "*d2ast.") }

func utf16LE(units []uint16) string {
	var b bytes.Buffer
	b.WriteString("\xff\xfe")
	for _, u := range units {
		b.WriteByte(byte(u))
		b.WriteByte(byte(u >> 8))
	}
	return b.String()
}

func init() {
	corpusPhase := func(w *eng.W, oracles ...string) {
		w.Phase("corpus+single-token-neighbours", func() {
			for _, src := range Corpus() {
				for _, o := range oracles {
					w.Eval(o, src)
				}
				if len(src) > 1500 {
					continue
				}
				for _, nb := range TokenNeighbours(src) {
					for _, o := range oracles {
						w.Eval(o, nb)
					}
				}
			}
		})
	}
	eng.Register(&eng.Check{
		ID: "C01", Level: "exploration", Pre: WriteCorpusCache, HangBound: 600 * time.Second,
		Rule: "every string over the rune alphabet Σ_r (33 lexical-class representatives) up to the phase's length, plus raw-byte/BOM/UTF-16 strings, token strings over Σ_t, nesting-depth family, corpus and its single-token neighbours; each fed to d2parser.Parse (both position modes) and ParseKey/ParseMapKey/ParseValue; non-trivial = the parse produced at least one node or error; all inputs are distinct by construction of the prefix tree",
		Assumptions: []string{"inputs beyond the stated lengths are covered only through the depth family and corpus", "a worker process death (stack overflow, OOM) is attributed to the input in flight via an mmap'd cursor file", "the two families that open a block string with a run of n pipes stop at n = 30 000: parse time is quadratic in n there (64 s at 10^5), which terminates but cannot be told from a hang by a wall-clock bound"},
		Oracles: map[string]eng.Oracle{"parse": c01Parse(false), "parse16": c01Parse(true), "entry": c01Entry, "depth": c01Depth},
		DeathClass: func(class, oracle, in string) string {
			if p := strings.Split(in, "\x00"); oracle == "depth" && len(p) >= 3 {
				return class + ":nesting-depth-" + p[1] // a stack overflow at depth 10^6 and one at depth 40 are different findings
			}
			return class
		},
		Run: func(w *eng.W) {
			kb := w.Pick(4, 5)
			for k := 0; k <= kb; k++ {
				k := k
				w.Phase(fmt.Sprintf("runes<=%d", k), func() {
					Seqs(SigmaR, k, func(s []string) {
						in := Join(s)
						w.Eval("parse", in)
						if k <= kb-1 {
							w.Eval("parse16", in)
							w.Eval("entry", in)
						}
					})
				})
			}
			w.Phase("raw-bytes<=3", func() {
				al := append(append([]string{}, SigmaRaw...), "a", "{", "\"", "\n", ":", "|", "'", "#", "-", ">", "[", ".")
				for k := 1; k <= 3+w.Pick(0, 1); k++ {
					Seqs(al, k, func(s []string) {
						in := Join(s)
						w.Eval("parse", in)
						w.Eval("parse16", in)
						w.Eval("entry", in)
					})
				}
			})
			w.Phase("utf16le-bom", func() {
				units := []uint16{'a', '{', '"', '\n', 0xD83D, 0xDE00, 0xD800, 0xDC00, ':', '}', 0xFEFF, 0}
				for k := 0; k <= 3+w.Pick(0, 1); k++ {
					idx := make([]string, len(units))
					for i := range units {
						idx[i] = string(rune(i))
					}
					Seqs(idx, k, func(s []string) {
						us := make([]uint16, len(s))
						for i, x := range s {
							us[i] = units[int(x[0])]
						}
						in := utf16LE(us)
						w.Eval("parse", in)
						w.Eval("parse", in+"\x61") // odd trailing byte
					})
				}
			})
			tk := w.Pick(3, 4)
			for k := 1; k <= tk; k++ {
				k := k
				w.Phase(fmt.Sprintf("tokens<=%d", k), func() {
					Seqs(SigmaT, k, func(s []string) {
						in := Join(s)
						w.Eval("parse", in)
						if k < tk {
							w.Eval("entry", in)
						}
					})
				})
			}
			w.Phase("depth-family", func() {
				pairs := [][2]string{{"{", "}"}, {"[", "]"}, {"a: {", "}"}, {"a: [", "]"}, {"(", ")"}, {"|", "|"}, {"\"\"\"", "\"\"\""}, {"${", "}"}, {"a.", ""}, {"a -> ", ""}, {"*.", ""}, {"x: |", "|"}, {"(a -> b)[", "]"}, {"a: {b: [", "]}"}}
				sizes := []int{1, 10, 100, 1000, 10000, 30000, 100000}
				if w.Thorough() {
					sizes = append(sizes, 1000000)
				}
				for _, p := range pairs {
					for _, n := range sizes {
						if strings.HasSuffix(p[0], "|") && n > 30000 {
							// a run of n pipes opens a block string whose closing delimiter is searched for again at every later pipe:
							// measured 1.1 s at 10^4, 6.4 s at 3*10^4, 64 s at 10^5, 680 s at 3*10^5 (quadratic, but it terminates, which
							// is all the statement asks); a wall-clock hang bound cannot tell that from a hang, so the family stops here
							continue
						}
						w.Eval("depth", fmt.Sprintf("%s\x00%d\x00%s", p[0], n, p[1]))
						w.Eval("depth", fmt.Sprintf("%s\x00%d\x00%s", p[0], n, ""))
					}
				}
			})
			w.Phase("depth<=40 x payload", func() {
				openers := [][2]string{{"a: {", "}"}, {"a: {\n", "\n}"}, {"[", "]"}, {"a: [", "]"}, {"a: {b: [", "]}"}, {"{", "}"}, {"a.b: {", "}"}, {"a -> b: {", "}"}}
				for _, o := range openers {
					for n := 0; n <= c01MaxDepth; n++ {
						for _, pl := range c01Payloads {
							w.Eval("depth", fmt.Sprintf("%s\x00%d\x00%s\x00%s", o[0], n, o[1], pl))
						}
					}
				}
			})
			corpusPhase(w, "parse", "parse16")
		},
	})

	eng.Register(&eng.Check{
		ID: "C02", Level: "exploration", Pre: WriteCorpusCache,
		Rule: "every valid-UTF-8 string over Σ_r up to the phase's length and token strings over Σ_t, parsed in UTF-8 and UTF-16 position modes; every node (d2ast.Walk order) and error range re-derived from the input by an independent line/column/offset scanner; key-path segment slices re-parsed with ParseKey; non-trivial = at least one node or error beyond the root map",
		Assumptions: []string{"inputs with invalid UTF-8 are excluded: the decoder substitutes U+FFFD and byte-exact positions are undefined there", "UTF-16-BOM inputs are excluded from the slice test (positions are in code units of the decoded text)"},
		Oracles: map[string]eng.Oracle{"pos8": c02Oracle(false), "pos16": c02Oracle(true)},
		Run: func(w *eng.W) {
			kb := w.Pick(4, 5)
			for k := 1; k <= kb; k++ {
				k := k
				w.Phase(fmt.Sprintf("runes<=%d", k), func() {
					Seqs(SigmaR, k, func(s []string) {
						in := Join(s)
						w.Eval("pos8", in)
						w.Eval("pos16", in)
					})
				})
			}
			tk := w.Pick(3, 4)
			for k := 1; k <= tk; k++ {
				k := k
				w.Phase(fmt.Sprintf("tokens<=%d", k), func() {
					Seqs(SigmaT, k, func(s []string) {
						in := Join(s)
						w.Eval("pos8", in)
						w.Eval("pos16", in)
					})
				})
			}
			corpusPhase(w, "pos8", "pos16")
		},
	})
}

