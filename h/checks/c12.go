package checks

import (
	"time"
	"fmt"
	"strings"

	"verif/h/eng"
	. "verif/h/u"
)

// C12: glob-expanded twin. The expander re-implements only the matching / ordering rule of the property; both the
// program and its glob-free twin are compiled by the real compiler and compared on the canonical projection.

type gbody struct{ key, val string } // key: "" (label) | style.opacity | shape | style.fill | style.stroke

type gstmt struct {
	Text string
	Kind string // obj | glob | edge | eglob | eattr | board
	Path []string
	Body *gbody // obj: own value; glob/eattr: body
	// glob
	Scope  []string
	Pat    []string // one pattern per level; "**" = any depth ≥1 below scope; "***" = any depth incl. boards
	Filter *gfilter
	// edge / eglob / eattr
	Src, Dst       []string // edge: paths; eglob/eattr: patterns (single level, or "**")
	SrcPat, DstPat string
}

type gfilter struct {
	key, val string
	neg      bool
}

func gobj(text string, body *gbody, path ...string) gstmt {
	return gstmt{Text: text, Kind: "obj", Path: path, Body: body}
}
func gglob(text string, scope []string, pat []string, body gbody, f *gfilter) gstmt {
	return gstmt{Text: text, Kind: "glob", Scope: scope, Pat: pat, Body: &body, Filter: f}
}

var f12 = []gstmt{
	gobj("a", nil, "a"), gobj("ab", nil, "ab"), gobj("B", nil, "B"), gobj("bc", nil, "bc"), gobj("c.d", nil, "c", "d"), gobj("c: {e}", nil, "c", "e"), gobj("é", nil, "é"),
	gobj("a: x", &gbody{"", "x"}, "a"), gobj("a.style.opacity: 0.2", &gbody{"style.opacity", "0.2"}, "a"), gobj("a.shape: circle", &gbody{"shape", "circle"}, "a"),
	gglob("*: g", nil, P("*"), gbody{"", "g"}, nil),
	gglob("*.style.opacity: 0.4", nil, P("*"), gbody{"style.opacity", "0.4"}, nil),
	gglob("a*: h", nil, P("a*"), gbody{"", "h"}, nil),
	gglob("*b: i", nil, P("*b"), gbody{"", "i"}, nil),
	gglob("*b*: j", nil, P("*b*"), gbody{"", "j"}, nil),
	gglob("**: k", nil, P("**"), gbody{"", "k"}, nil),
	gglob("**.shape: circle", nil, P("**"), gbody{"shape", "circle"}, nil),
	gglob("***.style.fill: red", nil, P("***"), gbody{"style.fill", "red"}, nil),
	gglob("c.*: m", nil, P("c", "*"), gbody{"", "m"}, nil),
	gglob("*.*: n", nil, P("*", "*"), gbody{"", "n"}, nil),
	gglob("c: {*: o}", P("c"), P("*"), gbody{"", "o"}, nil),
	gglob("*: {&shape: circle; style.opacity: 0.1}", nil, P("*"), gbody{"style.opacity", "0.1"}, &gfilter{"shape", "circle", false}),
	gglob("*: {!&label: x; style.opacity: 0.3}", nil, P("*"), gbody{"style.opacity", "0.3"}, &gfilter{"label", "x", true}),
	{Text: "a -> ab", Kind: "edge", Src: P("a"), Dst: P("ab")},
	{Text: "B -> a", Kind: "edge", Src: P("B"), Dst: P("a")},
	{Text: "* -> *", Kind: "eglob", SrcPat: "*", DstPat: "*"},
	{Text: "a -> *", Kind: "eglob", SrcPat: "a", DstPat: "*"},
	{Text: "* -> a", Kind: "eglob", SrcPat: "*", DstPat: "a"},
	{Text: "(* -> *)[*]: p", Kind: "eattr", SrcPat: "*", DstPat: "*", Body: &gbody{"", "p"}},
	{Text: "(* -> *)[*].style.stroke: red", Kind: "eattr", SrcPat: "*", DstPat: "*", Body: &gbody{"style.stroke", "red"}},
	{Text: "(a -> *)[*]: q", Kind: "eattr", SrcPat: "a", DstPat: "*", Body: &gbody{"", "q"}},
	{Text: "layers: {l: {z}}", Kind: "board"},
	{Text: "layers: {l: {a -> ab}; m: {a -> ab}}", Kind: "board2"},
	{Text: "(a -> ***)[*].style.stroke: red", Kind: "eattr", SrcPat: "a", DstPat: "***", Body: &gbody{"style.stroke", "red"}},
	{Text: "(*** -> ***)[*]: t", Kind: "eattr", SrcPat: "***", DstPat: "***", Body: &gbody{"", "t"}},
	{Text: "a: null", Kind: "del", Path: P("a")},
	{Text: "vars: {v: 1}", Kind: "vars"},
	{Text: "d: ${v}", Kind: "obj", Path: P("d"), Body: &gbody{"", "${v}"}},
}

var f12Index = map[string]gstmt{}

func init() {
	for _, s := range f12 {
		f12Index[s.Text] = s
	}
}

// matchName: case-insensitive `*`-pattern match of one path segment (the property's rule; reserved keywords are
// never names in this fragment).
func matchName(pat, name string) bool {
	p, n := strings.ToLower(pat), strings.ToLower(name)
	parts := strings.Split(p, "*")
	if len(parts) == 1 {
		return p == n
	}
	if !strings.HasPrefix(n, parts[0]) {
		return false
	}
	n = n[len(parts[0]):]
	for i := 1; i < len(parts)-1; i++ {
		j := strings.Index(n, parts[i])
		if j < 0 {
			return false
		}
		n = n[j+len(parts[i]):]
	}
	return strings.HasSuffix(n, parts[len(parts)-1])
}

type gedge struct {
	src, dst []string
	idx      int
}

type gstate struct {
	objs      [][]string // creation order, first spelling
	attrs     map[string]map[string]string
	edges     []gedge
	globs     []gstmt // remembered attribute globs
	eglobs    []gstmt
	eattrs    []gstmt
	out       []string // twin statements (root board)
	board     []string // statements inside layer l (after `z`), nil if no board yet
	hasBoard  bool
	unsettled string
	filterSet bool // a filtered glob is remembered
	hasVars   bool
	hasBoard2 bool
	b2        [2][]string // statements inside layers l and m of the two-board statement
}

func keyOf(p []string) string { return strings.ToLower(strings.Join(p, "\x1f")) }

func (s *gstate) find(p []string) []string {
	for _, o := range s.objs {
		if keyOf(o) == keyOf(p) {
			return o
		}
	}
	return nil
}

func pathText(p []string) string { return strings.Join(p, ".") }

func (s *gstate) setAttr(p []string, b gbody) {
	k := keyOf(p)
	if s.attrs[k] == nil {
		s.attrs[k] = map[string]string{}
	}
	s.attrs[k][b.key] = b.val
	if b.key == "" {
		s.out = append(s.out, fmt.Sprintf("%s: %s", pathText(p), b.val))
	} else {
		s.out = append(s.out, fmt.Sprintf("%s.%s: %s", pathText(p), b.key, b.val))
	}
}

// globMatches: does glob g (scope + pattern) select object path p?
func globMatches(g gstmt, p []string) bool {
	if len(p) <= len(g.Scope) || keyOf(p[:len(g.Scope)]) != keyOf(g.Scope) {
		return false
	}
	rel := p[len(g.Scope):]
	if len(g.Pat) == 1 && (g.Pat[0] == "**" || g.Pat[0] == "***") {
		return len(rel) >= 1
	}
	if len(rel) != len(g.Pat) {
		return false
	}
	for i := range rel {
		if !matchName(g.Pat[i], rel[i]) {
			return false
		}
	}
	return true
}

func (s *gstate) filterOK(f *gfilter, p []string) bool {
	if f == nil {
		return true
	}
	a := s.attrs[keyOf(p)]
	var cur string
	switch f.key {
	case "shape":
		cur = a["shape"]
		if cur == "" {
			cur = "rectangle"
		}
	case "label":
		cur = a[""]
		if cur == "" {
			cur = p[len(p)-1]
		}
	}
	ok := cur == f.val
	if f.neg {
		ok = !ok
	}
	return ok
}

// create ensures every prefix of p exists; each newly created object receives the remembered globs at that moment.
func (s *gstate) create(p []string) {
	for i := 1; i <= len(p); i++ {
		pre := p[:i]
		if s.find(pre) != nil {
			continue
		}
		np := append([]string{}, pre...)
		s.objs = append(s.objs, np)
		s.out = append(s.out, pathText(np))
		for _, g := range s.globs {
			if globMatches(g, np) && s.filterOK(g.Filter, np) {
				s.setAttr(np, *g.Body)
			}
		}
		if len(np) == 1 {
			for _, eg := range s.eglobs {
				s.expandEdgeGlobFor(eg, np)
			}
		}
	}
}

func (s *gstate) topLevel() [][]string {
	var out [][]string
	for _, o := range s.objs {
		if len(o) == 1 {
			out = append(out, o)
		}
	}
	return out
}

func (s *gstate) addEdge(src, dst []string) {
	idx := 0
	for _, e := range s.edges {
		if keyOf(e.src) == keyOf(src) && keyOf(e.dst) == keyOf(dst) {
			idx++
		}
	}
	s.edges = append(s.edges, gedge{src, dst, idx})
	s.out = append(s.out, fmt.Sprintf("%s -> %s", pathText(src), pathText(dst)))
	for _, ea := range s.eattrs {
		if matchName(ea.SrcPat, src[0]) && matchName(ea.DstPat, dst[0]) && len(src) == 1 && len(dst) == 1 {
			s.edgeAttr(src, dst, idx, *ea.Body)
		}
	}
}

func (s *gstate) edgeAttr(src, dst []string, idx int, b gbody) {
	if b.key == "" {
		s.out = append(s.out, fmt.Sprintf("(%s -> %s)[%d]: %s", pathText(src), pathText(dst), idx, b.val))
	} else {
		s.out = append(s.out, fmt.Sprintf("(%s -> %s)[%d].%s: %s", pathText(src), pathText(dst), idx, b.key, b.val))
	}
}

func (s *gstate) hasGlobEdge(eg gstmt, src, dst []string) bool {
	for _, e := range s.edges {
		if keyOf(e.src) == keyOf(src) && keyOf(e.dst) == keyOf(dst) {
			return true
		}
	}
	return false
}

// expandEdgeGlobFor: connections of eg that involve the (new) top-level object z.
func (s *gstate) expandEdgeGlobFor(eg gstmt, z []string) {
	for _, x := range s.topLevel() {
		if keyOf(x) == keyOf(z) {
			continue
		}
		for _, pr := range [][2][]string{{x, z}, {z, x}} {
			if matchName(eg.SrcPat, pr[0][0]) && matchName(eg.DstPat, pr[1][0]) {
				s.addEdge(pr[0], pr[1])
			}
		}
	}
}

func expand12(lines []string) (twin string, unsettled string, herr string) {
	s := &gstate{attrs: map[string]map[string]string{}}
	usesVar, definesVar := false, false
	for _, l := range lines {
		if l == "d: ${v}" {
			usesVar = true
		}
		if l == "vars: {v: 1}" {
			definesVar = true
		}
	}
	if usesVar && !definesVar {
		return "", "undefined variable (C13's business)", ""
	}
	for _, l := range lines {
		st, ok := f12Index[l]
		if !ok {
			return "", "", "unknown statement " + l
		}
		switch st.Kind {
		case "obj":
			if st.Body != nil && s.filterSet && (st.Body.key == "shape" || st.Body.key == "") {
				return "", "an attribute read by a remembered glob filter is assigned after the glob: the statement does not say whether the filter is re-evaluated", ""
			}
			s.create(st.Path)
			if st.Body != nil {
				s.setAttr(s.find(st.Path), *st.Body)
			}
		case "glob":
			if len(st.Scope) > 0 {
				s.create(st.Scope) // `c: {*: o}` declares c
			}
			if len(st.Pat) > 1 && !strings.Contains(st.Pat[0], "*") && s.find(st.Pat[:1]) == nil {
				return "", "glob path with a literal container that does not exist: the statement does not say whether it is created", ""
			}
			if st.Body.key == "" || st.Body.key == "shape" {
				if s.filterSet {
					return "", "a glob assigns an attribute read by a remembered glob filter", ""
				}
			}
			if st.Pat[0] == "***" && s.hasBoard {
				s.board = append(s.board, "z.style.fill: red")
			}
			if st.Pat[0] == "***" && s.hasBoard2 {
				for i := range s.b2 {
					s.b2[i] = append(s.b2[i], "a"+bodySuffix(*st.Body), "ab"+bodySuffix(*st.Body))
				}
			}
			for _, o := range append([][]string{}, s.objs...) {
				if globMatches(st, o) && s.filterOK(st.Filter, o) {
					s.setAttr(o, *st.Body)
				}
			}
			s.globs = append(s.globs, st)
			if st.Filter != nil {
				s.filterSet = true
			}
		case "edge":
			s.create(st.Src)
			s.create(st.Dst)
			s.addEdge(s.find(st.Src), s.find(st.Dst))
		case "eglob":
			// a literal endpoint (`a`) is created by the statement only if some connection results; with no partner
			// the statement's effect on `a` is not settled by the property
			tl := s.topLevel()
			for _, x := range tl {
				for _, y := range tl {
					if keyOf(x) == keyOf(y) {
						continue
					}
					if matchName(st.SrcPat, x[0]) && matchName(st.DstPat, y[0]) {
						s.addEdge(x, y)
					}
				}
			}
			if st.SrcPat == "a" || st.DstPat == "a" {
				if s.find(P("a")) == nil {
					return "", "edge glob with a literal endpoint that does not exist yet", ""
				}
			}
			s.eglobs = append(s.eglobs, st)
		case "eattr":
			if s.hasBoard2 && strings.Contains(st.SrcPat+st.DstPat, "***") {
				return "", "a board-wide connection glob written after the board block: the statement does not say whether it reaches the boards", ""
			}
			for _, e := range s.edges {
				if len(e.src) == 1 && len(e.dst) == 1 && matchName(st.SrcPat, e.src[0]) && matchName(st.DstPat, e.dst[0]) {
					s.edgeAttr(e.src, e.dst, e.idx, *st.Body)
				}
			}
			s.eattrs = append(s.eattrs, st)
		case "vars":
			s.out = append(s.out, l)
			s.hasVars = true
		case "del":
			if s.find(st.Path) == nil {
				s.out = append(s.out, l)
				break
			}
			var keep [][]string
			for _, o := range s.objs {
				if !(len(o) >= len(st.Path) && keyOf(o[:len(st.Path)]) == keyOf(st.Path)) {
					keep = append(keep, o)
				} else {
					delete(s.attrs, keyOf(o))
				}
			}
			s.objs = keep
			var ke []gedge
			for _, e := range s.edges {
				if keyOf(e.src[:1]) != keyOf(st.Path) && keyOf(e.dst[:1]) != keyOf(st.Path) {
					ke = append(ke, e)
				}
			}
			s.edges = ke
			s.out = append(s.out, l)
		case "board2":
			if s.hasBoard2 || s.hasBoard {
				return "", "two board statements (merging boards is C15's business)", ""
			}
			s.hasBoard2 = true
			for i := range s.b2 {
				s.b2[i] = []string{"a -> ab"}
				for _, g := range s.globs {
					if g.Pat[0] == "***" { // *** attribute globs reach the boards' objects
						s.b2[i] = append(s.b2[i], "a"+bodySuffix(*g.Body), "ab"+bodySuffix(*g.Body))
					}
				}
				for _, ea := range s.eattrs {
					if strings.Contains(ea.SrcPat+ea.DstPat, "***") && matchName(ea.SrcPat, "a") && matchName(ea.DstPat, "ab") {
						s.b2[i] = append(s.b2[i], boardEdgeAttr(*ea.Body))
					}
				}
			}
		case "board":
			if s.hasBoard2 {
				return "", "two board statements (merging boards is C15's business)", ""
			}
			if s.hasBoard {
				return "", "", "" // second identical board statement: merge is C15's business; skip
			}
			s.hasBoard = true
			s.board = []string{"z"}
			for _, g := range s.globs {
				if g.Pat[0] == "***" {
					s.board = append(s.board, "z.style.fill: red")
				}
			}
		}
	}
	twin = strings.Join(s.out, "\n")
	if s.hasBoard {
		twin += "\nlayers: {l: {" + strings.Join(s.board, "; ") + "}}"
	}
	if s.hasBoard2 {
		twin += "\nlayers: {l: {" + strings.Join(s.b2[0], "; ") + "}; m: {" + strings.Join(s.b2[1], "; ") + "}}"
	}
	return twin, "", ""
}

func bodySuffix(b gbody) string {
	if b.key == "" {
		return ": " + b.val
	}
	return "." + b.key + ": " + b.val
}

func boardEdgeAttr(b gbody) string { return "(a -> ab)[0]" + bodySuffix(b) }

func c12Mech(lines []string) string {
	// (1) suffix pattern next to a name that contains but does not end in the literal
	hasSuffixPat, hasBC := false, false
	for _, l := range lines {
		if l == "*b: i" {
			hasSuffixPat = true
		}
		if l == "bc" {
			hasBC = true
		}
	}
	if hasSuffixPat && hasBC {
		return "suffix-pattern-matches-name-that-only-contains-the-literal"
	}
	// (1a) null under remembered globs
	sawGlob, sawEGlob, sawNullAfterGlob := false, false, false
	for _, l := range lines {
		st := f12Index[l]
		switch {
		case st.Kind == "glob" || st.Kind == "eattr":
			sawGlob = true
		case st.Kind == "eglob":
			sawEGlob = true
		case st.Kind == "del":
			if sawEGlob {
				return "null-on-an-object-under-a-remembered-edge-glob"
			}
			if sawGlob {
				sawNullAfterGlob = true
			}
		case st.Kind == "obj" || st.Kind == "edge":
			if sawNullAfterGlob && (l == "a" || strings.HasPrefix(l, "a:") || strings.HasPrefix(l, "a.") || strings.Contains(l, "-> a") || strings.HasPrefix(l, "a ->")) {
				return "object-recreated-after-null-is-not-globbed-again"
			}
		}
	}
	// (1c) a substitution-valued declaration competing with a glob on the same attribute
	if sawGlob {
		for _, l := range lines {
			if l == "d: ${v}" {
				return "substitution-valued-label-competes-with-a-glob-label"
			}
		}
	}
	// (1b) a glob declared inside a container map, followed by a statement that creates a child of that container
	scoped := false
	for _, l := range lines {
		if l == "c: {*: o}" {
			scoped = true
		} else if scoped && (l == "c.d" || l == "c: {e}") {
			return "glob-inside-container-map-not-applied-to-children-created-later"
		}
	}
	// (2) two remembered globs that set the same attribute, followed by a statement that creates targets
	lastKey := map[string]int{}
	nGlobsSameKey := false
	for _, l := range lines {
		st := f12Index[l]
		switch st.Kind {
		case "glob", "eattr":
			if nGlobsSameKey && len(st.Scope) > 0 {
				return "two-globs-on-a-target-created-later" // `c: {…}` creates c
			}
			k := st.Kind + ":" + st.Body.key
			lastKey[k]++
			if lastKey[k] >= 2 {
				nGlobsSameKey = true
			}
		case "obj", "edge", "eglob":
			if nGlobsSameKey {
				return "two-globs-on-a-target-created-later"
			}
		}
	}
	seen := map[string]bool{}
	for _, l := range lines {
		st := f12Index[l]
		if st.Kind == "glob" || st.Kind == "eglob" || st.Kind == "eattr" {
			if seen[l] {
				return "identical-glob-statement-repeated"
			}
			seen[l] = true
		}
	}
	return ""
}

func c12Oracle(in string) eng.Res {
	lines := strings.Split(in, "\n")
	boards := 0
	for _, l := range lines {
		if l == "layers: {l: {z}}" || l == "layers: {l: {a -> ab}; m: {a -> ab}}" {
			boards++
		}
	}
	if boards > 1 {
		return eng.OK("skip-two-boards", false)
	}
	twin, unsettled, herr := expand12(lines)
	if herr != "" {
		return eng.Bad("harness-error", herr)
	}
	if unsettled != "" {
		return eng.OK("unsettled", false)
	}
	g1, c1, err1 := Compile(in)
	g2, c2, err2 := Compile(twin)
	if err2 != nil {
		return eng.Bad("harness-error:twin-does-not-compile", fmt.Sprintf("program %q\ntwin %q\n%v", in, twin, err2))
	}
	mech := c12Mech(lines)
	if err1 != nil {
		cls := "glob-program-rejected:" + msgKind(firstErr(err1))
		if mech != "" {
			cls = mech
		}
		return eng.Bad(cls, fmt.Sprintf("program %q\ntwin %q compiles, program: %v", in, twin, err1))
	}
	o := CanonOpts{SortObjects: true, SortChildren: true}
	a, b := CanonWith(g1, c1, o), CanonWith(g2, c2, o)
	if a != b {
		paths := JSONDiffPaths(a, b)
		p := "?"
		if len(paths) > 0 {
			p = paths[0]
		}
		cls := "differs-from-expanded-twin:" + p
		if mech != "" {
			cls = mech
		}
		return eng.Bad(cls, fmt.Sprintf("program %q\ntwin    %q\ndiffering fields %v\n%s", in, twin, paths, FirstDiff(a, b)))
	}
	return eng.OK(fmt.Sprintf("o%d e%d %s", len(g1.Objects), len(g1.Edges), shapeOf(twin)), len(g1.Objects) > 0)
}

func init() {
	var alpha []string
	for _, s := range f12 {
		alpha = append(alpha, s.Text)
	}
	eng.Register(&eng.Check{
		ID: "C12", Level: "exploration",
		QuickBudget: 400 * time.Second, // level 4 is 2.1M programs: ≈70 s idle, ≈250 s at load 100
		Rule: "every program of ≤4 (quick) / ≤5 (thorough, level 5 as far as the budget allows) statements over the 33-statement glob fragment F12 (plain objects incl. nested, upper-case and non-ASCII names; explicit label/opacity/shape; single, double and triple globs; prefix/suffix/infix patterns; multi-level and scoped globs; positive and negative filters; edge-creating globs; edge-attribute globs; one layer board); oracle: the program and its glob-free twin (globs instantiated on every matching target that exists, and on later targets at the moment they are created, values following source order; * one level, ** through containers, *** also into the board; no self-connections) compile to the same canonical diagram (order-insensitive), both through the real compiler",
		Assumptions: []string{"programs in which an attribute read by a remembered glob filter is assigned after the glob are skipped: the statement does not say whether filters are re-evaluated", "glob bodies only set attributes or connect existing objects; bodies that create objects the same glob would match again have no defined fixpoint (d2's own tests mark that behaviour as open)", "edge globs with a literal endpoint that does not exist yet are skipped"},
		Oracles: map[string]eng.Oracle{"twin": c12Oracle},
		Run: func(w *eng.W) {
			for k := 1; k <= w.Pick(4, 5); k++ {
				k := k
				w.Phase(fmt.Sprintf("stmts<=%d", k), func() {
					Seqs(alpha, k, func(s []string) { w.Eval("twin", strings.Join(s, "\n")) })
				})
			}
		},
	})
}
