package checks

import (
	"fmt"
	"sort"
	"strings"

	"oss.terrastruct.com/d2/d2graph"
)

// Reference interpreter for the core fragment (C10, C11). Deliberately boring: a tree of nodes keyed by
// case-folded name, last-writer-wins scalar attributes, an ordered list of connections per container.

type rnode struct {
	name     string // first spelling since (re)creation
	label    *string
	shape    string
	opacity  string
	children []*rnode
	edges    []*redge // connections declared in this container
	parent   *rnode
	globs    []rstmt // root only: `[*]` statements seen so far; they also apply to connections created later
}

type redge struct {
	src, dst   []string // relative to the container, as spelled
	srcArrow   bool
	dstArrow   bool
	label      string
	stroke     string
	dead       bool
	idx        int // index within (container, endpoints, direction)
	declaredAt int // statement index
}

type rstmt struct {
	Text string
	Kind string // decl | attr | del | edge | eref
	// decl/attr/del
	Path  []string
	Label *string
	Attr  string // shape | opacity
	Val   *string
	// edge / eref
	Cont     []string
	Src, Dst []string
	SrcArrow bool
	DstArrow bool
	Ensure   []string // a container the statement declares by being written inside it (`c: {…}`)
	Idx      int      // eref; -1 = [*]
	Op       string // eref: label | null | stroke
	OpVal    string
}

func sp(s string) *string { return &s }

func (n *rnode) find(path []string) *rnode {
	cur := n
	for _, p := range path {
		var next *rnode
		for _, c := range cur.children {
			if strings.EqualFold(c.name, p) {
				next = c
				break
			}
		}
		if next == nil {
			return nil
		}
		cur = next
	}
	return cur
}

func (n *rnode) ensure(path []string) *rnode {
	cur := n
	for _, p := range path {
		var next *rnode
		for _, c := range cur.children {
			if strings.EqualFold(c.name, p) {
				next = c
				break
			}
		}
		if next == nil {
			next = &rnode{name: p, parent: cur}
			cur.children = append(cur.children, next)
		}
		cur = next
	}
	return cur
}

func (n *rnode) abs() []string {
	var out []string
	for c := n; c != nil && c.parent != nil; c = c.parent {
		out = append([]string{c.name}, out...)
	}
	return out
}

func hasPrefixFold(p, prefix []string) bool {
	if len(p) < len(prefix) {
		return false
	}
	for i := range prefix {
		if !strings.EqualFold(p[i], prefix[i]) {
			return false
		}
	}
	return true
}

func eqFold(a, b []string) bool { return len(a) == len(b) && hasPrefixFold(a, b) }

func (root *rnode) walk(f func(n *rnode)) {
	var rec func(n *rnode)
	rec = func(n *rnode) {
		f(n)
		for _, c := range n.children {
			rec(c)
		}
	}
	rec(root)
}

// apply returns "error" when the reference says the statement is an error.
func (root *rnode) apply(i int, s rstmt) string {
	if len(s.Ensure) > 0 {
		root.ensure(s.Ensure)
	}
	switch s.Kind {
	case "decl":
		n := root.ensure(s.Path)
		if s.Label != nil {
			n.label = s.Label
		}
	case "attr":
		if s.Val == nil {
			if root.find(s.Path) == nil {
				return "unsettled" // null on an attribute of an object that does not exist: the statement does not say whether the object is created
			}
			if n := root.find(s.Path); n != nil {
				if s.Attr == "shape" {
					n.shape = ""
				} else {
					n.opacity = ""
				}
			}
			return ""
		}
		n := root.ensure(s.Path)
		if s.Attr == "shape" {
			n.shape = *s.Val
		} else {
			n.opacity = *s.Val
		}
	case "del":
		n := root.find(s.Path)
		if n == nil {
			if len(s.Path) > 1 && root.find(s.Path[:len(s.Path)-1]) == nil {
				return "unsettled" // null on a nested key whose container does not exist: the statement does not say whether the container is created
			}
			return ""
		}
		victim := n.abs()
		p := n.parent
		for j, c := range p.children {
			if c == n {
				p.children = append(p.children[:j:j], p.children[j+1:]...)
				break
			}
		}
		root.walk(func(c *rnode) {
			base := c.abs()
			for _, e := range c.edges {
				if hasPrefixFold(append(append([]string{}, base...), e.src...), victim) || hasPrefixFold(append(append([]string{}, base...), e.dst...), victim) {
					e.dead = true
				}
			}
		})
	case "edge":
		c := root.ensure(s.Cont)
		c.ensure(s.Src)
		c.ensure(s.Dst)
		e := &redge{src: s.Src, dst: s.Dst, srcArrow: s.SrcArrow, dstArrow: s.DstArrow, declaredAt: i}
		// numbered after the live connections of its class: 0 when none is left (a class whose endpoints were
		// deleted starts afresh); survivors of an indexed delete keep their numbers (d2's own test
		// TestCompile2/nulls/basic/nested-edge deletes [0] and then [1])
		for _, o := range c.edges {
			if !o.dead && eqFold(o.src, e.src) && eqFold(o.dst, e.dst) && o.srcArrow == e.srcArrow && o.dstArrow == e.dstArrow && o.idx >= e.idx {
				e.idx = o.idx + 1
			}
		}
		// an earlier `(x -> y)[*]` statement of the same container applies to this connection at creation;
		// the connection's own values come later in source order and win
		for _, gs := range root.globs {
			if eqFold(gs.Cont, s.Cont) && eqFold(gs.Src, e.src) && eqFold(gs.Dst, e.dst) && gs.SrcArrow == e.srcArrow && gs.DstArrow == e.dstArrow {
				switch gs.Op {
				case "label":
					e.label = gs.OpVal
				case "stroke":
					e.stroke = gs.OpVal
				}
			}
		}
		if s.Label != nil {
			e.label = *s.Label
		}
		c.edges = append(c.edges, e)
	case "eref":
		c := root.find(s.Cont)
		var live []*redge
		if c != nil {
			for _, e := range c.edges {
				if !e.dead && eqFold(e.src, s.Src) && eqFold(e.dst, s.Dst) && e.srcArrow == s.SrcArrow && e.dstArrow == s.DstArrow {
					live = append(live, e)
				}
			}
		}
		var targets []*redge
		if s.Idx == -1 {
			targets = live
			root.globs = append(root.globs, s)
		} else {
			for _, e := range live {
				if e.idx == s.Idx {
					targets = append(targets, e)
				}
			}
			if len(targets) == 0 {
				if s.Op == "null" {
					return "" // deleting a connection that does not exist is accepted by d2 (nothing to delete)
				}
				return "error"
			}
		}
		for _, e := range targets {
			switch s.Op {
			case "label":
				e.label = s.OpVal
			case "null":
				e.dead = true
			case "stroke":
				e.stroke = s.OpVal
			}
		}
	}
	return ""
}

type projObj struct{ ID, Label, Shape, Opacity string }
type projEdge struct {
	Src, Dst           string
	SrcArrow, DstArrow bool
	Label, Stroke      string
}

func (root *rnode) project() ([]projObj, []projEdge) {
	var objs []projObj
	var edges []projEdge
	root.walk(func(n *rnode) {
		if n.parent == nil {
			return
		}
		lab := n.name
		if n.label != nil {
			lab = *n.label
		}
		sh := n.shape
		if sh == "" {
			sh = "rectangle"
		}
		objs = append(objs, projObj{strings.ToLower(strings.Join(n.abs(), ".")), lab, sh, n.opacity})
	})
	root.walk(func(n *rnode) {
		base := n.abs()
		for _, e := range n.edges {
			if e.dead {
				continue
			}
			edges = append(edges, projEdge{
				strings.ToLower(strings.Join(append(append([]string{}, base...), e.src...), ".")),
				strings.ToLower(strings.Join(append(append([]string{}, base...), e.dst...), ".")),
				e.srcArrow, e.dstArrow, e.label, e.stroke})
		}
	})
	sort.Slice(objs, func(i, j int) bool { return objs[i].ID < objs[j].ID })
	sort.SliceStable(edges, func(i, j int) bool {
		if edges[i].Src != edges[j].Src {
			return edges[i].Src < edges[j].Src
		}
		if edges[i].Dst != edges[j].Dst {
			return edges[i].Dst < edges[j].Dst
		}
		return fmt.Sprint(edges[i].SrcArrow, edges[i].DstArrow) < fmt.Sprint(edges[j].SrcArrow, edges[j].DstArrow)
	})
	return objs, edges
}

func projectGraph(g *d2graph.Graph) ([]projObj, []projEdge) {
	var objs []projObj
	var edges []projEdge
	for _, o := range g.Objects {
		op := ""
		if o.Style.Opacity != nil {
			op = o.Style.Opacity.Value
		}
		objs = append(objs, projObj{strings.ToLower(unq(o.AbsID())), o.Label.Value, o.Shape.Value, op})
	}
	es := append([]*d2graph.Edge{}, g.Edges...)
	sort.SliceStable(es, func(i, j int) bool { return es[i].Index < es[j].Index })
	for _, e := range es {
		st := ""
		if e.Style.Stroke != nil {
			st = e.Style.Stroke.Value
		}
		edges = append(edges, projEdge{strings.ToLower(unq(e.Src.AbsID())), strings.ToLower(unq(e.Dst.AbsID())), e.SrcArrow, e.DstArrow, e.Label.Value, st})
	}
	sort.Slice(objs, func(i, j int) bool { return objs[i].ID < objs[j].ID })
	sort.SliceStable(edges, func(i, j int) bool {
		if edges[i].Src != edges[j].Src {
			return edges[i].Src < edges[j].Src
		}
		if edges[i].Dst != edges[j].Dst {
			return edges[i].Dst < edges[j].Dst
		}
		return fmt.Sprint(edges[i].SrcArrow, edges[i].DstArrow) < fmt.Sprint(edges[j].SrcArrow, edges[j].DstArrow)
	})
	return objs, edges
}

func unq(s string) string { return strings.ReplaceAll(s, "\"", "") }
