package checks

import (
	"encoding/json"
	"errors"
	"fmt"
	"sort"
	"strings"

	"oss.terrastruct.com/d2/d2ast"
	"oss.terrastruct.com/d2/d2parser"
	"oss.terrastruct.com/d2/d2target"
	"oss.terrastruct.com/d2/d2themes/d2themescatalog"
	"oss.terrastruct.com/d2/lib/color"
	"verif/h/eng"
	. "verif/h/u"
)

// C16: accept ⇔ value in the documented domain. The domain table below is restricted to what the property statement
// and d2's own error messages document; values whose status the documentation leaves open are not in it.

type domain struct {
	Key     string   // attribute as written after the element, e.g. "style.opacity", "width"
	Ctx     []string // contexts in which the attribute is legal: obj | edge | cont (container object) | cls (class applied to object)
	In      []string // must be accepted
	Out     []string // must be rejected
	Keyword bool     // keyword-valued: the compiled value may differ in letter case
	Field   string   // JSON path below attrs for the accepted value ("" = not compared)
}

func intsIn(lo, hi int) []string {
	return []string{fmt.Sprint(lo), fmt.Sprint(lo + 1), fmt.Sprint(hi - 1), fmt.Sprint(hi)}
}

var (
	badInts   = []string{"abc", "1.5", "NaN", "1e1", "0x1", "١"}
	colorsIn  = []string{"red", "RED", "Red", "honeydew", "#fff", "#FFF", "#a1b2c3", "#A1B2C3", "linear-gradient(red, blue)", "radial-gradient(#fff, #000)", "linear-gradient(to right, red 0%, blue 100%)"}
	// (the error message documents a gradient as `linear-gradient(red, blue)`; d2 matches the function name case-sensitively)
	colorsOut = []string{"notacolor", "#12", "#ggg", "#12345", "#1234567", "fff", "rgb(1,2,3", "linear-gradient(notacolor, blue)", "#", "LINEAR-GRADIENT(red, blue)", "Radial-Gradient(#fff, #000)"}
	boolIn    = []string{"true", "false"}
	boolOut   = []string{"maybe", "yes", "2", "truee"}
)

func c16Table() []domain {
	objEdge := []string{"obj", "edge", "cls"}
	t := []domain{
		{Key: "style.opacity", Ctx: objEdge, In: []string{"0", "0.0", "0.5", "1", "1.0", "0.25"}, Out: []string{"-1", "-0.1", "1.01", "2", "NaN", "nan", "Inf", "-Inf", "abc", "1,0"}, Field: "style.opacity.value"},
		{Key: "style.stroke-width", Ctx: objEdge, In: intsIn(0, 15), Out: append([]string{"-1", "16", "100"}, badInts...), Field: "style.strokeWidth.value"},
		{Key: "style.stroke-dash", Ctx: objEdge, In: intsIn(0, 10), Out: append([]string{"-1", "11"}, badInts...), Field: "style.strokeDash.value"},
		{Key: "style.font-size", Ctx: objEdge, In: intsIn(8, 100), Out: append([]string{"7", "0", "-8", "101"}, badInts...), Field: "style.fontSize.value"},
		{Key: "style.border-radius", Ctx: []string{"obj", "cls"}, In: []string{"0", "1", "20", "1000"}, Out: append([]string{"-1", "-20"}, badInts...), Field: "style.borderRadius.value"},
		{Key: "style.stroke", Ctx: objEdge, In: colorsIn, Out: colorsOut, Field: "style.stroke.value"},
		{Key: "style.fill", Ctx: []string{"obj", "cls"}, In: colorsIn, Out: colorsOut, Field: "style.fill.value"},
		{Key: "style.font-color", Ctx: objEdge, In: colorsIn, Out: colorsOut, Field: "style.fontColor.value"},
		{Key: "style.fill-pattern", Ctx: []string{"obj", "cls"}, In: append(append([]string{}, d2ast.FillPatterns...), "DOTS", "Lines"), Out: []string{"stripes", "dot", ""}, Keyword: true, Field: "style.fillPattern.value"},
		{Key: "style.text-transform", Ctx: objEdge, In: append(append([]string{}, d2ast.TextTransforms...), "UPPERCASE"), Out: []string{"title", "upper"}, Keyword: true, Field: "style.textTransform.value"},
		{Key: "style.font", Ctx: objEdge, In: []string{"mono", "default", "MONO"}, Out: []string{"comic-sans", "serif"}, Keyword: true, Field: "style.font.value"},
		{Key: "style.bold", Ctx: objEdge, In: boolIn, Out: boolOut, Field: "style.bold.value"},
		{Key: "style.italic", Ctx: objEdge, In: boolIn, Out: boolOut, Field: "style.italic.value"},
		{Key: "style.underline", Ctx: objEdge, In: boolIn, Out: boolOut, Field: "style.underline.value"},
		{Key: "style.shadow", Ctx: []string{"obj", "cls"}, In: boolIn, Out: boolOut, Field: "style.shadow.value"},
		{Key: "style.multiple", Ctx: []string{"obj", "cls"}, In: boolIn, Out: boolOut, Field: "style.multiple.value"},
		{Key: "style.3d", Ctx: []string{"obj", "cls"}, In: boolIn, Out: boolOut, Field: "style.3d.value"},
		{Key: "style.double-border", Ctx: []string{"obj", "cls"}, In: boolIn, Out: boolOut, Field: "style.doubleBorder.value"},
		{Key: "style.animated", Ctx: []string{"edge"}, In: boolIn, Out: boolOut, Field: "style.animated.value"},
		{Key: "width", Ctx: []string{"obj", "cls"}, In: []string{"0", "1", "37", "1000"}, Out: append([]string{"-1", "-5"}, badInts...), Field: "width.value"},
		{Key: "height", Ctx: []string{"obj", "cls"}, In: []string{"0", "1", "37", "1000"}, Out: append([]string{"-1", "-5"}, badInts...), Field: "height.value"},
		{Key: "top", Ctx: []string{"obj"}, In: []string{"0", "1", "500"}, Out: append([]string{"-1"}, badInts...), Field: "top.value"},
		{Key: "left", Ctx: []string{"obj"}, In: []string{"0", "1", "500"}, Out: append([]string{"-1"}, badInts...), Field: "left.value"},
		{Key: "grid-rows", Ctx: []string{"cont"}, In: []string{"1", "2", "10"}, Out: append([]string{"0", "-1"}, badInts...), Field: "gridRows.value"},
		{Key: "grid-columns", Ctx: []string{"cont"}, In: []string{"1", "2", "10"}, Out: append([]string{"0", "-1"}, badInts...), Field: "gridColumns.value"},
		{Key: "grid-gap", Ctx: []string{"cont"}, In: []string{"0", "1", "100"}, Out: append([]string{"-1"}, badInts...), Field: "gridGap.value"},
		{Key: "vertical-gap", Ctx: []string{"cont"}, In: []string{"0", "1", "100"}, Out: append([]string{"-1"}, badInts...), Field: "verticalGap.value"},
		{Key: "horizontal-gap", Ctx: []string{"cont"}, In: []string{"0", "1", "100"}, Out: append([]string{"-1"}, badInts...), Field: "horizontalGap.value"},
		{Key: "direction", Ctx: []string{"obj", "cont"}, In: []string{"up", "down", "left", "right", "UP", "Right"}, Out: []string{"north", "diagonal", "u"}, Keyword: true, Field: "direction.value"},
	}
	var shapesIn []string
	for _, s := range d2target.Shapes {
		if s == d2target.ShapeImage {
			continue // needs an icon to be legal; not a pure value-domain case
		}
		shapesIn = append(shapesIn, s, strings.ToUpper(s))
	}
	sort.Strings(shapesIn)
	t = append(t, domain{Key: "shape", Ctx: []string{"obj", "cls"}, In: shapesIn, Out: []string{"triangle", "rect", "squar", "circles"}, Keyword: true, Field: "shape.value"})
	_ = color.NamedColors
	return t
}

type c16Case struct {
	Key, Ctx, Val string
	In, Keyword   bool
	Field         string
	Primer        *string `json:",omitempty"` // a value of the same attribute compiled first in the same process (its verdict is not judged here)
}

func (c c16Case) program() (src string, valLine int) {
	v := c.Val
	q := v
	if strings.ContainsAny(v, "#(), ") || v == "" {
		q = "\"" + v + "\""
	}
	switch c.Ctx {
	case "obj":
		return fmt.Sprintf("x.%s: %s\n", c.Key, q), 0
	case "cont":
		return fmt.Sprintf("x: {p; q}\nx.%s: %s\n", c.Key, q), 1
	case "edge":
		return fmt.Sprintf("a -> b\n(a -> b)[0].%s: %s\n", c.Key, q), 1
	case "cls":
		return fmt.Sprintf("x.class: k\nclasses: {\n  k.%s: %s\n}\n", c.Key, q), 2
	}
	return "", 0
}

func c16Oracle(in string) eng.Res {
	var c c16Case
	if err := json.Unmarshal([]byte(in), &c); err != nil {
		return eng.Bad("harness-error", err.Error())
	}
	kind := "value-outside-domain-accepted"
	after := ""
	if c.Primer != nil {
		pc := c
		pc.Val, pc.Primer = *c.Primer, nil
		psrc, _ := pc.program()
		Compile(psrc)
		after = ":after-validating-another-value-of-the-attribute"
		if strings.EqualFold(*c.Primer, c.Val) {
			after = ":after-validating-a-letter-case-variant"
		}
	}
	src, valLine := c.program()
	g, _, err := Compile(src)
	if c.In {
		if err != nil {
			return eng.Bad("value-in-domain-rejected:"+c.Key+":"+valueKind(c.Val)+after, fmt.Sprintf("program %q: %v", src, err))
		}
		// accepted values reach the diagram unchanged (keyword-valued: up to letter case)
		var attrs string
		if c.Ctx == "edge" {
			if len(g.Edges) != 1 {
				return eng.Bad("harness-error", "edge count")
			}
			b, _ := AttrsJSON(&g.Edges[0].Attributes)
			attrs = string(b)
		} else {
			for _, o := range g.Objects {
				if o.AbsID() == "x" {
					b, _ := AttrsJSON(&o.Attributes)
					attrs = string(b)
				}
			}
		}
		if c.Field != "" {
			var v any
			json.Unmarshal([]byte(attrs), &v)
			cur := v
			for _, p := range strings.Split(c.Field, ".") {
				m, ok := cur.(map[string]any)
				if !ok {
					cur = nil
					break
				}
				cur = m[p]
			}
			got, _ := cur.(string)
			same := got == c.Val
			if c.Keyword {
				same = strings.EqualFold(got, c.Val)
			}
			if !same {
				return eng.Bad("accepted-value-changed:"+c.Key+":"+valueKind(c.Val), fmt.Sprintf("program %q: compiled %s = %q", src, c.Field, got))
			}
		}
		return eng.OK("accepted:"+c.Key+":"+c.Ctx, true)
	}
	if err == nil {
		return eng.Bad(kind+":"+c.Key+":"+valueKind(c.Val)+after, fmt.Sprintf("program %q compiles", src))
	}
	var pe *d2parser.ParseError
	if !errors.As(err, &pe) || len(pe.Errors) == 0 {
		return eng.Bad("rejection-without-position:"+c.Key, err.Error())
	}
	// the error is reported at the value: on the value's line
	ok := false
	for _, e := range pe.Errors {
		if e.Range.Start.Line == valLine {
			ok = true
		}
	}
	if !ok {
		return eng.Bad("error-not-at-the-value:"+c.Key, fmt.Sprintf("program %q: %v (value is on line %d)", src, err, valLine+1))
	}
	return eng.OK("rejected:"+c.Key+":"+c.Ctx, true)
}

// valueKind: family of the value (mechanism), not the value itself.
func valueKind(v string) string {
	l := strings.ToLower(v)
	switch {
	case l == "nan":
		return "NaN"
	case l == "inf" || l == "-inf":
		return "Inf"
	case v == "":
		return "empty"
	case strings.HasPrefix(v, "-") && len(v) > 1 && v[1] >= '0' && v[1] <= '9':
		return "negative-number"
	case v[0] >= '0' && v[0] <= '9':
		return "number"
	case strings.HasPrefix(v, "#"):
		return "hex"
	case strings.Contains(v, "gradient"):
		return "gradient"
	case v != l:
		return "word-othercase"
	}
	return "word"
}

func init() {
	eng.Register(&eng.Check{
		ID: "C16", Level: "exploration",
		Rule: "full product: every attribute of the domain table (30 attributes: all numeric, colour, enumerated and boolean style keywords, sizes, positions, grid settings, direction, shape) × every in-domain and out-of-domain value of its table (boundaries lo-1, lo, lo+1, hi-1, hi, hi+1; 0.0/1.0/1.01; NaN, Inf; non-integers; named colours in 3 letter cases, #rgb, #rrggbb, malformed hex, gradients; every shape/font/pattern/transform/direction keyword in two letter cases; unknown words) × every context in which the attribute is legal (object, container, connection, class applied to an object), plus every ordered pair of table values of one attribute compiled one after the other in one process (the verdict on the second must not depend on the first), plus every theme id of the catalog and 4 unknown ids in d2-config; oracle: accepted ⇔ in domain, a rejection carries an error on the value's line, an accepted value reaches the compiled attribute unchanged (keyword-valued: up to letter case)",
		Assumptions: []string{"values whose status the documentation leaves open are not in the table: 8-digit hex colours, `t`/`1`/`TRUE` for booleans, `+5`, hex or underscore number spellings, single-stop gradients", "`error at the value` is checked as: some reported error lies on the value's source line"},
		Oracles: map[string]eng.Oracle{"domain": c16Oracle, "theme": c16Theme},
		Run: func(w *eng.W) {
			w.Phase("attribute-x-value-x-context", func() {
				for _, d := range c16Table() {
					for _, ctx := range d.Ctx {
						for _, v := range d.In {
							b, _ := json.Marshal(c16Case{d.Key, ctx, v, true, d.Keyword, d.Field, nil})
							w.Eval("domain", string(b))
						}
						for _, v := range d.Out {
							b, _ := json.Marshal(c16Case{d.Key, ctx, v, false, d.Keyword, d.Field, nil})
							w.Eval("domain", string(b))
						}
					}
				}
			})
			// the verdict on a value must not depend on what was validated before it in the process: every ordered pair of
			// table values of one attribute, the first compiled as a primer
			w.Phase("attribute-x-ordered-value-pairs", func() {
				for _, d := range c16Table() {
					ctx := d.Ctx[0]
					all := append(append([]string{}, d.In...), d.Out...)
					for _, p := range all {
						for i, v := range all {
							if p == v {
								continue
							}
							p := p
							b, _ := json.Marshal(c16Case{d.Key, ctx, v, i < len(d.In), d.Keyword, d.Field, &p})
							w.Eval("domain", string(b))
						}
					}
				}
			})
			w.Phase("theme-ids", func() {
				for _, th := range append(append([]int64{}, themeIDs()...), -1, 2, 99, 1000000) {
					for _, k := range []string{"theme-id", "dark-theme-id"} {
						w.Eval("theme", fmt.Sprintf("%s %d", k, th))
					}
				}
			})
		},
	})
}

func themeIDs() []int64 {
	var ids []int64
	for _, t := range d2themescatalog.LightCatalog {
		ids = append(ids, t.ID)
	}
	for _, t := range d2themescatalog.DarkCatalog {
		ids = append(ids, t.ID)
	}
	sort.Slice(ids, func(i, j int) bool { return ids[i] < ids[j] })
	return ids
}

func c16Theme(in string) eng.Res {
	var k string
	var id int64
	fmt.Sscan(in, &k, &id)
	known := false
	for _, t := range themeIDs() {
		if t == id {
			known = true
		}
	}
	src := fmt.Sprintf("vars: {d2-config: {%s: %d}}\nx\n", k, id)
	_, cfg, err := Compile(src)
	if known {
		if err != nil {
			return eng.Bad("known-theme-id-rejected", fmt.Sprintf("%q: %v", src, err))
		}
		var got *int64
		if cfg != nil {
			if k == "theme-id" {
				got = cfg.ThemeID
			} else {
				got = cfg.DarkThemeID
			}
		}
		if got == nil || *got != id {
			return eng.Bad("accepted-theme-id-changed", fmt.Sprintf("%q: config %v", src, got))
		}
		return eng.OK("theme-accepted", true)
	}
	if err == nil {
		return eng.Bad("unknown-theme-id-accepted", fmt.Sprintf("%q compiles", src))
	}
	return eng.OK("theme-rejected", true)
}
