package checks

import (
	"fmt"
	"strings"

	"verif/h/eng"
	. "verif/h/u"
)

// C13: textual-substitution twin. A 60-line scope resolver decides the value of every substitution (innermost
// enclosing vars block that defines the name; blocks of one scope merge, last assignment wins); the twin has the
// value written in place. Both are compiled by the real compiler.

type vstmt struct {
	Text  string
	Scope string            // "" = root, "c" = inside container c
	Defs  map[string]string // variable -> value template (may itself contain ${x})
	Twin  string            // text with %s where a substitution stood ("" = same as Text, no uses)
	Uses  []string          // variable names for the %s, in order
	Tgt   string            // what the statement's value is assigned to ("" = nothing that can be overwritten)
}

var f13 = []vstmt{
	{Text: "vars: {v: 1}", Defs: map[string]string{"v": "1"}},
	{Text: "vars: {v: two words}", Defs: map[string]string{"v": "two words"}},
	{Text: "vars: {w: ${v}}", Defs: map[string]string{"w": "${v}"}},
	{Text: "vars: {m: {k: z}}", Defs: map[string]string{"m.k": "z"}},
	{Text: "vars: {o: 0.4}", Defs: map[string]string{"o": "0.4"}},
	{Text: "vars: {v: x; u: ${v}y}", Defs: map[string]string{"v": "x", "u": "${v}y"}},
	{Text: "c: {vars: {v: inner}}", Scope: "c", Defs: map[string]string{"v": "inner"}},
	{Text: "c: {vars: {v: inner}; a: ${v}}", Scope: "c", Defs: map[string]string{"v": "inner"}, Twin: "c: {vars: {v: inner}; a: %s}", Uses: []string{"v"}, Tgt: "c.a"},
	// an inner definition that refers to its own name takes the enclosing scope's value (unquoted and double-quoted)
	{Text: "c: {vars: {v: ${v}-b}; a: ${v}}", Scope: "c", Defs: map[string]string{"v": "${v}-b"}, Twin: "c: {a: %s}", Uses: []string{"v"}, Tgt: "c.a"},
	{Text: "c: {vars: {v: \"${v}-b\"}; a: ${v}}", Scope: "c", Defs: map[string]string{"v": "${v}-b"}, Twin: "c: {a: %s}", Uses: []string{"v"}, Tgt: "c.a"},
	{Text: "c: {vars: {v: \"pre-${v}\"}; a: ${v}; e: \"q ${v}\"}", Scope: "c", Defs: map[string]string{"v": "pre-${v}"}, Twin: "c: {a: %s; e: \"q %s\"}", Uses: []string{"v", "v"}, Tgt: "c.a"},
	{Text: "c: {e: x}", Twin: "", Tgt: "c.e"},
	{Text: "c: {a: ${v}}", Scope: "c", Twin: "c: {a: %s}", Uses: []string{"v"}, Tgt: "c.a"},
	{Text: "c: {b: ${w}}", Scope: "c", Twin: "c: {b: %s}", Uses: []string{"w"}, Tgt: "c.b"},
	{Text: "c.d: {vars: {v: deep}; e: ${v} ${o}}", Scope: "c.d", Defs: map[string]string{"v": "deep"}, Twin: "c.d: {vars: {v: deep}; e: %s %s}", Uses: []string{"v", "o"}},
	{Text: "a: ${v}", Twin: "a: %s", Uses: []string{"v"}, Tgt: "a"},
	{Text: "a: pre ${v} post", Twin: "a: pre %s post", Uses: []string{"v"}, Tgt: "a"},
	{Text: "a: \"q ${v}\"", Twin: "a: \"q %s\"", Uses: []string{"v"}, Tgt: "a"},
	{Text: "a: 'q ${v}'", Twin: "a: \"q \\${v}\"", Tgt: "a"}, // single quotes never substitute: same as an escaped dollar
	{Text: "a.style.opacity: ${o}", Twin: "a.style.opacity: %s", Uses: []string{"o"}, Tgt: "a.opacity"},
	{Text: "a -> b: ${v}", Twin: "a -> b: %s", Uses: []string{"v"}},
	{Text: "a.tooltip: ${v}${v}", Twin: "a.tooltip: %s%s", Uses: []string{"v", "v"}, Tgt: "a.tooltip"},
	{Text: "a: ${m.k}", Twin: "a: %s", Uses: []string{"m.k"}, Tgt: "a"},
	{Text: "b: ${w}", Twin: "b: %s", Uses: []string{"w"}, Tgt: "b"},
	{Text: "b: ${u}", Twin: "b: %s", Uses: []string{"u"}, Tgt: "b"},
	{Text: "a: ${undefined}", Twin: "a: %s", Uses: []string{"undefined"}, Tgt: "a"},
	{Text: "b.class: [${v}; x]", Twin: "b.class: [%s; x]", Uses: []string{"v"}, Tgt: "b.class"},
	{Text: "b", Twin: ""},
	{Text: "a: lit", Twin: "", Tgt: "a"},
}

var f13Index = map[string]vstmt{}

func init() {
	for _, s := range f13 {
		f13Index[s.Text] = s
	}
}

func scopeChain(scope string) []string {
	// innermost first
	switch scope {
	case "c.d":
		return []string{"c.d", "c", ""}
	case "c":
		return []string{"c", ""}
	}
	return []string{""}
}

// resolve13 returns (value, status) with status "" | "undefined" | "unsettled".
func resolve13(defs map[string]map[string]string, scope, name string, depth int) (string, string) {
	if depth > 6 {
		return "", "unsettled" // self-referential definitions
	}
	for _, sc := range scopeChain(scope) {
		tmpl, ok := defs[sc][name]
		if !ok {
			continue
		}
		// substitutions inside the definition are resolved from the definition's own scope outward
		out := tmpl
		for strings.Contains(out, "${") {
			i := strings.Index(out, "${")
			j := strings.Index(out[i:], "}")
			inner := out[i+2 : i+j]
			// a definition that refers to its own name looks further out (d2 documents this shadowing case)
			from := sc
			if inner == name {
				ch := scopeChain(sc)
				if len(ch) < 2 {
					return "", "unsettled"
				}
				from = ch[1]
			}
			v, st := resolve13(defs, from, inner, depth+1)
			if st != "" {
				return "", st
			}
			out = out[:i] + v + out[i+j+1:]
		}
		return out, ""
	}
	return "", "undefined"
}

func expand13(lines []string) (twin string, status string) {
	defs := map[string]map[string]string{"": {}, "c": {}, "c.d": {}}
	for _, l := range lines {
		st, ok := f13Index[l]
		if !ok {
			return "", "harness: unknown statement " + l
		}
		for k, v := range st.Defs {
			defs[st.Scope][k] = v
		}
	}
	var out []string
	for li, l := range lines {
		st := f13Index[l]
		if st.Twin == "" {
			out = append(out, st.Text)
			continue
		}
		overwritten := false
		for _, l2 := range lines[li+1:] {
			if t2 := f13Index[l2].Tgt; st.Tgt != "" && t2 == st.Tgt {
				overwritten = true
			}
		}
		var vals []any
		for _, u := range st.Uses {
			v, s := resolve13(defs, st.Scope, u, 0)
			if s == "undefined" && overwritten {
				return "", "unsettled" // the value holding the undefined reference is replaced by a later assignment
			}
			if s != "" {
				return "", s
			}
			vals = append(vals, v)
		}
		out = append(out, fmt.Sprintf(st.Twin, vals...))
	}
	// definitions that cannot be resolved make the program an error even if unused
	for sc, m := range defs {
		for name := range m {
			if _, s := resolve13(defs, sc, name, 0); s == "undefined" {
				return "", "undefined"
			} else if s != "" {
				return "", s
			}
		}
	}
	return strings.Join(out, "\n"), ""
}

// c13Mech: a use of a variable whose value refers to another variable, written before the vars block that defines it.
func c13Mech(lines []string) string {
	// a field of c that already exists when the map holding a self-referential inner definition is compiled
	for i, l := range lines {
		if strings.Contains(l, "vars: {v: \"pre-${v}\"}") {
			for _, l2 := range lines[:i] {
				if l2 == "c: {e: x}" {
					return "quoted-use-in-a-field-declared-before-the-map-that-redefines-the-variable-from-its-outer-value"
				}
			}
		}
	}
	rootOf := func(text string) string {
		k := strings.IndexAny(text, ":. ")
		if k < 0 {
			return text
		}
		return text[:k]
	}
	for _, l := range lines {
		st := f13Index[l]
		for _, u := range st.Uses {
			if u != "w" && u != "u" {
				continue
			}
			defAt, objAt := -1, -1
			for i2, l2 := range lines {
				if _, ok := f13Index[l2].Defs[u]; ok && defAt < 0 {
					defAt = i2
				}
				if objAt < 0 {
					head := l2
					if k := strings.Index(head, ":"); k >= 0 {
						head = head[:k]
					}
					for _, tok := range strings.FieldsFunc(head, func(r rune) bool { return r == ' ' || r == '.' || r == '-' || r == '>' }) {
						if tok == rootOf(l) {
							objAt = i2 // also as a connection endpoint
						}
					}
				}
			}
			// fields are resolved in the order in which their objects were first declared
			if defAt >= 0 && objAt >= 0 && objAt < defAt {
				return "use-before-definition-of-a-variable-that-refers-to-another-variable"
			}
		}
	}
	return ""
}

func c13Oracle(in string) eng.Res {
	lines := strings.Split(in, "\n")
	twin, status := expand13(lines)
	if strings.HasPrefix(status, "harness") {
		return eng.Bad("harness-error", status)
	}
	if status == "unsettled" {
		return eng.OK("unsettled", false)
	}
	g1, c1, err1 := Compile(in)
	if status == "undefined" {
		if err1 == nil {
			return eng.Bad("undefined-variable-accepted", fmt.Sprintf("program %q compiles although a substitution names a variable no enclosing vars block defines", in))
		}
		return eng.OK("undefined-rejected", true)
	}
	g2, c2, err2 := Compile(twin)
	if err2 != nil {
		if err1 != nil {
			return eng.OK("both-rejected", false)
		}
		return eng.Bad("twin-rejected-but-program-accepted:"+msgKind(firstErr(err2)), fmt.Sprintf("program %q\ntwin %q: %v", in, twin, err2))
	}
	if err1 != nil {
		return eng.Bad("program-rejected-but-twin-accepted:"+msgKind(firstErr(err1)), fmt.Sprintf("program %q: %v\ntwin %q compiles", in, err1, twin))
	}
	o := CanonOpts{SortObjects: true, SortChildren: true}
	a, b := CanonWith(g1, c1, o), CanonWith(g2, c2, o)
	if a != b {
		paths := JSONDiffPaths(a, b)
		p := "?"
		if len(paths) > 0 {
			p = paths[0]
		}
		if m := c13Mech(lines); m != "" {
			p = m
		}
		return eng.Bad("differs-from-substituted-twin:"+p, fmt.Sprintf("program %q\ntwin    %q\ndiffering fields %v\n%s", in, twin, paths, FirstDiff(a, b)))
	}
	return eng.OK(shapeOf(twin)+fmt.Sprint(len(g1.Objects)), strings.Contains(in, "${"))
}

func init() {
	var alpha []string
	for _, s := range f13 {
		alpha = append(alpha, s.Text)
	}
	eng.Register(&eng.Check{
		ID: "C13", Level: "exploration",
		Rule: "every program of ≤4 (quick) / ≤5 (thorough) statements over the 25-statement variable fragment F13 (root vars with scalar, multi-word, nested-map and variable-referencing values; vars blocks inside containers at two nesting depths that shadow the root; substitutions alone, inside unquoted and double-quoted text, twice in one value, in a style attribute, a connection label, an array; single-quoted text; an undefined variable); oracle: the program and the twin in which every substitution is replaced textually by the value from the innermost enclosing vars block compile to the same canonical diagram; single-quoted text equals the escaped-dollar spelling; an undefined variable must be rejected; non-trivial = the program contains a substitution",
		Assumptions: []string{"vars blocks of one scope merge with last-assignment-wins (C10's rule); self-referential definitions are skipped as unsettled", "block strings (markdown) are not in the statement's list of substituting contexts and are left out"},
		Oracles: map[string]eng.Oracle{"twin": c13Oracle},
		Run: func(w *eng.W) {
			for k := 1; k <= w.Pick(4, 5); k++ {
				k := k
				w.Phase(fmt.Sprintf("stmts<=%d", k), func() {
					Seqs(alpha, k, func(s []string) { w.Eval("twin", strings.Join(s, "\n")) })
				})
			}
		},
	})
}
