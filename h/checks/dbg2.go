package checks

import (
	"fmt"
	"strconv"
	"time"

	"verif/h/eng"
	. "verif/h/u"
)

func init() {
	eng.Internal["dbg-size"] = func(args []string) {
		g := args[0]
		for _, a := range args[1:] {
			n, _ := strconv.Atoi(a)
			src := sizeGen[g](n)
			t0 := time.Now()
			_, _, err := CompileFS("index.d2", src, c07Files)
			fmt.Printf("%s n=%d bytes=%d time=%v err=%v\n", g, n, len(src), time.Since(t0), err != nil)
		}
	}
}

func init() {
	eng.Internal["dbg-depth"] = func(args []string) {
		for _, a := range args[2:] {
			n, _ := strconv.Atoi(a)
			in := fmt.Sprintf("%s\x00%d\x00%s", args[0], n, args[1])
			t0 := time.Now()
			r := c01Depth(in)
			fmt.Printf("n=%d time=%v outcome=%s\n", n, time.Since(t0), r.Outcome)
		}
	}
}
