package checks

import (
	"oss.terrastruct.com/d2/d2parser"
	"fmt"
	"strconv"
	"time"

	"verif/h/eng"
	. "verif/h/u"
)

func init() {
	eng.Internal["dbg-size"] = func(args []string) {
		g := args[0]
		for _, a := range args[1:] {
			n, _ := strconv.Atoi(a)
			src := sizeGen[g](n)
			t0 := time.Now()
			_, _, err := CompileFS("index.d2", src, c07Files)
			fmt.Printf("%s n=%d bytes=%d time=%v err=%v\n", g, n, len(src), time.Since(t0), err != nil)
		}
	}
}

func init() {
	eng.Internal["dbg-depth"] = func(args []string) {
		for _, a := range args[2:] {
			n, _ := strconv.Atoi(a)
			in := fmt.Sprintf("%s\x00%d\x00%s", args[0], n, args[1])
			t0 := time.Now()
			r := c01Depth(in)
			fmt.Printf("n=%d time=%v outcome=%s\n", n, time.Since(t0), r.Outcome)
		}
	}
}

func init() {
	eng.Internal["dbg-c04"] = func(args []string) {
		for _, a := range args {
			src := a
			if u, err := strconv.Unquote(a); err == nil {
				src = u
			}
			g, _, err := CompileFS("index.d2", src, c04Files)
			fmt.Printf("== %q err=%v\n", src, err)
			if g != nil {
				for _, o := range g.Objects {
					fmt.Printf("  obj %s label=%q\n", o.AbsID(), o.Label.Value)
				}
				for _, e := range g.Edges {
					fmt.Printf("  edge %s\n", e.AbsID())
				}
			}
		}
	}
}

func init() {
	eng.Internal["dbg-mapkey"] = func(args []string) {
		for _, a := range args {
			mk, err := d2parser.ParseMapKey(a)
			k, err2 := d2parser.ParseKey(a)
			fmt.Printf("%q: mapkey=%v err=%v | key=%v err=%v\n", a, mk != nil, err, k != nil, err2)
		}
	}
}

func init() {
	eng.Internal["dbg-g"] = func(args []string) {
		for _, a := range args {
			src := a
			if u, err := strconv.Unquote(a); err == nil {
				src = u
			}
			g, _, err := Compile(src)
			fmt.Printf("== %q err=%v\n", src, err)
			if g != nil {
				for _, o := range g.Objects {
					op := ""
					if o.Style.Opacity != nil {
						op = o.Style.Opacity.Value
					}
					fmt.Printf("  obj %s label=%q shape=%s opacity=%s\n", o.AbsID(), o.Label.Value, o.Shape.Value, op)
				}
				for _, e := range g.Edges {
					fmt.Printf("  edge %s label=%q\n", e.AbsID(), e.Label.Value)
				}
			}
		}
	}
}
