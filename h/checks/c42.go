package checks

import (
	"encoding/json"
	"fmt"
	"strings"

	"oss.terrastruct.com/d2/d2ast"
	"oss.terrastruct.com/d2/d2graph"
	"oss.terrastruct.com/d2/d2lsp"
	"oss.terrastruct.com/d2/d2parser"
	"verif/h/eng"
	. "verif/h/u"
)

// ---- reference ranges ---------------------------------------------------------------------------------------

type c42Case struct {
	Files Files
}

// declsOf: independent walk of a parsed file: absolute name path (lower-case) -> ranges of the segments that name it.
// Only plain nested keys and edge endpoints; files with globs, underscores, imports or boards in the path are skipped
// by the caller for the completeness clause.
func declsOf(m *d2ast.Map, prefix []string, out map[string][]d2ast.Range) {
	for _, n := range m.Nodes {
		if n.MapKey == nil {
			continue
		}
		mk := n.MapKey
		addPath := func(kp *d2ast.KeyPath, base []string) []string {
			cur := append([]string{}, base...)
			if kp == nil {
				return cur
			}
			for _, sb := range kp.Path {
				s := sb.Unbox()
				if _, ok := d2ast.ReservedKeywords[strings.ToLower(s.ScalarString())]; ok && s.IsUnquoted() {
					return nil
				}
				cur = append(cur, strings.ToLower(s.ScalarString()))
				k := strings.Join(cur, "\x1f")
				out[k] = append(out[k], s.GetRange())
			}
			return cur
		}
		base := addPath(mk.Key, prefix)
		if base == nil {
			continue
		}
		for _, e := range mk.Edges {
			addPath(e.Src, base)
			addPath(e.Dst, base)
		}
		if len(mk.Edges) == 0 && mk.Value.Map != nil {
			declsOf(mk.Value.Map, base, out)
		}
	}
}

func c42Refs(in string) eng.Res {
	var c c42Case
	if err := json.Unmarshal([]byte(in), &c); err != nil {
		return eng.Bad("harness-error", err.Error())
	}
	src := c.Files["index.d2"]
	g, _, err := CompileFS("index.d2", src, c.Files)
	if err != nil || g == nil {
		return eng.OK("uncompilable", false)
	}
	// completeness clause: plain index files, optionally with whole-file spread imports of x.d2 at the root (their
	// root-level declarations merge into the importing file's root)
	noImp := strings.ReplaceAll(src, "...@x\n", "")
	plain := !strings.ContainsAny(noImp, "*_@$") && !strings.Contains(src, "layers") && !strings.Contains(src, "scenarios") && !strings.Contains(src, "null")
	ast, _ := Parse(src)
	decls := map[string][]d2ast.Range{}
	if plain && ast != nil {
		declsOf(ast, nil, decls)
		if noImp != src {
			if xast, err := d2parser.Parse("x.d2", strings.NewReader(c.Files["x.d2"]), nil); err == nil {
				declsOf(xast, nil, decls)
			}
		}
	}
	checked := 0
	check := func(board []string, key string, namePath []string) *eng.Res {
		ranges, _, err := d2lsp.GetRefRanges("index.d2", map[string]string(c.Files), board, key)
		if err != nil {
			r := eng.Bad("lookup-of-a-compiled-key-fails", fmt.Sprintf("files %v key %q board %v: %v", c.Files, key, board, err))
			return &r
		}
		last := strings.ToLower(namePath[len(namePath)-1])
		for _, rg := range ranges {
			text, ok := c.Files[rg.Path]
			if !ok {
				r := eng.Bad("range-in-a-file-that-is-not-part-of-the-set", fmt.Sprintf("key %q: %v", key, rg))
				return &r
			}
			if rg.Start.Byte < 0 || rg.End.Byte > len(text) || rg.Start.Byte > rg.End.Byte {
				r := eng.Bad("range-outside-its-file", fmt.Sprintf("key %q: %v in %q", key, rg, text))
				return &r
			}
			slice := text[rg.Start.Byte:rg.End.Byte]
			found := false
			if mk, err := d2parser.ParseMapKey(slice); err == nil && mk != nil {
				var segs []string
				if mk.Key != nil {
					segs = append(segs, mk.Key.StringIDA()...)
				}
				for _, e := range mk.Edges {
					if e.Src != nil {
						segs = append(segs, e.Src.StringIDA()...)
					}
					if e.Dst != nil {
						segs = append(segs, e.Dst.StringIDA()...)
					}
				}
				for _, s := range segs {
					if strings.ToLower(s) == last {
						found = true
					}
				}
			}
			if !found {
				r := eng.Bad("reference-range-does-not-name-the-key", fmt.Sprintf("files %v\nkey %q board %v: range %v covers %q", c.Files, key, board, rg, slice))
				return &r
			}
		}
		if plain && board == nil {
			for _, want := range decls[strings.ToLower(strings.Join(namePath, "\x1f"))] {
				ok := false
				for _, rg := range ranges {
					if rg.Path == want.Path && rg.Start.Byte <= want.Start.Byte && want.End.Byte <= rg.End.Byte {
						ok = true
					}
				}
				if !ok {
					r := eng.Bad("declaration-of-the-key-not-among-returned-ranges", fmt.Sprintf("files %v\nkey %q: declaration at %v missing from %v", c.Files, key, want, ranges))
					return &r
				}
			}
		}
		checked++
		return nil
	}
	var visit func(b *d2graph.Graph, board []string) *eng.Res
	visit = func(b *d2graph.Graph, board []string) *eng.Res {
		for _, o := range b.Objects {
			var names []string
			for p := o; p != nil && p != b.Root; p = p.Parent {
				names = append([]string{p.IDVal}, names...)
			}
			if r := check(board, o.AbsID(), names); r != nil {
				return r
			}
		}
		for _, l := range b.Layers {
			if r := visit(l, append(append([]string{}, board...), l.Name)); r != nil {
				return r
			}
		}
		for _, l := range b.Scenarios {
			if r := visit(l, append(append([]string{}, board...), l.Name)); r != nil {
				return r
			}
		}
		return nil
	}
	if r := visit(g, nil); r != nil {
		return *r
	}
	return eng.OK(fmt.Sprintf("keys%d", checked), checked > 0)
}

// ---- board at position ------------------------------------------------------------------------------------------

// refBoardAt: innermost board whose block strictly contains the position (independent walk; dotted board keys such
// as `layers.x: {…}` make the text unsettled for this oracle and are not generated).
func refBoardAt(m *d2ast.Map, line, col int) (path []string, onBoundary bool) {
	inside := func(r d2ast.Range) (bool, bool) {
		after := line > r.Start.Line || (line == r.Start.Line && col > r.Start.Column)
		before := line < r.End.Line || (line == r.End.Line && col < r.End.Column-1)
		edge := (line == r.Start.Line && col == r.Start.Column) || (line == r.End.Line && (col == r.End.Column-1 || col == r.End.Column))
		return after && before, edge
	}
	for _, n := range m.Nodes {
		if n.MapKey == nil || n.MapKey.Key == nil || len(n.MapKey.Key.Path) != 1 || n.MapKey.Value.Map == nil {
			continue
		}
		kind := n.MapKey.Key.Path[0].Unbox().ScalarString()
		if kind != "layers" && kind != "scenarios" && kind != "steps" {
			continue
		}
		in, edge := inside(n.MapKey.Value.Map.Range)
		if edge {
			return nil, true
		}
		if !in {
			continue
		}
		for _, bn := range n.MapKey.Value.Map.Nodes {
			if bn.MapKey == nil || bn.MapKey.Key == nil || len(bn.MapKey.Key.Path) != 1 || bn.MapKey.Value.Map == nil {
				continue
			}
			in2, edge2 := inside(bn.MapKey.Value.Map.Range)
			if edge2 {
				return nil, true
			}
			if in2 {
				p := []string{kind, bn.MapKey.Key.Path[0].Unbox().ScalarString()}
				deeper, e3 := refBoardAt(bn.MapKey.Value.Map, line, col)
				if e3 {
					return nil, true
				}
				return append(p, deeper...), false
			}
		}
		return nil, false // inside the kind block but in no board
	}
	return nil, false
}

func c42Board(in string) eng.Res {
	ast, err := Parse(in)
	if err != nil || ast == nil {
		return eng.OK("unparsable", false)
	}
	lines := strings.Split(in, "\n")
	n := 0
	outcome := ""
	for li, l := range lines {
		for col := 0; col <= len(l); col++ {
			want, boundary := refBoardAt(ast, li, col)
			if boundary {
				continue
			}
			got, _ := d2lsp.GetBoardAtPosition(in, d2ast.Position{Line: li, Column: col})
			n++
			if strings.Join(got, "/") != strings.Join(want, "/") {
				kind := "wrong-board"
				if len(got) == 0 {
					kind = "no-board-reported-inside-a-board"
				} else if len(want) == 0 {
					kind = "board-reported-outside-any-board"
				} else if len(got) < len(want) {
					kind = "outer-board-reported-instead-of-innermost"
				}
				return eng.Bad("board-at-position:"+kind, fmt.Sprintf("text %q position %d:%d: reported %v, innermost board is %v", in, li, col, got, want))
			}
			outcome += fmt.Sprint(len(want))
		}
	}
	return eng.OK(outcome, strings.Contains(outcome, "2"))
}

// ---- completion never crashes -------------------------------------------------------------------------------------

func c42Complete(in string) eng.Res {
	lines := strings.Split(in, "\n")
	items := 0
	for li := 0; li <= len(lines); li++ {
		ll := 0
		if li < len(lines) {
			ll = len(lines[li])
		}
		for col := 0; col <= ll+1; col++ {
			it, _ := d2lsp.GetCompletionItems(in, li, col) // a panic is caught by the engine and reported with its site
			items += len(it)
		}
	}
	return eng.OK(fmt.Sprint(items > 0, len(lines)), true)
}

var c42Texts = []string{
	"a\nlayers: {\n  x: {\n    b\n  }\n}\n",
	"a\nlayers: {\n  x: {\n    b\n    scenarios: {\n      s: {c}\n    }\n  }\n  y: {d}\n}\nsteps: {\n  1: {e}\n}\n",
	"scenarios: {\n  s: {\n    a: {\n      b\n    }\n    layers: {\n      l: {\n        z\n      }\n    }\n  }\n}\n",
	"layers: {x: {a}; y: {b}}\nq\n",
	"x: {\n  layers: {\n    notaboard: {k}\n  }\n}\n",
	"layers: {\n  x: {\n    steps: {\n      1: {a}\n      2: {b}\n    }\n  }\n}\nw: {v}\n",
	"layers: {\n  x: y\n  z: {a}\n}\n",
}

func init() {
	eng.Register(&eng.Check{
		ID: "C42", Level: "exploration",
		Rule: "reference ranges: every file set {index.d2 = ≤3 statements (both tiers) over a 22-statement fragment (nested keys, case variants, quoted keys, connections with indexes, re-declarations, one spread and one keyed import of x.d2, a layer and a scenario)} × every object key of every board of the compiled set (GetRefRanges): each returned range lies in its file and its text parses to key syntax naming the key's last segment; for plain index files every declaration found by an independent AST walk is covered by a returned range. Board at position: every (line, column) of 7 multi-board texts and of every text of ≤2 board-fragment statements, compared with an independent innermost-board walk (positions on a brace are skipped). Completion: GetCompletionItems at every position (plus one past the end) of every token string of ≤2 (quick) / ≤3 (thorough) tokens over Σ_t, the board texts and their single-token neighbours must not crash",
		Assumptions: []string{"positions exactly on the opening or closing brace of a board block are not compared (the statement does not say which side they belong to)", "the completeness clause is checked for index files without globs, underscores, imports, boards and nulls"},
		Oracles: map[string]eng.Oracle{"refs": c42Refs, "board": c42Board, "complete": c42Complete},
		Run: func(w *eng.W) {
			stmts := []string{"a", "a.b", "A.B: x", "a: {b: {c}}", "\"a\".b", "a -> b", "a -> b: l", "(a -> b)[0].style.stroke: red", "a.b -> a.c", "c: {d -> e}", "b", "a.style.fill: red", "a.b.shape: circle",
				"...@x", "k: @x", "k.p: z", "p.q", "layers: {l: {m; a}}", "scenarios: {s: {a.n}}", "a: null", "*.style.opacity: 0.5", "c: {_.f}"}
			x := "p: {q}\np -> r\n"
			for k := 1; k <= 3; k++ {
				k := k
				w.Phase(fmt.Sprintf("ref-ranges-stmts<=%d", k), func() {
					Seqs(stmts, k, func(s []string) {
						b, _ := json.Marshal(c42Case{Files: Files{"index.d2": strings.Join(s, "\n") + "\n", "x.d2": x}})
						w.Eval("refs", string(b))
					})
				})
			}
			bstm := []string{"a", "layers: {\n  x: {\n    b\n  }\n}", "scenarios: {\n  s: {\n    c\n    steps: {\n      1: {d}\n    }\n  }\n}", "steps: {1: {e}; 2: {f}}", "k: {\n  layers: {\n    n: {g}\n  }\n}", "layers: {\n  x: {\n    layers: {\n      y: {\n        h\n      }\n    }\n  }\n}"}
			w.Phase("board-at-every-position", func() {
				for _, t := range c42Texts {
					w.Eval("board", t)
				}
				for k := 1; k <= 2; k++ {
					Seqs(bstm, k, func(s []string) { w.Eval("board", strings.Join(s, "\n")+"\n") })
				}
			})
			w.Phase("completion-at-every-position", func() {
				for _, t := range c42Texts {
					w.Eval("complete", t)
					for _, nb := range TokenNeighbours(t) {
						w.Eval("complete", nb)
					}
				}
				for k := 1; k <= w.Pick(2, 3); k++ {
					Seqs(SigmaT, k, func(s []string) { w.Eval("complete", Join(s)) })
				}
				kw := []string{"x.style.", "x.shape: ", "x.style.opacity: ", "x.near: ", "x.label.", "x.icon: ", "(a -> b)[0].source-arrowhead.", "x: {\n  style.\n}", "x: {\n  shape:\n}", "direction: ", "x.tooltip: ", "x.style.fill-pattern: ", "x.width: ", "style.3d: ", "a -> b: {\n  target-arrowhead.shape: \n}"}
				for _, t := range kw {
					w.Eval("complete", t)
					w.Eval("complete", t+"\n")
					w.Eval("complete", "q\n"+t)
				}
			})
		},
	})
}
