package checks

import (
	"fmt"
	"strings"

	"oss.terrastruct.com/d2/d2graph"
	"verif/h/eng"
	. "verif/h/u"
)

func decl(text string, label *string, path ...string) rstmt {
	return rstmt{Text: text, Kind: "decl", Path: path, Label: label}
}
func attr(text, a string, val *string, path ...string) rstmt {
	return rstmt{Text: text, Kind: "attr", Path: path, Attr: a, Val: val}
}
func del(text string, path ...string) rstmt { return rstmt{Text: text, Kind: "del", Path: path} }
func edge(text string, cont, src, dst []string, sa, da bool, label *string) rstmt {
	return rstmt{Text: text, Kind: "edge", Cont: cont, Src: src, Dst: dst, SrcArrow: sa, DstArrow: da, Label: label}
}
func eref(text string, cont, src, dst []string, sa, da bool, idx int, op, val string) rstmt {
	return rstmt{Text: text, Kind: "eref", Cont: cont, Src: src, Dst: dst, SrcArrow: sa, DstArrow: da, Idx: idx, Op: op, OpVal: val}
}
func P(s ...string) []string { return s }

var f10 = []rstmt{
	decl("a", nil, "a"), decl("b", nil, "b"), decl("A", nil, "A"), decl("a.b", nil, "a", "b"),
	decl("a: x", sp("x"), "a"), decl("a: y", sp("y"), "a"), decl("A: z", sp("z"), "A"), decl("\"a\": q", sp("q"), "a"),
	attr("a.shape: circle", "shape", sp("circle"), "a"), attr("a.shape: oval", "shape", sp("oval"), "a"),
	attr("a.style.opacity: 0.4", "opacity", sp("0.4"), "a"), attr("A.style.opacity: 0.5", "opacity", sp("0.5"), "A"),
	del("a: null", "a"), del("a.b: null", "a", "b"),
	attr("a.style.opacity: null", "opacity", nil, "a"), attr("a.shape: null", "shape", nil, "a"),
	edge("a -> b", nil, P("a"), P("b"), false, true, nil), edge("a -> b: l", nil, P("a"), P("b"), false, true, sp("l")),
	edge("A -> B: m", nil, P("A"), P("B"), false, true, sp("m")),
	eref("(a -> b)[0]: n", nil, P("a"), P("b"), false, true, 0, "label", "n"),
	eref("(a -> b)[0]: null", nil, P("a"), P("b"), false, true, 0, "null", ""),
	eref("(a -> b)[1].style.stroke: red", nil, P("a"), P("b"), false, true, 1, "stroke", "red"),
	decl("a: {b: x}", sp("x"), "a", "b"),
	edge("a: {b -> c}", P("a"), P("b"), P("c"), false, true, nil),
	edge("a.b -> a.c", P("a"), P("b"), P("c"), false, true, nil),
	edge("b -> a", nil, P("b"), P("a"), false, true, nil),
	edge("a.b -> b", nil, P("a", "b"), P("b"), false, true, nil), // declared in the root, attached to a nested object
	edge("A.b -> a.c", P("A"), P("b"), P("c"), false, true, nil),  // common container spelled in two letter cases within one key
	eref("(A.b -> a.c)[0]: null", P("a"), P("b"), P("c"), false, true, 0, "null", ""),
	eref("(a.b -> A.c)[0]: w", P("a"), P("b"), P("c"), false, true, 0, "label", "w"),
}

var f11 = []rstmt{
	edge("a -> b", nil, P("a"), P("b"), false, true, nil), edge("a <- b", nil, P("a"), P("b"), true, false, nil),
	edge("a -- b", nil, P("a"), P("b"), false, false, nil), edge("a <-> b", nil, P("a"), P("b"), true, true, nil),
	edge("b -> a", nil, P("b"), P("a"), false, true, nil), edge("a -> b: l", nil, P("a"), P("b"), false, true, sp("l")),
	edge("c: {a -> b}", P("c"), P("a"), P("b"), false, true, nil), edge("c.a -> c.b", P("c"), P("a"), P("b"), false, true, nil),
	edge("c: {_.a -> _.b}", nil, P("a"), P("b"), false, true, nil),
	edge("A -> B", nil, P("A"), P("B"), false, true, nil),
	eref("(a -> b)[0]: x", nil, P("a"), P("b"), false, true, 0, "label", "x"),
	eref("(a -> b)[1]: y", nil, P("a"), P("b"), false, true, 1, "label", "y"),
	eref("(a -> b)[2]: z", nil, P("a"), P("b"), false, true, 2, "label", "z"),
	eref("(a -> b)[0]: null", nil, P("a"), P("b"), false, true, 0, "null", ""),
	eref("(a -> b)[1]: null", nil, P("a"), P("b"), false, true, 1, "null", ""),
	eref("(a <- b)[0]: w", nil, P("a"), P("b"), true, false, 0, "label", "w"),
	eref("c.(a -> b)[0]: v", P("c"), P("a"), P("b"), false, true, 0, "label", "v"),
	eref("(a -> b)[*]: g", nil, P("a"), P("b"), false, true, -1, "label", "g"),
	eref("(a -> b)[0].style.stroke: red", nil, P("a"), P("b"), false, true, 0, "stroke", "red"),
	eref("(A -> B)[1]: u", nil, P("A"), P("B"), false, true, 1, "label", "u"),
	// symmetric connections written from both ends: (a <-> b) and (b <-> a) are numbered separately
	edge("b <-> a", nil, P("b"), P("a"), true, true, nil), edge("b -- a", nil, P("b"), P("a"), false, false, nil),
	eref("(b <-> a)[0]: t", nil, P("b"), P("a"), true, true, 0, "label", "t"),
	eref("(a <-> b)[1]: q", nil, P("a"), P("b"), true, true, 1, "label", "q"),
	// references written underscore-relative from inside a container
	edge("c.a -> b", nil, P("c", "a"), P("b"), false, true, nil),
	within(eref("c: {(a -> _.b)[0]: null}", nil, P("c", "a"), P("b"), false, true, 0, "null", ""), "c"),
	within(eref("c: {(a -> _.b)[0]: s}", nil, P("c", "a"), P("b"), false, true, 0, "label", "s"), "c"),
	within(eref("c: {(_.a -> _.b)[0]: null}", nil, P("a"), P("b"), false, true, 0, "null", ""), "c"),
	within(eref("c: {(_.a -> _.b)[1]: r}", nil, P("a"), P("b"), false, true, 1, "label", "r"), "c"),
}

func within(s rstmt, cont ...string) rstmt { s.Ensure = cont; return s }

var stmtIndex = map[string]rstmt{}

func init() {
	for _, s := range f10 {
		stmtIndex[s.Text] = s
	}
	for _, s := range f11 {
		stmtIndex[s.Text] = s
	}
}

// chainStmt `a -> b -> a` is expanded by the reference as two connections.
func refRun(lines []string) (*rnode, bool, string) {
	root := &rnode{}
	for i, l := range lines {
		if l == "a -> b -> a" {
			root.apply(i, edge(l, nil, P("a"), P("b"), false, true, nil))
			root.apply(i, edge(l, nil, P("b"), P("a"), false, true, nil))
			continue
		}
		if l == "c: {_.a -> _.b}" {
			root.ensure(P("c")) // the container is declared, the connection lives in its parent
		}
		s, ok := stmtIndex[l]
		if !ok {
			return nil, false, "harness: unknown statement " + l
		}
		switch root.apply(i, s) {
		case "error":
			return root, true, ""
		case "unsettled":
			return root, false, "unsettled"
		}
	}
	return root, false, ""
}

// refMech names, by a fixed decision list, the construct of the program that selects a mechanism with a recorded
// defect; "" when none is present.
func refMech(lines []string) string {
	sawIdxDelete := false
	globSeen := map[string]bool{}
	for _, l := range lines {
		if st := stmtIndex[l]; st.Kind == "eref" && st.Idx == -1 {
			if globSeen[l] {
				return "identical-glob-statement-repeated"
			}
			globSeen[l] = true
		}
	}
	for _, l := range lines {
		s := stmtIndex[l]
		if sawIdxDelete && (s.Kind == "edge" || l == "a -> b -> a") {
			return "connection-declared-after-an-indexed-connection-delete"
		}
		if s.Kind == "eref" && s.Op == "null" {
			sawIdxDelete = true
		}
	}
	return ""
}

func refOracle(prop string) eng.Oracle {
	return func(in string) eng.Res {
		lines := strings.Split(in, "\n")
		root, refErr, herr := refRun(lines)
		if herr == "unsettled" {
			return eng.OK("unsettled-by-the-statement", false)
		}
		if herr != "" {
			return eng.Bad("harness-error", herr)
		}
		g, _, err := Compile(in)
		mech := refMech(lines)
		suffix := ""
		if mech != "" {
			// one class for the whole mechanism: how the disagreement shows (extra connection, wrong label, …) depends on the rest of the program
			if res := refCompare(in, root, refErr, g, err, ""); res.Fail != nil {
				return eng.Bad(mech, res.Fail.Detail)
			} else {
				return res
			}
		}
		return refCompare(in, root, refErr, g, err, suffix)
	}
}

func refCompare(in string, root *rnode, refErr bool, g *d2graph.Graph, err error, suffix string) eng.Res {
	{
		if refErr {
			if err == nil {
				return eng.Bad("reference-to-missing-connection-index-accepted"+suffix, fmt.Sprintf("program %q compiles, but an indexed reference names a connection that does not exist", in))
			}
			return eng.OK("error-expected", true)
		}
		if err != nil {
			return eng.Bad("valid-program-rejected:"+msgKind(firstErr(err))+suffix, fmt.Sprintf("program %q: %v", in, err))
		}
		ro, re := root.project()
		go_, ge := projectGraph(g)
		if fmt.Sprint(ro) != fmt.Sprint(go_) {
			return eng.Bad("objects-differ-from-reference:"+objDiffKind(ro, go_)+suffix, fmt.Sprintf("program %q\nreference %v\ncompiled  %v", in, ro, go_))
		}
		if fmt.Sprint(re) != fmt.Sprint(ge) {
			return eng.Bad("connections-differ-from-reference:"+edgeDiffKind(re, ge)+suffix, fmt.Sprintf("program %q\nreference %v\ncompiled  %v", in, re, ge))
		}
		// C11: IDs of a board are distinct and indexes are consecutive per (src, dst, direction)
		seen := map[string]bool{}
		cnt := map[string][]int{}
		for _, e := range g.Edges {
			id := e.AbsID()
			if seen[id] {
				return eng.Bad("two-connections-share-an-ID"+suffix, fmt.Sprintf("program %q: %s", in, id))
			}
			seen[id] = true
			k := fmt.Sprint(strings.ToLower(e.Src.AbsID()), "|", strings.ToLower(e.Dst.AbsID()), e.SrcArrow, e.DstArrow)
			cnt[k] = append(cnt[k], e.Index)
		}
		for k, idxs := range cnt {
			for want, got := range idxs {
				if want != got {
					return eng.Bad("connection-indexes-not-consecutive-in-declaration-order"+suffix, fmt.Sprintf("program %q: %s has indexes %v", in, k, idxs))
				}
			}
		}
		return eng.OK(fmt.Sprint(ro, re), len(ro) > 0)
	}
}

func firstErr(err error) string {
	s := err.Error()
	if i := strings.Index(s, "\n"); i >= 0 {
		s = s[:i]
	}
	return s
}

func objDiffKind(a, b []projObj) string {
	if len(a) != len(b) {
		if len(a) > len(b) {
			return "object-missing"
		}
		return "extra-object"
	}
	for i := range a {
		switch {
		case a[i].ID != b[i].ID:
			return "id"
		case a[i].Label != b[i].Label:
			return "label"
		case a[i].Shape != b[i].Shape:
			return "shape"
		case a[i].Opacity != b[i].Opacity:
			return "opacity"
		}
	}
	return "?"
}

func edgeDiffKind(a, b []projEdge) string {
	if len(a) != len(b) {
		if len(a) > len(b) {
			return "connection-missing"
		}
		return "extra-connection"
	}
	for i := range a {
		switch {
		case a[i].Src != b[i].Src || a[i].Dst != b[i].Dst:
			return "endpoints"
		case a[i].SrcArrow != b[i].SrcArrow || a[i].DstArrow != b[i].DstArrow:
			return "direction"
		case a[i].Label != b[i].Label:
			return "label"
		case a[i].Stroke != b[i].Stroke:
			return "stroke"
		}
	}
	return "?"
}

func texts(ss []rstmt, extra ...string) []string {
	var out []string
	for _, s := range ss {
		out = append(out, s.Text)
	}
	return append(out, extra...)
}

func init() {
	eng.Register(&eng.Check{
		ID: "C10", Level: "model_checking",
		Rule: "every program of ≤3 (quick) / ≤4 (thorough) statements over the 26-statement core fragment F10 (nested keys, labels, shapes, opacity, connections with and without indexes, null on objects / attributes / connections, case variants, quoted key), then breadth-first search keyed by the reference model's state up to depth 5 (quick) / 7 (thorough): each new reference state is extended by every statement; every program is compiled by the real compiler and compared with the reference interpreter's objects (id, label, shape, opacity) and connections (endpoints, direction, label, stroke, order per class). states = distinct reference states, transitions = programs compiled",
		Assumptions: []string{"`a: x; a.label: null` (null on the label keyword) is outside the fragment: the statement does not settle whether a primary value counts as the label attribute", "object and connection order in the graph is not compared here (C09 checks order)"},
		Oracles: map[string]eng.Oracle{"ref": refOracle("C10")},
		Run: func(w *eng.W) { refRunSpace(w, texts(f10), w.Pick(3, 4), w.Pick(5, 6)) },
	})
	eng.Register(&eng.Check{
		ID: "C11", Level: "model_checking",
		Rule: "every program of ≤3 (quick) / ≤4 (thorough) statements over the 29-statement connection fragment F11 (all four arrow directions, reversed endpoints, symmetric connections written from both ends with indexed references, chains, nested and underscore-relative declarations, case variants, indexed label/style updates and deletions at indexes 0..2 and [*]), then reference-state-keyed BFS to depth 5 / 7; oracle: connections equal the indexed reference (per container, endpoints and direction: numbered 0.. in declaration order; an indexed statement changes exactly the connection it names; an index that names no live connection is a compile error), IDs of a board pairwise distinct, indexes consecutive",
		Oracles: map[string]eng.Oracle{"ref": refOracle("C11")},
		Run:     func(w *eng.W) { refRunSpace(w, texts(f11, "a -> b -> a"), w.Pick(3, 4), w.Pick(5, 6)) },
	})
}

// refRunSpace: exhaustive programs up to k, then BFS over reference states (dedup by the reference projection).
func refRunSpace(w *eng.W, alpha []string, k, depth int) {
	for n := 1; n <= k; n++ {
		n := n
		w.Phase(fmt.Sprintf("stmts<=%d", n), func() {
			Seqs(alpha, n, func(s []string) {
				if w.Shard == 0 {
					w.Transition()
				}
				w.Eval("ref", strings.Join(s, "\n"))
			})
		})
	}
	w.Phase(fmt.Sprintf("reference-state-bfs-depth<=%d", depth), func() {
		type st struct{ prog []string }
		seen := map[string]bool{}
		frontier := []st{{nil}}
		key := func(prog []string) (string, bool) {
			root, refErr, herr := refRun(prog)
			if refErr || herr != "" {
				return "", false
			}
			o, e := root.project()
			// edges' dead entries matter for future indexes only through live order, which project() keeps
			return fmt.Sprint(o, e), true
		}
		for d := 1; d <= depth; d++ {
			var next []st
			for _, s := range frontier {
				for _, a := range alpha {
					prog := append(append([]string{}, s.prog...), a)
					if d > k { // programs up to k were covered above
						if w.Shard == 0 {
							w.Transition()
						}
						w.Eval("ref", strings.Join(prog, "\n"))
					}
					kk, ok := key(prog)
					if !ok || seen[kk] {
						continue
					}
					seen[kk] = true
					if w.Shard == 0 {
						w.State()
					}
					next = append(next, st{prog})
				}
			}
			frontier = next
			if len(frontier) > 4000 {
				frontier = frontier[:4000] // bounded frontier; recorded
				if w.Shard == 0 {
					w.Count("bfs_frontier_truncated_at_depth", int64(d))
				}
			}
		}
		if w.Shard == 0 {
			w.Count("reference_states", int64(len(seen)))
		}
	})
}
