package checks

import (
	"fmt"
	"sort"
	"strings"

	"oss.terrastruct.com/d2/d2ast"
	"oss.terrastruct.com/d2/d2format"
	"oss.terrastruct.com/d2/d2graph"
	"oss.terrastruct.com/d2/d2oracle"
	"oss.terrastruct.com/d2/d2parser"
	"verif/h/eng"
	. "verif/h/u"
)

var c04Files = Files{"x.d2": "p: {q}\np -> r\n"}

// c04FilesAll: the fragment's x.d2 plus the files the full-language core statements import.
var c04FilesAll = Files{"x.d2": "p: {q}\np -> r\n", "y.d2": "...@x\nz: 1\n", "d/x.d2": "w: {icon: ./i.png}\n", "f.d2": "k\n...${v}\nm: {n}\n"}

// ---- C04 -----------------------------------------------------------------------------------------

var c04Stmts = []string{
	// ordinary content
	"x", "y", "x: lbl", "x -> y", "x.style.fill: red", "x: null", "(x -> y)[0]: e", "x: {y; z}", "x; y",
	// every form of a connection key: group without index + attribute key, with index, with a container prefix, chains
	"(x -> y).style.stroke: red", "(x <- y).label: hi", "(x -> y -> z).style.opacity: 0.4", "(x -> y)[0].style.stroke: blue", "w.(x -> y).style.stroke: red", "w.(x -> y)[0]: e", "(x -- y).source-arrowhead: 1",
	// reserved keywords in other letter cases, as keys and as unquoted values
	"x: Label", "x: Shape", "x.SHAPE: circle", "x.shape: Circle", "x.style.Opacity: 0.4", "x.STYLE.fill: red", "direction: RIGHT", "x: TRUE", "x: NULL", "x.Label: y",
	"x.near: Top-Left", "\"label\": q", "x.\"shape\": circle", "x.class: K", "Classes: {k: {style.fill: red}}", "classes: {K: {style.stroke: blue}}", "x.class: k",
	"x.link: Layers.l", "Layers: {l: {w}}", "x.Style.Fill: Red", "x -> y: {Source-Arrowhead: 1}", "x.Width: 100", "x.tooltip: Near",
	// boards before / between / after content that they read or delete
	"layers: {l: {w}}", "scenarios: {s: {x: changed}}", "scenarios: {s: {x: null}}", "scenarios: {s: {(x -> y)[0]: null}}", "steps: {1: {z}}", "steps: {1: {z}; 2: {x.style.fill: blue}}",
	"layers: {l: {w.link: _}}", "x.link: layers.l",
	// globs, vars, import
	"*: g", "*.style.opacity: 0.3", "**.shape: circle", "* -> *", "***.style.stroke: green", "vars: {v: 1}", "x: ${v}", "vars: {d2-config: {sketch: true}}", "...@x", "i: @x",
	// formatting-sensitive values
	"x: |md a|", "x: \"a\\nb\"", "x: 'a b'", "x: a \\\n b", "# c", "x.class: [a; b]", "x: \"\"", "x: ' sp '", "\"x y\".z", "x: a#b", "x: \"a#b\"", "x: a;b",
}

func c04Oracle(in string) eng.Res {
	g1, cfg1, err := CompileFS("index.d2", in, c04FilesAll)
	if err != nil || g1 == nil {
		return eng.OK("uncompilable", false)
	}
	m, perr := Parse(in) // format the parsed input text, not the AST held (and possibly rewritten) by the compiled graph
	if perr != nil {
		return eng.OK("uncompilable", false)
	}
	y := d2format.Format(m)
	g2, cfg2, err := CompileFS("index.d2", y, c04FilesAll)
	if err != nil {
		mech := c04Mech(in, m, "")
		if mech == "" {
			mech = fmtErrKind2(err) // no named mechanism: classify by the error
		}
		return eng.Bad("formatted-text-does-not-compile:"+mech, fmt.Sprintf("input %q\nformatted %q\nerror %v", in, y, err))
	}
	// order of objects/connections is not part of C04's statement (and depends on source positions, which formatting changes)
	unordered := CanonOpts{SortObjects: true, SortChildren: true}
	a, b := CanonWith(g1, cfg1, unordered), CanonWith(g2, cfg2, unordered)
	if a != b {
		paths := JSONDiffPaths(a, b)
		p := "?"
		if len(paths) > 0 {
			p = paths[0]
		}
		return eng.Bad("meaning-changed:"+c04Mech(in, m, p), fmt.Sprintf("input %q\nformatted %q\ndiffering fields %v\n%s", in, y, paths, FirstDiff(a, b)))
	}
	return eng.OK(fmt.Sprintf("o%d e%d b%d %s", len(g1.Objects), len(g1.Edges), len(g1.Layers)+len(g1.Scenarios)+len(g1.Steps), shapeOf(y)), len(g1.Objects) > 0)
}

func fmtErrKind2(err error) string {
	var pe *d2parser.ParseError
	if asParseError(err, &pe) && len(pe.Errors) > 0 {
		return msgKind(pe.Errors[0].Message)
	}
	return "other"
}

// c04Mech: decision list over constructs of the input (first match wins), falling back to the first differing field.
func c04Mech(in string, m *d2ast.Map, diffPath string) string {
	boardThenContent, kwCase, emptyBoard, emptyMap := false, false, false, false
	d2ast.Walk(m, func(n d2ast.Node) bool {
		switch x := n.(type) {
		case *d2ast.Map:
			seenBoard := false
			for _, nb := range x.Nodes {
				if nb.MapKey == nil {
					if seenBoard && (nb.Import != nil || nb.Substitution != nil) {
						boardThenContent = true
					}
					continue
				}
				isBoard := false
				if nb.MapKey.Key != nil && len(nb.MapKey.Key.Path) == 1 && len(nb.MapKey.Edges) == 0 {
					switch strings.ToLower(nb.MapKey.Key.Path[0].Unbox().ScalarString()) {
					case "layers", "scenarios", "steps":
						isBoard = true
						if nb.MapKey.Value.Map == nil || len(nb.MapKey.Value.Map.Nodes) == 0 {
							emptyBoard = true
						}
					}
				}
				if isBoard {
					seenBoard = true
				} else if seenBoard {
					boardThenContent = true
				}
			}
		case *d2ast.Key:
			if x.Value.Map != nil && len(x.Value.Map.Nodes) == 0 {
				emptyMap = true
			}
		case *d2ast.KeyPath:
			// only KEY segments: the compiler ignores a keyword key in another letter case while the formatter lower-cases
			// it (recorded finding); keyword-spelled VALUES are printed as written since the fix and get no mechanism
			for _, sb := range x.Path {
				if u, ok := sb.Unbox().(*d2ast.UnquotedString); ok {
					s := u.ScalarString()
					if _, ok := d2ast.ReservedKeywords[strings.ToLower(s)]; ok && s != strings.ToLower(s) {
						kwCase = true
					}
				}
			}
		}
		return true
	})
	switch {
	case emptyBoard:
		return "board-keyword-key-without-board-map"
	case boardThenContent:
		return "content-declared-after-board-block"
	case kwCase:
		return "reserved-keyword-key-in-other-letter-case"
	case strings.Contains(in, "\"\"\""):
		return "input-has-block-comment"
	case emptyMap:
		return "empty-map-value-dropped"
	}
	// generic: strip array markers
	return diffPath
}

// ---- C06 -----------------------------------------------------------------------------------------

func c06Oracle(in string) eng.Res {
	g, _, err := Compile(in)
	if err != nil || g == nil {
		return eng.OK("uncompilable", false)
	}
	var fail *eng.Res
	nobj := 0
	var visit func(b *d2graph.Graph, kind string)
	visit = func(b *d2graph.Graph, kind string) {
		if fail != nil {
			return
		}
		seen := map[string]*d2graph.Object{}
		for _, o := range b.Objects {
			nobj++
			k, err := d2parser.ParseKey(o.ID)
			if err != nil || k == nil {
				r := eng.Bad("object-ID-is-not-valid-key-syntax", fmt.Sprintf("ID %q (IDVal %q): %v", o.ID, o.IDVal, err))
				fail = &r
				return
			}
			if len(k.Path) != 1 || k.Path[0].Unbox().ScalarString() != o.IDVal {
				r := eng.Bad("object-ID-does-not-parse-back-to-its-name:"+changeKind(o.IDVal, strings.Join(k.StringIDA(), "\x1f")), fmt.Sprintf("ID %q parses to %q, IDVal %q", o.ID, k.StringIDA(), o.IDVal))
				fail = &r
				return
			}
			abs := o.AbsID()
			ka, err := d2parser.ParseKey(abs)
			if err != nil || ka == nil {
				r := eng.Bad("object-AbsID-is-not-valid-key-syntax", fmt.Sprintf("AbsID %q: %v", abs, err))
				fail = &r
				return
			}
			var chain []string
			for p := o; p != nil && p != b.Root; p = p.Parent {
				chain = append([]string{p.IDVal}, chain...)
			}
			if strings.Join(ka.StringIDA(), "\x1f") != strings.Join(chain, "\x1f") {
				r := eng.Bad("object-AbsID-does-not-parse-back-to-name-path", fmt.Sprintf("AbsID %q parses to %q, name path %q", abs, ka.StringIDA(), chain))
				fail = &r
				return
			}
			low := strings.ToLower(abs)
			if prev, dup := seen[low]; dup && prev != o {
				r := eng.Bad("two-objects-share-an-AbsID-ignoring-case", fmt.Sprintf("%q and %q", prev.AbsID(), abs))
				fail = &r
				return
			}
			seen[low] = o
		}
		eseen := map[string]int{}
		for _, e := range b.Edges {
			eseen[e.AbsID()]++
		}
		for _, e := range b.Edges {
			id := e.AbsID()
			if eseen[id] != 1 {
				r := eng.Bad("connection-ID-names-more-than-one-connection", fmt.Sprintf("%q names %d connections", id, eseen[id]))
				fail = &r
				return
			}
			if mk, err := d2parser.ParseMapKey(id); err != nil || mk == nil || len(mk.Edges) != 1 {
				r := eng.Bad("connection-ID-is-not-valid-key-syntax", fmt.Sprintf("%q: %v", id, err))
				fail = &r
				return
			}
		}
		for _, l := range b.Layers {
			visit(l, "layer")
		}
		for _, l := range b.Scenarios {
			visit(l, "scenario")
		}
		for _, l := range b.Steps {
			visit(l, "step")
		}
	}
	visit(g, "root")
	if fail != nil {
		return *fail
	}
	// connection IDs resolve through the public lookup to exactly that connection (root board)
	for _, e := range g.Edges {
		got := d2oracle.GetEdge(g, nil, e.AbsID())
		if got != e {
			return eng.Bad("connection-ID-lookup-returns-a-different-connection", fmt.Sprintf("GetEdge(%q) = %v", e.AbsID(), got != nil))
		}
	}
	for _, o := range g.Objects {
		if got := d2oracle.GetObj(g, nil, o.AbsID()); got != o {
			cls := "object-AbsID-lookup-returns-a-different-object"
			if _, ok := d2ast.ReservedKeywords[strings.ToLower(o.IDVal)]; ok {
				cls += ":name-spells-a-reserved-keyword"
			}
			return eng.Bad(cls, fmt.Sprintf("GetObj(%q) found=%v", o.AbsID(), got != nil))
		}
	}
	return eng.OK(fmt.Sprintf("o%d e%d", nobj, len(g.Edges)), nobj > 0)
}

// quoteRaw writes name as a raw double-quoted key (the generator's second spelling).
func quoteRaw(s string) string {
	r := strings.NewReplacer("\\", "\\\\", "\"", "\\\"", "\n", "\\n", "$", "\\$")
	return "\"" + r.Replace(s) + "\""
}

func genKey(s string) string {
	return d2format.Format(&d2ast.KeyPath{Path: []*d2ast.StringBox{d2ast.MakeValueBox(d2ast.RawString(s, true)).StringBox()}})
}

// ---- C09 -----------------------------------------------------------------------------------------

var c09Struct = []string{
	// a quoted underscore is an ordinary name, not the parent reference
	"a: {\"_\" -> x}", "a: {b: {'_' -> x; '_'.y}}", "\"_\".c",
	"a", "b", "a.b", "a: {b; c}", "a -> b", "a.b -> a.c", "a.b -> d", "a: {b -> _.d}", "c: {shape: class; +f: int; m(): void}", "t: {shape: sql_table; id: int {constraint: primary_key}; n: text}",
	"t.id -> u.id", "u: {shape: sql_table; id: int}", "s: {shape: sequence_diagram; x -> y; y -> x: r}", "s: {shape: sequence_diagram; x.sp -> y.sp; x.\"note\"}", "s.g: {x -> y}",
	"g: {grid-rows: 2; p; q; r}", "g.p -> g.q", "layers: {l: {x; x -> y}}", "scenarios: {s1: {a.z}}", "steps: {1: {n1}; 2: {n2 -> n1}}", "a: null", "a.b: null", "(a -> b)[0]: null",
	"*.style.opacity: 0.5", "** -> a", "A.B", "a: {near: top-left}", "a.near: b", "c.shape: class", "c.f: string", "t.shape: sql_table", "a: {_.x}", "a: {b: {_._.y}}", "x.y.z -> x.y.w", "q -> q",
	"w: {_.t.id: int}", "w: {_.c.f: string}", "w: {_.t.zz: text; k}", "w: {v: {_._.t.n: x}}", "w: {_.s.x -> _.s.y: late}", "w: {_.g.p: gp}",
	"c: {shape: class; f: {shape: circle}}", "t: {shape: sql_table; row: {x}}", "a: {shape: class}; a.k -> b", "a.class: k; classes: {k: {shape: class}}", "a.b.c: {d}",
}

func c09Oracle(in string) eng.Res {
	g, _, err := CompileFS("index.d2", in, c07Files)
	if err != nil || g == nil {
		return eng.OK("uncompilable", false)
	}
	var fail *eng.Res
	bad := func(class, detail string) {
		if fail == nil {
			r := eng.Bad(class, detail+"\ninput: "+fmt.Sprintf("%q", in))
			fail = &r
		}
	}
	nobj := 0
	var visit func(b *d2graph.Graph, kind string)
	visit = func(b *d2graph.Graph, kind string) {
		if b.Root == nil {
			bad("board-without-root", kind)
			return
		}
		seen := map[*d2graph.Object]bool{}
		inList := map[*d2graph.Object]bool{}
		for _, o := range b.Objects {
			nobj++
			if seen[o] {
				bad("object-listed-twice", o.AbsID())
			}
			seen[o] = true
			inList[o] = true
			if o.Graph != b {
				bad("object-belongs-to-another-board", o.AbsID())
			}
		}
		for _, o := range b.Objects {
			// parent chain reaches root without cycles
			steps := 0
			p := o
			for p != nil && p != b.Root && steps < 10000 {
				p = p.Parent
				steps++
			}
			if p != b.Root {
				bad("parent-chain-does-not-reach-root", o.AbsID())
				continue
			}
			par := o.Parent
			if par == nil {
				bad("object-without-parent", o.AbsID())
				continue
			}
			if par != b.Root && !inList[par] {
				bad("parent-not-listed-among-objects", o.AbsID())
			}
			cnt := 0
			for _, ch := range par.ChildrenArray {
				if ch == o {
					cnt++
				}
			}
			if cnt != 1 {
				bad(fmt.Sprintf("parent-lists-child-%d-times", cnt), o.AbsID())
			}
			if par.Children[strings.ToLower(o.ID)] != o {
				bad("parent-children-map-does-not-hold-child-under-lowercase-ID", fmt.Sprintf("%q under %q", o.ID, par.AbsID()))
			}
		}
		// children lists only hold listed objects
		var chk func(o *d2graph.Object)
		chk = func(o *d2graph.Object) {
			if len(o.Children) != len(o.ChildrenArray) {
				bad("children-map-and-array-differ-in-size", o.AbsID())
			}
			for _, ch := range o.ChildrenArray {
				if !inList[ch] {
					bad("child-not-listed-among-objects", ch.AbsID())
				}
				if ch.Parent != o {
					bad("child-parent-pointer-mismatch", ch.AbsID())
				}
				chk(ch)
			}
		}
		chk(b.Root)
		for _, o := range b.Objects {
			if o.Parent != nil && (o.Parent.Class != nil || o.Parent.SQLTable != nil) && o.Parent.Shape.Value != "" {
				sh := strings.ToLower(o.Parent.Shape.Value)
				if sh == "class" || sh == "sql_table" {
					bad("field-of-"+sh+"-listed-as-object", o.AbsID())
				}
			}
		}
		for _, e := range b.Edges {
			if e.Src == nil || e.Dst == nil {
				bad("connection-with-nil-endpoint", e.AbsID())
				continue
			}
			if e.Src.Graph != b || e.Dst.Graph != b || !inList[e.Src] || !inList[e.Dst] {
				bad("connection-endpoint-not-an-object-of-its-board", e.AbsID())
			}
		}
		for _, l := range b.Layers {
			visit(l, "layer")
		}
		for _, l := range b.Scenarios {
			visit(l, "scenario")
		}
		for _, l := range b.Steps {
			visit(l, "step")
		}
	}
	visit(g, "root")
	// order clause (root board; glob-free, import-free, substitution-free, null-free programs)
	if fail == nil && !strings.ContainsAny(in, "*@$") && !strings.Contains(in, "null") && !strings.Contains(in, "class") {
		firstPos := func(refs []d2graph.Reference) (int, bool) {
			best, ok := 0, false
			for _, r := range refs {
				if r.Key == nil || r.KeyPathIndex >= len(r.Key.Path) {
					continue
				}
				p := r.Key.Path[r.KeyPathIndex].Unbox().GetRange().Start.Byte
				if r.Key.Path[r.KeyPathIndex].Unbox().GetRange().Path != "index.d2" {
					return 0, false
				}
				if !ok || p < best {
					best, ok = p, true
				}
			}
			return best, ok
		}
		prev, prevID := -1, ""
		for _, o := range g.Objects {
			p, ok := firstPos(o.References)
			if !ok {
				continue
			}
			if p < prev {
				bad("objects-not-in-order-of-first-appearance", fmt.Sprintf("%q (first at byte %d) listed after %q (first at byte %d)", o.AbsID(), p, prevID, prev))
				break
			}
			prev, prevID = p, o.AbsID()
		}
		prev, prevID = -1, ""
		for _, e := range g.Edges {
			best, ok := 0, false
			for _, r := range e.References {
				if r.Edge == nil || r.Edge.Range.Path != "index.d2" {
					continue
				}
				if p := r.Edge.Range.Start.Byte; !ok || p < best {
					best, ok = p, true
				}
			}
			if !ok {
				continue
			}
			if best < prev {
				bad("connections-not-in-order-of-first-appearance", fmt.Sprintf("%q (first at byte %d) listed after %q (first at byte %d)", e.AbsID(), best, prevID, prev))
				break
			}
			prev, prevID = best, e.AbsID()
		}
	}
	if fail != nil {
		return *fail
	}
	return eng.OK(fmt.Sprintf("o%d e%d b%d", nobj, len(g.Edges), len(g.Layers)+len(g.Scenarios)+len(g.Steps)), nobj > 0)
}

func init() {
	eng.Register(&eng.Check{
		ID: "C04", Level: "exploration", Pre: WriteCorpusCache,
		Rule: "every sequence of ≤3 (quick) / ≤4 (thorough) statements over a 69-statement fragment built from the three mechanisms named in the property's anchors (reserved keywords in lower/UPPER/Mixed case as keys and as unquoted values; board blocks before/between/after declarations they read or delete; globs, vars, one import) plus formatting-sensitive values, every statement nested 2..12 maps deep, and the corpus; uncompilable programs are skipped (trivial); oracle: canonical projection (all boards, objects, attributes, connections, config) of Compile(x) equals that of Compile(Format(x))",
		Oracles: map[string]eng.Oracle{"fmt-meaning": c04Oracle},
		Run: func(w *eng.W) {
			lvl := func(k int) {
				w.Phase(fmt.Sprintf("stmts<=%d", k), func() {
					Seqs(c04Stmts, k, func(s []string) { w.Eval("fmt-meaning", strings.Join(s, "\n")) })
				})
			}
			for k := 1; k <= 3; k++ {
				lvl(k)
			}
			w.Phase("stmts-in-container", func() {
				Seqs(c04Stmts, 2, func(s []string) { w.Eval("fmt-meaning", "k: {\n"+strings.Join(s, "\n")+"\n}") })
			})
			w.Phase("stmts x depth<=12", func() {
				for _, st := range c04Stmts {
					for d := 2; d <= 12; d++ {
						w.Eval("fmt-meaning", strings.Repeat("k: {\n", d)+st+strings.Repeat("\n}", d))
					}
				}
			})
			w.Phase("corpus", func() {
				for _, src := range Corpus() {
					w.Eval("fmt-meaning", src)
				}
			})
			w.Phase("full-language-core-pairs", func() {
				Seqs(c07Core, 2, func(s []string) { w.Eval("fmt-meaning", strings.Join(s, "\n")) })
			})
			if w.Thorough() {
				lvl(4) // deepest level last: it may hit the internal deadline
			}
		},
	})

	eng.Register(&eng.Check{
		ID: "C06", Level: "exploration",
		Rule: "names = every string of ≤2 (quick) / ≤3 (thorough, 3 shapes) symbols over Σ_s (66 symbols: all key/value specials, whitespace kinds, keywords in several cases, non-ASCII and case-folding-special runes), written with the generator's quoting, as a raw double-quoted key and as bare unquoted text, placed in 8 program shapes (alone, nested under a, as container, as connection endpoint, inside a container's connection, referenced twice by connections, declared then connected, container then nested references); compilable programs only; oracle: ID / AbsID re-parse to the name path, AbsIDs distinct ignoring case, each connection ID names exactly one connection and resolves through d2oracle.GetEdge/GetObj",
		Oracles: map[string]eng.Oracle{"ids": c06Oracle},
		Run: func(w *eng.W) {
			shapes := []string{"%s", "a.%s", "%s.b", "%s -> b", "a: {%s -> b}", "b -> %s; b -> %s", "%s\n%s -> b", "%s: {c}\n%s.d\nx.%s -> x.%s.e"}
			kmax := w.Pick(2, 3)
			for k := 1; k <= kmax; k++ {
				k := k
				w.Phase(fmt.Sprintf("name-symbols<=%d", k), func() {
					Seqs(sigmaS, k, func(s []string) {
						name := Join(s)
						// third spelling: the symbols as they are (unquoted source text; whatever name the parser reads from it)
						for _, spelled := range []string{genKey(name), quoteRaw(name), name} {
							for si, sh := range shapes {
								if k == 3 && si >= 3 {
									continue
								}
								w.Eval("ids", strings.ReplaceAll(sh, "%s", spelled))
							}
						}
					})
				})
			}
			w.Phase("case-and-width-variants-side-by-side", func() {
				base := []string{"a", "A", "é", "É", "ß", "ẞ", "SS", "ss", "K", "k", "K", "ſ", "s", "S", "İ", "i", "i̇", "I", "ı", "ǆ", "ǅ", "Ǆ", "a b", "A B", "a.b", "\"a.b\"", "a\\.b"}
				Seqs(base, 2, func(s []string) {
					w.Eval("ids", genKey(s[0])+"\n"+genKey(s[1]))
					w.Eval("ids", "c."+genKey(s[0])+"\nc."+genKey(s[1]))
					w.Eval("ids", genKey(s[0])+" -> x\n"+genKey(s[1])+" -> x")
				})
			})
			w.Phase("core-programs", func() {
				Seqs(c07Core, 2, func(s []string) { w.Eval("ids", strings.Join(s, "\n")) })
			})
		},
	})

	eng.Register(&eng.Check{
		ID: "C09", Level: "exploration",
		Rule: "every sequence of ≤3 statements (both tiers) over the 43-statement structure fragment (quoted underscore names, class / sql_table with fields, sequence diagrams with actors, spans, notes and groups, grids, boards of each kind, underscores, connections across containers, nulls, globs) and over the 260-statement full-language core of C07 (≤2), compiled with an in-memory file set; compilable programs only; oracle: per board — objects listed once, parent chain reaches the root, parent lists the child exactly once in ChildrenArray and under lower-case ID in Children, class/sql_table fields are not objects, every connection joins two listed objects of its own board; order clause on the root board of glob-/import-/substitution-/null-/class-free programs: Objects and Edges sorted by byte offset of their first reference",
		Assumptions: []string{"the order clause is checked only where 'first appearance' is defined by the source text alone: root board, programs without globs, imports, substitutions, null deletions and classes"},
		Oracles: map[string]eng.Oracle{"tree": c09Oracle},
		Run: func(w *eng.W) {
			for k := 1; k <= 3; k++ {
				k := k
				w.Phase(fmt.Sprintf("structure-stmts<=%d", k), func() {
					Seqs(c09Struct, k, func(s []string) { w.Eval("tree", strings.Join(s, "\n")) })
				})
			}
			w.Phase("core-stmts<=2", func() {
				Seqs(c07Core, 2, func(s []string) { w.Eval("tree", strings.Join(s, "\n")) })
			})
			w.Phase("structure-x-core", func() {
				for _, a := range c09Struct {
					for _, b := range c07Core {
						w.Eval("tree", a+"\n"+b)
						w.Eval("tree", b+"\n"+a)
					}
				}
			})
		},
	})
	_ = sort.Strings
}
