// Package vinstr mechanically rewrites one Go source file of a d2 package so that every
// concurrency-relevant construct calls into vsched (engine E2 of DESIGN.md). It works on the
// type-checked AST of the *current* file (a user overlay replacement is honoured) and splices
// replacement text into the original source, so everything it does not touch stays byte-identical.
//
// Supported constructs (anything else that involves a channel, a goroutine or one of the replaced
// packages is a hard error — never a silent pass-through):
//
//	import "sync" / "time" / seam packages  -> replacement import path (ImportMap), local name kept
//	go f(x, y) / go func(){…}()             -> vsched.Go(site, …) with callee and arguments bound at the go statement
//	ch <- v, <-ch, v := <-ch, v, ok := <-ch -> vsched.Send / Recv / Recv2
//	close(ch), make(chan T[, n])            -> vsched.Close / vsched.MakeChan[T](n)
//	select { … } (send, recv, recv-assign/define with 1 or 2 values, default)
//	                                        -> switch c0, c1 := vsched.R(a), vsched.S(b, v); vsched.Select(hasDefault, c0, c1) { case 0: … }
//	for [v :=] range ch                     -> for { v, ok := vsched.Recv2(ch); if !ok { break }; … }
//	for [k[, v] :=] range m (m a map)       -> for _, k := range vsched.MapKeys(m) { v, ok := m[k]; if !ok { continue }; … }
//	x.Err() with x a context.Context        -> vsched.CtxErr(x) (scheduling point while the context is not yet cancelled)
//	import "context"                        -> vcontext: cancel functions are scheduling points
//	calls named in RenameCalls (seams)      -> renamed to a glue function of the same signature
//
// Rejected loudly: import "sync/atomic"; len/cap of a channel; channel-typed arguments passed to a
// function that is not declared in the rewritten file (the callee would operate on the real channel);
// runtime.Gosched/Goexit/LockOSThread/NumGoroutine; make of a named channel type; range with `=`
// over a channel or map; range over a map expression that is not a plain identifier/selector chain;
// a `go` statement on a builtin or conversion; any type-check error of the package.
package vinstr

import (
	"bytes"
	"encoding/json"
	"fmt"
	"go/ast"
	"go/format"
	"go/importer"
	"go/parser"
	"go/token"
	"go/types"
	"io"
	"os"
	"os/exec"
	"path/filepath"
	"sort"
	"strconv"
	"strings"
)

type Config struct {
	GoBin       string            // toolchain binary
	ModDir      string            // directory of the harness module (go list runs here)
	PkgPath     string            // import path of the package that contains File
	File        string            // absolute path of the file to rewrite (its overlay replacement is read if present)
	Overlay     map[string]string // user overlay: path -> replacement path ("" = deleted)
	OverlayFile string            // the same overlay as a file for `go list -overlay` ("" = none)
	ImportMap   map[string]string // import path -> replacement import path
	RenameCalls map[string]string // "f" (package-level function of the package) or "pkg.F" (imported, by import path's last element as written in the file) -> new identifier
	Tags        string
}

type Report struct {
	File     string         `json:"file"`
	Source   string         `json:"source"` // where the text came from (the overlay replacement, if any)
	Counts   map[string]int `json:"counts"`
	GoSites  []string       `json:"go_sites"`
	Warnings []string       `json:"warnings,omitempty"`
}

type listPkg struct {
	ImportPath string
	Export     string
	Dir        string
	GoFiles    []string
	ImportMap  map[string]string
	Error      *struct{ Err string }
}

const vs = "vsched__"

type rw struct {
	cfg       Config
	fset      *token.FileSet
	src       []byte
	file      *ast.File
	tf        *token.File
	info      *types.Info
	pkg       *types.Package
	rep       *Report
	errs      []string
	recv2     map[*ast.UnaryExpr]bool // receive expressions that are the sole RHS of a 2-value assignment
	inSel     map[ast.Node]bool
	goSite    map[*ast.GoStmt]string
	nsel      int
	renamed   map[string]int
	keepAlive []string // original selector expressions of renamed calls (keeps their imports used)
}

func (r *rw) errorf(n ast.Node, format string, a ...any) {
	p := r.fset.Position(n.Pos())
	r.errs = append(r.errs, fmt.Sprintf("%s:%d:%d: %s", filepath.Base(p.Filename), p.Line, p.Column, fmt.Sprintf(format, a...)))
}

func readMaybeOverlay(path string, ov map[string]string) ([]byte, string, error) {
	if rp, ok := ov[path]; ok {
		if rp == "" {
			return nil, "", fmt.Errorf("%s is deleted by the overlay", path)
		}
		b, err := os.ReadFile(rp)
		return b, rp, err
	}
	b, err := os.ReadFile(path)
	return b, path, err
}

// Rewrite returns the rewritten source of cfg.File.
func Rewrite(cfg Config) ([]byte, *Report, error) {
	args := []string{"list", "-e", "-export", "-deps", "-json=ImportPath,Export,Dir,GoFiles,ImportMap,Error"}
	if cfg.Tags != "" {
		args = append(args, "-tags", cfg.Tags)
	}
	if cfg.OverlayFile != "" {
		args = append(args, "-overlay", cfg.OverlayFile)
	}
	args = append(args, cfg.PkgPath)
	cmd := exec.Command(cfg.GoBin, args...)
	cmd.Dir = cfg.ModDir
	var stderr bytes.Buffer
	cmd.Stderr = &stderr
	out, err := cmd.Output()
	if err != nil {
		return nil, nil, fmt.Errorf("go list failed: %v\n%s", err, stderr.String())
	}
	exports := map[string]string{}
	var target *listPkg
	dec := json.NewDecoder(bytes.NewReader(out))
	for {
		var p listPkg
		if err := dec.Decode(&p); err == io.EOF {
			break
		} else if err != nil {
			return nil, nil, fmt.Errorf("go list output: %v", err)
		}
		if p.Export != "" {
			exports[p.ImportPath] = p.Export
		}
		if p.ImportPath == cfg.PkgPath {
			q := p
			target = &q
		}
	}
	if target == nil {
		return nil, nil, fmt.Errorf("package %s not found by go list", cfg.PkgPath)
	}
	fset := token.NewFileSet()
	var files []*ast.File
	var tfile *ast.File
	var tsrc []byte
	var tsource string
	names := append([]string(nil), target.GoFiles...)
	// files added by the overlay to this directory are already part of GoFiles (go list honours -overlay)
	for _, name := range names {
		path := name
		if !filepath.IsAbs(path) {
			path = filepath.Join(target.Dir, name)
		}
		b, from, err := readMaybeOverlay(path, cfg.Overlay)
		if err != nil {
			return nil, nil, err
		}
		f, err := parser.ParseFile(fset, path, b, parser.ParseComments|parser.SkipObjectResolution)
		if err != nil {
			return nil, nil, fmt.Errorf("parse %s (from %s): %v", path, from, err)
		}
		files = append(files, f)
		if path == cfg.File {
			tfile, tsrc, tsource = f, b, from
		}
	}
	if tfile == nil {
		return nil, nil, fmt.Errorf("%s is not among the Go files of %s (%v)", cfg.File, cfg.PkgPath, target.GoFiles)
	}
	lookup := func(path string) (io.ReadCloser, error) {
		if m, ok := target.ImportMap[path]; ok {
			path = m
		}
		e := exports[path]
		if e == "" {
			return nil, fmt.Errorf("no export data for %q", path)
		}
		return os.Open(e)
	}
	info := &types.Info{Types: map[ast.Expr]types.TypeAndValue{}, Uses: map[*ast.Ident]types.Object{}, Defs: map[*ast.Ident]types.Object{}, Selections: map[*ast.SelectorExpr]*types.Selection{}}
	var terrs []string
	conf := types.Config{Importer: importer.ForCompiler(fset, "gc", lookup), Error: func(err error) { terrs = append(terrs, err.Error()) }}
	pkg, _ := conf.Check(cfg.PkgPath, fset, files, info)
	if len(terrs) > 0 {
		if len(terrs) > 8 {
			terrs = terrs[:8]
		}
		return nil, nil, fmt.Errorf("type check of %s failed:\n  %s", cfg.PkgPath, strings.Join(terrs, "\n  "))
	}
	r := &rw{cfg: cfg, fset: fset, src: tsrc, file: tfile, tf: fset.File(tfile.Pos()), info: info, pkg: pkg,
		rep: &Report{File: cfg.File, Source: tsource, Counts: map[string]int{}}, recv2: map[*ast.UnaryExpr]bool{}, inSel: map[ast.Node]bool{},
		goSite: map[*ast.GoStmt]string{}, renamed: map[string]int{}}
	r.prepass()
	text := r.fileText()
	for k := range cfg.RenameCalls {
		if r.renamed[k] == 0 {
			r.errs = append(r.errs, fmt.Sprintf("seam %q (RenameCalls) does not occur in %s: the file changed in a way the harness does not understand", k, filepath.Base(cfg.File)))
		}
	}
	if len(r.errs) > 0 {
		sort.Strings(r.errs)
		return nil, nil, fmt.Errorf("vinstr: %s contains constructs the rewriter does not support:\n  %s", cfg.File, strings.Join(r.errs, "\n  "))
	}
	outb, err := format.Source([]byte(text))
	if err != nil {
		return nil, nil, fmt.Errorf("vinstr: rewritten %s does not parse: %v", cfg.File, err)
	}
	sort.Strings(r.rep.GoSites)
	return outb, r.rep, nil
}

func (r *rw) off(p token.Pos) int        { return r.tf.Offset(p) }
func (r *rw) orig(a, b token.Pos) string { return string(r.src[r.off(a):r.off(b)]) }

func (r *rw) isChan(e ast.Expr) bool {
	t := r.info.TypeOf(e)
	if t == nil {
		return false
	}
	_, ok := t.Underlying().(*types.Chan)
	return ok
}

func (r *rw) isMap(e ast.Expr) bool {
	t := r.info.TypeOf(e)
	if t == nil {
		return false
	}
	_, ok := t.Underlying().(*types.Map)
	return ok
}

func funcName(fd *ast.FuncDecl) string {
	if fd.Recv != nil && len(fd.Recv.List) > 0 {
		t := fd.Recv.List[0].Type
		for {
			switch x := t.(type) {
			case *ast.StarExpr:
				t = x.X
				continue
			case *ast.IndexExpr:
				t = x.X
				continue
			case *ast.IndexListExpr:
				t = x.X
				continue
			case *ast.ParenExpr:
				t = x.X
				continue
			}
			break
		}
		if id, ok := t.(*ast.Ident); ok {
			return id.Name + "." + fd.Name.Name
		}
	}
	return fd.Name.Name
}

// prepass numbers go statements per enclosing function (source order) and marks 2-value receives.
func (r *rw) prepass() {
	for _, d := range r.file.Decls {
		name := "init"
		if fd, ok := d.(*ast.FuncDecl); ok {
			name = funcName(fd)
		}
		k := 0
		ast.Inspect(d, func(n ast.Node) bool {
			switch x := n.(type) {
			case *ast.GoStmt:
				r.goSite[x] = fmt.Sprintf("%s#%d", name, k)
				k++
			case *ast.AssignStmt:
				if len(x.Lhs) == 2 && len(x.Rhs) == 1 {
					if u, ok := unparen(x.Rhs[0]).(*ast.UnaryExpr); ok && u.Op == token.ARROW {
						r.recv2[u] = true
					}
				}
			case *ast.ValueSpec:
				if len(x.Names) == 2 && len(x.Values) == 1 {
					if u, ok := unparen(x.Values[0]).(*ast.UnaryExpr); ok && u.Op == token.ARROW {
						r.recv2[u] = true
					}
				}
			}
			return true
		})
	}
}

func unparen(e ast.Expr) ast.Expr {
	for {
		p, ok := e.(*ast.ParenExpr)
		if !ok {
			return e
		}
		e = p.X
	}
}

func (r *rw) fileText() string {
	var b strings.Builder
	last := 0
	// imports and declarations in source order
	for _, d := range r.file.Decls {
		b.Write(r.src[last:r.off(d.Pos())])
		b.WriteString(r.text(d))
		last = r.off(d.End())
	}
	b.Write(r.src[last:])
	s := b.String()
	// add the vsched import right after the package clause (same line: keeps line numbers)
	pe := r.off(r.file.Name.End())
	head := string(r.src[:pe])
	if !strings.HasPrefix(s, head) {
		r.errs = append(r.errs, "internal: package clause moved")
		return s
	}
	return head + "; import " + vs + " \"verif/h/vsched\"" + s[pe:] + "\nvar _ = " + vs + ".Passthrough\n" + r.keepAliveDecls()
}

func children(n ast.Node) []ast.Node {
	var cs []ast.Node
	ast.Inspect(n, func(c ast.Node) bool {
		if c == n {
			return true
		}
		if c == nil {
			return true
		}
		switch c.(type) {
		case *ast.Comment, *ast.CommentGroup:
			return false
		}
		if c.Pos() >= n.Pos() && c.End() <= n.End() && c.Pos().IsValid() {
			cs = append(cs, c)
		}
		return false
	})
	sort.SliceStable(cs, func(i, j int) bool { return cs[i].Pos() < cs[j].Pos() })
	// drop overlapping duplicates (defensive)
	out := cs[:0]
	var end token.Pos
	for _, c := range cs {
		if c.Pos() < end {
			continue
		}
		out = append(out, c)
		end = c.End()
	}
	return out
}

// generic renders n's original text with the rewrites of its descendants applied.
func (r *rw) generic(n ast.Node) string {
	return r.span(n.Pos(), n.End(), children(n))
}

// span renders src[from:to) with the given (sorted, disjoint) nodes replaced by their rewritten text.
func (r *rw) span(from, to token.Pos, nodes []ast.Node) string {
	var b strings.Builder
	last := from
	for _, c := range nodes {
		if c.Pos() < last || c.End() > to {
			continue
		}
		b.WriteString(r.orig(last, c.Pos()))
		b.WriteString(r.text(c))
		last = c.End()
	}
	b.WriteString(r.orig(last, to))
	return b.String()
}

func (r *rw) count(k string) { r.rep.Counts[k]++ }

func (r *rw) text(n ast.Node) string {
	switch x := n.(type) {
	case *ast.ImportSpec:
		return r.importSpec(x)
	case *ast.GoStmt:
		return r.goStmt(x)
	case *ast.SendStmt:
		r.count("send")
		return fmt.Sprintf("%s.Send(%s, %s)", vs, r.text(x.Chan), r.text(x.Value))
	case *ast.UnaryExpr:
		if x.Op == token.ARROW {
			if r.recv2[x] {
				r.count("recv2")
				return fmt.Sprintf("%s.Recv2(%s)", vs, r.text(x.X))
			}
			r.count("recv")
			return fmt.Sprintf("%s.Recv(%s)", vs, r.text(x.X))
		}
	case *ast.CallExpr:
		return r.call(x)
	case *ast.SelectStmt:
		return r.selectStmt(x)
	case *ast.RangeStmt:
		if r.isChan(x.X) {
			return r.rangeChan(x)
		}
		if r.isMap(x.X) {
			return r.rangeMap(x)
		}
	case *ast.SelectorExpr:
		if id, ok := x.X.(*ast.Ident); ok {
			if pn, ok := r.info.Uses[id].(*types.PkgName); ok && pn.Imported().Path() == "runtime" {
				switch x.Sel.Name {
				case "Gosched", "Goexit", "LockOSThread", "UnlockOSThread", "NumGoroutine":
					r.errorf(x, "runtime.%s is not supported by the scheduler shim", x.Sel.Name)
				}
			}
		}
	}
	return r.generic(n)
}

func (r *rw) importSpec(x *ast.ImportSpec) string {
	path, _ := strconv.Unquote(x.Path.Value)
	if path == "sync/atomic" {
		r.errorf(x, "import \"sync/atomic\" is not supported (atomics are not scheduling points in vsched)")
	}
	np, ok := r.cfg.ImportMap[path]
	if !ok {
		return r.generic(x)
	}
	r.count("import:" + path)
	name := ""
	if x.Name != nil {
		name = x.Name.Name
		if name == "." {
			r.errorf(x, "dot-import of a replaced package")
		}
	} else {
		// keep the name the file uses: the declared package name of the original import
		for id, obj := range r.info.Uses {
			if pn, ok := obj.(*types.PkgName); ok && pn.Imported().Path() == path && id.Pos() >= r.file.Pos() && id.End() <= r.file.End() {
				name = pn.Name()
				break
			}
		}
		if name == "" {
			name = "_"
		}
	}
	return fmt.Sprintf("%s %q", name, np)
}

func (r *rw) calleeObj(c *ast.CallExpr) types.Object {
	switch f := unparen(c.Fun).(type) {
	case *ast.Ident:
		return r.info.Uses[f]
	case *ast.SelectorExpr:
		return r.info.Uses[f.Sel]
	case *ast.IndexExpr:
		if id, ok := f.X.(*ast.Ident); ok {
			return r.info.Uses[id]
		}
	}
	return nil
}

func (r *rw) inFile(p token.Pos) bool { return p >= r.file.Pos() && p <= r.file.End() }

func (r *rw) call(c *ast.CallExpr) string {
	obj := r.calleeObj(c)
	if b, ok := obj.(*types.Builtin); ok {
		switch b.Name() {
		case "close":
			r.count("close")
			return fmt.Sprintf("%s.Close(%s)", vs, r.text(c.Args[0]))
		case "make":
			if r.isChan(c) {
				ct, ok := c.Args[0].(*ast.ChanType)
				if !ok || ct.Dir != ast.SEND|ast.RECV {
					r.errorf(c, "make of a named or directional channel type is not supported")
					return r.generic(c)
				}
				n := "0"
				if len(c.Args) > 1 {
					n = r.text(c.Args[1])
				}
				r.count("make-chan")
				return fmt.Sprintf("%s.MakeChan[%s](%s)", vs, r.text(ct.Value), n)
			}
		case "len", "cap":
			if r.isChan(c.Args[0]) {
				r.errorf(c, "%s of a channel is not supported (the model owns the buffer)", b.Name())
			}
		}
		return r.generic(c)
	}
	// conversion?
	if tv, ok := r.info.Types[c.Fun]; ok && tv.IsType() {
		return r.generic(c)
	}
	// ctx.Err() on a context.Context: the answer depends on a concurrent cancel
	if sel, ok := unparen(c.Fun).(*ast.SelectorExpr); ok && sel.Sel.Name == "Err" && len(c.Args) == 0 {
		if t := r.info.TypeOf(sel.X); t != nil && types.TypeString(t, nil) == "context.Context" {
			r.count("ctx.Err")
			return fmt.Sprintf("%s.CtxErr(%s)", vs, r.text(sel.X))
		}
	}
	// seam renames
	key := ""
	switch f := unparen(c.Fun).(type) {
	case *ast.Ident:
		if fn, ok := obj.(*types.Func); ok && fn.Pkg() == r.pkg && fn.Parent() == r.pkg.Scope() {
			key = f.Name
		}
	case *ast.SelectorExpr:
		if id, ok := f.X.(*ast.Ident); ok {
			if pn, ok := r.info.Uses[id].(*types.PkgName); ok {
				key = pn.Imported().Path() + "." + f.Sel.Name
				if _, ok := r.cfg.RenameCalls[key]; !ok {
					key = pn.Imported().Name() + "." + f.Sel.Name
				}
			}
		}
	}
	if nn, ok := r.cfg.RenameCalls[key]; ok && key != "" {
		r.renamed[key]++
		r.count("seam:" + key)
		if _, isSel := unparen(c.Fun).(*ast.SelectorExpr); isSel {
			r.keepAlive = append(r.keepAlive, r.orig(c.Fun.Pos(), c.Fun.End()))
		}
		return nn + r.span(c.Fun.End(), c.End(), argNodes(c))
	}
	// channel arguments escaping to code that is not rewritten
	declaredHere := obj != nil && r.inFile(obj.Pos())
	if !declaredHere {
		for _, a := range c.Args {
			if r.isChan(a) {
				r.errorf(a, "channel passed to %s, which is not declared in the rewritten file (it would operate on the real channel)", r.orig(c.Fun.Pos(), c.Fun.End()))
			}
		}
	}
	return r.generic(c)
}

func argNodes(c *ast.CallExpr) []ast.Node {
	var ns []ast.Node
	for _, a := range c.Args {
		ns = append(ns, a)
	}
	return ns
}

func (r *rw) goStmt(g *ast.GoStmt) string {
	site := r.goSite[g]
	r.rep.GoSites = append(r.rep.GoSites, site)
	r.count("go")
	c := g.Call
	if obj := r.calleeObj(c); obj != nil {
		if _, ok := obj.(*types.Builtin); ok {
			r.errorf(g, "go statement on a builtin")
		}
	}
	if tv, ok := r.info.Types[c.Fun]; ok && tv.IsType() {
		r.errorf(g, "go statement on a conversion")
	}
	if fl, ok := unparen(c.Fun).(*ast.FuncLit); ok && len(c.Args) == 0 {
		return fmt.Sprintf("%s.Go(%q, %s)", vs, site, r.text(fl))
	}
	var b strings.Builder
	fmt.Fprintf(&b, "{ f__ := %s; ", r.text(c.Fun))
	var call []string
	for i, a := range c.Args {
		tv := r.info.Types[a]
		if tv.Value != nil || tv.IsNil() {
			call = append(call, r.text(a))
			continue
		}
		fmt.Fprintf(&b, "a%d__ := %s; ", i, r.text(a))
		call = append(call, fmt.Sprintf("a%d__", i))
	}
	ell := ""
	if c.Ellipsis.IsValid() {
		ell = "..."
	}
	fmt.Fprintf(&b, "%s.Go(%q, func() { f__(%s%s) }) }", vs, site, strings.Join(call, ", "), ell)
	return b.String()
}

func (r *rw) selectStmt(s *ast.SelectStmt) string {
	id := r.nsel
	r.nsel++
	r.count("select")
	type arm struct {
		cc      *ast.CommClause
		idx     int
		prelude string
	}
	var inits, names []string
	var arms []arm
	hasDefault := false
	k := 0
	for _, st := range s.Body.List {
		cc := st.(*ast.CommClause)
		a := arm{cc: cc, idx: -1}
		if cc.Comm == nil {
			hasDefault = true
			r.count("select-default")
			arms = append(arms, a)
			continue
		}
		name := fmt.Sprintf("c%d_%d__", id, k)
		a.idx = k
		k++
		switch cm := cc.Comm.(type) {
		case *ast.SendStmt:
			inits = append(inits, fmt.Sprintf("%s.S(%s, %s)", vs, r.text(cm.Chan), r.text(cm.Value)))
			r.count("select-send")
		case *ast.ExprStmt:
			u, ok := unparen(cm.X).(*ast.UnaryExpr)
			if !ok || u.Op != token.ARROW {
				r.errorf(cm, "unsupported select communication")
				continue
			}
			inits = append(inits, fmt.Sprintf("%s.R(%s)", vs, r.text(u.X)))
			r.count("select-recv")
		case *ast.AssignStmt:
			u, ok := unparen(cm.Rhs[0]).(*ast.UnaryExpr)
			if !ok || u.Op != token.ARROW || len(cm.Rhs) != 1 || len(cm.Lhs) > 2 {
				r.errorf(cm, "unsupported select communication")
				continue
			}
			inits = append(inits, fmt.Sprintf("%s.R(%s)", vs, r.text(u.X)))
			var lhs []string
			for _, l := range cm.Lhs {
				lhs = append(lhs, r.text(l))
			}
			got := "Got"
			if len(cm.Lhs) == 2 {
				got = "Got2"
			}
			a.prelude = fmt.Sprintf(" %s %s %s.%s();", strings.Join(lhs, ", "), cm.Tok, name, got)
			r.count("select-recv")
		default:
			r.errorf(cc.Comm, "unsupported select communication %T", cc.Comm)
			continue
		}
		names = append(names, name)
		arms = append(arms, a)
	}
	var b strings.Builder
	b.WriteString("switch ")
	if len(names) > 0 {
		fmt.Fprintf(&b, "%s := %s; ", strings.Join(names, ", "), strings.Join(inits, ", "))
	}
	fmt.Fprintf(&b, "%s.Select(%v", vs, hasDefault)
	for _, n := range names {
		b.WriteString(", " + n)
	}
	b.WriteString(") {")
	last := s.Body.Lbrace + 1
	for _, a := range arms {
		cc := a.cc
		b.WriteString(r.orig(last, cc.Pos()))
		if a.idx < 0 {
			b.WriteString("default:")
		} else {
			fmt.Fprintf(&b, "case %d:%s", a.idx, a.prelude)
		}
		var body []ast.Node
		for _, st := range cc.Body {
			body = append(body, st)
		}
		b.WriteString(r.span(cc.Colon+1, cc.End(), body))
		last = cc.End()
	}
	b.WriteString(r.orig(last, s.End()))
	return b.String()
}

func (r *rw) rangeChan(x *ast.RangeStmt) string {
	r.count("range-chan")
	if x.Tok == token.ASSIGN {
		r.errorf(x, "range over a channel with `=` is not supported")
	}
	if x.Value != nil {
		r.errorf(x, "range over a channel with two iteration variables")
	}
	v := "_"
	if x.Key != nil {
		v = r.text(x.Key)
	}
	id := r.nsel
	r.nsel++
	var body []ast.Node
	for _, st := range x.Body.List {
		body = append(body, st)
	}
	decl := ":="
	return fmt.Sprintf("for rc%d__ := %s; ; { %s, ok%d__ %s %s.Recv2(rc%d__); if !ok%d__ { break };%s",
		id, r.text(x.X), v, id, decl, vs, id, id, r.span(x.Body.Lbrace+1, x.Body.End(), body))
}

func simpleOperand(e ast.Expr) bool {
	switch x := e.(type) {
	case *ast.Ident:
		return true
	case *ast.SelectorExpr:
		return simpleOperand(x.X)
	case *ast.ParenExpr:
		return simpleOperand(x.X)
	case *ast.StarExpr:
		return simpleOperand(x.X)
	}
	return false
}

func (r *rw) rangeMap(x *ast.RangeStmt) string {
	r.count("range-map")
	if x.Tok == token.ASSIGN {
		r.errorf(x, "range over a map with `=` is not supported")
	}
	if !simpleOperand(x.X) {
		r.errorf(x.X, "range over a map expression that is not a plain identifier/selector chain")
	}
	id := r.nsel
	r.nsel++
	m := r.text(x.X)
	k := fmt.Sprintf("k%d__", id)
	if id, ok := x.Key.(*ast.Ident); ok && id.Name != "_" {
		k = id.Name
	} else if x.Key != nil && !ok {
		r.errorf(x.Key, "unsupported range key expression")
	}
	v := "_"
	if x.Value != nil {
		if id, ok := x.Value.(*ast.Ident); ok {
			v = id.Name
		} else {
			r.errorf(x.Value, "unsupported range value expression")
		}
	}
	var body []ast.Node
	for _, st := range x.Body.List {
		body = append(body, st)
	}
	pre := fmt.Sprintf("%s, ok%d__ := %s[%s]; if !ok%d__ { continue };", v, id, m, k, id)
	if v == "_" {
		pre = fmt.Sprintf("if _, ok%d__ := %s[%s]; !ok%d__ { continue };", id, m, k, id)
	}
	return fmt.Sprintf("for _, %s := range %s.MapKeys(%s) { %s%s", k, vs, m, pre, r.span(x.Body.Lbrace+1, x.Body.End(), body))
}

func (r *rw) keepAliveDecls() string {
	var b strings.Builder
	for _, k := range r.keepAlive {
		b.WriteString("var _ = " + k + "\n")
	}
	return b.String()
}
