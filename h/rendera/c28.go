package rendera

import (
	"encoding/json"
	"fmt"
	"sort"
	"strconv"
	"strings"
	"time"

	"oss.terrastruct.com/d2/d2graph"
	"oss.terrastruct.com/d2/d2renderers/d2svg"
	"oss.terrastruct.com/d2/d2target"
	"verif/h/eng"
	"verif/h/u"
)

// ---- the generated style fragment ---------------------------------------------------------------------------

type c28Target struct {
	name string // label for phases
	base string // diagram text
	ref  string // how statements address the styled thing, e.g. "a" or "(a -> b)[0]"
	conn bool
	kws  []string // legal style keywords for it
}

var c28ShapeKws = []string{"opacity", "stroke", "fill", "fill-pattern", "stroke-width", "stroke-dash", "border-radius", "shadow", "multiple", "double-border", "3d", "font", "font-size", "font-color", "bold", "italic", "underline", "text-transform", "animated"}
var c28ConnKws = []string{"opacity", "stroke", "fill", "stroke-width", "stroke-dash", "border-radius", "font", "font-size", "font-color", "bold", "italic", "underline", "text-transform", "animated"}

func without(l []string, drop ...string) []string {
	var o []string
	for _, x := range l {
		keep := true
		for _, d := range drop {
			if x == d {
				keep = false
			}
		}
		if keep {
			o = append(o, x)
		}
	}
	return o
}

var c28Targets = []c28Target{
	{name: "leaf", base: "a: Leaf label\n", ref: "a", kws: c28ShapeKws},
	{name: "container", base: "a: Outer label {\n  k: Kid\n}\n", ref: "a", kws: without(c28ShapeKws, "3d")},
	{name: "nested-leaf", base: "c: {\n  a: Inner label\n}\n", ref: "c.a", kws: c28ShapeKws},
	{name: "connection", base: "a -> b: Conn label\n", ref: "(a -> b)[0]", conn: true, kws: c28ConnKws},
	{name: "nested-connection", base: "c: {\n  a -> b: Conn label\n}\n", ref: "c.(a -> b)[0]", conn: true, kws: c28ConnKws},
	{name: "class", base: "a: {\n  shape: class\n  +f: int\n  m(): void\n}\n", ref: "a", kws: without(c28ShapeKws, "3d", "double-border", "text-transform")},
	{name: "sql_table", base: "a: {\n  shape: sql_table\n  id: int {constraint: primary_key}\n}\n", ref: "a", kws: without(c28ShapeKws, "3d", "double-border", "text-transform")},
	{name: "markdown-text", base: "a: |md\n  # Heading\n  body\n|\n", ref: "a", kws: without(c28ShapeKws, "3d", "double-border", "text-transform")},
	{name: "code", base: "a: |go\n  x := 1\n|\n", ref: "a", kws: without(c28ShapeKws, "3d", "double-border", "text-transform")},
	{name: "person", base: "a: Someone {shape: person}\n", ref: "a", kws: without(c28ShapeKws, "3d", "double-border")},
	{name: "oval", base: "a: Round {shape: oval}\n", ref: "a", kws: without(c28ShapeKws, "3d")},
	{name: "hexagon", base: "a: Hex {shape: hexagon}\n", ref: "a", kws: without(c28ShapeKws, "double-border")},
	{name: "sequence-actor", base: "s: {\n  shape: sequence_diagram\n  a: Actor\n  b\n  a -> b: msg\n}\n", ref: "s.a", kws: without(c28ShapeKws, "3d", "double-border")},
	{name: "sequence-message", base: "s: {\n  shape: sequence_diagram\n  a\n  b\n  a -> b: msg\n}\n", ref: "s.(a -> b)[0]", conn: true, kws: c28ConnKws},
}

// one legal value per keyword that differs from every theme's default for it
func c28Value(kw string, variant int) string {
	v := map[string][2]string{
		"opacity": {"0.4", "0.85"}, "stroke": {`"#123456"`, "crimson"}, "fill": {`"#abcdef"`, "honeydew"}, "fill-pattern": {"lines", "none"},
		"stroke-width": {"7", "0"}, "stroke-dash": {"4", "0"}, "border-radius": {"9", "0"}, "shadow": {"true", "false"}, "multiple": {"true", "false"},
		"double-border": {"true", "false"}, "3d": {"true", "false"}, "font": {"mono", "mono"}, "font-size": {"33", "9"}, "font-color": {`"#00aa11"`, "navy"},
		"bold": {"false", "true"}, "italic": {"true", "false"}, "underline": {"true", "false"}, "text-transform": {"lowercase", "none"}, "animated": {"true", "false"},
	}[kw]
	return v[variant]
}

type c28In struct {
	Src   string `json:"src"`
	Theme int64  `json:"theme"`
}

func (i c28In) String() string { b, _ := json.Marshal(i); return string(b) }

// ---- the oracle ---------------------------------------------------------------------------------------------

type styleCmp struct {
	kw   string
	want *d2graph.Scalar
	got  string // exported value rendered canonically
	conv func(string) (string, bool)
}

func cvFloat(s string) (string, bool) {
	f, err := strconv.ParseFloat(s, 64)
	return strconv.FormatFloat(f, 'g', -1, 64), err == nil
}
func cvInt(s string) (string, bool) { i, err := strconv.Atoi(s); return strconv.Itoa(i), err == nil }
func cvBool(s string) (string, bool) {
	b, err := strconv.ParseBool(s)
	return strconv.FormatBool(b), err == nil
}
func cvStr(s string) (string, bool) { return s, true }
func fl(f float64) string            { return strconv.FormatFloat(f, 'g', -1, 64) }

func shapeCmps(st d2graph.Style, s d2target.Shape) []styleCmp {
	return []styleCmp{
		{"opacity", st.Opacity, fl(s.Opacity), cvFloat},
		{"stroke", st.Stroke, s.Stroke, cvStr},
		{"fill", st.Fill, s.Fill, cvStr},
		{"fill-pattern", st.FillPattern, s.FillPattern, cvStr},
		{"stroke-width", st.StrokeWidth, strconv.Itoa(s.StrokeWidth), cvInt},
		{"stroke-dash", st.StrokeDash, fl(s.StrokeDash), cvFloat},
		{"border-radius", st.BorderRadius, strconv.Itoa(s.BorderRadius), cvInt},
		{"shadow", st.Shadow, strconv.FormatBool(s.Shadow), cvBool},
		{"3d", st.ThreeDee, strconv.FormatBool(s.ThreeDee), cvBool},
		{"multiple", st.Multiple, strconv.FormatBool(s.Multiple), cvBool},
		{"double-border", st.DoubleBorder, strconv.FormatBool(s.DoubleBorder), cvBool},
		{"font", st.Font, s.FontFamily, cvStr},
		{"font-size", st.FontSize, strconv.Itoa(s.FontSize), cvInt},
		{"font-color", st.FontColor, s.Color, cvStr},
		{"bold", st.Bold, strconv.FormatBool(s.Bold), cvBool},
		{"italic", st.Italic, strconv.FormatBool(s.Italic), cvBool},
		{"underline", st.Underline, strconv.FormatBool(s.Underline), cvBool},
		{"animated", st.Animated, strconv.FormatBool(s.Animated), cvBool},
	}
}

func connCmps(st d2graph.Style, c d2target.Connection) []styleCmp {
	return []styleCmp{
		{"opacity", st.Opacity, fl(c.Opacity), cvFloat},
		{"stroke", st.Stroke, c.Stroke, cvStr},
		{"fill", st.Fill, c.Fill, cvStr},
		{"stroke-width", st.StrokeWidth, strconv.Itoa(c.StrokeWidth), cvInt},
		{"stroke-dash", st.StrokeDash, fl(c.StrokeDash), cvFloat},
		{"border-radius", st.BorderRadius, fl(c.BorderRadius), cvFloat},
		{"font", st.Font, c.FontFamily, cvStr},
		{"font-size", st.FontSize, strconv.Itoa(c.FontSize), cvInt},
		{"font-color", st.FontColor, c.Color, cvStr},
		{"bold", st.Bold, strconv.FormatBool(c.Bold), cvBool},
		{"italic", st.Italic, strconv.FormatBool(c.Italic), cvBool},
		{"underline", st.Underline, strconv.FormatBool(c.Underline), cvBool},
		{"animated", st.Animated, strconv.FormatBool(c.Animated), cvBool},
	}
}

func firstStyleDiff(cs []styleCmp) (kw, detail string, nset int) {
	for _, c := range cs {
		if c.want == nil {
			continue
		}
		nset++
		w, ok := c.conv(c.want.Value)
		if !ok {
			continue // a value d2 accepted but the conversion table cannot read: not decidable here
		}
		if w != c.got && kw == "" {
			kw, detail = c.kw, fmt.Sprintf("user set %s: %s, export has %s", c.kw, c.want.Value, c.got)
		}
	}
	return
}

// expectedLabel is what a user-set text-transform must do to the label (capitalize is left out: its exact
// title-casing is library-defined).
func expectedLabel(orig string, tt *d2graph.Scalar) (string, bool) {
	if tt == nil {
		return "", false
	}
	switch tt.Value {
	case "uppercase":
		return strings.ToUpper(orig), true
	case "lowercase":
		return strings.ToLower(orig), true
	case "none":
		return orig, true
	}
	return "", false
}

type c28Stats struct {
	objs, conns, styles int
}

func c28Board(path string, pre *d2graph.Graph, post *d2graph.Graph, d *d2target.Diagram, themeName string, st *c28Stats) *eng.Res {
	bad := func(class, detail string) *eng.Res {
		r := eng.Bad(class, "board "+path+": "+detail)
		return &r
	}
	// one shape per object (post-layout graph = what Export was given; pre-layout graph = what the user wrote)
	shapeByID := map[string][]int{}
	for i, s := range d.Shapes {
		shapeByID[s.ID] = append(shapeByID[s.ID], i)
	}
	for _, g := range []struct {
		name string
		g    *d2graph.Graph
	}{{"laid-out", post}, {"compiled", pre}} {
		if len(g.g.Objects) != len(d.Shapes) {
			return bad("shape-count-differs-from-object-count:"+g.name+"-graph", fmt.Sprintf("%d objects, %d shapes", len(g.g.Objects), len(d.Shapes)))
		}
		seen := map[string]bool{}
		for _, o := range g.g.Objects {
			id := o.AbsID()
			if seen[id] {
				continue // two objects with one AbsID cannot be told apart by ID; the count check above still applies
			}
			seen[id] = true
			n := 0
			for _, o2 := range g.g.Objects {
				if o2.AbsID() == id {
					n++
				}
			}
			if len(shapeByID[id]) != n {
				return bad("object-without-exactly-one-shape:"+g.name+"-graph", fmt.Sprintf("object %q ×%d has %d shapes", id, n, len(shapeByID[id])))
			}
		}
	}
	connByID := map[string][]int{}
	for i, c := range d.Connections {
		connByID[c.ID] = append(connByID[c.ID], i)
	}
	if len(post.Edges) != len(d.Connections) {
		return bad("connection-count-differs-from-edge-count:laid-out-graph", fmt.Sprintf("%d edges, %d connections", len(post.Edges), len(d.Connections)))
	}
	for i, e := range post.Edges {
		c := d.Connections[i]
		if c.ID != e.AbsID() || c.Src != e.Src.AbsID() || c.Dst != e.Dst.AbsID() {
			return bad("connection-endpoints-differ-from-edge", fmt.Sprintf("edge %s (%s → %s) exported as %s (%s → %s)", e.AbsID(), e.Src.AbsID(), e.Dst.AbsID(), c.ID, c.Src, c.Dst))
		}
	}
	preEdge := map[string]int{}
	for _, e := range pre.Edges {
		preEdge[e.AbsID()]++
	}
	for id, n := range preEdge {
		if len(connByID[id]) != n {
			return bad("edge-without-exactly-one-connection:compiled-graph", fmt.Sprintf("edge %q ×%d has %d connections", id, n, len(connByID[id])))
		}
	}
	for id, idx := range connByID {
		if preEdge[id] == 0 && !strings.Contains(d.Connections[idx[0]].Dst, "-lifeline-end-") {
			return bad("connection-without-source-edge", fmt.Sprintf("connection %q has no edge in the compiled graph", id))
		}
	}
	st.objs += len(d.Shapes)
	st.conns += len(d.Connections)

	// user styles (as compiled, before theme and layout) appear unchanged
	for _, o := range pre.Objects {
		idx := shapeByID[o.AbsID()]
		if len(idx) != 1 {
			continue
		}
		s := d.Shapes[idx[0]]
		kw, detail, n := firstStyleDiff(shapeCmps(o.Style, s))
		st.styles += n
		if kw != "" {
			return bad("user-style-not-exported-unchanged:shape:"+kw, fmt.Sprintf("object %q (shape %s) under theme %s: %s", o.AbsID(), o.Shape.Value, themeName, detail))
		}
		if o.Language == "" && o.Shape.Value != d2target.ShapeCode {
			if want, ok := expectedLabel(o.Label.Value, o.Style.TextTransform); ok {
				st.styles++
				if s.Label != want {
					return bad("user-style-not-exported-unchanged:shape:text-transform", fmt.Sprintf("object %q under theme %s: text-transform %s on label %q exported as %q", o.AbsID(), themeName, o.Style.TextTransform.Value, o.Label.Value, s.Label))
				}
			}
		}
	}
	for _, e := range pre.Edges {
		idx := connByID[e.AbsID()]
		if len(idx) != 1 {
			continue
		}
		c := d.Connections[idx[0]]
		kw, detail, n := firstStyleDiff(connCmps(e.Style, c))
		st.styles += n
		if kw != "" {
			return bad("user-style-not-exported-unchanged:connection:"+kw, fmt.Sprintf("edge %q under theme %s: %s", e.AbsID(), themeName, detail))
		}
		if e.Language == "" {
			if want, ok := expectedLabel(e.Label.Value, e.Style.TextTransform); ok {
				st.styles++
				if c.Label != want {
					return bad("user-style-not-exported-unchanged:connection:text-transform", fmt.Sprintf("edge %q under theme %s: text-transform %s on label %q exported as %q", e.AbsID(), themeName, e.Style.TextTransform.Value, e.Label.Value, c.Label))
				}
			}
		}
	}
	// nested boards
	for _, k := range []struct {
		kind string
		a, b []*d2graph.Graph
		c    []*d2target.Diagram
	}{{"layers", pre.Layers, post.Layers, d.Layers}, {"scenarios", pre.Scenarios, post.Scenarios, d.Scenarios}, {"steps", pre.Steps, post.Steps, d.Steps}} {
		if len(k.a) != len(k.c) || len(k.b) != len(k.c) {
			return bad("board-count-differs:"+k.kind, fmt.Sprintf("%d compiled, %d laid out, %d exported", len(k.a), len(k.b), len(k.c)))
		}
		for i := range k.c {
			if r := c28Board(path+"."+k.kind+"."+k.c[i].Name, k.a[i], k.b[i], k.c[i], themeName, st); r != nil {
				return r
			}
		}
	}
	return nil
}

func c28Oracle(in string) eng.Res {
	var a c28In
	if err := json.Unmarshal([]byte(in), &a); err != nil {
		panic("harness: " + err.Error())
	}
	th, ok := catalogTheme(a.Theme)
	if !ok {
		panic("harness: theme")
	}
	pre, _, err := u.Compile(a.Src)
	if err != nil {
		return eng.OK("not-compilable", false)
	}
	d, post, _, err := layout(a.Src, &d2svg.RenderOpts{ThemeID: ptr(a.Theme)})
	if err != nil {
		return eng.OK("layout-error:"+stripNums(err.Error()), false)
	}
	var st c28Stats
	if r := c28Board("root", pre, post, d, th.Name, &st); r != nil {
		return *r
	}
	// outcome: the exported style-relevant fields (distinct exports ⇒ distinct outcomes)
	var sb strings.Builder
	for _, s := range d.Shapes {
		fmt.Fprintf(&sb, "%s|%s|%s|%s|%v|%v|%d|%v|%v|%v|%v|%v|%s|%d|%s|%v|%v|%v|%s|%d;", s.ID, s.Fill, s.Stroke, s.FillPattern, s.Opacity, s.StrokeDash, s.StrokeWidth, s.Shadow, s.ThreeDee, s.Multiple, s.DoubleBorder, s.BorderRadius, s.FontFamily, s.FontSize, s.Color, s.Bold, s.Italic, s.Underline, s.Label, len(s.Label))
	}
	for _, c := range d.Connections {
		fmt.Fprintf(&sb, "%s|%s|%s|%v|%v|%d|%v|%s|%d|%s|%v|%v|%v|%v|%s;", c.ID, c.Fill, c.Stroke, c.Opacity, c.StrokeDash, c.StrokeWidth, c.BorderRadius, c.FontFamily, c.FontSize, c.Color, c.Bold, c.Italic, c.Underline, c.Animated, c.Label)
	}
	return eng.OK(sb.String(), st.objs > 0 && st.styles > 0)
}

// ---- enumeration --------------------------------------------------------------------------------------------

func c28Stmt(t c28Target, kw string, variant int) string {
	return fmt.Sprintf("%s.style.%s: %s\n", t.ref, kw, c28Value(kw, variant))
}

var c28SpecialThemes = []int64{0, 200, 300, 301, 302, 303} // default, a dark one, and the four with special rules

func c28CorpusInputs(maxLen int) []string {
	var out []string
	for _, s := range u.Corpus() {
		if len(s) > maxLen || !strings.ContainsAny(s, "\n:>") {
			continue
		}
		if strings.Contains(s, "layout-engine") || strings.Contains(s, "elk") || strings.Contains(s, "tala") {
			continue
		}
		g, _, err := u.Compile(s)
		if err != nil || len(g.Objects) == 0 {
			continue
		}
		out = append(out, s)
	}
	sort.Strings(out)
	return out
}

func init() {
	eng.Register(&eng.Check{
		ID: "C28", Level: "exploration", Pre: u.WriteCorpusCache,
		Rule: "diagrams = one of 14 base diagrams (leaf, container, nested leaf, connection, nested connection, class, sql_table, markdown, code, person, oval, hexagon, sequence actor, sequence message) plus ≤ 2 style statements `<target>.style.<keyword>: <legal non-default value>` over every style keyword legal for the target, plus the compilable corpus texts; each is compiled, laid out (dagre) and exported by d2lib.Compile under every theme of the phase; the export is compared with the compiled graph (bijection by AbsID, endpoints, every user-set style field); non-trivial = at least one object and one user-set style compared; distinct (diagram, theme) pairs by construction",
		Assumptions: []string{
			"user-set styles are read from the d2compiler output (Style fields of objects/edges) of the same source; values are converted with the table opacity/stroke-dash→float, stroke-width/border-radius/font-size→int, booleans→bool, others verbatim",
			"text-transform is checked on plain labels only (uppercase/lowercase/none; `capitalize` is excluded: its title-casing is library-defined); `filled` (arrowheads only) is not checked",
			"connections that exist only in the export are accepted when they are sequence-diagram lifelines (destination id contains -lifeline-end-)",
			"objects sharing one AbsID are compared by count only",
			"the quantifier's `random style attributes` is replaced by the exhaustive ≤2-statement fragment; 3-statement interactions are not covered except by the all-keywords diagram per target",
		},
		QuickBudget: 170 * time.Second, ThoroughBudget: 25 * time.Minute,
		Oracles: map[string]eng.Oracle{"export": c28Oracle},
		Run: func(w *eng.W) {
			all := allThemeIDs()
			for _, t := range c28Targets {
				t := t
				w.Phase("<=1 statement on "+t.name+" x every theme", func() {
					for _, th := range all {
						w.Eval("export", c28In{Src: t.base, Theme: th}.String())
					}
					for _, kw := range t.kws {
						for v := 0; v < 2; v++ {
							ths := all
							if !w.Thorough() {
								ths = c28SpecialThemes // quick: single statements under default, one dark and the four special-rule themes
								if v == 1 {
									ths = []int64{0, 303} // and the second value under default and c4 only
								}
							}
							for _, th := range ths {
								w.Eval("export", c28In{Src: t.base + c28Stmt(t, kw, v), Theme: th}.String())
							}
						}
					}
				})
			}
			w.Phase("all keywords on one target x every theme", func() {
				for _, t := range c28Targets {
					for v := 0; v < 2; v++ {
						src := t.base
						for _, kw := range t.kws {
							src += c28Stmt(t, kw, v)
						}
						for _, th := range all {
							w.Eval("export", c28In{Src: src, Theme: th}.String())
						}
					}
				}
			})
			for _, t := range c28Targets {
				t := t
				ths := []int64{303} // c4: the theme whose rules depend on which styles the user left unset
				if w.Thorough() {
					ths = c28SpecialThemes
				}
				w.Phase("2 statements on "+t.name+" x special themes", func() {
					for i, k1 := range t.kws {
						for _, k2 := range t.kws[i+1:] {
							for v := 0; v < w.Pick(1, 2); v++ {
								for _, th := range ths {
									w.Eval("export", c28In{Src: t.base + c28Stmt(t, k1, v) + c28Stmt(t, k2, v), Theme: th}.String())
								}
							}
						}
					}
				})
			}
			w.Phase("corpus x special themes", func() {
				ths := []int64{303}
				if w.Thorough() {
					ths = c28SpecialThemes
				}
				for _, s := range c28CorpusInputs(w.Pick(80, 1500)) {
					for _, th := range ths {
						w.Eval("export", c28In{Src: s, Theme: th}.String())
					}
				}
			})
		},
	})
}
