package rendera

import (
	"encoding/base64"
	"encoding/json"
	"encoding/xml"
	"fmt"
	"html"
	"math"
	"regexp"
	"strconv"
	"strings"
	"time"

	"oss.terrastruct.com/d2/d2ast"
	"oss.terrastruct.com/d2/d2renderers/d2svg"
	"oss.terrastruct.com/d2/d2target"
	"verif/h/eng"
)

// ---- geometry of what the SVG actually draws ----------------------------------------------------------------

type ext struct{ x1, y1, x2, y2 float64 }

func (e *ext) add(x, y float64) {
	e.x1, e.y1, e.x2, e.y2 = math.Min(e.x1, x), math.Min(e.y1, y), math.Max(e.x2, x), math.Max(e.y2, y)
}
func emptyExt() ext { return ext{math.Inf(1), math.Inf(1), math.Inf(-1), math.Inf(-1)} }
func (e ext) shift(dx, dy float64) ext {
	return ext{e.x1 + dx, e.y1 + dy, e.x2 + dx, e.y2 + dy}
}
func (e ext) grow(d float64) ext { return ext{e.x1 - d, e.y1 - d, e.x2 + d, e.y2 + d} }
func (e ext) String() string {
	return fmt.Sprintf("[%.2f,%.2f .. %.2f,%.2f]", e.x1, e.y1, e.x2, e.y2)
}

func cubicExt(e *ext, p0, p1, p2, p3 [2]float64) {
	e.add(p0[0], p0[1])
	e.add(p3[0], p3[1])
	for ax := 0; ax < 2; ax++ {
		a := -p0[ax] + 3*p1[ax] - 3*p2[ax] + p3[ax]
		b := 2 * (p0[ax] - 2*p1[ax] + p2[ax])
		c := -p0[ax] + p1[ax]
		var ts []float64
		if math.Abs(a) < 1e-12 {
			if math.Abs(b) > 1e-12 {
				ts = append(ts, -c/b)
			}
		} else if d := b*b - 4*a*c; d >= 0 {
			s := math.Sqrt(d)
			ts = append(ts, (-b+s)/(2*a), (-b-s)/(2*a))
		}
		for _, t := range ts {
			if t > 0 && t < 1 {
				m := 1 - t
				x := m*m*m*p0[0] + 3*m*m*t*p1[0] + 3*m*t*t*p2[0] + t*t*t*p3[0]
				y := m*m*m*p0[1] + 3*m*m*t*p1[1] + 3*m*t*t*p2[1] + t*t*t*p3[1]
				e.add(x, y)
			}
		}
	}
}

var rePathTok = regexp.MustCompile(`[A-Za-z]|-?(?:\d+\.?\d*|\.\d+)(?:[eE][-+]?\d+)?`)

// pathExt computes the exact extent of an SVG path (M L H V C S Q T Z, absolute and relative). ok=false when
// the path uses a command the harness does not model (arcs).
func pathExt(d string) (e ext, ok bool) {
	e = emptyExt()
	toks := rePathTok.FindAllString(d, -1)
	var cur, start, lastCtl [2]float64
	lastCmd := byte(0)
	i := 0
	num := func() (float64, bool) {
		if i >= len(toks) {
			return 0, false
		}
		f, err := strconv.ParseFloat(toks[i], 64)
		if err != nil {
			return 0, false
		}
		i++
		return f, true
	}
	cmd := byte(0)
	for i < len(toks) {
		t := toks[i]
		if (t[0] >= 'A' && t[0] <= 'Z') || (t[0] >= 'a' && t[0] <= 'z') {
			if len(t) == 1 && t != "e" && t != "E" {
				cmd = t[0]
				i++
				if cmd == 'Z' || cmd == 'z' {
					cur = start
					lastCmd = 'Z'
					// d2 writes "Z x y" in two places; numbers after Z carry no command: ignore them
					for i < len(toks) && !((toks[i][0] >= 'A' && toks[i][0] <= 'Z') || (toks[i][0] >= 'a' && toks[i][0] <= 'z')) {
						i++
					}
					continue
				}
			}
		}
		rel := cmd >= 'a' && cmd <= 'z'
		up := cmd &^ 0x20
		rd := func(n int) ([]float64, bool) {
			v := make([]float64, n)
			for k := range v {
				f, ok := num()
				if !ok {
					return nil, false
				}
				v[k] = f
			}
			return v, true
		}
		abs := func(x, y float64) [2]float64 {
			if rel {
				return [2]float64{cur[0] + x, cur[1] + y}
			}
			return [2]float64{x, y}
		}
		switch up {
		case 'M', 'L', 'T':
			v, k := rd(2)
			if !k {
				return e, false
			}
			p := abs(v[0], v[1])
			if up == 'M' {
				start = p
				cmd-- // 'M'→'L', 'm'→'l': subsequent pairs are line-tos
			} else {
				e.add(cur[0], cur[1])
			}
			e.add(p[0], p[1])
			cur = p
			lastCtl = p
		case 'H':
			v, k := rd(1)
			if !k {
				return e, false
			}
			x := v[0]
			if rel {
				x += cur[0]
			}
			e.add(cur[0], cur[1])
			cur[0] = x
			e.add(cur[0], cur[1])
			lastCtl = cur
		case 'V':
			v, k := rd(1)
			if !k {
				return e, false
			}
			y := v[0]
			if rel {
				y += cur[1]
			}
			e.add(cur[0], cur[1])
			cur[1] = y
			e.add(cur[0], cur[1])
			lastCtl = cur
		case 'C':
			v, k := rd(6)
			if !k {
				return e, false
			}
			p1, p2, p3 := abs(v[0], v[1]), abs(v[2], v[3]), abs(v[4], v[5])
			cubicExt(&e, cur, p1, p2, p3)
			cur, lastCtl = p3, p2
		case 'S':
			v, k := rd(4)
			if !k {
				return e, false
			}
			p1 := cur
			if lastCmd == 'C' || lastCmd == 'S' {
				p1 = [2]float64{2*cur[0] - lastCtl[0], 2*cur[1] - lastCtl[1]}
			}
			p2, p3 := abs(v[0], v[1]), abs(v[2], v[3])
			cubicExt(&e, cur, p1, p2, p3)
			cur, lastCtl = p3, p2
		case 'Q':
			v, k := rd(4)
			if !k {
				return e, false
			}
			q, p3 := abs(v[0], v[1]), abs(v[2], v[3])
			// elevate to cubic
			p1 := [2]float64{cur[0] + 2.0/3*(q[0]-cur[0]), cur[1] + 2.0/3*(q[1]-cur[1])}
			p2 := [2]float64{p3[0] + 2.0/3*(q[0]-p3[0]), p3[1] + 2.0/3*(q[1]-p3[1])}
			cubicExt(&e, cur, p1, p2, p3)
			cur, lastCtl = p3, q
		default:
			return e, false
		}
		lastCmd = up
	}
	return e, !math.IsInf(e.x1, 0)
}

type drawn struct {
	ext
	kind string // outline | label | icon | route | connection-label | arrowhead-label | other
	obj  string // object / connection id ("" = not inside an object group)
	what string // element description
}

var reTranslate = regexp.MustCompile(`^\s*translate\(\s*(-?[\d.eE+-]+)[\s,]+(-?[\d.eE+-]+)\s*\)\s*$`)
var reStrokeW = regexp.MustCompile(`stroke-width:\s*([\d.]+)`)
var reFontSize = regexp.MustCompile(`font-size:\s*([\d.]+)`)

type c29svg struct {
	outerVB, innerVB [4]float64
	innerW, innerH   float64
	items            []drawn
	shadowDX         float64
	shadowDY         float64
	skipped          map[string]int
}

func attrF(a map[string]string, k string) float64 {
	f, _ := strconv.ParseFloat(strings.TrimSuffix(a[k], "px"), 64)
	return f
}

func parseVB(s string) (v [4]float64, ok bool) {
	f := strings.Fields(strings.ReplaceAll(s, ",", " "))
	if len(f) != 4 {
		return v, false
	}
	for i := range f {
		x, err := strconv.ParseFloat(f[i], 64)
		if err != nil {
			return v, false
		}
		v[i] = x
	}
	return v, true
}

// readSVG extracts the viewBoxes and the extents of every primitive drawn for objects and connections.
// Left out on purpose: the background rectangle(s), definitions (defs, markers, masks, patterns, filters,
// clip paths), appendix icons and positioned tooltips (not named by the property), contents of foreignObject.
func readSVG(svg []byte, d *d2target.Diagram) (*c29svg, error) {
	ids := map[string]string{} // class token -> id
	shapes := map[string]d2target.Shape{}
	conns := map[string]d2target.Connection{}
	for _, s := range d.Shapes {
		ids[base64.URLEncoding.EncodeToString([]byte(html.EscapeString(s.ID)))] = s.ID
		ids[base64.URLEncoding.EncodeToString([]byte(s.ID))] = s.ID
		shapes[s.ID] = s
	}
	for _, c := range d.Connections {
		ids[base64.URLEncoding.EncodeToString([]byte(html.EscapeString(c.ID)))] = c.ID
		ids[base64.URLEncoding.EncodeToString([]byte(c.ID))] = c.ID
		conns[c.ID] = c
	}
	out := &c29svg{skipped: map[string]int{}}
	shadowDone := map[string]bool{}
	type ctx struct {
		name     string
		excluded bool
		dx, dy   float64
		obj      string
		inShape  bool
		shadow   bool
		isRoot   bool // the inner <svg class="… d2-svg">
		fontSize float64
		textN    *int
	}
	dec := xml.NewDecoder(strings.NewReader(string(svg)))
	dec.Strict = false
	dec.AutoClose = xml.HTMLAutoClose
	dec.Entity = xml.HTMLEntity
	stack := []ctx{{name: "#doc"}}
	nsvg := 0
	for {
		tok, err := dec.Token()
		if err != nil {
			if err.Error() == "EOF" {
				break
			}
			return nil, err
		}
		switch t := tok.(type) {
		case xml.EndElement:
			if len(stack) > 1 {
				stack = stack[:len(stack)-1]
			}
		case xml.StartElement:
			par := stack[len(stack)-1]
			c := ctx{name: t.Name.Local, excluded: par.excluded, dx: par.dx, dy: par.dy, obj: par.obj, inShape: par.inShape, shadow: par.shadow, fontSize: par.fontSize, textN: par.textN}
			a := map[string]string{}
			for _, x := range t.Attr {
				a[x.Name.Local] = x.Value
			}
			name := t.Name.Local
			switch name {
			case "defs", "marker", "mask", "clipPath", "pattern", "filter", "linearGradient", "radialGradient", "style", "title":
				c.excluded = true
			case "feOffset":
				out.shadowDX, out.shadowDY = attrF(a, "dx"), attrF(a, "dy")
			case "svg":
				nsvg++
				vb, ok := parseVB(a["viewBox"])
				if nsvg == 1 {
					if !ok {
						return nil, fmt.Errorf("outer svg without viewBox")
					}
					out.outerVB = vb
				} else if strings.Contains(a["class"], "d2-svg") {
					if !ok {
						return nil, fmt.Errorf("inner svg without viewBox")
					}
					out.innerVB = vb
					out.innerW, out.innerH = attrF(a, "width"), attrF(a, "height")
					c.isRoot = true
				} else {
					c.excluded = true // nested svg (latex): not modelled
					out.skipped["nested-svg"]++
				}
			}
			cls := strings.Fields(a["class"])
			for _, k := range cls {
				if k == "appendix-icon" || k == "positioned-tooltip" || k == "appendix" {
					c.excluded = true
				}
			}
			if name == "g" && c.obj == "" && len(cls) > 0 {
				if id, ok := ids[cls[0]]; ok {
					c.obj = id
					c.textN = new(int)
				}
			}
			if name == "g" && len(cls) > 0 && cls[0] == "shape" {
				c.inShape = true
				if strings.Contains(a["filter"], "shadow-filter") {
					c.shadow = true
				}
			}
			if tr, ok := a["transform"]; ok && !c.excluded {
				if m := reTranslate.FindStringSubmatch(tr); m != nil {
					x, _ := strconv.ParseFloat(m[1], 64)
					y, _ := strconv.ParseFloat(m[2], 64)
					c.dx += x
					c.dy += y
				} else {
					c.excluded = true
					out.skipped["transform:"+strings.SplitN(tr, "(", 2)[0]]++
				}
			}
			if m := reFontSize.FindStringSubmatch(a["style"]); m != nil {
				c.fontSize, _ = strconv.ParseFloat(m[1], 64)
			}
			stack = append(stack, c)
			if name == "foreignObject" {
				stack[len(stack)-1].excluded = true // its HTML content is not geometry
			}
			if c.excluded || par.isRoot && name == "rect" {
				continue
			}
			sw := 0.0
			if m := reStrokeW.FindStringSubmatch(a["style"]); m != nil {
				sw, _ = strconv.ParseFloat(m[1], 64)
			} else if v, ok := a["stroke-width"]; ok {
				sw, _ = strconv.ParseFloat(v, 64)
			}
			if a["stroke"] == "none" {
				sw = 0
			}
			var e ext
			kind := "other"
			switch name {
			case "rect", "image", "foreignObject":
				x, y := attrF(a, "x"), attrF(a, "y")
				e = ext{x, y, x + attrF(a, "width"), y + attrF(a, "height")}
				if name == "rect" {
					e = e.grow(sw / 2)
				}
			case "ellipse":
				e = ext{attrF(a, "cx") - attrF(a, "rx"), attrF(a, "cy") - attrF(a, "ry"), attrF(a, "cx") + attrF(a, "rx"), attrF(a, "cy") + attrF(a, "ry")}.grow(sw / 2)
			case "circle":
				e = ext{attrF(a, "cx") - attrF(a, "r"), attrF(a, "cy") - attrF(a, "r"), attrF(a, "cx") + attrF(a, "r"), attrF(a, "cy") + attrF(a, "r")}.grow(sw / 2)
			case "line":
				e = emptyExt()
				e.add(attrF(a, "x1"), attrF(a, "y1"))
				e.add(attrF(a, "x2"), attrF(a, "y2"))
				e = e.grow(sw / 2)
			case "polygon", "polyline":
				e = emptyExt()
				f := strings.Fields(strings.ReplaceAll(a["points"], ",", " "))
				for i := 0; i+1 < len(f); i += 2 {
					x, _ := strconv.ParseFloat(f[i], 64)
					y, _ := strconv.ParseFloat(f[i+1], 64)
					e.add(x, y)
				}
				if len(f) < 2 {
					continue
				}
				e = e.grow(sw / 2)
			case "path":
				pe, ok := pathExt(a["d"])
				if !ok {
					if strings.TrimSpace(a["d"]) != "" {
						out.skipped["path-command"]++
					}
					continue
				}
				e = pe.grow(sw / 2)
			case "text":
				x, y := attrF(a, "x"), attrF(a, "y")
				e = ext{x, y, x, y}
				kind = "text-anchor"
				if c.obj != "" && !c.inShape && c.textN != nil {
					n := *c.textN
					*c.textN = n + 1
					w, h, lk := -1.0, -1.0, ""
					if s, ok := shapes[c.obj]; ok {
						if n == 0 && s.Type != d2target.ShapeClass && s.Type != d2target.ShapeSQLTable && s.Type != d2target.ShapeCode && s.Language == "" {
							w, h, lk = float64(s.LabelWidth), float64(s.LabelHeight), "label"
						}
					} else if cn, ok := conns[c.obj]; ok {
						// order of emission: label, source arrowhead label, target arrowhead label
						var seq [][3]interface{}
						if cn.Label != "" && cn.Language == "" {
							seq = append(seq, [3]interface{}{float64(cn.LabelWidth), float64(cn.LabelHeight), "connection-label"})
						}
						if cn.SrcLabel != nil && cn.SrcLabel.Label != "" {
							seq = append(seq, [3]interface{}{float64(cn.SrcLabel.LabelWidth), float64(cn.SrcLabel.LabelHeight), "arrowhead-label"})
						}
						if cn.DstLabel != nil && cn.DstLabel.Label != "" {
							seq = append(seq, [3]interface{}{float64(cn.DstLabel.LabelWidth), float64(cn.DstLabel.LabelHeight), "arrowhead-label"})
						}
						if n < len(seq) {
							w, h, lk = seq[n][0].(float64), seq[n][1].(float64), seq[n][2].(string)
						}
					}
					if lk != "" && c.fontSize > 0 && strings.Contains(a["style"], "text-anchor:middle") {
						// d2 places the baseline of the first line at top + font-size and centres horizontally
						e = ext{x - w/2, y - c.fontSize, x + w/2, y - c.fontSize + h}
						kind = lk
					}
				}
			default:
				continue
			}
			if kind == "other" {
				switch {
				case name == "image":
					kind = "icon"
				case name == "foreignObject":
					kind = "label"
					if _, isConn := conns[c.obj]; isConn {
						kind = "connection-label"
					}
				case c.inShape:
					kind = "outline"
				default:
					if _, isConn := conns[c.obj]; isConn {
						if strings.Contains(a["class"], "connection") {
							kind = "route"
						} else {
							kind = "connection-decoration"
						}
					}
				}
			}
			e = e.shift(c.dx, c.dy)
			what := "<" + name + ">"
			out.items = append(out.items, drawn{ext: e, kind: kind, obj: c.obj, what: what})
			if c.shadow && kind == "outline" {
				// the shadow clause is decided for the shape box itself (Pos, Width, Height, half the stroke), shifted by
				// the filter's feOffset; shadows cast by the 3d / multiple extensions are not counted
				if sh, ok := shapes[c.obj]; ok && !shadowDone[c.obj] {
					shadowDone[c.obj] = true
					b := ext{float64(sh.Pos.X), float64(sh.Pos.Y), float64(sh.Pos.X + sh.Width), float64(sh.Pos.Y + sh.Height)}.grow(float64(sh.StrokeWidth) / 2)
					out.items = append(out.items, drawn{ext: b.shift(out.shadowDX, out.shadowDY), kind: "shadow", obj: c.obj, what: "shadow of the shape box"})
				}
			}
		}
	}
	return out, nil
}

// ---- oracle -------------------------------------------------------------------------------------------------

type c29In struct {
	Src string `json:"src"`
	Pad int64  `json:"pad"`
}

func (i c29In) String() string { b, _ := json.Marshal(i); return string(b) }

const c29Tol = 1.0 // px: BoundingBox works on truncated integers

// posMech names the mechanism of a label/icon overflow: the position family and, for outside positions, whether
// the overflow is along the axis the position points to (primary) or across it.
func posMech(pos, side string) string {
	switch {
	case strings.HasPrefix(pos, "BORDER_"):
		return "border-position"
	case strings.HasPrefix(pos, "OUTSIDE_TOP"), strings.HasPrefix(pos, "OUTSIDE_BOTTOM"):
		if side == "top" || side == "bottom" {
			return "outside-position:primary-axis"
		}
		return "outside-position:cross-axis"
	case strings.HasPrefix(pos, "OUTSIDE_LEFT"), strings.HasPrefix(pos, "OUTSIDE_RIGHT"):
		if side == "left" || side == "right" {
			return "outside-position:primary-axis"
		}
		return "outside-position:cross-axis"
	case pos == "":
		return "unset-position"
	}
	return "inside-position"
}

func shapeFlags(s d2target.Shape) string {
	var f []string
	if s.ThreeDee {
		f = append(f, "3d")
	}
	if s.Multiple {
		f = append(f, "multiple")
	}
	if s.Shadow {
		f = append(f, "shadow")
	}
	if s.DoubleBorder {
		f = append(f, "double-border")
	}
	if len(f) == 0 {
		return "plain"
	}
	return strings.Join(f, "+")
}

func c29Oracle(in string) eng.Res {
	var a c29In
	if err := json.Unmarshal([]byte(in), &a); err != nil {
		panic("harness: " + err.Error())
	}
	d, _, ro, err := layout(a.Src, &d2svg.RenderOpts{Pad: ptr(a.Pad), ThemeID: ptr(int64(0))})
	if err != nil {
		return eng.OK("not-in-space:"+stripNums(err.Error()), false)
	}
	svg, err := d2svg.Render(d, ro)
	if err != nil {
		return eng.Bad("render-error", err.Error())
	}
	g, err := readSVG(svg, d)
	if err != nil {
		panic("harness: svg unreadable: " + err.Error())
	}
	tl, br := d.BoundingBox()
	bb := ext{float64(tl.X), float64(tl.Y), float64(br.X), float64(br.Y)}
	shapes := map[string]d2target.Shape{}
	for _, s := range d.Shapes {
		shapes[s.ID] = s
	}
	side := func(e ext, box ext, tol float64) string {
		switch {
		case e.y1 < box.y1-tol:
			return "top"
		case e.x2 > box.x2+tol:
			return "right"
		case e.y2 > box.y2+tol:
			return "bottom"
		case e.x1 < box.x1-tol:
			return "left"
		}
		return ""
	}
	nobj := 0
	for _, it := range g.items {
		if it.obj == "" {
			continue
		}
		nobj++
		sd := side(it.ext, bb, c29Tol)
		if sd == "" {
			continue
		}
		mech := it.kind
		if s, ok := shapes[it.obj]; ok {
			switch it.kind {
			case "label":
				mech += ":" + posMech(s.LabelPosition, sd) + ":" + shapeFlags(s)
			case "icon":
				mech += ":" + posMech(s.IconPosition, sd)
			default:
				mech += ":" + s.Type + ":" + shapeFlags(s)
			}
		}
		return eng.Bad("drawn-outside-bounding-box:"+mech, fmt.Sprintf("%s of %q drawn at %v, BoundingBox() = %v (pad %d)\n%s", it.what, it.obj, it.ext, bb, a.Pad, a.Src))
	}
	// viewport ⊇ bounding box grown by pad
	want := bb.grow(float64(a.Pad))
	vb := ext{g.innerVB[0], g.innerVB[1], g.innerVB[0] + g.innerVB[2], g.innerVB[1] + g.innerVB[3]}
	if sd := side(want, vb, 0); sd != "" {
		return eng.Bad("viewbox-smaller-than-bounding-box-plus-padding:"+sd, fmt.Sprintf("viewBox %v, bounding box %v, pad %d\n%s", vb, bb, a.Pad, a.Src))
	}
	if g.innerW < g.innerVB[2] || g.innerH < g.innerVB[3] || g.outerVB[2] < g.innerW || g.outerVB[3] < g.innerH || g.outerVB[0] != 0 || g.outerVB[1] != 0 {
		return eng.Bad("outer-viewport-smaller-than-inner-svg", fmt.Sprintf("outer viewBox %v, inner %vx%v viewBox %v", g.outerVB, g.innerW, g.innerH, g.innerVB))
	}
	// everything drawn also lies inside the viewBox (follows from the two clauses; kept as a cross-check of the reader)
	var sk []string
	for k, n := range g.skipped {
		sk = append(sk, fmt.Sprintf("%s×%d", k, n))
	}
	return eng.OK(fmt.Sprintf("bb=%v vb=%v items=%d skipped=%v", bb, g.innerVB, nobj, sk), nobj > 0)
}

// ---- enumeration --------------------------------------------------------------------------------------------

type c29Deco struct {
	stmt string
	conn bool // needs the connection base
}

const c29Icon = "https://icons.terrastruct.com/essentials/004-picture.svg"

func c29Decos() []c29Deco {
	var ds []c29Deco
	for _, sh := range []string{"hexagon", "oval", "cloud", "person", "c4-person", "cylinder", "diamond", "step", "image", "text", "class", "sql_table"} {
		st := "a.shape: " + sh + "\n"
		if sh == "image" {
			st += "a.icon: " + c29Icon + "\n"
		}
		ds = append(ds, c29Deco{stmt: st})
	}
	for _, p := range d2ast.LabelPositionsArray {
		ds = append(ds, c29Deco{stmt: "a.label.near: " + p + "\n"})
	}
	ds = append(ds, c29Deco{stmt: "a.icon: " + c29Icon + "\n"})
	for _, p := range d2ast.LabelPositionsArray {
		ds = append(ds, c29Deco{stmt: "a.icon: " + c29Icon + "\na.icon.near: " + p + "\n"})
	}
	for _, s := range []string{"style.3d: true", "style.multiple: true", "style.shadow: true", "style.double-border: true", "style.stroke-width: 0", "style.stroke-width: 9", "style.stroke-width: 15", "style.border-radius: 20", "style.font-size: 40", "label: \"\"", "label: A considerably longer label than the shape is wide", "width: 20", "k"} {
		ds = append(ds, c29Deco{stmt: "a." + s + "\n"})
	}
	ds = append(ds, c29Deco{stmt: "direction: right\n", conn: true})
	for _, s := range []string{"label: A long connection label that is wider than both shapes", "source-arrowhead.label: 1..n", "target-arrowhead.label: many", "style.stroke-width: 12", "target-arrowhead.shape: diamond"} {
		ds = append(ds, c29Deco{stmt: "(a -> b)[0]." + s + "\n", conn: true})
	}
	return ds
}

var c29Quick = map[string]bool{}

func init() {
	for _, x := range []string{"a.shape: hexagon", "a.shape: oval", "a.shape: cloud", "a.shape: c4-person", "a.shape: image\na.icon: " + c29Icon, "a.shape: text", "a.shape: class",
		"a.label.near: outside-top-center", "a.label.near: outside-left-center", "a.label.near: outside-right-bottom", "a.label.near: outside-bottom-right", "a.label.near: border-top-left", "a.label.near: border-right-top", "a.label.near: bottom-center", "a.label.near: top-left",
		"a.icon: " + c29Icon, "a.icon: " + c29Icon + "\na.icon.near: outside-top-left", "a.icon: " + c29Icon + "\na.icon.near: outside-right-center", "a.icon: " + c29Icon + "\na.icon.near: outside-bottom-center", "a.icon: " + c29Icon + "\na.icon.near: border-bottom-center", "a.icon: " + c29Icon + "\na.icon.near: top-left",
		"a.style.3d: true", "a.style.multiple: true", "a.style.shadow: true", "a.style.double-border: true", "a.style.stroke-width: 15", "a.style.font-size: 40", "a.label: A considerably longer label than the shape is wide", "a.width: 20", "a.k",
		"direction: right", "(a -> b)[0].label: A long connection label that is wider than both shapes", "(a -> b)[0].source-arrowhead.label: 1..n", "(a -> b)[0].target-arrowhead.label: many", "(a -> b)[0].style.stroke-width: 12"} {
		c29Quick[x] = true
	}
}

func c29Src(ds ...c29Deco) string {
	base := "a\n"
	for _, d := range ds {
		if d.conn {
			base = "a -> b\n"
		}
	}
	for _, d := range ds {
		base += d.stmt
	}
	return base
}

func init() {
	eng.Register(&eng.Check{
		ID: "C29", Level: "exploration",
		Rule: "diagrams = base `a` (or `a -> b` when a connection decoration is present) plus ≤ 2 statements of a 98-statement decoration alphabet (12 shape types, label.near × every position of d2ast.LabelPositionsArray, icon and icon.near × every position, 3d / multiple / shadow / double-border, stroke widths 0/9/15, border radius, font size, empty and long label, narrow width, a child, direction, connection label, both arrowhead labels, connection stroke width, arrowhead shape), each compiled + laid out (dagre) by d2lib.Compile and rendered by d2svg.Render with the phase's padding; the extent of every primitive the SVG draws for an object or connection is computed from the SVG itself and compared with Diagram.BoundingBox(), and the SVG viewBox with the bounding box grown by the padding; non-trivial = at least one primitive compared; ordered pairs of distinct statements are distinct diagrams",
		Assumptions: []string{
			"`drawn` is read from the rendered SVG: rect / ellipse / circle / line / polygon / path (exact Bézier extents) / image / foreignObject boxes with half the stroke width added, shifted by enclosing translate() transforms; for a shape under the shadow filter the shape box (Pos, Width, Height, half the stroke) shifted by the filter's feOffset is counted as well (not the blur radius, not the shadows cast by 3d / multiple extensions)",
			"plain-text labels are boxes of the measured LabelWidth×LabelHeight centred on the <text> anchor with the top at baseline − font-size (the convention d2svg uses); texts inside class / sql_table / code bodies count as their anchor point only",
			"not compared (the statement does not name them): the background rectangle, arrowhead markers, appendix (tooltip/link) icons and positioned tooltips, connection label fills; elements under a non-translate transform or using arc path commands are skipped and counted in the outcome",
			"tolerance 1 px, because BoundingBox truncates label coordinates to integers",
			"padding values {0, 1, 100}: pad 0 over the 2-statement diagrams (quick: unordered pairs over a 35-statement sub-alphabet; thorough: all ordered pairs of the 98), pad 1 and 100 over the ≤1-statement diagrams (padding only enters the viewBox clause); the quantifier's `random padding` is replaced by these",
		},
		QuickBudget: 170 * time.Second, ThoroughBudget: 25 * time.Minute,
		Oracles: map[string]eng.Oracle{"bbox": c29Oracle},
		Run: func(w *eng.W) {
			ds := c29Decos()
			w.Phase("<=1 statement x pad {0,1,100}", func() {
				for _, pad := range []int64{0, 1, 100} {
					w.Eval("bbox", c29In{Src: c29Src(), Pad: pad}.String())
					w.Eval("bbox", c29In{Src: "a -> b\n", Pad: pad}.String())
					for _, d := range ds {
						w.Eval("bbox", c29In{Src: c29Src(d), Pad: pad}.String())
					}
				}
			})
			// every label / icon position under each box-extending style (BoundingBox has one branch per position family
			// and style), pad 0 and 7
			w.Phase("every label/icon position x {3d, multiple, shadow, stroke-width 15}", func() {
				for _, st := range []string{"a.style.3d: true\n", "a.style.multiple: true\n", "a.style.shadow: true\n", "a.style.stroke-width: 15\n"} {
					for _, p := range d2ast.LabelPositionsArray {
						for _, pad := range []int64{0, 7} {
							w.Eval("bbox", c29In{Src: "a -> b\n" + st + "a.label.near: " + p + "\n", Pad: pad}.String())
							w.Eval("bbox", c29In{Src: "a\n" + st + "a.icon: " + c29Icon + "\na.icon.near: " + p + "\n", Pad: pad}.String())
						}
					}
				}
			})
			// 2 statements, pad 0, in slices of the first statement so that the deadline is honoured.
			// quick: unordered pairs over a 35-statement sub-alphabet; thorough: all ordered pairs of the full alphabet.
			pairs := ds
			if !w.Thorough() {
				pairs = nil
				for _, d := range ds {
					if c29Quick[strings.TrimSuffix(d.stmt, "\n")] {
						pairs = append(pairs, d)
					}
				}
				if len(pairs) != len(c29Quick) {
					panic(fmt.Sprintf("harness: quick sub-alphabet matched %d of %d", len(pairs), len(c29Quick)))
				}
			}
			step := 6
			for lo := 0; lo < len(pairs); lo += step {
				lo := lo
				hi := lo + step
				if hi > len(pairs) {
					hi = len(pairs)
				}
				w.Phase(fmt.Sprintf("2 statements, first in #%d..%d of %d, pad 0", lo, hi-1, len(pairs)), func() {
					for i := lo; i < hi; i++ {
						for j := range pairs {
							if i == j || (!w.Thorough() && j < i) {
								continue
							}
							w.Eval("bbox", c29In{Src: c29Src(pairs[i], pairs[j]), Pad: 0}.String())
						}
					}
				})
			}
		},
	})
}
