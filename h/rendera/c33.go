package rendera

import (
	"fmt"
	"math"
	"regexp"
	"sort"
	"strconv"
	"strings"
	"sync"
	"time"

	"oss.terrastruct.com/d2/d2renderers/d2animate"
	"oss.terrastruct.com/d2/d2renderers/d2svg"
	"oss.terrastruct.com/d2/d2target"
	"verif/h/eng"
)

// ---- a small CSS @keyframes reader + evaluator (the harness's own model of CSS animation semantics) ----

type kfStop struct {
	pct     float64 // as written
	opacity float64
	order   int // position in source order (selector by selector)
}

type kfRule struct {
	name  string
	stops []kfStop // source order
	raw   string
}

var reStyleCDATA = regexp.MustCompile(`(?s)<style[^>]*>(.*?)</style>`)

// parseKeyframes extracts every @keyframes rule from css. Unparseable constructs are returned as an error
// (the harness only understands what Wrap is allowed to emit: percentage / from / to selectors, opacity).
func parseKeyframes(css string) ([]kfRule, error) {
	var out []kfRule
	for {
		i := strings.Index(css, "@keyframes")
		if i < 0 {
			return out, nil
		}
		css = css[i+len("@keyframes"):]
		ob := strings.IndexByte(css, '{')
		if ob < 0 {
			return nil, fmt.Errorf("@keyframes without body")
		}
		r := kfRule{name: strings.TrimSpace(css[:ob])}
		body := css[ob+1:]
		pos := 0
		order := 0
		for {
			// skip whitespace
			for pos < len(body) && strings.ContainsRune(" \t\r\n", rune(body[pos])) {
				pos++
			}
			if pos >= len(body) {
				return nil, fmt.Errorf("@keyframes %s: unterminated", r.name)
			}
			if body[pos] == '}' {
				pos++
				break
			}
			sb := strings.IndexByte(body[pos:], '{')
			se := strings.IndexByte(body[pos:], '}')
			if sb < 0 || se < sb {
				return nil, fmt.Errorf("@keyframes %s: bad block", r.name)
			}
			sel := body[pos : pos+sb]
			decl := body[pos+sb+1 : pos+se]
			pos += se + 1
			op := math.NaN()
			for _, d := range strings.Split(decl, ";") {
				kv := strings.SplitN(d, ":", 2)
				if len(kv) != 2 {
					continue
				}
				if strings.TrimSpace(kv[0]) == "opacity" {
					v, err := strconv.ParseFloat(strings.TrimSpace(kv[1]), 64)
					if err != nil {
						return nil, fmt.Errorf("@keyframes %s: opacity %q", r.name, kv[1])
					}
					op = v
				}
			}
			if math.IsNaN(op) {
				return nil, fmt.Errorf("@keyframes %s: block without opacity", r.name)
			}
			for _, s := range strings.Split(sel, ",") {
				s = strings.TrimSpace(s)
				var p float64
				switch {
				case s == "from":
					p = 0
				case s == "to":
					p = 100
				case strings.HasSuffix(s, "%"):
					v, err := strconv.ParseFloat(strings.TrimSuffix(s, "%"), 64)
					if err != nil || math.IsNaN(v) || math.IsInf(v, 0) {
						return nil, fmt.Errorf("@keyframes %s: selector %q", r.name, s)
					}
					p = v
				default:
					return nil, fmt.Errorf("@keyframes %s: selector %q", r.name, s)
				}
				r.stops = append(r.stops, kfStop{pct: p, opacity: op, order: order})
				order++
			}
		}
		r.raw = "@keyframes" + css[:ob+1] + body[:pos]
		out = append(out, r)
		css = body[pos:]
	}
}

// timeline is the evaluated form of one rule for an animation of durMS: breakpoints in ms with the opacity
// holding there. CSS semantics: a later keyframe with the same offset replaces an earlier one; a missing
// 0% / 100% keyframe takes the element's underlying opacity (1).
type timeline struct {
	at []float64 // ms, strictly increasing
	v  []float64
}

func mkTimeline(r kfRule, durMS float64) timeline {
	st := append([]kfStop(nil), r.stops...)
	sort.SliceStable(st, func(i, j int) bool {
		if st[i].pct != st[j].pct {
			return st[i].pct < st[j].pct
		}
		return st[i].order < st[j].order
	})
	var tl timeline
	for _, s := range st {
		if s.pct < 0 || s.pct > 100 {
			continue // an out-of-range selector is invalid CSS and dropped (reported separately)
		}
		t := s.pct / 100 * durMS
		if n := len(tl.at); n > 0 && tl.at[n-1] == t {
			tl.v[n-1] = s.opacity
			continue
		}
		tl.at = append(tl.at, t)
		tl.v = append(tl.v, s.opacity)
	}
	if len(tl.at) == 0 || tl.at[0] != 0 {
		tl.at = append([]float64{0}, tl.at...)
		tl.v = append([]float64{1}, tl.v...)
	}
	if tl.at[len(tl.at)-1] != durMS {
		tl.at = append(tl.at, durMS)
		tl.v = append(tl.v, 1)
	}
	return tl
}

// state at time t: 1 = fully visible, 0 = fully hidden, 2 = in between (inside a transition).
func (tl timeline) state(t float64) int {
	k := sort.SearchFloat64s(tl.at, t) // first at[k] >= t
	if k < len(tl.at) && tl.at[k] == t {
		// exactly on a breakpoint: decided only if it ends or starts a constant stretch (keeps cells() and state() identical)
		if (k > 0 && tl.v[k-1] == tl.v[k]) || (k+1 < len(tl.at) && tl.v[k+1] == tl.v[k]) {
			return cls(tl.v[k])
		}
		return 2
	}
	if k == 0 || k >= len(tl.at) {
		return 2
	}
	a, b := tl.v[k-1], tl.v[k]
	if a == b {
		return cls(a)
	}
	return 2
}

func cls(v float64) int {
	switch v {
	case 0:
		return 0
	case 1:
		return 1
	}
	return 2
}

// cells returns, as sorted disjoint closed integer intervals, the set of j with state(j+0.5) == want.
func (tl timeline) cells(want int) [][2]int64 {
	var out [][2]int64
	for k := 0; k+1 < len(tl.at); k++ {
		if tl.v[k] != tl.v[k+1] || cls(tl.v[k]) != want {
			continue
		}
		lo := int64(math.Ceil(tl.at[k] - 0.5))
		hi := int64(math.Floor(tl.at[k+1] - 0.5))
		if lo > hi {
			continue
		}
		if n := len(out); n > 0 && out[n-1][1] >= lo-1 {
			if hi > out[n-1][1] {
				out[n-1][1] = hi
			}
			continue
		}
		out = append(out, [2]int64{lo, hi})
	}
	return out
}

// firstUncovered returns the smallest j in [lo,hi] not covered by iv, or -1.
func firstUncovered(iv [][2]int64, lo, hi int64) int64 {
	j := lo
	for _, x := range iv {
		if j > hi {
			return -1
		}
		if x[1] < j {
			continue
		}
		if x[0] > j {
			return j
		}
		j = x[1] + 1
	}
	if j > hi {
		return -1
	}
	return j
}

// ---- the oracle ------------------------------------------------------------------------------------------

var (
	c33RootOnce sync.Once
	c33Root     *d2target.Diagram
)

func c33RootDiagram() *d2target.Diagram {
	c33RootOnce.Do(func() {
		d, _, _, err := layout("x -> y", nil)
		if err != nil {
			panic("harness: c33 root diagram: " + err.Error())
		}
		c33Root = d
	})
	return c33Root
}

var reAnim = regexp.MustCompile(`<g style="animation: (\S+) (-?\d+)ms infinite"([^>]*)>`)

const bruteLimit = 400_000 // boards × cells evaluated one by one below this; interval arithmetic over the same cells (exactly equivalent) always

// input: "n=<boards> T=<interval ms> boards=dummy|steps"
func c33Oracle(in string) eng.Res {
	var n, T int
	var mode string
	if _, err := fmt.Sscanf(in, "n=%d T=%d boards=%s", &n, &T, &mode); err != nil {
		panic("harness: bad c33 input " + in)
	}
	var root *d2target.Diagram
	var boards [][]byte
	opts := d2svg.RenderOpts{Pad: ptr(int64(10)), ThemeID: ptr(int64(0))}
	switch mode {
	case "dummy":
		root = c33RootDiagram()
		for i := 0; i < n; i++ {
			boards = append(boards, []byte(fmt.Sprintf(`<svg class="outer-%d"><g class="board-%d"><rect width="1" height="1" /><g class="inner"></g></g></svg>`, i, i)))
		}
	case "steps":
		// the way d2cli does it: MasterID = hash of the root, RenderMultiboard order
		var sb strings.Builder
		sb.WriteString("a -> b\n")
		if n > 1 {
			sb.WriteString("steps: {\n")
			for i := 1; i < n; i++ {
				fmt.Fprintf(&sb, " s%d: { b -> c%d }\n", i, i)
			}
			sb.WriteString("}\n")
		}
		d, _, ro, err := layout(sb.String(), &opts)
		if err != nil {
			panic("harness: c33 steps diagram: " + err.Error())
		}
		opts = *ro
		id, err := d.HashID(nil)
		if err != nil {
			panic(err)
		}
		opts.MasterID = id
		boards, err = d2svg.RenderMultiboard(d, &opts)
		if err != nil {
			panic("harness: RenderMultiboard: " + err.Error())
		}
		if len(boards) != n {
			panic(fmt.Sprintf("harness: expected %d boards, rendered %d", n, len(boards)))
		}
		root = d
	default:
		panic("harness: bad mode")
	}
	out, err := d2animate.Wrap(root, boards, opts, T)
	if err != nil {
		return eng.Bad("Wrap-error", err.Error())
	}
	svg := string(out)

	// keyframes by name (a later rule of the same name replaces an earlier one)
	rules := map[string]kfRule{}
	for _, m := range reStyleCDATA.FindAllStringSubmatch(svg, -1) {
		rs, err := parseKeyframes(m[1])
		if err != nil {
			return eng.Bad("keyframes-css-unparseable", err.Error())
		}
		for _, r := range rs {
			rules[r.name] = r
		}
	}
	anims := reAnim.FindAllStringSubmatch(svg, -1)
	if len(anims) != n {
		return eng.Bad("animated-board-count-differs-from-board-count", fmt.Sprintf("%d boards, %d elements carry an animation", n, len(anims)))
	}
	L := int64(n) * int64(T)
	tls := make([]timeline, n)
	twoBlock := 0
	for i, a := range anims {
		if mode == "dummy" && !strings.Contains(a[3], fmt.Sprintf(`class="board-%d"`, i)) {
			return eng.Bad("animation-attached-to-wrong-element", fmt.Sprintf("animation #%d sits on <g%s>", i, a[3]))
		}
		r, ok := rules[a[1]]
		if !ok {
			return eng.Bad("animation-references-missing-keyframes", fmt.Sprintf("board %d uses %s", i, a[1]))
		}
		dur, _ := strconv.ParseInt(a[2], 10, 64)
		if dur != L {
			return eng.Bad("animation-duration-is-not-boards-times-interval", fmt.Sprintf("board %d: %d ms, want %d×%d", i, dur, n, T))
		}
		prev := math.Inf(-1)
		for _, s := range r.stops {
			if s.pct < 0 || s.pct > 100 {
				return eng.Bad("keyframe-percentage-outside-0-100", fmt.Sprintf("board %d of %d, T=%d: %v%% in\n%s", i, n, T, s.pct, r.raw))
			}
			if s.pct < prev {
				return eng.Bad("keyframe-percentages-decrease", fmt.Sprintf("board %d of %d, T=%d: %v%% after %v%% in\n%s", i, n, T, s.pct, prev, r.raw))
			}
			prev = s.pct
		}
		tls[i] = mkTimeline(r, float64(dur))
		hasZeroAfterOne := false
		seenOne := false
		for _, s := range r.stops {
			if s.opacity == 1 {
				seenOne = true
			} else if seenOne && s.opacity == 0 {
				hasZeroAfterOne = true
			}
		}
		if !hasZeroAfterOne {
			twoBlock++
		}
	}

	// visibility: at every t = j + 0.5 ms, j in [0, n·T), j mod T != T-1 (the 1 ms transition [kT-1, kT]):
	// board floor(j/T) has opacity 1 and every other board opacity 0.
	type viol struct {
		j     int64
		board int
		want  int
		got   int
	}
	var first *viol
	note := func(v viol) {
		if first == nil || v.j < first.j || (v.j == first.j && v.board < first.board) {
			first = &v
		}
	}
	cellsChecked := int64(0)
	if T > 1 {
		cellsChecked = L - int64(n)
	}
	intervalVerdict := func() {
		for i := 0; i < n; i++ {
			ones, zeros := tls[i].cells(1), tls[i].cells(0)
			lo, hi := int64(i)*int64(T), int64(i+1)*int64(T)-2
			if lo <= hi {
				if j := firstUncovered(ones, lo, hi); j >= 0 {
					note(viol{j, i, 1, tls[i].state(float64(j) + 0.5)})
				}
			}
			if T > 1 {
				if j := firstUncovered(zeros, 0, lo-2); j >= 0 {
					note(viol{j, i, 0, tls[i].state(float64(j) + 0.5)})
				}
				if j := firstUncovered(zeros, hi+2, L-1); j >= 0 {
					note(viol{j, i, 0, tls[i].state(float64(j) + 0.5)})
				}
			}
		}
	}
	intervalVerdict()
	if int64(n)*L <= bruteLimit {
		iv := first
		first = nil
	outer:
		for j := int64(0); j < L; j++ {
			if j%int64(T) == int64(T)-1 {
				continue
			}
			vis := int(j / int64(T))
			for i := 0; i < n; i++ {
				want := 0
				if i == vis {
					want = 1
				}
				if got := tls[i].state(float64(j) + 0.5); got != want {
					note(viol{j, i, want, got})
					break outer
				}
			}
		}
		if (iv == nil) != (first == nil) || (iv != nil && (iv.j != first.j || iv.board != first.board)) {
			panic(fmt.Sprintf("harness: interval evaluation and cell-by-cell evaluation disagree on %s: %+v vs %+v", in, iv, first))
		}
	}
	if first != nil {
		v := first
		r := rules[anims[v.board][1]]
		detail := fmt.Sprintf("n=%d boards, interval %d ms, cycle %d ms: at t=%d.5 ms (interval #%d) board %d has opacity state %s, expected %s; its keyframes:\n%s",
			n, T, L, v.j, v.j/int64(T), v.board, stName(v.got), stName(v.want), r.raw)
		if v.want == 1 {
			return eng.Bad("board-not-fully-visible-during-its-interval", detail)
		}
		// mechanism as far as it can be read off the output
		after := false
		for _, s := range r.stops {
			if s.opacity == 0 && s.pct/100*float64(L) > float64(v.board)*float64(T)+0.5 {
				after = true
			}
		}
		if v.j > int64(v.board)*int64(T) && !after {
			return eng.Bad("board-stays-visible-after-its-interval:keyframes-have-no-closing-opacity-0-stop", detail)
		}
		if v.j > int64(v.board)*int64(T) {
			return eng.Bad("board-visible-after-its-interval", detail)
		}
		return eng.Bad("board-visible-before-its-interval", detail)
	}
	return eng.OK(fmt.Sprintf("n=%d two-block-rules=%d cells=%d", n, twoBlock, cellsChecked), cellsChecked > 0 && n > 1)
}

func stName(s int) string {
	switch s {
	case 0:
		return "0 (hidden)"
	case 1:
		return "1 (visible)"
	}
	return "between 0 and 1"
}

var c33QuickIntervals = map[int]bool{1: true, 2: true, 3: true, 7: true, 16: true, 100: true, 999: true, 1000: true, 60000: true}
var c33Intervals = []int{1, 2, 3, 5, 7, 10, 16, 33, 100, 250, 999, 1000, 1001, 5000, 60000}

func init() {
	eng.Register(&eng.Check{
		ID: "C33", Level: "exploration",
		Rule: "every (board count n, interval T ms) of the phase's ranges is passed to d2animate.Wrap (dummy one-<g> board SVGs, or real `steps` boards rendered the way d2cli does); the emitted @keyframes rules and animation attributes are parsed and evaluated with CSS semantics (same-offset keyframes: last wins; value constant between equal stops) at every instant t=j+0.5 ms of the n·T ms cycle outside the 1 ms transitions [kT-1,kT]; non-trivial = at least two boards and at least one instant decided; all (n,T) pairs are distinct",
		Assumptions: []string{
			"CSS animation semantics are the harness's own model: percentages map linearly to time, a later keyframe with the same offset overrides an earlier one, opacity between two stops of equal value is that value and between 0 and 1 otherwise (any easing)",
			"instants are sampled at j+0.5 ms for every integer j of the cycle; Wrap prints percentages with 6 decimals, which moves a breakpoint by at most 5e-9·n·T ms (< 0.15 ms for the largest cycle enumerated, 400×60000 ms), so no sample is within rounding distance of a breakpoint",
			"the verdict over all instants is computed by interval arithmetic on the piecewise-constant opacity functions (exactly the set of sampled instants); for boards×instants <= 4·10^5 the literal per-instant loop is run as well and must agree",
			"T=1 leaves no instant outside a transition; only the percentage clauses are checked there",
			"the clause `symbolically for all positive values` of the quantifier is not decided; only the enumerated finite ranges are",
		},
		QuickBudget: 170 * time.Second, ThoroughBudget: 25 * time.Minute,
		Oracles: map[string]eng.Oracle{"wrap": c33Oracle},
		Run: func(w *eng.W) {
			// Phases are kept small (a few hundred Wrap calls, ~0.2 s each because Wrap re-subsets the fonts every
			// time) so that the engine's per-phase deadline check bounds the run.
			dense := func(nLo, nHi, tHi int) {
				w.Phase(fmt.Sprintf("n=%d..%d x T=1..%d", nLo, nHi, tHi), func() {
					for n := nLo; n <= nHi; n++ {
						for T := 1; T <= tHi; T++ {
							w.Eval("wrap", fmt.Sprintf("n=%d T=%d boards=dummy", n, T))
						}
					}
				})
			}
			listed := func(nLo, nHi int) {
				w.Phase(fmt.Sprintf("n=%d..%d x listed intervals", nLo, nHi), func() {
					for n := nLo; n <= nHi; n++ {
						for _, T := range c33Intervals {
							if !w.Thorough() && !c33QuickIntervals[T] {
								continue
							}
							w.Eval("wrap", fmt.Sprintf("n=%d T=%d boards=dummy", n, T))
						}
					}
				})
			}
			w.Phase("real step boards", func() {
				for n := 1; n <= w.Pick(5, 12); n++ {
					for _, T := range []int{2, 3, 100, 1000} {
						w.Eval("wrap", fmt.Sprintf("n=%d T=%d boards=steps", n, T))
					}
				}
			})
			if !w.Thorough() {
				for n := 1; n <= 6; n += 2 {
					dense(n, n+1, 100)
				}
			} else {
				for n := 1; n <= 8; n += 2 {
					dense(n, n+1, 150)
				}
			}
			for n := 1; n <= 150; n += 25 {
				listed(n, n+24)
			}
			if w.Thorough() {
				for n := 1; n <= 24; n += 2 {
					dense(n, n+1, 1200)
				}
				for n := 25; n <= 150; n += 6 {
					dense(n, n+5, 120)
				}
				for n := 151; n <= 400; n += 25 {
					listed(n, n+24)
				}
			}
		},
	})
}
