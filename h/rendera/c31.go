package rendera

import (
	"encoding/json"
	"encoding/xml"
	"fmt"
	"regexp"
	"sort"
	"strings"
	"time"

	"oss.terrastruct.com/d2/d2renderers/d2svg"
	"oss.terrastruct.com/d2/d2target"
	"oss.terrastruct.com/d2/d2themes"
	"oss.terrastruct.com/d2/d2themes/d2themescatalog"
	"verif/h/eng"
)

// ---- the harness's own view of a palette --------------------------------------------------------------------

var themeCodes = []string{"N1", "N2", "N3", "N4", "N5", "N6", "N7", "B1", "B2", "B3", "B4", "B5", "B6", "AA2", "AA4", "AA5", "AB4", "AB5"}
var themeProps = []string{"fill", "stroke", "background-color", "color"}

// paletteOf reads the catalogue entry field by field (deliberately not through d2themes.ResolveThemeColor).
func paletteOf(t d2themes.Theme) map[string]string {
	c := t.Colors
	return map[string]string{
		"N1": c.Neutrals.N1, "N2": c.Neutrals.N2, "N3": c.Neutrals.N3, "N4": c.Neutrals.N4, "N5": c.Neutrals.N5, "N6": c.Neutrals.N6, "N7": c.Neutrals.N7,
		"B1": c.B1, "B2": c.B2, "B3": c.B3, "B4": c.B4, "B5": c.B5, "B6": c.B6,
		"AA2": c.AA2, "AA4": c.AA4, "AA5": c.AA5, "AB4": c.AB4, "AB5": c.AB5,
	}
}

// catalogTheme finds a theme by id in the two catalogue slices (not through d2themescatalog.Find).
func catalogTheme(id int64) (d2themes.Theme, bool) {
	for _, t := range d2themescatalog.LightCatalog {
		if t.ID == id {
			return t, true
		}
	}
	for _, t := range d2themescatalog.DarkCatalog {
		if t.ID == id {
			return t, true
		}
	}
	return d2themes.Theme{}, false
}

func allThemeIDs() []int64 {
	var ids []int64
	for _, t := range d2themescatalog.LightCatalog {
		ids = append(ids, t.ID)
	}
	for _, t := range d2themescatalog.DarkCatalog {
		ids = append(ids, t.ID)
	}
	return ids
}

// overrideColour is a colour no catalogue theme uses, distinct per (code, light/dark).
func overrideColour(code string, dark bool) string {
	i := 0
	for k, c := range themeCodes {
		if c == code {
			i = k
		}
	}
	if code == "B3" && !dark {
		return "orange" // a named colour is legal too
	}
	if dark {
		return fmt.Sprintf("#%02x01d%x", 0x20+i*7, i%16)
	}
	return fmt.Sprintf("#c0%02xe%x", 0x11+i*5, (i+3)%16)
}

// overrideSet: spec is "none", "all" or one colour code. Returns the d2target struct, the code->colour map
// and the d2-config text.
func overrideSet(spec string, dark bool) (*d2target.ThemeOverrides, map[string]string, string) {
	m := map[string]string{}
	switch spec {
	case "none":
		return nil, m, ""
	case "all":
		for _, c := range themeCodes {
			m[c] = overrideColour(c, dark)
		}
	default:
		m[spec] = overrideColour(spec, dark)
	}
	o := &d2target.ThemeOverrides{}
	set := func(p **string, code string) {
		if v, ok := m[code]; ok {
			*p = &v
		}
	}
	set(&o.N1, "N1")
	set(&o.N2, "N2")
	set(&o.N3, "N3")
	set(&o.N4, "N4")
	set(&o.N5, "N5")
	set(&o.N6, "N6")
	set(&o.N7, "N7")
	set(&o.B1, "B1")
	set(&o.B2, "B2")
	set(&o.B3, "B3")
	set(&o.B4, "B4")
	set(&o.B5, "B5")
	set(&o.B6, "B6")
	set(&o.AA2, "AA2")
	set(&o.AA4, "AA4")
	set(&o.AA5, "AA5")
	set(&o.AB4, "AB4")
	set(&o.AB5, "AB5")
	key := "theme-overrides"
	if dark {
		key = "dark-theme-overrides"
	}
	var sb strings.Builder
	fmt.Fprintf(&sb, "    %s: {\n", key)
	for _, c := range themeCodes {
		if v, ok := m[c]; ok {
			fmt.Fprintf(&sb, "      %s: \"%s\"\n", c, v)
		}
	}
	sb.WriteString("    }\n")
	return o, m, sb.String()
}

func resolved(t d2themes.Theme, ov map[string]string) map[string]string {
	p := paletteOf(t)
	for k, v := range ov {
		p[k] = v
	}
	return p
}

// ---- a small CSS reader -------------------------------------------------------------------------------------

type cssRule struct {
	sel   string
	decls map[string]string
}

// parseCSS returns the top-level rules and the rules inside `@media … (prefers-color-scheme:dark)` blocks.
func parseCSS(css string) (light, dark []cssRule, err error) {
	var parse func(s string, into *[]cssRule, nested bool) (rest string, err error)
	parse = func(s string, into *[]cssRule, nested bool) (string, error) {
		for {
			s = strings.TrimLeft(s, " \t\r\n")
			if s == "" {
				if nested {
					return "", fmt.Errorf("unterminated block")
				}
				return "", nil
			}
			if s[0] == '}' {
				if !nested {
					return "", fmt.Errorf("stray }")
				}
				return s[1:], nil
			}
			ob := strings.IndexByte(s, '{')
			if ob < 0 {
				return "", fmt.Errorf("rule without body near %q", clipS(s, 40))
			}
			prelude := strings.TrimSpace(s[:ob])
			s = s[ob+1:]
			if strings.HasPrefix(prelude, "@media") {
				var sub []cssRule
				rest, err := parse(s, &sub, true)
				if err != nil {
					return "", err
				}
				if strings.Contains(strings.ReplaceAll(prelude, " ", ""), "prefers-color-scheme:dark") {
					dark = append(dark, sub...)
				}
				s = rest
				continue
			}
			if strings.HasPrefix(prelude, "@") {
				// @font-face / @keyframes: skip the balanced block
				depth := 1
				i := 0
				for ; i < len(s) && depth > 0; i++ {
					switch s[i] {
					case '{':
						depth++
					case '}':
						depth--
					}
				}
				s = s[i:]
				continue
			}
			cb := strings.IndexByte(s, '}')
			if cb < 0 {
				return "", fmt.Errorf("unterminated rule %q", prelude)
			}
			r := cssRule{sel: prelude, decls: map[string]string{}}
			for _, d := range strings.Split(s[:cb], ";") {
				kv := strings.SplitN(d, ":", 2)
				if len(kv) == 2 {
					r.decls[strings.TrimSpace(kv[0])] = strings.TrimSpace(kv[1])
				}
			}
			*into = append(*into, r)
			s = s[cb+1:]
		}
	}
	_, err = parse(css, &light, false)
	return
}

func clipS(s string, n int) string {
	if len(s) > n {
		return s[:n] + "…"
	}
	return s
}

var reThemeSel = regexp.MustCompile(`^\.(\S+)\s+\.(fill|stroke|background-color|color)-(N[1-7]|B[1-6]|AA[245]|AB[45])$`)
var reThemeClass = regexp.MustCompile(`^(fill|stroke|background-color|color)-(N[1-7]|B[1-6]|AA[245]|AB[45])$`)
var reThemeCode = regexp.MustCompile(`^(N[1-7]|B[1-6]|AA[245]|AB[45])$`)

// themeRuleTable maps "prop-code" to the colour the stylesheet section assigns (later rules win), for rules
// scoped to `.scope`.
func themeRuleTable(rules []cssRule, scope string) map[string]string {
	t := map[string]string{}
	for _, r := range rules {
		for _, sel := range strings.Split(r.sel, ",") {
			m := reThemeSel.FindStringSubmatch(strings.TrimSpace(sel))
			if m == nil || m[1] != scope {
				continue
			}
			if v, ok := r.decls[m[2]]; ok {
				t[m[2]+"-"+m[3]] = v
			}
		}
	}
	return t
}

// checkSheet compares one stylesheet section with the expected palette for every property × code.
func checkSheet(table map[string]string, want map[string]string, section string) (class, detail string) {
	for _, p := range themeProps {
		for _, c := range themeCodes {
			got, ok := table[p+"-"+c]
			if !ok {
				return "stylesheet-rule-missing:" + section, fmt.Sprintf("no rule for .%s-%s in the %s section", p, c, section)
			}
			if !strings.EqualFold(got, want[c]) {
				return "stylesheet-colour-differs-from-theme-or-override:" + section, fmt.Sprintf(".%s-%s is %s, expected %s (%s section)", p, c, got, want[c], section)
			}
		}
	}
	return "", ""
}

// ---- oracles ------------------------------------------------------------------------------------------------

type c31In struct {
	Kind    string `json:"kind"` // css | render | reject
	Theme   int64  `json:"theme"`
	Dark    *int64 `json:"dark,omitempty"`
	Ov      string `json:"ov,omitempty"`  // none | all | code
	Dov     string `json:"dov,omitempty"` // none | all | code
	Diagram string `json:"diagram,omitempty"`
	Via     string `json:"via,omitempty"` // opts | config: how the theme ids reach d2
	Sketch  bool   `json:"sketch,omitempty"`
	Entry   string `json:"entry,omitempty"` // reject: which entry point
}

func (i c31In) String() string { b, _ := json.Marshal(i); return string(b) }

func c31CSS(in string) eng.Res {
	var a c31In
	if err := json.Unmarshal([]byte(in), &a); err != nil {
		panic("harness: " + err.Error())
	}
	lt, ok := catalogTheme(a.Theme)
	if !ok {
		panic("harness: theme")
	}
	ov, ovm, _ := overrideSet(a.Ov, false)
	var dov *d2target.ThemeOverrides
	var dovm map[string]string
	if a.Dark != nil {
		dov, dovm, _ = overrideSet(a.Dov, true)
	} else if a.Dov != "" {
		dov, _, _ = overrideSet(a.Dov, true) // must be ignored: there is no dark theme
	}
	css, err := d2svg.ThemeCSS("d2-1", &a.Theme, a.Dark, ov, dov)
	if err != nil {
		return eng.Bad("ThemeCSS-error-on-valid-themes", err.Error())
	}
	light, dark, perr := parseCSS(css)
	if perr != nil {
		return eng.Bad("stylesheet-unparseable", perr.Error())
	}
	if cl, d := checkSheet(themeRuleTable(light, "d2-1"), resolved(lt, ovm), "light"); cl != "" {
		return eng.Bad(cl, d)
	}
	if a.Dark != nil {
		dt, ok := catalogTheme(*a.Dark)
		if !ok {
			panic("harness: dark theme")
		}
		if cl, d := checkSheet(themeRuleTable(dark, "d2-1"), resolved(dt, dovm), "dark"); cl != "" {
			return eng.Bad(cl, d)
		}
	} else if len(dark) > 0 {
		return eng.Bad("dark-section-without-dark-theme", fmt.Sprintf("%d rules", len(dark)))
	}
	// outcome: the two resolved palettes (distinct for distinct configurations)
	return eng.OK(fmt.Sprintf("%d/%v/%s/%s", a.Theme, darkStr(a.Dark), a.Ov, a.Dov), true)
}

func darkStr(d *int64) string {
	if d == nil {
		return "-"
	}
	return fmt.Sprint(*d)
}

var c31Diagrams = map[string]string{
	"shapes": `
title: Kitchen sink {near: top-center; shape: text; style.font-size: 30}
a: outer {
  b: mid {
    c: inner {
      d: innermost {
        e: leaf
      }
      cyl2: {shape: cylinder}
      st2: {shape: step}
    }
  }
  q: {shape: queue}
}
cyl: {shape: cylinder}
pk: {shape: package}
sd: {shape: stored_data}
st: {shape: step}
pg: {shape: page}
doc: {shape: document}
per: {shape: person}
c4p: {shape: c4-person}
dia: {shape: diamond}
ov: {shape: oval}
ci: {shape: circle}
hx: {shape: hexagon; style.3d: true}
cl: {shape: cloud}
co: {shape: callout}
par: {shape: parallelogram}
sq: {shape: square; style.3d: true}
mu: {style.multiple: true; style.shadow: true}
db: {style.double-border: true}
dots: {style.fill-pattern: dots}
md: |md
  # Title
  some *text* and ` + "`code`" + `
|
code: |go
  func main() {}
|
cls: {
  shape: class
  +f: int
  -m(): void
}
tbl: {
  shape: sql_table
  id: int {constraint: primary_key}
  name: text
}
img: {shape: image; icon: https://icons.terrastruct.com/essentials/004-picture.svg}
ico: {icon: https://icons.terrastruct.com/essentials/004-picture.svg}
tip: {tooltip: a tooltip; link: https://example.com}
a.b.c.d.e -> cyl: labelled
cyl -> pk: dashed {style.stroke-dash: 3}
pk <-> sd: both {source-arrowhead: 1; target-arrowhead: * {shape: diamond; style.filled: true}}
st -- pg
doc -> per: {style.animated: true}
dia -> ov -> ci
cls -> tbl: mdlabel {label: |md **bold** |}
`,
	"sequence": `
s: {
  shape: sequence_diagram
  alice
  bob
  carol
  alice -> bob: hello
  bob.t1 -> carol.t1: span
  bob.t1.t2 -> carol.t1.t2: nested
  bob.t1.t2.t3 -> carol: deeper
  bob.t1.t2.t3.t4 -> carol: deepest
  g: group {
    alice -> bob: in group
  }
  alice."a note"
  carol -> carol: self
}
outside -> s
`,
	"grid-legend": `
vars: {
  d2-legend: {
    l1: Legend item {shape: cylinder}
    l1 -> l2: legend edge
  }
}
g: {
  grid-rows: 2
  x
  y
  z: {shape: hexagon}
  w: {
    u
  }
}
g.x -> g.y
n: near {near: bottom-center}
`,
}

func c31Source(a c31In) (string, map[string]string, map[string]string) {
	_, ovm, ovt := overrideSet(a.Ov, false)
	var dovm map[string]string
	dovt := ""
	if a.Dov != "" {
		// dark-theme-overrides without a dark theme are written into the configuration too: they must change nothing
		var m map[string]string
		_, m, dovt = overrideSet(a.Dov, true)
		if a.Dark != nil {
			dovm = m
		}
	}
	var sb strings.Builder
	cfg := ovt + dovt
	if a.Via == "config" {
		cfg = fmt.Sprintf("    theme-id: %d\n", a.Theme) + cfg
		if a.Dark != nil {
			cfg = fmt.Sprintf("    dark-theme-id: %d\n", *a.Dark) + cfg
		}
	}
	if cfg != "" {
		sb.WriteString("vars: {\n  d2-config: {\n" + cfg + "  }\n}\n")
	}
	sb.WriteString(c31Diagrams[a.Diagram])
	return sb.String(), ovm, dovm
}

type svgEl struct {
	name    string
	attrs   map[string]string
	inHTML  bool // inside a <foreignObject> (HTML content: SVG presentation attributes do not apply)
	inStyle bool
}

// walkSVG returns all elements and the concatenated text of <style> elements.
func walkSVG(svg []byte) ([]svgEl, string, error) {
	dec := xml.NewDecoder(strings.NewReader(string(svg)))
	dec.Strict = false
	dec.AutoClose = xml.HTMLAutoClose
	dec.Entity = xml.HTMLEntity
	var els []svgEl
	var css strings.Builder
	foreign := 0
	style := 0
	var stack []string
	for {
		tok, err := dec.Token()
		if err != nil {
			if err.Error() == "EOF" {
				return els, css.String(), nil
			}
			return nil, "", err
		}
		switch t := tok.(type) {
		case xml.StartElement:
			e := svgEl{name: t.Name.Local, attrs: map[string]string{}, inHTML: foreign > 0}
			for _, a := range t.Attr {
				e.attrs[a.Name.Local] = a.Value
			}
			els = append(els, e)
			stack = append(stack, t.Name.Local)
			if t.Name.Local == "foreignObject" {
				foreign++
			}
			if t.Name.Local == "style" {
				style++
			}
		case xml.EndElement:
			if len(stack) > 0 {
				stack = stack[:len(stack)-1]
			}
			if t.Name.Local == "foreignObject" {
				foreign--
			}
			if t.Name.Local == "style" {
				style--
			}
		case xml.CharData:
			if style > 0 {
				css.Write(t)
				css.WriteByte('\n')
			}
		}
	}
}

var c31LastCodes map[string]bool // codes seen in the last render (for coverage notes)

func c31Render(in string) eng.Res {
	var a c31In
	if err := json.Unmarshal([]byte(in), &a); err != nil {
		panic("harness: " + err.Error())
	}
	src, ovm, dovm := c31Source(a)
	ro := &d2svg.RenderOpts{Pad: ptr(int64(20))}
	if a.Via != "config" {
		ro.ThemeID = ptr(a.Theme)
		ro.DarkThemeID = a.Dark
	}
	if a.Sketch {
		ro.Sketch = ptr(true)
	}
	d, _, ro, err := layout(src, ro)
	if err != nil {
		return eng.Bad("compile-error-on-valid-theme-configuration", err.Error()+"\n"+src)
	}
	if *ro.ThemeID != a.Theme || (a.Dark == nil) != (ro.DarkThemeID == nil) || (a.Dark != nil && *a.Dark != *ro.DarkThemeID) {
		return eng.Bad("configured-theme-id-not-passed-to-renderer", fmt.Sprintf("theme %v dark %v", *ro.ThemeID, ro.DarkThemeID))
	}
	svg, err := d2svg.Render(d, ro)
	if err != nil {
		return eng.Bad("render-error-on-valid-theme-configuration", err.Error())
	}
	els, css, err := walkSVG(svg)
	if err != nil {
		panic("harness: svg not readable: " + err.Error())
	}
	light, dark, perr := parseCSS(css)
	if perr != nil {
		return eng.Bad("stylesheet-unparseable", perr.Error())
	}
	// the scope class is the first class of the inner <svg class="d2-… d2-svg">
	scope := ""
	for _, e := range els {
		if e.name == "svg" && strings.Contains(e.attrs["class"], "d2-svg") {
			scope = strings.Fields(e.attrs["class"])[0]
		}
	}
	if scope == "" {
		panic("harness: no d2-svg element")
	}
	lt, _ := catalogTheme(a.Theme)
	wantL := resolved(lt, ovm)
	tl := themeRuleTable(light, scope)
	var wantD, td map[string]string
	if a.Dark != nil {
		dt, _ := catalogTheme(*a.Dark)
		wantD = resolved(dt, dovm)
		td = themeRuleTable(dark, scope)
	}
	used := map[string]bool{}
	uses := 0
	sketchMissing := ""
	for _, e := range els {
		for _, p := range []string{"fill", "stroke", "color", "background-color", "stop-color"} {
			if v, ok := e.attrs[p]; ok && reThemeCode.MatchString(v) {
				return eng.Bad("theme-code-emitted-as-literal-colour:"+p+"-attribute", fmt.Sprintf("<%s %s=%q class=%q>", e.name, p, v, e.attrs["class"]))
			}
		}
		for _, d := range strings.Split(e.attrs["style"], ";") {
			kv := strings.SplitN(d, ":", 2)
			if len(kv) == 2 && reThemeCode.MatchString(strings.TrimSpace(kv[1])) {
				return eng.Bad("theme-code-emitted-as-literal-colour:style-"+strings.TrimSpace(kv[0]), fmt.Sprintf("<%s style=%q>", e.name, e.attrs["style"]))
			}
		}
		for _, tok := range strings.Fields(e.attrs["class"]) {
			m := reThemeClass.FindStringSubmatch(tok)
			if m == nil {
				continue
			}
			prop, code := m[1], m[2]
			used[code] = true
			uses++
			desc := fmt.Sprintf("<%s class=%q %s=%q> theme %d dark %s overrides %s/%s", e.name, e.attrs["class"], prop, e.attrs[prop], a.Theme, darkStr(a.Dark), a.Ov, a.Dov)
			if got, ok := tl[tok]; !ok {
				return eng.Bad("stylesheet-rule-missing:light", "class "+tok+" is used but has no rule; "+desc)
			} else if !strings.EqualFold(got, wantL[code]) {
				return eng.Bad("stylesheet-colour-differs-from-theme-or-override:light", fmt.Sprintf(".%s is %s, expected %s; %s", tok, got, wantL[code], desc))
			}
			if a.Dark != nil {
				if got, ok := td[tok]; !ok {
					return eng.Bad("stylesheet-rule-missing:dark", "class "+tok+" is used but has no rule in the dark section; "+desc)
				} else if !strings.EqualFold(got, wantD[code]) {
					return eng.Bad("stylesheet-colour-differs-from-theme-or-override:dark", fmt.Sprintf(".%s is %s in the dark section, expected %s; %s", tok, got, wantD[code], desc))
				}
				continue
			}
			// no dark theme: the inline colour must be the same resolved colour
			got, ok := e.attrs[prop]
			if !ok {
				if e.inHTML || e.name == "foreignObject" {
					continue // HTML content: there is no presentation attribute to carry an inline colour
				}
				if a.Sketch {
					if sketchMissing == "" {
						sketchMissing = desc // reported last, so that any other discrepancy of this render takes precedence
					}
					continue
				}
				return eng.Bad("inline-colour-missing-for-theme-class:"+prop, desc)
			}
			if !strings.EqualFold(got, wantL[code]) {
				return eng.Bad("inline-colour-differs-from-theme-or-override:"+prop, fmt.Sprintf("inline %s, expected %s; %s", got, wantL[code], desc))
			}
		}
	}
	if sketchMissing != "" {
		return eng.Bad("inline-colour-missing-for-theme-class:sketch-mode", sketchMissing)
	}
	c31LastCodes = used
	var ks []string
	for k := range used {
		ks = append(ks, k)
	}
	sort.Strings(ks)
	return eng.OK(fmt.Sprintf("%d/%s/%s/%s/%s uses=%d codes=%s", a.Theme, darkStr(a.Dark), a.Ov, a.Dov, a.Diagram, uses, strings.Join(ks, ",")), uses > 0)
}

// c31Reject: an id outside the catalogue must be refused by the named entry point (an error, no output).
func c31Reject(in string) eng.Res {
	var a c31In
	if err := json.Unmarshal([]byte(in), &a); err != nil {
		panic("harness: " + err.Error())
	}
	bad := a.Theme
	if _, ok := catalogTheme(bad); ok {
		panic("harness: id is valid")
	}
	good := int64(0)
	var err error
	produced := ""
	switch a.Entry {
	case "ThemeCSS-light":
		produced, err = d2svg.ThemeCSS("d2-1", &bad, nil, nil, nil)
	case "ThemeCSS-dark":
		produced, err = d2svg.ThemeCSS("d2-1", &good, &bad, nil, nil)
	case "compile-opts-light":
		_, _, _, err = layout("a -> b", &d2svg.RenderOpts{ThemeID: &bad})
	case "pipeline-opts-dark":
		var d *d2target.Diagram
		var ro *d2svg.RenderOpts
		d, _, ro, err = layout("a -> b", &d2svg.RenderOpts{ThemeID: &good, DarkThemeID: &bad})
		if err == nil {
			var out []byte
			out, err = d2svg.Render(d, ro)
			produced = string(out)
		}
	case "render-light":
		d, _, ro, e := layout("a -> b", nil)
		if e != nil {
			panic("harness: " + e.Error())
		}
		ro.ThemeID = &bad
		var out []byte
		out, err = d2svg.Render(d, ro)
		produced = string(out)
	case "config-theme-id":
		_, _, _, err = layout(fmt.Sprintf("vars: {d2-config: {theme-id: %d}}\na -> b", bad), nil)
	case "config-dark-theme-id":
		var d *d2target.Diagram
		var ro *d2svg.RenderOpts
		d, _, ro, err = layout(fmt.Sprintf("vars: {d2-config: {dark-theme-id: %d}}\na -> b", bad), nil)
		if err == nil {
			var out []byte
			out, err = d2svg.Render(d, ro)
			produced = string(out)
		}
	default:
		panic("harness: entry")
	}
	if err == nil {
		return eng.Bad("unknown-theme-id-accepted:"+a.Entry, fmt.Sprintf("id %d produced %d bytes of output without an error", bad, len(produced)))
	}
	return eng.OK("rejected:"+a.Entry+":"+stripNums(err.Error()), true)
}

func stripNums(s string) string {
	return regexp.MustCompile(`-?\d+`).ReplaceAllString(clipS(s, 80), "N")
}

var c31Entries = []string{"ThemeCSS-light", "ThemeCSS-dark", "compile-opts-light", "pipeline-opts-dark", "render-light", "config-theme-id", "config-dark-theme-id"}
var c31BadIDs = []int64{-1, 2, 9, 99, 106, 199, 202, 299, 304, 1000000, -9223372036854775808, 9223372036854775807}

func init() {
	eng.Register(&eng.Check{
		ID: "C31", Level: "exploration",
		Rule: "configurations = (light theme, dark theme or none, light override set, dark override set) with override sets {none, each single colour code, all 18 codes}; `css`: d2svg.ThemeCSS is called and all 4 properties × 18 codes of both stylesheet sections are compared with catalogue-colour-or-override; `render`: three fixed diagrams (all shapes / sequence diagram / grid+legend, overrides written as d2-config) go through d2lib.Compile + d2svg.Render and every element carrying a theme class is compared (stylesheet rule in each section, inline attribute when no dark theme); `reject`: ids outside the catalogue at seven entry points; non-trivial = at least one theme class compared; all configurations are distinct",
		Assumptions: []string{
			"expected colours are read from the d2themescatalog.LightCatalog/DarkCatalog values field by field and overrides are applied by the harness's own table (not through Theme.ApplyOverrides / ResolveThemeColor / Find)",
			"inline colour clause: for elements inside <foreignObject> (HTML content, where SVG presentation attributes mean nothing) an absent inline attribute is accepted; a present one must match",
			"derived colours (markdown CSS variables, sketch overlay luminance classes, appendix text) are not compared: the statement does not fix their mapping",
			"user colours cannot be theme codes (d2 rejects them), so the codes used in the drawing are those d2's defaults assign; the evidence lists which codes the diagrams exercise",
			"`rejected` means the entry point (or, for a dark id passed by option/config, the compile+render pipeline) returns an error instead of output",
		},
		QuickBudget: 170 * time.Second, ThoroughBudget: 25 * time.Minute,
		Oracles: map[string]eng.Oracle{"css": c31CSS, "render": c31Render, "reject": c31Reject},
		Run: func(w *eng.W) {
			ids := allThemeIDs()
			sets := append([]string{"none", "all"}, themeCodes...)
			w.Phase("reject unknown ids", func() {
				for _, e := range c31Entries {
					for _, id := range c31BadIDs {
						w.Eval("reject", c31In{Kind: "reject", Theme: id, Entry: e}.String())
					}
				}
			})
			w.Phase("render: shapes diagram, theme x overrides, no dark", func() {
				for _, t := range ids {
					for _, ov := range sets {
						// quick: every theme with {none, all}; the 18 single-code sets under default, a dark and the c4 theme
						if !w.Thorough() && ov != "none" && ov != "all" && t != 0 && t != 200 && t != 303 {
							continue
						}
						w.Eval("render", c31In{Kind: "render", Theme: t, Ov: ov, Diagram: "shapes", Via: "opts"}.String())
					}
					// dark-theme-overrides without a dark theme (light and dark catalog themes as the main theme): no effect
					for _, o := range [][2]string{{"none", "all"}, {"all", "all"}, {"B1", "N7"}} {
						w.Eval("render", c31In{Kind: "render", Theme: t, Ov: o[0], Dov: o[1], Diagram: "shapes", Via: "opts"}.String())
						w.Eval("css", c31In{Kind: "css", Theme: t, Ov: o[0], Dov: o[1]}.String())
					}
				}
			})
			w.Phase("render: other diagrams and config route", func() {
				for _, t := range ids {
					for _, dg := range []string{"sequence", "grid-legend"} {
						for _, ov := range []string{"none", "all"} {
							if ov == "none" && !w.Thorough() {
								continue
							}
							w.Eval("render", c31In{Kind: "render", Theme: t, Ov: ov, Diagram: dg, Via: "opts"}.String())
						}
					}
					w.Eval("render", c31In{Kind: "render", Theme: t, Ov: "all", Diagram: "shapes", Via: "config"}.String())
				}
			})
			w.Phase("render: with dark theme", func() {
				darks := []int64{200}
				combos := [][2]string{{"all", "all"}, {"B1", "N7"}}
				if w.Thorough() {
					darks = ids
					combos = [][2]string{{"none", "none"}, {"all", "all"}, {"B1", "none"}, {"none", "N7"}}
				}
				for _, t := range ids {
					for _, dk := range darks {
						dk := dk
						for _, o := range combos {
							w.Eval("render", c31In{Kind: "render", Theme: t, Dark: &dk, Ov: o[0], Dov: o[1], Diagram: "shapes", Via: "opts"}.String())
						}
						w.Eval("render", c31In{Kind: "render", Theme: t, Dark: &dk, Ov: "all", Dov: "all", Diagram: "sequence", Via: "config"}.String())
					}
				}
			})
			w.Phase("css: theme x overrides, no dark", func() {
				for _, t := range ids {
					for _, ov := range sets {
						w.Eval("css", c31In{Kind: "css", Theme: t, Ov: ov}.String())
					}
				}
			})
			// quick: (light, dark) override sets in {none, all}² plus the same single code on both sides; thorough: full product
			for _, t := range ids {
				t := t
				w.Phase(fmt.Sprintf("css: theme %d x dark x overrides x dark overrides", t), func() {
					for _, dk := range ids {
						dk := dk
						for _, ov := range sets {
							for _, dov := range sets {
								if !w.Thorough() && !((ov == "none" || ov == "all") && (dov == "none" || dov == "all") || ov == dov) {
									continue
								}
								w.Eval("css", c31In{Kind: "css", Theme: t, Dark: &dk, Ov: ov, Dov: dov}.String())
							}
						}
					}
				})
			}
			if w.Thorough() {
				w.Phase("render: sketch mode", func() {
					for _, t := range ids {
						for _, ov := range []string{"none", "all"} {
							for _, dg := range []string{"shapes", "sequence"} {
								w.Eval("render", c31In{Kind: "render", Theme: t, Ov: ov, Diagram: dg, Via: "opts", Sketch: true}.String())
							}
						}
					}
				})
			}
		},
	})
}
