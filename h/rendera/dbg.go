package rendera

import (
	"fmt"
	"os"
	"time"

	"verif/h/eng"
)

func init() {
	// h-rendera dbg-rendera <check> <oracle> <input>...   — run one oracle on inputs, print result and time
	eng.Internal["dbg-rendera"] = func(args []string) {
		c := eng.Registry[args[0]]
		o := c.Oracles[args[1]]
		for _, in := range args[2:] {
			if len(in) > 0 && in[0] == '@' {
				b, err := os.ReadFile(in[1:])
				if err != nil {
					panic(err)
				}
				in = string(b)
			}
			t0 := time.Now()
			r := o(in)
			fmt.Printf("== %q  (%v)\noutcome=%s nontrivial=%v\n", in, time.Since(t0), r.Outcome, r.Nontrivial)
			if r.Fail != nil {
				fmt.Printf("FAIL class=%s\n%s\n", r.Fail.Class, r.Fail.Detail)
			}
		}
	}
}

func init() {
	eng.Internal["dbg-rendera-corpus"] = func(args []string) {
		for _, n := range []int{100, 250, 1500} {
			fmt.Println(n, len(c28CorpusInputs(n)))
		}
	}
}
