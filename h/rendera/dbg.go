package rendera

import (
	"fmt"
	"os"
	"time"

	"verif/h/eng"
)

func init() {
	// h-rendera dbg-rendera <check> <oracle> <input>...   — run one oracle on inputs, print result and time
	eng.Internal["dbg-rendera"] = func(args []string) {
		c := eng.Registry[args[0]]
		o := c.Oracles[args[1]]
		for _, in := range args[2:] {
			if len(in) > 0 && in[0] == '@' {
				b, err := os.ReadFile(in[1:])
				if err != nil {
					panic(err)
				}
				in = string(b)
			}
			t0 := time.Now()
			r := o(in)
			fmt.Printf("== %q  (%v)\noutcome=%s nontrivial=%v\n", in, time.Since(t0), r.Outcome, r.Nontrivial)
			if r.Fail != nil {
				fmt.Printf("FAIL class=%s\n%s\n", r.Fail.Class, r.Fail.Detail)
			}
		}
	}
}

func init() {
	eng.Internal["dbg-rendera-corpus"] = func(args []string) {
		for _, n := range []int{100, 250, 1500} {
			fmt.Println(n, len(c28CorpusInputs(n)))
		}
	}
}

func init() {
	// dbg-rendera-c28corpus <shard> <nshards> <theme>: run the C28 oracle over the thorough corpus slice, print failures
	eng.Internal["dbg-rendera-c28corpus"] = func(args []string) {
		var sh, n int
		var th int64
		fmt.Sscan(args[0], &sh)
		fmt.Sscan(args[1], &n)
		fmt.Sscan(args[2], &th)
		cnt := map[string]int{}
		for i, s := range c28CorpusInputs(1500) {
			if i%n != sh {
				continue
			}
			func() {
				defer func() {
					if r := recover(); r != nil {
						fmt.Printf("PANIC %v on %q\n", r, s)
					}
				}()
				r := c28Oracle(c28In{Src: s, Theme: th}.String())
				if r.Fail != nil {
					cnt[r.Fail.Class]++
					if cnt[r.Fail.Class] <= 2 {
						fmt.Printf("FAIL %s\n  %s\n  src=%q\n", r.Fail.Class, r.Fail.Detail, s)
					}
				} else if len(r.Outcome) > 0 && (r.Outcome[0] == 'n' || r.Outcome[0] == 'l') && len(r.Outcome) < 200 {
					cnt[r.Outcome]++
				} else {
					cnt["ok"]++
				}
			}()
		}
		fmt.Println(cnt)
	}
}
