// Package rendera holds the export / theme / bounding-box / animation checks (C28, C29, C31, C33).
package rendera

import (
	"context"
	"os"
	"runtime"
	"sync"

	"oss.terrastruct.com/d2/d2graph"
	"oss.terrastruct.com/d2/d2layouts/d2dagrelayout"
	"oss.terrastruct.com/d2/d2lib"
	"oss.terrastruct.com/d2/d2renderers/d2svg"
	"oss.terrastruct.com/d2/d2target"
	"oss.terrastruct.com/d2/lib/textmeasure"
	"verif/h/u"
)

var (
	rulerOnce sync.Once
	ruler     *textmeasure.Ruler
)

func init() {
	// 16 worker processes with 16 Ps each thrash the GC on a shared machine (measured: 200-900 ms per
	// Wrap/Render at GOMAXPROCS=16 vs 12-40 ms at 1). Every oracle here is single-threaded anyway.
	for _, a := range os.Args {
		if a == "--worker" || a == "-worker" || a == "dbg-rendera" {
			runtime.GOMAXPROCS(1)
		}
	}
}

func theRuler() *textmeasure.Ruler {
	rulerOnce.Do(func() {
		r, err := textmeasure.NewRuler()
		if err != nil {
			panic("harness: NewRuler: " + err.Error())
		}
		ruler = r
	})
	return ruler
}

func dagreResolver(engine string) (d2graph.LayoutGraph, error) {
	return func(ctx context.Context, g *d2graph.Graph) error { return d2dagrelayout.Layout(ctx, g, nil) }, nil
}

func ptr[T any](v T) *T { return &v }

// layout compiles + lays out (dagre) + exports src through d2lib.Compile with the given render options
// (nil = defaults). The returned renderOpts are the ones d2lib filled in (theme, pad, overrides from d2-config).
func layout(src string, ro *d2svg.RenderOpts) (*d2target.Diagram, *d2graph.Graph, *d2svg.RenderOpts, error) {
	if ro == nil {
		ro = &d2svg.RenderOpts{}
	}
	co := &d2lib.CompileOptions{Ruler: theRuler(), Layout: ptr("dagre"), LayoutResolver: dagreResolver}
	d, g, err := d2lib.Compile(u.Bgctx, src, co, ro)
	return d, g, ro, err
}
