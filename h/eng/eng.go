// Package eng is the shared bounded-exhaustive exploration engine (E1 of DESIGN.md):
// sharded worker processes, phases (iterative deepening levels), oracle evaluation with
// panic / hang capture, outcome-class counting, known-finding matching, evidence and replay files.
package eng

import (
	"crypto/sha256"
	"encoding/hex"
	"encoding/json"
	"fmt"
	"hash/fnv"
	"os"
	"os/exec"
	"path/filepath"
	"runtime"
	"runtime/debug"
	"sort"
	"strconv"
	"strings"
	"sync"
	"sync/atomic"
	"syscall"
	"time"
)

// Root is the framework directory (a `vp run` snapshot sets VERIF_ROOT to its own copy).
var Root = func() string {
	if r := os.Getenv("VERIF_ROOT"); r != "" {
		return r
	}
	return "/verif"
}()

// Fail is one violation of the property on one input.
type Fail struct {
	Oracle  string `json:"oracle"`
	Class   string `json:"class"`   // deterministic description of what failed (call site / field / mechanism)
	Witness string `json:"witness"` // input for Oracle, self-contained
	Detail  string `json:"detail,omitempty"`
}

// Res is what an oracle returns for one input.
type Res struct {
	Outcome    string // canonical outcome (hashed for vacuity detection); "" = not recorded
	Nontrivial bool
	Fail       *Fail // Class+Detail filled by the oracle; Oracle/Witness by the engine
}

func OK(outcome string, nontrivial bool) Res { return Res{Outcome: outcome, Nontrivial: nontrivial} }
func Bad(class, detail string) Res {
	return Res{Nontrivial: true, Outcome: "FAIL:" + class, Fail: &Fail{Class: class, Detail: detail}}
}

type Oracle func(input string) Res

type Check struct {
	// DeathClass (optional) qualifies the class of a worker death (crash:<site>, hang) by the family of the input in flight
	DeathClass  func(class, oracle, input string) string
	ID          string
	Level       string // exploration | model_checking | fault_enumeration
	Rule        string
	Assumptions []string
	Oracles     map[string]Oracle
	// Run is executed in every worker; it must call w.Eval / w.Phase in a deterministic order.
	Run func(w *W)
	// Solo, when set, runs instead of the sharded workers (engines E2/E3 that manage their own processes).
	Solo func(p *Solo)
	// HangBound is the per-input hang detector (0 = 120s).
	HangBound time.Duration
	// Workers overrides the worker count (0 = NumCPU).
	Workers int
	// QuickBudget / ThoroughBudget are internal deadlines (exit 0, exhaustive:false when hit).
	QuickBudget, ThoroughBudget time.Duration
	// Pre runs once in the parent before the workers start.
	Pre func()
}

var Registry = map[string]*Check{}

func Register(c *Check) {
	if _, dup := Registry[c.ID]; dup {
		panic("duplicate check " + c.ID)
	}
	Registry[c.ID] = c
}

// ---------------------------------------------------------------------------------------------
// worker

type phaseRec struct {
	Name     string `json:"name"`
	Complete bool   `json:"complete"`
	Evals    int64  `json:"evals"`
}

type classRec struct {
	Count   int64  `json:"count"`
	Example []Fail `json:"example"` // up to 3 shortest
}

type WorkerOut struct {
	Shard       int                  `json:"shard"`
	Evals       int64                `json:"evals"`
	Nontrivial  int64                `json:"nontrivial"`
	States      int64                `json:"states"`
	Transitions int64                `json:"transitions"`
	Outcomes    []uint64             `json:"outcomes"`
	OutcomesCap bool                 `json:"outcomes_capped"`
	Phases      []phaseRec           `json:"phases"`
	Fails       map[string]*classRec `json:"fails"`
	Samples     []string             `json:"samples"`
	Extra       map[string]int64     `json:"extra"`
	Notes       map[string]string    `json:"notes"`
}

type W struct {
	C        *Check
	Tier     string
	Shard    int
	NShards  int
	Seed     int64
	deadline time.Time
	ctr      int64
	out      WorkerOut
	outcomes map[uint64]struct{}
	curPhase *phaseRec
	cur      []byte // mmap of current-input file
	curStart atomic.Int64
	curMu    sync.Mutex
	curInput string
	curOr    string
	aborted  bool
	slow     bool
}

const outcomeCap = 60000

type deadlineHit struct{}

func (w *W) Thorough() bool { return w.Tier == "thorough" }

// Pick returns q for quick, t for thorough.
func (w *W) Pick(q, t int) int {
	if w.Thorough() {
		return t
	}
	return q
}

// Phase runs one completely-enumerated level. If the deadline has passed the phase is skipped and
// recorded as incomplete; if it passes during the phase the phase is abandoned and recorded incomplete.
func (w *W) Phase(name string, f func()) {
	pr := phaseRec{Name: name}
	w.out.Phases = append(w.out.Phases, pr)
	idx := len(w.out.Phases) - 1
	if time.Now().After(w.deadline) {
		return
	}
	w.curPhase = &w.out.Phases[idx]
	func() {
		defer func() {
			if r := recover(); r != nil {
				if _, ok := r.(deadlineHit); ok {
					return
				}
				panic(r)
			}
		}()
		f()
		w.out.Phases[idx].Complete = true
	}()
	w.curPhase = nil
}

// Mine advances the item counter and tells whether this worker owns the item.
func (w *W) Mine() bool {
	w.ctr++
	return int((w.ctr+w.Seed)%int64(w.NShards)) == w.Shard
}

func (w *W) Count(key string, n int64) {
	if w.out.Extra == nil {
		w.out.Extra = map[string]int64{}
	}
	w.out.Extra[key] += n
}
func (w *W) Note(key, val string) {
	if w.out.Notes == nil {
		w.out.Notes = map[string]string{}
	}
	w.out.Notes[key] = val
}
func (w *W) State()      { w.out.States++ }
func (w *W) Transition() { w.out.Transitions++ }

// Eval runs oracle on input if this worker owns it.
func (w *W) Eval(oracle, input string) {
	if !w.Mine() {
		return
	}
	w.EvalMine(oracle, input)
}

// EvalMine runs the oracle unconditionally (caller did the sharding).
func (w *W) EvalMine(oracle, input string) *Fail {
	o := w.C.Oracles[oracle]
	if o == nil {
		panic("no oracle " + oracle + " in " + w.C.ID)
	}
	if w.curPhase != nil && (w.out.Evals&15 == 0 || w.slow) && time.Now().After(w.deadline) {
		panic(deadlineHit{})
	}
	t0 := time.Now()
	w.setCur(oracle, input)
	res := w.safe(o, input)
	w.curStart.Store(0)
	w.slow = time.Since(t0) > 5*time.Millisecond // slow oracles get a deadline check on every evaluation
	w.out.Evals++
	if w.curPhase != nil {
		w.curPhase.Evals++
	}
	if res.Nontrivial {
		w.out.Nontrivial++
	}
	if res.Outcome != "" && len(w.outcomes) < outcomeCap {
		h := fnv.New64a()
		h.Write([]byte(res.Outcome))
		w.outcomes[h.Sum64()] = struct{}{}
	}
	if n := w.out.Evals; n <= 3 || (n&(n-1)) == 0 && len(w.out.Samples) < 24 {
		w.out.Samples = append(w.out.Samples, clip(oracle+": "+input, 300))
	}
	if res.Fail != nil {
		res.Fail.Oracle = oracle
		if res.Fail.Witness == "" { // an oracle may name a different, self-contained input of its own (e.g. a longer history)
			res.Fail.Witness = input
		}
		w.addFail(*res.Fail)
		return res.Fail
	}
	return nil
}

func (w *W) addFail(f Fail) {
	if w.out.Fails == nil {
		w.out.Fails = map[string]*classRec{}
	}
	cr := w.out.Fails[f.Class]
	if cr == nil {
		cr = &classRec{}
		w.out.Fails[f.Class] = cr
	}
	cr.Count++
	f.Detail = clip(f.Detail, 4000)
	cr.Example = append(cr.Example, f)
	sort.SliceStable(cr.Example, func(i, j int) bool { return len(cr.Example[i].Witness) < len(cr.Example[j].Witness) })
	if len(cr.Example) > 3 {
		cr.Example = cr.Example[:3]
	}
}

func clip(s string, n int) string {
	if len(s) > n {
		return s[:n] + "…"
	}
	return s
}

func (w *W) setCur(oracle, input string) {
	w.curMu.Lock()
	w.curInput, w.curOr = input, oracle
	w.curMu.Unlock()
	w.curStart.Store(time.Now().UnixNano())
	if w.cur != nil {
		n := copy(w.cur[8:], oracle)
		w.cur[8+n] = 0
		m := copy(w.cur[8+n+1:], input)
		le := uint32(n)
		w.cur[0], w.cur[1] = byte(le), byte(le>>8)
		lm := uint32(m)
		w.cur[2], w.cur[3], w.cur[4], w.cur[5] = byte(lm), byte(lm>>8), byte(lm>>16), byte(lm>>24)
	}
}

// PanicSite extracts the first d2 (non-runtime, non-harness) frame of a stack.
func PanicSite(stack string) string {
	lines := strings.Split(stack, "\n")
	seenPanic := false
	for i := 0; i < len(lines); i++ {
		l := lines[i]
		if strings.HasPrefix(l, "panic(") {
			seenPanic = true
			continue
		}
		if !seenPanic || strings.HasPrefix(l, "\t") || strings.HasPrefix(l, "runtime.") || strings.HasPrefix(l, "runtime/") {
			continue
		}
		if p := strings.LastIndex(l, "("); p > 0 {
			l = l[:p]
		}
		if strings.HasPrefix(l, "verif/h/") {
			continue
		}
		return l
	}
	return "unknown"
}

func (w *W) safe(o Oracle, input string) (res Res) {
	defer func() {
		if r := recover(); r != nil {
			if _, ok := r.(deadlineHit); ok {
				panic(r)
			}
			st := string(debug.Stack())
			res = Bad("panic:"+PanicSite(st), fmt.Sprintf("%v\n%s", r, clip(st, 3000)))
		}
	}()
	return o(input)
}

// Scratch is the directory for files a run needs while it runs. A run against a build overlay gets one of its own, so
// that it cannot disturb a concurrent run of the same check against the plain tree (reference files, cursor files).
func Scratch() string {
	if os.Getenv("VERIF_OVERLAY") != "" {
		return filepath.Join(Root, ".scratch", "overlay-run", "scratch")
	}
	return filepath.Join(Root, ".scratch")
}

// runTag separates the cursor files of two runs of the same check that happen to run at the same time (the parent's
// pid, inherited by its workers through the environment).
var runTag = func() string {
	if t := os.Getenv("VERIF_RUN_TAG"); t != "" {
		return t
	}
	t := fmt.Sprint(os.Getpid())
	os.Setenv("VERIF_RUN_TAG", t)
	return t
}()

func curPath(id string, shard int) string {
	return filepath.Join(Scratch(), fmt.Sprintf("%s.%s.w%d.cur", id, runTag, shard))
}

const curSize = 1 << 20

// RunWorker is the entry point of a worker process.
func RunWorker(c *Check, tier string, shard, n int, seed int64, deadline time.Time) {
	w := &W{C: c, Tier: tier, Shard: shard, NShards: n, Seed: seed, deadline: deadline, outcomes: map[uint64]struct{}{}}
	w.out.Shard = shard
	os.MkdirAll(Scratch(), 0o755)
	if f, err := os.OpenFile(curPath(c.ID, shard), os.O_RDWR|os.O_CREATE|os.O_TRUNC, 0o644); err == nil {
		f.Truncate(curSize)
		if m, err := syscall.Mmap(int(f.Fd()), 0, curSize, syscall.PROT_READ|syscall.PROT_WRITE, syscall.MAP_SHARED); err == nil {
			w.cur = m
		}
		f.Close()
	}
	hb := c.HangBound
	if hb == 0 {
		hb = 120 * time.Second
	}
	go func() { // hang watchdog
		for {
			time.Sleep(time.Second)
			st := w.curStart.Load()
			if st != 0 && time.Since(time.Unix(0, st)) > hb {
				w.curMu.Lock()
				in, or := w.curInput, w.curOr
				w.curMu.Unlock()
				fmt.Fprintf(os.Stderr, "HANG oracle=%s input=%q\n", or, in)
				os.Exit(7)
			}
		}
	}()
	c.Run(w)
	for h := range w.outcomes {
		w.out.Outcomes = append(w.out.Outcomes, h)
	}
	w.out.OutcomesCap = len(w.outcomes) >= outcomeCap
	enc := json.NewEncoder(os.Stdout)
	if err := enc.Encode(&w.out); err != nil {
		fmt.Fprintln(os.Stderr, "encode:", err)
		os.Exit(2)
	}
}

// ---------------------------------------------------------------------------------------------
// parent

type Known struct {
	Property  string `json:"property"`
	Class     string `json:"class"`
	WitnessRe string `json:"witness_re,omitempty"`
	What      string `json:"what"`
	Status    string `json:"status,omitempty"` // "" = open finding; "fixed" = informational only
	Commit    string `json:"commit,omitempty"`
}

func LoadKnown(id string) []Known {
	var ks []Known
	b, err := os.ReadFile(filepath.Join(Root, "known_findings.jsonl"))
	if err != nil {
		return nil
	}
	for _, l := range strings.Split(string(b), "\n") {
		l = strings.TrimSpace(l)
		if l == "" || strings.HasPrefix(l, "#") {
			continue
		}
		var k Known
		if err := json.Unmarshal([]byte(l), &k); err != nil {
			fmt.Fprintln(os.Stderr, "known_findings.jsonl: bad line:", err)
			os.Exit(2)
		}
		if k.Property == id && k.Status != "fixed" {
			ks = append(ks, k)
		}
	}
	return ks
}

type Evidence struct {
	PropertyID  string         `json:"property_id"`
	Tier        string         `json:"tier"`
	Seed        int64          `json:"seed"`
	Level       string         `json:"level"`
	Coverage    map[string]any `json:"coverage"`
	Assumptions []string       `json:"assumptions"`
	WallS       float64        `json:"wall_s"`
	Violations  int            `json:"violations"`
}

// outRoot is where evidence and replay files go: the framework directory, except for a run against a build overlay
// (a candidate change to d2, not the tree under verification), whose files must not replace the real ones.
func outRoot() string {
	if os.Getenv("VERIF_OVERLAY") != "" {
		return filepath.Join(Root, ".scratch", "overlay-run")
	}
	return Root
}

func WriteEvidence(ev *Evidence) {
	os.MkdirAll(filepath.Join(outRoot(), "evidence"), 0o755)
	b, _ := json.MarshalIndent(ev, "", " ")
	p := filepath.Join(outRoot(), "evidence", ev.PropertyID+".json")
	if err := os.WriteFile(p+".tmp", append(b, '\n'), 0o644); err != nil {
		fmt.Fprintln(os.Stderr, err)
		os.Exit(2)
	}
	os.Rename(p+".tmp", p)
}

func WriteReplay(id string, f Fail) string {
	dir := filepath.Join(outRoot(), "replays", id)
	os.MkdirAll(dir, 0o755)
	b, _ := json.MarshalIndent(map[string]any{"property": id, "oracle": f.Oracle, "class": f.Class, "witness": f.Witness, "detail": f.Detail}, "", " ")
	s := sha256.Sum256([]byte(f.Oracle + "\x00" + f.Class + "\x00" + f.Witness))
	p := filepath.Join(dir, hex.EncodeToString(s[:6])+".json")
	os.WriteFile(p, append(b, '\n'), 0o644)
	return p
}

func envInt(k string, d int64) int64 {
	if v := os.Getenv(k); v != "" {
		if n, err := strconv.ParseInt(v, 10, 64); err == nil {
			return n
		}
	}
	return d
}

// Report decides exit status from merged failures: prints KNOWN-FINDING / VIOLATION lines.
// Returns number of unlisted violation classes.
func Report(id string, fails map[string]*classRec, coverage map[string]any) int {
	known := LoadKnown(id)
	classes := make([]string, 0, len(fails))
	for c := range fails {
		classes = append(classes, c)
	}
	sort.Strings(classes)
	viol := 0
	var kf []string
	for _, c := range classes {
		cr := fails[c]
		ex := cr.Example[0]
		matched := false
		for _, k := range known {
			if k.Class == c {
				matched = true
				fmt.Printf("KNOWN-FINDING: property=%s %s [class=%s inputs=%d e.g. %q]\n", id, k.What, c, cr.Count, clip(ex.Witness, 120))
				kf = append(kf, c)
				break
			}
		}
		if matched {
			continue
		}
		viol++
		p := WriteReplay(id, ex)
		fmt.Printf("VIOLATION property=%s replay=%s\n", id, p)
		fmt.Printf("  class=%s inputs=%d oracle=%s witness=%q\n  %s\n", c, cr.Count, ex.Oracle, clip(ex.Witness, 400), clip(strings.ReplaceAll(ex.Detail, "\n", "\n  "), 1500))
	}
	coverage["known_finding_classes"] = kf
	return viol
}

// RunParent spawns workers for c and merges their results. Returns the process exit code.
func RunParent(c *Check, tier string) int {
	start := time.Now()
	seed := envInt("VERIF_SEED", 0)
	budget := c.QuickBudget
	if tier == "thorough" {
		budget = c.ThoroughBudget
	}
	if budget == 0 {
		if tier == "thorough" {
			budget = 25 * time.Minute
		} else {
			budget = 100 * time.Second
		}
	}
	if v := envInt("VERIF_BUDGET_S", 0); v > 0 {
		budget = time.Duration(v) * time.Second
	}
	deadline := start.Add(budget)
	if c.Solo != nil {
		p := &Solo{C: c, Tier: tier, Seed: seed, Deadline: deadline, Start: start, Coverage: map[string]any{}, fails: map[string]*classRec{}}
		c.Solo(p)
		return p.finish()
	}
	if c.Pre != nil {
		c.Pre()
	}
	n := c.Workers
	if n == 0 {
		n = runtime.NumCPU()
	}
	if v := envInt("VERIF_WORKERS", 0); v > 0 {
		n = int(v)
	}
	self, _ := os.Executable()
	outs := make([]*WorkerOut, n)
	crashes := make([]string, n)
	var wg sync.WaitGroup
	for i := 0; i < n; i++ {
		wg.Add(1)
		go func(i int) {
			defer wg.Done()
			cmd := exec.Command(self, "--worker", fmt.Sprintf("%d/%d", i, n), "--tier", tier, "--deadline", strconv.FormatInt(deadline.UnixNano(), 10), "--seed", strconv.FormatInt(seed, 10), c.ID)
			var stdout, stderr strings.Builder
			cmd.Stdout, cmd.Stderr = &stdout, &stderr
			// one worker process per core: keep each worker's Go scheduler/GC from spreading over all cores
			if os.Getenv("GOMAXPROCS") == "" {
				cmd.Env = append(os.Environ(), "GOMAXPROCS=2")
			}
			err := cmd.Run()
			var wo WorkerOut
			if err == nil {
				if jerr := json.Unmarshal([]byte(stdout.String()), &wo); jerr == nil {
					outs[i] = &wo
					return
				} else {
					err = jerr
				}
			}
			crashes[i] = fmt.Sprintf("worker %d: %v\n%s", i, err, clip(tailStr(stderr.String(), 6000), 6000))
		}(i)
	}
	wg.Wait()

	merged := map[string]*classRec{}
	var evals, nontriv, states, trans int64
	outcomes := map[uint64]struct{}{}
	capped := false
	extra := map[string]int64{}
	notes := map[string]string{}
	var samples []any
	type pk struct {
		complete bool
		evals    int64
		seen     int
	}
	phases := map[string]*pk{}
	var phaseOrder []string
	harnessErr := false
	for i, wo := range outs {
		if wo == nil {
			// the worker died: the input in flight is in its cur file
			or, in := readCur(c.ID, i)
			st := crashes[i]
			class := "crash:" + crashSite(st)
			if strings.Contains(st, "HANG oracle=") {
				class = "hang"
			}
			if or == "" {
				fmt.Fprintf(os.Stderr, "HARNESS ERROR: %s\n", st)
				harnessErr = true
				continue
			}
			if c.DeathClass != nil {
				class = c.DeathClass(class, or, in)
			}
			f := Fail{Oracle: or, Class: class, Witness: in, Detail: st}
			cr := merged[class]
			if cr == nil {
				cr = &classRec{}
				merged[class] = cr
			}
			cr.Count++
			cr.Example = append(cr.Example, f)
			continue
		}
		evals += wo.Evals
		nontriv += wo.Nontrivial
		states += wo.States
		trans += wo.Transitions
		for _, h := range wo.Outcomes {
			outcomes[h] = struct{}{}
		}
		capped = capped || wo.OutcomesCap
		for k, v := range wo.Extra {
			extra[k] += v
		}
		for k, v := range wo.Notes {
			notes[k] = v
		}
		if i == 0 || len(samples) < 8 {
			for j, s := range wo.Samples {
				if j%4 == 0 && len(samples) < 16 {
					samples = append(samples, s)
				}
			}
		}
		for _, p := range wo.Phases {
			q := phases[p.Name]
			if q == nil {
				q = &pk{complete: true}
				phases[p.Name] = q
				phaseOrder = append(phaseOrder, p.Name)
			}
			q.complete = q.complete && p.Complete
			q.evals += p.Evals
			q.seen++
		}
		for cl, cr := range wo.Fails {
			m := merged[cl]
			if m == nil {
				m = &classRec{}
				merged[cl] = m
			}
			m.Count += cr.Count
			m.Example = append(m.Example, cr.Example...)
			sort.SliceStable(m.Example, func(a, b int) bool {
				if len(m.Example[a].Witness) != len(m.Example[b].Witness) {
					return len(m.Example[a].Witness) < len(m.Example[b].Witness)
				}
				return m.Example[a].Witness < m.Example[b].Witness
			})
			if len(m.Example) > 3 {
				m.Example = m.Example[:3]
			}
		}
	}
	exhaustive := !harnessErr
	var plist []map[string]any
	for _, name := range phaseOrder {
		q := phases[name]
		ok := q.complete && q.seen == n
		exhaustive = exhaustive && ok
		plist = append(plist, map[string]any{"phase": name, "complete": ok, "evaluations": q.evals})
	}
	cov := map[string]any{
		"evaluations":         evals,
		"distinct_nontrivial": nontriv,
		"rule":                c.Rule,
		"samples":             samples,
		"states":              states,
		"transitions":         trans,
		"outcome_classes":     len(outcomes),
		"outcome_classes_capped": capped,
		"phases":              plist,
		"exhaustive":          exhaustive,
		"workers":             n,
	}
	if c.Level == "model_checking" {
		cov["traces_validated_against_impl"] = evals
	}
	for k, v := range extra {
		cov[k] = v
	}
	for k, v := range notes {
		cov[k] = v
	}
	if len(samples) == 0 {
		cov["samples"] = []any{"(none)"}
	}
	viol := Report(c.ID, merged, cov)
	fc := map[string]int64{}
	for cl, cr := range merged {
		fc[cl] = cr.Count
	}
	cov["failure_classes"] = fc
	ev := &Evidence{PropertyID: c.ID, Tier: tier, Seed: seed, Level: c.Level, Coverage: cov, Assumptions: c.Assumptions, WallS: time.Since(start).Seconds(), Violations: viol}
	if ev.Assumptions == nil {
		ev.Assumptions = []string{}
	}
	WriteEvidence(ev)
	fmt.Printf("%s tier=%s evaluations=%d nontrivial=%d outcome_classes=%d exhaustive=%v violations=%d wall=%.1fs\n", c.ID, tier, evals, nontriv, len(outcomes), exhaustive, viol, ev.WallS)
	for _, p := range plist {
		fmt.Printf("  phase %-28v complete=%v evals=%v\n", p["phase"], p["complete"], p["evaluations"])
	}
	os.RemoveAll(filepath.Join(Scratch(), c.ID))
	for i := 0; i < n; i++ {
		os.Remove(curPath(c.ID, i))
	}
	if harnessErr {
		return 2
	}
	if viol > 0 {
		return 1
	}
	return 0
}

func tailStr(s string, n int) string {
	if len(s) > n {
		// keep head (panic message) and tail
		return s[:n/2] + "\n...\n" + s[len(s)-n/2:]
	}
	return s
}

func crashSite(stderr string) string {
	if strings.Contains(stderr, "stack overflow") || strings.Contains(stderr, "goroutine stack exceeds") {
		return "stack-overflow"
	}
	if strings.Contains(stderr, "out of memory") || strings.Contains(stderr, "cannot allocate") {
		return "out-of-memory"
	}
	if strings.Contains(stderr, "concurrent map") {
		return "concurrent-map-access"
	}
	if strings.Contains(stderr, "panic:") {
		return PanicSite(stderr[strings.Index(stderr, "panic:"):])
	}
	return "worker-died"
}

func readCur(id string, shard int) (oracle, input string) {
	b, err := os.ReadFile(curPath(id, shard))
	if err != nil || len(b) < 16 {
		return "", ""
	}
	n := int(b[0]) | int(b[1])<<8
	m := int(b[2]) | int(b[3])<<8 | int(b[4])<<16 | int(b[5])<<24
	if n == 0 || 8+n+1+m > len(b) {
		return "", ""
	}
	return string(b[8 : 8+n]), string(b[8+n+1 : 8+n+1+m])
}

// ---------------------------------------------------------------------------------------------
// Solo: checks that drive their own exploration (E2 scheduler, E3 crash points, E4 BFS).

type Solo struct {
	C        *Check
	Tier     string
	Seed     int64
	Deadline time.Time
	Start    time.Time
	Coverage map[string]any
	fails    map[string]*classRec
	mu       sync.Mutex
	HarnessErr string
}

func (p *Solo) Thorough() bool { return p.Tier == "thorough" }
func (p *Solo) Expired() bool  { return time.Now().After(p.Deadline) }
func (p *Solo) Fail(f Fail) {
	p.mu.Lock()
	defer p.mu.Unlock()
	cr := p.fails[f.Class]
	if cr == nil {
		cr = &classRec{}
		p.fails[f.Class] = cr
	}
	cr.Count++
	f.Detail = clip(f.Detail, 6000)
	cr.Example = append(cr.Example, f)
	sort.SliceStable(cr.Example, func(i, j int) bool { return len(cr.Example[i].Witness) < len(cr.Example[j].Witness) })
	if len(cr.Example) > 3 {
		cr.Example = cr.Example[:3]
	}
}
func (p *Solo) NFails() int { p.mu.Lock(); defer p.mu.Unlock(); return len(p.fails) }

func (p *Solo) finish() int {
	if p.HarnessErr != "" {
		fmt.Fprintln(os.Stderr, "HARNESS ERROR:", p.HarnessErr)
		return 2
	}
	cov := p.Coverage
	if _, ok := cov["rule"]; !ok {
		cov["rule"] = p.C.Rule
	}
	viol := Report(p.C.ID, p.fails, cov)
	fc := map[string]int64{}
	for cl, cr := range p.fails {
		fc[cl] = cr.Count
	}
	cov["failure_classes"] = fc
	ev := &Evidence{PropertyID: p.C.ID, Tier: p.Tier, Seed: p.Seed, Level: p.C.Level, Coverage: cov, Assumptions: p.C.Assumptions, WallS: time.Since(p.Start).Seconds(), Violations: viol}
	if ev.Assumptions == nil {
		ev.Assumptions = []string{}
	}
	WriteEvidence(ev)
	b, _ := json.Marshal(map[string]any{"evaluations": cov["evaluations"], "states": cov["states"], "transitions": cov["transitions"], "exhaustive": cov["exhaustive"]})
	fmt.Printf("%s tier=%s %s violations=%d wall=%.1fs\n", p.C.ID, p.Tier, b, viol, ev.WallS)
	if viol > 0 {
		return 1
	}
	return 0
}

// Replay re-executes one replay file without the explorer.
func Replay(path string) int {
	b, err := os.ReadFile(path)
	if err != nil {
		fmt.Fprintln(os.Stderr, err)
		return 2
	}
	var r struct{ Property, Oracle, Class, Witness string }
	if err := json.Unmarshal(b, &r); err != nil {
		fmt.Fprintln(os.Stderr, err)
		return 2
	}
	c := Registry[r.Property]
	if c == nil || c.Oracles[r.Oracle] == nil {
		fmt.Fprintf(os.Stderr, "no oracle %s/%s\n", r.Property, r.Oracle)
		return 2
	}
	w := &W{C: c, outcomes: map[uint64]struct{}{}}
	res := w.safe(c.Oracles[r.Oracle], r.Witness)
	if res.Fail != nil {
		fmt.Printf("VIOLATION property=%s replay=%s\n  class=%s\n  %s\n", r.Property, path, res.Fail.Class, res.Fail.Detail)
		return 1
	}
	fmt.Printf("replay %s: property holds on this input (outcome %s)\n", path, clip(res.Outcome, 200))
	return 0
}

// Internal holds helper sub-commands (child processes of Solo checks).
var Internal = map[string]func(args []string){}
