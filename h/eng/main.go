package eng

import (
	"flag"
	"fmt"
	"os"
	"sort"
	"strconv"
	"strings"
	"time"
)

// Main is the body of every group binary (cmd/h-<group>).
func Main() {
	worker := flag.String("worker", "", "i/n (internal)")
	tier := flag.String("tier", "", "quick|thorough")
	deadline := flag.Int64("deadline", 0, "internal")
	seed := flag.Int64("seed", 0, "internal")
	flag.Parse()
	args := flag.Args()
	if len(args) == 0 {
		fmt.Fprintln(os.Stderr, "usage: h [--tier quick|thorough] <id> | h replay <path> | h list")
		os.Exit(2)
	}
	if len(args) >= 3 && args[1] == "--tier" { // flags after the id
		*tier = args[2]
	}
	if *tier == "" {
		*tier = os.Getenv("VERIF_TIER")
	}
	if *tier == "" {
		*tier = "quick"
	}
	switch args[0] {
	case "list":
		var ids []string
		for id := range Registry {
			ids = append(ids, id)
		}
		sort.Strings(ids)
		fmt.Println(strings.Join(ids, "\n"))
		return
	case "replay":
		os.Exit(Replay(args[1]))
	}
	c := Registry[args[0]]
	if c == nil {
		if f := Internal[args[0]]; f != nil {
			f(args[1:])
			return
		}
		fmt.Fprintln(os.Stderr, "unknown check", args[0])
		os.Exit(2)
	}
	if *worker != "" {
		p := strings.Split(*worker, "/")
		i, _ := strconv.Atoi(p[0])
		n, _ := strconv.Atoi(p[1])
		RunWorker(c, *tier, i, n, *seed, time.Unix(0, *deadline))
		return
	}
	os.Exit(RunParent(c, *tier))
}
