//go:build verif

package main

import (
	"bytes"
	"context"
	"crypto/sha256"
	"encoding/base64"
	"errors"
	"fmt"
	"io"
	"net/http"
	"os"
	"path/filepath"
	"sort"
	"strings"

	"oss.terrastruct.com/d2/lib/imgbundler"
	"oss.terrastruct.com/d2/lib/simplelog"
	"verif/h/sched/instmain"
	"verif/h/vsched"
)

type c46Ref struct {
	idx     int
	href    string // as written in the SVG
	content []byte
	mime    string // expected MIME type in the data URI
	ctype   string // Content-Type header served in remote mode ("" = none: the bundler sniffs)
	fail    bool
}

type Params = instmain.Params

func main() { instmain.Main(map[string]instmain.BodyFunc{"c46": c46Body}) }

func c46Refs(p Params) []c46Ref {
	names := []string{"img0.png", "aimg0.png", "img2.svg"}
	var refs []c46Ref
	for k := 0; k < p.N; k++ {
		name := fmt.Sprintf("r%d.png", k)
		if p.N <= 3 {
			name = names[k]
		}
		r := c46Ref{idx: k, href: name, fail: p.Fail&(1<<k) != 0}
		if strings.HasSuffix(name, ".svg") {
			r.content = []byte(fmt.Sprintf(`<svg xmlns="http://www.w3.org/2000/svg"><rect width="%d"/></svg>`, k+1))
			r.mime = "image/svg+xml"
		} else {
			r.content = append([]byte("\x89PNG\r\n\x1a\n"), []byte(fmt.Sprintf("payload-%d", k))...)
			r.mime = "image/png"
			if k%2 == 0 {
				r.ctype = "image/png"
			}
		}
		if p.Remote {
			r.href = "http://img.test/" + name
		}
		refs = append(refs, r)
	}
	return refs
}

// c46SVG builds the document: every reference once, plus (variant "mixed") a duplicate of the first
// reference, an already bundled data: URI, a reference of the other kind (remote in a local run and
// vice versa), and text nodes that contain reference strings outside of an image element.
func c46SVG(p Params, refs []c46Ref) []byte {
	var b strings.Builder
	b.WriteString(`<svg xmlns="http://www.w3.org/2000/svg">` + "\n")
	for _, r := range refs {
		fmt.Fprintf(&b, `<image href="%s" x="%d" width="10"/>`+"\n", r.href, r.idx)
		if r.idx == 0 && p.Variant == "mixed" {
			fmt.Fprintf(&b, "<text>%s</text>\n", r.href)
			b.WriteString(`<image href="data:image/png;base64,AAAA" y="1"/>` + "\n")
		}
	}
	if p.Variant == "mixed" {
		fmt.Fprintf(&b, `<g><image href="%s" y="2"/></g>`+"\n", refs[0].href)
		other := "http://other.test/x.png"
		if p.Remote {
			other = "local-x.png"
		}
		fmt.Fprintf(&b, `<image href="%s" y="3"/><text>tail %s</text>`+"\n", other, other)
	}
	b.WriteString("</svg>\n")
	return []byte(b.String())
}

// c46Reference is the sequential specification: one left-to-right pass that substitutes every
// eligible, loadable reference by its data URI and leaves every other byte alone.
func c46Reference(svg string, refs []c46Ref, remote bool) (string, []string) {
	byHref := map[string]c46Ref{}
	for _, r := range refs {
		byHref[r.href] = r
	}
	const pat = `<image href="`
	var out strings.Builder
	failing := map[string]bool{}
	i := 0
	for {
		j := strings.Index(svg[i:], pat)
		if j < 0 {
			out.WriteString(svg[i:])
			break
		}
		j += i
		hs := j + len(pat)
		k := strings.IndexByte(svg[hs:], '"')
		if k <= 0 {
			out.WriteString(svg[i:])
			break
		}
		href := svg[hs : hs+k]
		isHTTP := strings.HasPrefix(href, "http://") || strings.HasPrefix(href, "https://")
		eligible := !strings.HasPrefix(href, "data:") && isHTTP == remote
		r, known := byHref[href]
		out.WriteString(svg[i:j])
		switch {
		case eligible && known && !r.fail:
			out.WriteString(pat + "data:" + r.mime + ";base64," + base64.StdEncoding.EncodeToString(r.content) + `"`)
		default:
			if eligible {
				failing[href] = true
			}
			out.WriteString(svg[j : hs+k+1])
		}
		i = hs + k + 1
	}
	var fs []string
	for h := range failing {
		fs = append(fs, h)
	}
	sort.Strings(fs)
	return out.String(), fs
}

type c46RT struct{ refs map[string]c46Ref }

func (f c46RT) RoundTrip(req *http.Request) (*http.Response, error) {
	vsched.Yield("http.RoundTrip")
	if err := req.Context().Err(); err != nil {
		return nil, err
	}
	r, ok := f.refs[req.URL.String()]
	resp := func(code int, ctype string, body []byte) *http.Response {
		h := http.Header{}
		if ctype != "" {
			h.Set("Content-Type", ctype)
		}
		return &http.Response{StatusCode: code, Status: fmt.Sprintf("%d %s", code, http.StatusText(code)), Proto: "HTTP/1.1", ProtoMajor: 1, ProtoMinor: 1,
			Header: h, Body: io.NopCloser(bytes.NewReader(body)), ContentLength: int64(len(body)), Request: req}
	}
	switch {
	case !ok:
		return resp(404, "text/plain", []byte("not found")), nil
	case r.fail && r.idx%2 == 0:
		return resp(404, "text/plain", []byte("not found")), nil
	case r.fail:
		return nil, errors.New("fake transport: connection refused")
	}
	return resp(200, r.ctype, r.content), nil
}

func c46Body(p Params) (func(), func()) {
	refs := c46Refs(p)
	svg := c46SVG(p, refs)
	want, wantFail := c46Reference(string(svg), refs, p.Remote)
	input := "-"
	if p.Remote {
		m := map[string]c46Ref{}
		for _, r := range refs {
			m[r.href] = r
		}
		imgbundler.VerifSetTransport(c46RT{m})
	} else {
		if p.Dir == "" {
			vsched.HarnessError("c46: no scratch directory")
		}
		os.MkdirAll(p.Dir, 0o755)
		for _, r := range refs {
			fp := filepath.Join(p.Dir, r.href)
			os.Remove(fp)
			if !r.fail {
				if err := os.WriteFile(fp, r.content, 0o644); err != nil {
					vsched.HarnessError("c46: %v", err)
				}
			}
		}
		input = filepath.Join(p.Dir, "in.d2")
	}
	l := simplelog.Make(nil, nil, nil)
	body := func() {
		in := append([]byte(nil), svg...)
		var out []byte
		var err error
		if p.Remote {
			out, err = imgbundler.BundleRemote(context.Background(), l, in, p.Cache)
		} else {
			out, err = imgbundler.BundleLocal(context.Background(), l, input, in, p.Cache)
		}
		vsched.Quiesce()
		if live := vsched.LiveThreads(); len(live) > 0 {
			vsched.Failf("goroutine-leak-after-bundle:"+strings.Join(uniq(live), ","), "still alive after the bundle call returned and everything else quiesced: %s", vsched.LiveDesc())
		}
		var got []string
		if err != nil {
			msg := err.Error()
			a, b := strings.LastIndexByte(msg, '['), strings.LastIndexByte(msg, ']')
			wantPrefix := "failed to bundle local images: "
			if p.Remote {
				wantPrefix = "failed to bundle remote images: "
			}
			if a < 0 || b < a || !strings.HasPrefix(msg, wantPrefix) {
				vsched.Failf("unexpected-error-shape", "error %q", msg)
			} else {
				got = strings.Fields(msg[a+1 : b])
				sort.Strings(got)
			}
		}
		if string(out) != want {
			vsched.Failf("output-differs-from-sequential-reference", "failing mask %b\n got: %q\nwant: %q", p.Fail, clipS(string(out), 1200), clipS(want, 1200))
		}
		if fmt.Sprint(got) != fmt.Sprint(wantFail) {
			cls := "reported-failing-set-differs"
			if len(got) < len(wantFail) {
				cls += ":missing-entries"
			} else if len(got) > len(wantFail) {
				cls += ":extra-entries"
			}
			vsched.Failf(cls, "reported %v, actually failing %v (error: %v)", got, wantFail, err)
		}
		h := sha256.Sum256(out)
		vsched.SetOutcome(fmt.Sprintf("out=%x err=%v", h[:6], got))
	}
	return body, imgbundler.VerifReset
}

func uniq(s []string) []string {
	sort.Strings(s)
	var o []string
	for i, x := range s {
		if i == 0 || x != s[i-1] {
			o = append(o, x)
		}
	}
	return o
}

func clipS(s string, n int) string {
	if len(s) > n {
		return s[:n] + "…"
	}
	return s
}
