// Package sched holds the checks of group "sched": C44, C45 (watch server) and C46 (image bundler),
// all on engine E2 (vsched + vinstr): the current watch.go / imgbundler.go are rewritten at check time,
// an instrumented binary is built with `go build -overlay`, and the schedule explorer runs inside it.
package sched

import (
	"bytes"
	"encoding/json"
	"fmt"
	"os"
	"os/exec"
	"path/filepath"
	"sort"
	"strings"
	"sync"

	"verif/h/eng"
	"verif/h/vinstr"
)

const modDir = "/verif/h"

func goBin() string {
	if g := os.Getenv("GO"); g != "" {
		return g
	}
	return "/root/go/pkg/mod/golang.org/toolchain@v0.0.1-go1.25.0.linux-amd64/bin/go"
}

func goEnv(race bool) []string {
	env := os.Environ()
	set := func(k, v string) {
		for i, e := range env {
			if strings.HasPrefix(e, k+"=") {
				env[i] = k + "=" + v
				return
			}
		}
		env = append(env, k+"="+v)
	}
	set("GOFLAGS", "-mod=mod")
	set("GOPROXY", "off")
	set("GOTOOLCHAIN", "local")
	set("GOSUMDB", "off")
	if race {
		set("CGO_ENABLED", "1")
	} else {
		set("CGO_ENABLED", "0")
	}
	return env
}

type target struct {
	mainPkg   string // instrumented main package built for this target
	pkg, file string
	glueSrc   string // glue file in this repository
	glueDst   string // where the overlay places it
	renames   map[string]string
	sites     []string // go-statement sites the harnesses rely on
}

var importMap = map[string]string{
	"sync":                                 "verif/h/vsched/vsync",
	"time":                                 "verif/h/vsched/vtime",
	"context":                              "verif/h/vsched/vcontext",
	"github.com/coder/websocket":           "verif/h/vsched/fake/websocket",
	"github.com/coder/websocket/wsjson":    "verif/h/vsched/fake/wsjson",
	"github.com/fsnotify/fsnotify":         "verif/h/vsched/fake/fsnotify",
	"oss.terrastruct.com/util-go/xbrowser": "verif/h/vsched/fake/xbrowser",
}

const (
	tWatch   = 0
	tBundler = 1
)

var targets = []target{
	{mainPkg: "./sched/instw", pkg: "oss.terrastruct.com/d2/d2cli", file: "/repo/d2cli/watch.go",
		glueSrc: "/verif/h/sched/glue/d2cli/zz_verif_glue.go", glueDst: "/repo/d2cli/zz_verif_glue.go",
		renames: map[string]string{"compile": "verifCompile", "net.Listen": "verifListen"},
		sites:   []string{"watcher.handleWatch#0", "watcher.handleWatch#1", "watcher.goFunc#0"}},
	{mainPkg: "./sched/inst46", pkg: "oss.terrastruct.com/d2/lib/imgbundler", file: "/repo/lib/imgbundler/imgbundler.go",
		glueSrc: "/verif/h/sched/glue/imgbundler/zz_verif_glue.go", glueDst: "/repo/lib/imgbundler/zz_verif_glue.go",
		renames: map[string]string{"os.ReadFile": "verifReadFile"},
		sites:   []string{"runWorkers#0", "runWorkers#1", "runWorkers#2"}},
}

type built struct {
	dir     string
	bin     string
	reports []*vinstr.Report
}

type harnessError struct{ msg string }

func (e *harnessError) Error() string { return e.msg }

func userOverlay() (map[string]string, string, error) {
	p := os.Getenv("VERIF_OVERLAY")
	if p == "" {
		return map[string]string{}, "", nil
	}
	b, err := os.ReadFile(p)
	if err != nil {
		return nil, "", fmt.Errorf("VERIF_OVERLAY: %v", err)
	}
	var o struct{ Replace map[string]string }
	if err := json.Unmarshal(b, &o); err != nil {
		return nil, "", fmt.Errorf("VERIF_OVERLAY %s: %v", p, err)
	}
	if o.Replace == nil {
		o.Replace = map[string]string{}
	}
	return o.Replace, p, nil
}

var buildMu sync.Mutex

// prepare rewrites the current sources, merges the overlays and builds the instrumented binary.
// race=true builds the pass-through binary with the race detector.
func prepare(dir string, race bool, ti int) (*built, error) {
	buildMu.Lock()
	defer buildMu.Unlock()
	if err := os.MkdirAll(dir, 0o755); err != nil {
		return nil, err
	}
	uo, uoFile, err := userOverlay()
	if err != nil {
		return nil, err
	}
	merged := map[string]string{}
	for k, v := range uo {
		merged[k] = v
	}
	b := &built{dir: dir}
	for _, t := range targets[ti : ti+1] {
		out, rep, err := vinstr.Rewrite(vinstr.Config{GoBin: goBin(), ModDir: modDir, PkgPath: t.pkg, File: t.file, Overlay: uo, OverlayFile: uoFile,
			ImportMap: importMap, RenameCalls: t.renames})
		if err != nil {
			return nil, err
		}
		have := map[string]bool{}
		for _, s := range rep.GoSites {
			have[s] = true
		}
		for _, s := range t.sites {
			if !have[s] {
				return nil, fmt.Errorf("%s no longer has the go statement %q the harness identifies threads by (found %v): the harness must be adapted", t.file, s, rep.GoSites)
			}
		}
		dst := filepath.Join(dir, filepath.Base(t.file))
		if err := os.WriteFile(dst, out, 0o644); err != nil {
			return nil, err
		}
		merged[t.file] = dst
		merged[t.glueDst] = t.glueSrc
		b.reports = append(b.reports, rep)
	}
	ob, _ := json.MarshalIndent(map[string]any{"Replace": merged}, "", " ")
	ovPath := filepath.Join(dir, "overlay.json")
	if err := os.WriteFile(ovPath, ob, 0o644); err != nil {
		return nil, err
	}
	b.bin = filepath.Join(dir, "inst")
	args := []string{"build", "-tags", "verif", "-overlay", ovPath}
	if race {
		b.bin += "-race"
		args = append(args, "-race")
	}
	args = append(args, "-o", b.bin, targets[ti].mainPkg)
	cmd := exec.Command(goBin(), args...)
	cmd.Dir = modDir
	cmd.Env = goEnv(race)
	var se bytes.Buffer
	cmd.Stderr = &se
	cmd.Stdout = &se
	if err := cmd.Run(); err != nil {
		return nil, fmt.Errorf("building the instrumented binary failed (race=%v): %v\n%s", race, err, clipTail(se.String(), 4000))
	}
	return b, nil
}

func clipTail(s string, n int) string {
	if len(s) > n {
		return s[:n] + "…"
	}
	return s
}

func reportSummary(reps []*vinstr.Report) []string {
	var out []string
	for _, r := range reps {
		var ks []string
		for k, v := range r.Counts {
			ks = append(ks, fmt.Sprintf("%s=%d", k, v))
		}
		sort.Strings(ks)
		out = append(out, filepath.Base(r.File)+" (from "+r.Source+"): "+strings.Join(ks, " "))
	}
	return out
}

func init() {
	// `h-sched sched-rewrite <dir>`: write the rewritten files and the overlay (debugging aid)
	eng.Internal["sched-rewrite"] = func(args []string) {
		dir := "/verif/.scratch/sched-dev/rw"
		if len(args) > 0 {
			dir = args[0]
		}
		for ti := range targets {
			b, err := prepare(filepath.Join(dir, fmt.Sprint(ti)), false, ti)
			if err != nil {
				fmt.Fprintln(os.Stderr, "HARNESS ERROR:", err)
				os.Exit(2)
			}
			for _, l := range reportSummary(b.reports) {
				fmt.Println(l)
			}
			fmt.Println("binary:", b.bin)
		}
	}
}
