//go:build verif

// Command inst is the instrumented test binary of group "sched". It is built at check time with
// `go build -tags verif -overlay …` against the rewritten watch.go / imgbundler.go and runs the
// schedule explorer (or, built with -race, the free-running pass) on one closed system ("job").
package main

import (
	"encoding/json"
	"fmt"
	"os"
	"runtime"
	"time"

	"verif/h/vsched"
)

// Job selects a closed system and the exploration bounds.
type Job struct {
	Harness   string `json:"harness"` // c44 | c45 | c46
	Name      string `json:"name"`
	P         Params `json:"p"`
	Bounds    []int  `json:"bounds"`
	Prune     bool   `json:"prune"`
	EnvBudget int    `json:"env_budget"`
	Horizon   int    `json:"horizon"`
	Deadline  int64  `json:"deadline_unix_nano"`
	RaceRuns  int    `json:"race_runs"`
	Choices   []int  `json:"choices,omitempty"` // replay
}

type Params struct {
	// C44 / C45
	Changes     int  `json:"changes,omitempty"`
	Clients     int  `json:"clients,omitempty"`
	WriteFail   bool `json:"write_fail,omitempty"`
	Gone        bool `json:"gone,omitempty"`
	AcceptFail  bool `json:"accept_fail,omitempty"`
	PingFail    bool `json:"ping_fail,omitempty"`
	Broadcast   bool `json:"broadcast,omitempty"`
	DoubleClose bool `json:"double_close,omitempty"`
	WatchLoop   bool `json:"watch_loop,omitempty"`
	// C46
	Remote  bool   `json:"remote,omitempty"`
	N       int    `json:"n,omitempty"`
	Fail    int    `json:"fail,omitempty"` // bit mask of failing references
	Cache   bool   `json:"cache,omitempty"`
	Variant string `json:"variant,omitempty"`
	Dir     string `json:"dir,omitempty"`
}

func body(j *Job) (func(), func()) {
	switch j.Harness {
	case "c44":
		return c44Body(j.P), nil
	case "c45":
		return c45Body(j.P), nil
	case "c46":
		return c46Body(j.P)
	}
	fmt.Fprintln(os.Stderr, "HARNESS ERROR: unknown harness", j.Harness)
	os.Exit(2)
	return nil, nil
}

func main() {
	if len(os.Args) < 2 {
		fmt.Fprintln(os.Stderr, "usage: inst selftest | explore <job> | replay <job> | race <job>")
		os.Exit(2)
	}
	if os.Args[1] == "selftest" {
		if bad := vsched.SelfTest(); len(bad) > 0 {
			for _, b := range bad {
				fmt.Fprintln(os.Stderr, "HARNESS ERROR: explorer self-test:", b)
			}
			os.Exit(2)
		}
		fmt.Println("ok")
		return
	}
	var j Job
	if err := json.Unmarshal([]byte(os.Args[2]), &j); err != nil {
		fmt.Fprintln(os.Stderr, "HARNESS ERROR: bad job:", err)
		os.Exit(2)
	}
	b, reset := body(&j)
	if os.Args[1] != "race" {
		// one P: thread hand-offs never have to wake another OS thread (20x faster on a loaded machine)
		runtime.GOMAXPROCS(1)
	}
	switch os.Args[1] {
	case "explore":
		x := &vsched.Explorer{Name: j.Name, Body: b, Reset: reset, Bounds: j.Bounds, Prune: j.Prune, EnvBudget: j.EnvBudget, Horizon: j.Horizon}
		if j.Deadline > 0 {
			x.Deadline = time.Unix(0, j.Deadline)
		}
		res := x.Explore()
		json.NewEncoder(os.Stdout).Encode(res)
	case "replay":
		x := &vsched.Explorer{Name: j.Name, Body: b, Reset: reset, EnvBudget: j.EnvBudget, Horizon: j.Horizon}
		fails, outcome, trace := x.Replay(j.Choices)
		json.NewEncoder(os.Stdout).Encode(map[string]any{"fails": fails, "outcome": outcome, "trace": trace})
	case "race":
		vsched.SetPassthrough(true)
		n := j.RaceRuns
		if n == 0 {
			n = 50
		}
		for k := 0; k < n; k++ {
			vsched.SetPassthroughRun(uint64(k))
			if reset != nil {
				reset()
			}
			b()
		}
		time.Sleep(5 * time.Millisecond)
		fmt.Printf("{\"runs\": %d}\n", n)
	default:
		fmt.Fprintln(os.Stderr, "HARNESS ERROR: unknown mode", os.Args[1])
		os.Exit(2)
	}
}
