// Package instmain is the command-line front end shared by the instrumented test binaries of group
// "sched" (inst46: image bundler, instw: watch server). Those binaries are built at check time with
// `go build -tags verif -overlay …` against the rewritten sources and run the schedule explorer (or,
// built with -race, the free-running pass) on one closed system ("job").
package instmain

import (
	"encoding/json"
	"fmt"
	"os"
	"runtime"
	"time"

	"verif/h/vsched"
)

// Job selects a closed system and the exploration bounds.
type Job struct {
	Harness   string `json:"harness"` // c44 | c45 | c46
	Name      string `json:"name"`
	P         Params `json:"p"`
	Bounds    []int  `json:"bounds,omitempty"`
	Prune     bool   `json:"prune,omitempty"`
	EnvBudget int    `json:"env_budget,omitempty"`
	Horizon   int    `json:"horizon,omitempty"`
	Deadline  int64  `json:"deadline_unix_nano,omitempty"`
	RaceRuns  int    `json:"race_runs,omitempty"`
	NoPolling bool   `json:"no_polling,omitempty"`
	Deviation bool   `json:"deviation_bounding,omitempty"`
	Shard     int    `json:"shard,omitempty"`
	NShards   int    `json:"nshards,omitempty"`
	Choices   []int  `json:"choices,omitempty"` // replay

	Distinct1 bool `json:"-"` // C46: every schedule of this configuration must give the same outcome
	Shards    int  `json:"-"` // driver only: explore this system with that many processes (see vsched.Explorer.Shard)
}

type Params struct {
	// C44 / C45
	Changes     int  `json:"changes,omitempty"`
	Clients     int  `json:"clients,omitempty"`
	WriteFail   bool `json:"write_fail,omitempty"`
	Gone        bool `json:"gone,omitempty"`
	AcceptFail  bool `json:"accept_fail,omitempty"`
	PingFail    bool `json:"ping_fail,omitempty"`
	Broadcast   bool `json:"broadcast,omitempty"`
	DoubleClose bool `json:"double_close,omitempty"`
	WatchLoop   bool `json:"watch_loop,omitempty"`
	// C46
	Remote  bool   `json:"remote,omitempty"`
	N       int    `json:"n,omitempty"`
	Fail    int    `json:"fail,omitempty"` // bit mask of failing references
	Cache   bool   `json:"cache,omitempty"`
	Variant string `json:"variant,omitempty"`
	Dir     string `json:"dir,omitempty"`
}

// BodyFunc builds the harness body (and an optional between-executions reset) for a configuration.
type BodyFunc func(p Params) (body func(), reset func())

func Main(bodies map[string]BodyFunc) {
	if len(os.Args) < 2 {
		fmt.Fprintln(os.Stderr, "usage: inst selftest | explore <job> | replay <job> | race <job>")
		os.Exit(2)
	}
	if os.Args[1] == "selftest" {
		runtime.GOMAXPROCS(1)
		if bad := vsched.SelfTest(); len(bad) > 0 {
			for _, b := range bad {
				fmt.Fprintln(os.Stderr, "HARNESS ERROR: explorer self-test:", b)
			}
			os.Exit(2)
		}
		fmt.Println("ok")
		return
	}
	if len(os.Args) < 3 {
		fmt.Fprintln(os.Stderr, "HARNESS ERROR: missing job")
		os.Exit(2)
	}
	var j Job
	if err := json.Unmarshal([]byte(os.Args[2]), &j); err != nil {
		fmt.Fprintln(os.Stderr, "HARNESS ERROR: bad job:", err)
		os.Exit(2)
	}
	bf := bodies[j.Harness]
	if bf == nil {
		fmt.Fprintln(os.Stderr, "HARNESS ERROR: this binary has no harness", j.Harness)
		os.Exit(2)
	}
	b, reset := bf(j.P)
	if os.Args[1] != "race" {
		// one P: thread hand-offs never have to wake another OS thread (much faster on a loaded machine)
		runtime.GOMAXPROCS(1)
	}
	switch os.Args[1] {
	case "explore":
		x := &vsched.Explorer{Name: j.Name, Body: b, Reset: reset, Bounds: j.Bounds, Prune: j.Prune, EnvBudget: j.EnvBudget, Horizon: j.Horizon, NoPolling: j.NoPolling, EveryDeviationCosts: j.Deviation, Shard: j.Shard, NShards: j.NShards, SplitDepth: 7}
		if j.Deadline > 0 {
			x.Deadline = time.Unix(0, j.Deadline)
		}
		json.NewEncoder(os.Stdout).Encode(x.Explore())
	case "replay":
		x := &vsched.Explorer{Name: j.Name, Body: b, Reset: reset, EnvBudget: j.EnvBudget, Horizon: j.Horizon, NoPolling: j.NoPolling, EveryDeviationCosts: j.Deviation}
		fails, outcome, trace := x.Replay(j.Choices)
		json.NewEncoder(os.Stdout).Encode(map[string]any{"fails": fails, "outcome": outcome, "trace": trace})
	case "race":
		vsched.SetPassthrough(true)
		n := j.RaceRuns
		if n == 0 {
			n = 50
		}
		for k := 0; k < n; k++ {
			vsched.SetPassthroughRun(uint64(k))
			if reset != nil {
				reset()
			}
			b()
		}
		time.Sleep(5 * time.Millisecond)
		fmt.Printf("{\"runs\": %d}\n", n)
	default:
		fmt.Fprintln(os.Stderr, "HARNESS ERROR: unknown mode", os.Args[1])
		os.Exit(2)
	}
}
