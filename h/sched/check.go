package sched

import (
	"bytes"
	"encoding/json"
	"fmt"
	"os"
	"os/exec"
	"path/filepath"
	"regexp"
	"runtime"
	"sort"
	"strconv"
	"strings"
	"sync"
	"time"

	"verif/h/eng"
	"verif/h/sched/instmain"
)

type Job = instmain.Job
type Params = instmain.Params

type failRec struct {
	Class   string   `json:"class"`
	Detail  string   `json:"detail"`
	Choices []int    `json:"choices"`
	Trace   []string `json:"trace"`
	Replays int      `json:"replays_identical"`
}

type boundRec struct {
	Bound      string `json:"bound"`
	Executions int64  `json:"executions"`
	States     int64  `json:"states"`
	Complete   bool   `json:"complete"`
}

type result struct {
	Name           string           `json:"name"`
	Executions     int64            `json:"executions"`
	NovelExecs     int64            `json:"novel_executions"`
	States         int64            `json:"states"`
	Transitions    int64            `json:"transitions"`
	BoundCompleted string           `json:"bound_completed"`
	PerBound       []boundRec       `json:"per_bound"`
	Exhaustive     bool             `json:"exhaustive"`
	Outcomes       map[string]int64 `json:"outcomes"`
	Fails          []failRec        `json:"fails"`
	FailCounts     map[string]int64 `json:"fail_counts"`
	Samples        [][]int          `json:"samples"`
	ReplaysChecked int64            `json:"replays_checked"`
	MaxDepth       int              `json:"max_depth"`
	MaxThreads     int              `json:"max_threads"`
	WallMS         int64            `json:"wall_ms"`
}

type witness struct {
	Job     Job   `json:"job"`
	Choices []int `json:"choices"`
}

func nworkers() int {
	if v, err := strconv.Atoi(os.Getenv("VERIF_WORKERS")); err == nil && v > 0 {
		return v
	}
	return runtime.NumCPU()
}

func runInst(bin string, mode string, j Job, env []string, timeout time.Duration) (stdout, stderr string, err error) {
	jb, _ := json.Marshal(j)
	cmd := exec.Command(bin, mode, string(jb))
	var so, se bytes.Buffer
	cmd.Stdout, cmd.Stderr = &so, &se
	if env != nil {
		cmd.Env = env
	}
	if err := cmd.Start(); err != nil {
		return "", "", err
	}
	done := make(chan error, 1)
	go func() { done <- cmd.Wait() }()
	select {
	case err = <-done:
	case <-time.After(timeout):
		cmd.Process.Kill()
		<-done
		err = fmt.Errorf("timeout after %v", timeout)
	}
	return so.String(), se.String(), err
}

type spec struct {
	id       string
	jobs     func(thorough bool, dir string, noPoll map[string]bool) []Job
	raceJobs func(dir string) []Job
	raceRuns int
	target   int
}

func boundLabel(rs []*result) string {
	// the weakest completed bound over all closed systems
	order := map[string]int{"none": -1, "unbounded": 1 << 30}
	min, label := 1<<31, "none"
	for _, r := range rs {
		v, ok := order[r.BoundCompleted]
		if !ok {
			v, _ = strconv.Atoi(r.BoundCompleted)
		}
		if v < min {
			min, label = v, r.BoundCompleted
		}
	}
	return label
}

var raceHdr = regexp.MustCompile(`(?m)^WARNING: DATA RACE`)
var raceFrame = regexp.MustCompile(`(?m)^  ([A-Za-z0-9_./*()\-]+)\(\)\n      (\S+):\d+`)

// raceClass names a race report by the first non-runtime, non-harness frames of its two accesses.
func raceClass(report string) string {
	blocks := strings.Split(report, "\n\n")
	var sites []string
	for _, b := range blocks {
		if !(strings.Contains(b, "Write at") || strings.Contains(b, "Read at") || strings.Contains(b, "Previous write at") || strings.Contains(b, "Previous read at")) {
			continue
		}
		for _, m := range raceFrame.FindAllStringSubmatch(b, -1) {
			fn := m[1]
			if strings.HasPrefix(fn, "runtime.") || strings.HasPrefix(fn, "verif/h/vsched") || strings.HasPrefix(fn, "sync.") || strings.HasPrefix(fn, "sync/") {
				continue
			}
			sites = append(sites, fn)
			break
		}
		if len(sites) == 2 {
			break
		}
	}
	sort.Strings(sites)
	if len(sites) == 0 {
		return "data-race:unknown-site"
	}
	return "data-race:" + strings.Join(sites, "~")
}

func firstRaceReport(stderr string) string {
	loc := raceHdr.FindStringIndex(stderr)
	if loc == nil {
		return ""
	}
	rest := stderr[loc[0]:]
	if i := strings.Index(rest, "\n=================="); i > 0 {
		rest = rest[:i]
	}
	return rest
}

func runSpec(p *eng.Solo, sp spec) {
	dir := filepath.Join(eng.Scratch(), sp.id)
	os.RemoveAll(dir)
	defer os.RemoveAll(dir)
	t0 := time.Now()
	b, err := prepare(dir, false, sp.target)
	if err != nil {
		p.HarnessErr = err.Error()
		return
	}
	buildS := time.Since(t0).Seconds()
	if out, se, err := runInst(b.bin, "selftest", Job{}, nil, 5*time.Minute); err != nil || strings.TrimSpace(out) != "ok" {
		p.HarnessErr = fmt.Sprintf("explorer self-test failed: %v\n%s%s", err, out, se)
		return
	}
	noPoll := map[string]bool{}
	for _, r := range b.reports {
		noPoll[filepath.Base(r.File)] = r.Counts["select-default"] == 0
	}
	var jobs []Job
	for _, j := range sp.jobs(p.Thorough(), dir, noPoll) {
		if j.Shards <= 1 {
			jobs = append(jobs, j)
			continue
		}
		for i := 0; i < j.Shards; i++ {
			k := j
			k.Shard, k.NShards = i, j.Shards
			k.Name = fmt.Sprintf("%s [shard %d/%d]", j.Name, i+1, j.Shards)
			if k.P.Dir != "" {
				k.P.Dir = fmt.Sprintf("%s-shard%d", k.P.Dir, i) // every process writes its own image files
			}
			jobs = append(jobs, k)
		}
	}
	// reserve time for the race pass at the end
	total := time.Until(p.Deadline)
	reserve := total / 4
	if reserve > 150*time.Second {
		reserve = 150 * time.Second
	}
	exploreDeadline := p.Deadline.Add(-reserve)
	results := make([]*result, len(jobs))
	var herr []string
	var mu sync.Mutex
	sem := make(chan struct{}, nworkers())
	var wg sync.WaitGroup
	for i := range jobs {
		wg.Add(1)
		sem <- struct{}{}
		go func(i int) {
			defer wg.Done()
			defer func() { <-sem }()
			j := jobs[i]
			j.Deadline = exploreDeadline.UnixNano()
			out, se, err := runInst(b.bin, "explore", j, nil, time.Until(exploreDeadline)+60*time.Second)
			var r result
			if err == nil {
				err = json.Unmarshal([]byte(out), &r)
			}
			if err != nil {
				mu.Lock()
				herr = append(herr, fmt.Sprintf("job %s: %v\n%s", j.Name, err, clipTail(se, 3000)))
				mu.Unlock()
				return
			}
			results[i] = &r
		}(i)
	}
	wg.Wait()
	if len(herr) > 0 {
		sort.Strings(herr)
		p.HarnessErr = strings.Join(herr, "\n")
		return
	}
	var execs, novel, states, trans, replays int64
	exhaustive := true
	outcomeClasses := map[string]bool{}
	var perJob []map[string]any
	var samples []any
	maxThreads, maxDepth := 0, 0
	for i, r := range results {
		j := jobs[i]
		execs += r.Executions
		novel += r.NovelExecs
		states += r.States
		trans += r.Transitions
		replays += r.ReplaysChecked
		exhaustive = exhaustive && r.Exhaustive
		if r.MaxThreads > maxThreads {
			maxThreads = r.MaxThreads
		}
		if r.MaxDepth > maxDepth {
			maxDepth = r.MaxDepth
		}
		for o := range r.Outcomes {
			outcomeClasses[j.Harness+"|"+o] = true
		}
		perJob = append(perJob, map[string]any{"system": r.Name, "executions": r.Executions, "states": r.States, "bound_completed": r.BoundCompleted,
			"distinct_outcomes": len(r.Outcomes), "complete": r.Exhaustive, "wall_ms": r.WallMS})
		if len(samples) < 10 && len(r.Samples) > 0 {
			samples = append(samples, map[string]any{"system": r.Name, "choices": r.Samples[len(r.Samples)-1]})
		}
		for _, f := range r.Fails {
			w, _ := json.Marshal(witness{Job: stripJob(j), Choices: f.Choices})
			tr := f.Trace
			if len(tr) > 70 {
				tr = append([]string{fmt.Sprintf("… (%d earlier steps omitted)", len(tr)-70)}, tr[len(tr)-70:]...)
			}
			p.Fail(eng.Fail{Oracle: "schedule", Class: f.Class, Witness: string(w),
				Detail: fmt.Sprintf("system %s, schedule of %d choices (replayed %d× identically), %d violating executions of this class in this system\n%s\n--- trace ---\n%s", r.Name, len(f.Choices), f.Replays, r.FailCounts[f.Class], f.Detail, strings.Join(tr, "\n"))})
		}
		if j.Distinct1 && len(r.Outcomes) > 1 && len(r.Fails) == 0 {
			var os_ []string
			for o, n := range r.Outcomes {
				os_ = append(os_, fmt.Sprintf("%s ×%d", o, n))
			}
			sort.Strings(os_)
			w, _ := json.Marshal(witness{Job: stripJob(j)})
			p.Fail(eng.Fail{Oracle: "schedule", Class: "outcome-depends-on-schedule", Witness: string(w), Detail: fmt.Sprintf("system %s: %v", r.Name, os_)})
		}
	}
	exploreS := time.Since(t0).Seconds() - buildS

	// ---- free-running pass under the race detector (not a deciding step; see DESIGN.md §2.2) ----------
	racePass := map[string]any{"ran": false}
	if p.NFails() == 0 || true {
		t1 := time.Now()
		rb, err := prepare(dir, true, sp.target)
		if err != nil {
			p.HarnessErr = "race build: " + err.Error()
			return
		}
		rjobs := sp.raceJobs(dir)
		env := append(os.Environ(), "GORACE=halt_on_error=1 exitcode=66")
		runs, reports := 0, 0
		for _, j := range rjobs {
			j.RaceRuns = sp.raceRuns
			if p.Thorough() {
				j.RaceRuns *= 5
			}
			out, se, err := runInst(rb.bin, "race", j, env, 4*time.Minute)
			rep := firstRaceReport(se)
			if rep == "" {
				if err != nil {
					if i := strings.Index(se, "panic: "); i >= 0 || strings.Contains(se, "fatal error: ") {
						// the code under test crashed on real threads: a violation, not a harness problem
						if i < 0 {
							i = strings.Index(se, "fatal error: ")
						}
						line := se[i:]
						if k := strings.IndexByte(line, '\n'); k > 0 {
							line = line[:k]
						}
						w, _ := json.Marshal(witness{Job: stripJob(j)})
						p.Fail(eng.Fail{Oracle: "race", Class: "free-running-crash:" + line, Witness: string(w), Detail: fmt.Sprintf("free-running pass of %s crashed\n%s", j.Name, clipTail(se[i:], 3500))})
						reports++
						continue
					}
					p.HarnessErr = fmt.Sprintf("race pass %s: %v\n%s%s", j.Name, err, out, clipTail(se, 3000))
					return
				}
				runs += j.RaceRuns
				continue
			}
			// believed only after it reproduces: re-run 5×
			repro := 0
			for k := 0; k < 5; k++ {
				_, se2, _ := runInst(rb.bin, "race", j, env, 4*time.Minute)
				if firstRaceReport(se2) != "" {
					repro++
				}
			}
			reports++
			if repro > 0 {
				w, _ := json.Marshal(witness{Job: stripJob(j)})
				p.Fail(eng.Fail{Oracle: "race", Class: raceClass(rep), Witness: string(w), Detail: fmt.Sprintf("free-running pass of %s under -race (reproduced in %d of 5 re-runs)\n%s", j.Name, repro, clipTail(rep, 3500))})
			}
		}
		racePass = map[string]any{"ran": true, "systems": len(rjobs), "runs": runs, "race_reports": reports, "wall_s": time.Since(t1).Seconds()}
	}

	cov := p.Coverage
	cov["evaluations"] = execs
	cov["distinct_nontrivial"] = novel
	cov["states"] = states
	cov["transitions"] = trans
	cov["traces_validated_against_impl"] = execs
	cov["exhaustive"] = exhaustive
	cov["bound_completed"] = boundLabel(results)
	cov["outcome_classes"] = len(outcomeClasses)
	cov["systems"] = perJob
	cov["samples"] = samples
	cov["replays_checked"] = replays
	cov["max_threads"] = maxThreads
	cov["max_choice_depth"] = maxDepth
	cov["race_pass"] = racePass
	cov["rewrite"] = reportSummary(b.reports)
	cov["build_s"] = buildS
	cov["explore_s"] = exploreS
	cov["workers"] = nworkers()
	if len(samples) == 0 {
		cov["samples"] = []any{"(none)"}
	}
}

func stripJob(j Job) Job {
	j.Deadline = 0
	j.Bounds = nil
	j.Shard, j.NShards = 0, 0
	return j
}

// replayOracle re-runs one recorded schedule: it rebuilds the instrumented binary from the current tree.
func replayOracle(id string, ti int) eng.Oracle {
	return func(in string) eng.Res {
		var w witness
		if err := json.Unmarshal([]byte(in), &w); err != nil {
			return eng.Bad("bad-witness", err.Error())
		}
		dir := filepath.Join(eng.Scratch(), id+"-replay")
		defer os.RemoveAll(dir)
		b, err := prepare(dir, false, ti)
		if err != nil {
			fmt.Fprintln(os.Stderr, "HARNESS ERROR:", err)
			os.Exit(2)
		}
		j := w.Job
		j.Choices = w.Choices
		if j.P.Dir != "" {
			j.P.Dir = filepath.Join(dir, "files")
		}
		out, se, err := runInst(b.bin, "replay", j, nil, 5*time.Minute)
		if err != nil {
			fmt.Fprintf(os.Stderr, "HARNESS ERROR: replay: %v\n%s\n", err, se)
			os.Exit(2)
		}
		var r struct {
			Fails   []struct{ Class, Detail string }
			Outcome string
			Trace   []string
		}
		if err := json.Unmarshal([]byte(out), &r); err != nil {
			return eng.Bad("bad-replay-output", out)
		}
		if len(r.Fails) > 0 {
			return eng.Bad(r.Fails[0].Class, r.Fails[0].Detail+"\n--- trace ---\n"+strings.Join(r.Trace, "\n"))
		}
		return eng.OK(r.Outcome, true)
	}
}

// raceReplayOracle re-runs the free-running pass of one system under the race detector.
func raceReplayOracle(id string, ti int, runs int) eng.Oracle {
	return func(in string) eng.Res {
		var w witness
		if err := json.Unmarshal([]byte(in), &w); err != nil {
			return eng.Bad("bad-witness", err.Error())
		}
		dir := filepath.Join(eng.Scratch(), id+"-replay")
		defer os.RemoveAll(dir)
		b, err := prepare(dir, true, ti)
		if err != nil {
			fmt.Fprintln(os.Stderr, "HARNESS ERROR:", err)
			os.Exit(2)
		}
		j := w.Job
		if j.P.Dir != "" {
			j.P.Dir = filepath.Join(dir, "files")
		}
		if j.RaceRuns == 0 {
			j.RaceRuns = runs
		}
		for k := 0; k < 5; k++ {
			_, se, _ := runInst(b.bin, "race", j, append(os.Environ(), "GORACE=halt_on_error=1 exitcode=66"), 4*time.Minute)
			if rep := firstRaceReport(se); rep != "" {
				return eng.Bad(raceClass(rep), clipTail(rep, 3500))
			}
		}
		return eng.OK("no race report in 5 free-running passes", true)
	}
}
