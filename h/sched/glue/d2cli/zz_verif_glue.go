//go:build verif

// Harness-only glue, added to package d2cli through `go build -overlay` (never part of /repo).
// It gives the schedule explorer access to the unexported watcher and supplies the seams that the
// rewritten watch.go calls instead of compile / net.Listen.
package d2cli

import (
	"context"
	"errors"
	"io"
	"io/fs"
	"net"
	"net/http/httptest"
	"strconv"

	"github.com/playwright-community/playwright-go"

	"oss.terrastruct.com/util-go/cmdlog"
	"oss.terrastruct.com/util-go/xmain"
	"oss.terrastruct.com/util-go/xos"

	"oss.terrastruct.com/d2/d2plugin"
	"oss.terrastruct.com/d2/d2renderers/d2fonts"
	"oss.terrastruct.com/d2/d2renderers/d2svg"
	"verif/h/vsched"
)

// VerifCompile is the render step of the harness: it reads the harness's content cell.
var VerifCompile func(ctx context.Context) ([]byte, error)

// verifCompile has the signature of compile (main.go); compileLoop's call is redirected here.
func verifCompile(ctx context.Context, ms *xmain.State, plugins []d2plugin.Plugin, fs fs.FS, layout *string, renderOpts d2svg.RenderOpts, fontFamily *d2fonts.FontFamily, monoFontFamily *d2fonts.FontFamily, animateInterval int64, inputPath, outputPath string, boardPath []string, noChildren, bundle, forceAppendix bool, browser playwright.Browser, ext exportExtension, asciiMode string) (_ []byte, written bool, _ error) {
	b, err := VerifCompile(ctx)
	return b, false, err
}

type verifListener struct{ closed bool }

func (l *verifListener) Accept() (net.Conn, error) { return nil, errors.New("verif: fake listener") }
func (l *verifListener) Close() error              { l.closed = true; return nil }
func (l *verifListener) Addr() net.Addr            { return &net.TCPAddr{IP: net.IPv4(127, 0, 0, 1), Port: 8080} }

func verifListen(network, addr string) (net.Listener, error) { return &verifListener{}, nil }

type VerifWatcher struct{ w *watcher }

func VerifNewWatcher(ctx context.Context, inputPath string) (*VerifWatcher, error) {
	env := xos.NewEnv(nil)
	ms := &xmain.State{Name: "d2", Env: env, Log: cmdlog.New(env, io.Discard), PWD: "/"}
	layout := "dagre"
	w, err := newWatcher(ctx, ms, watcherOpts{layout: &layout, host: "127.0.0.1", port: "0", inputPath: inputPath, outputPath: "/verif-virtual/out.svg", pwd: "/"})
	if err != nil {
		return nil, err
	}
	vsched.RegisterAll(w, "watcher.")
	vsched.NameChan(w.compileCh, "compileCh")
	return &VerifWatcher{w}, nil
}

func (v *VerifWatcher) StartCompileLoop() { v.w.goFunc(v.w.compileLoop) }
func (v *VerifWatcher) StartWatchLoop()   { v.w.goFunc(v.w.watchLoop) }
func (v *VerifWatcher) RequestCompile()   { v.w.requestCompile() }
func (v *VerifWatcher) Close()            { v.w.close() }
func (v *VerifWatcher) WaitLoops()        { v.w.wg.Wait() }
func (v *VerifWatcher) Broadcast(svg string) {
	v.w.broadcast(&compileResult{SVG: svg})
}

// HandleWatch calls the real handler with a fake request that carries the client's index.
func (v *VerifWatcher) HandleWatch(client int) error {
	r := httptest.NewRequest("GET", "/watch", nil)
	r.Header.Set("X-Verif-Client", strconv.Itoa(client))
	return v.w.handleWatch(httptest.NewRecorder(), r)
}

// Peeks for oracles (called at quiescence / after shutdown, when no other thread runs).
func (v *VerifWatcher) RegisteredClients() int { return len(v.w.wsclients) }
func (v *VerifWatcher) ClientsWGCounter() int  { return v.w.wsclientsWG.Counter() }
func (v *VerifWatcher) Closing() bool          { return v.w.closing }
func (v *VerifWatcher) ListenerClosed() bool {
	l, _ := v.w.l.(*verifListener)
	return l != nil && l.closed
}

// VerifResultSVG extracts the payload of a broadcast result handed to wsjson.Write.
func VerifResultSVG(v any) (string, bool) {
	r, ok := v.(*compileResult)
	if !ok || r == nil {
		return "", false
	}
	return r.SVG, true
}

func init() {
	vsched.RegisterKeyOrder(func(k any) (int, bool) {
		if cl, ok := k.(*wsclient); ok && cl != nil && cl.c != nil {
			return cl.c.ID, true
		}
		return 0, false
	})
}
