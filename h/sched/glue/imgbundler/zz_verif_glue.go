//go:build verif

// Harness-only glue, added to package imgbundler through `go build -overlay`.
package imgbundler

import (
	"net/http"
	"os"

	"verif/h/vsched"
	"verif/h/vsched/vsync"
)

// verifReadFile replaces os.ReadFile in worker: a scheduling point in front of the real read.
func verifReadFile(path string) ([]byte, error) {
	vsched.Yield("os.ReadFile")
	return os.ReadFile(path)
}

// VerifReset clears the package-level image cache between executions.
func VerifReset() { imgCache = vsync.Map{} }

// VerifSetTransport routes httpGet through a fake transport (the real httpGet code still runs).
func VerifSetTransport(rt http.RoundTripper) { httpClient.Transport = rt }
