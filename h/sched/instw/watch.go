//go:build verif

package main

import (
	"context"
	"fmt"
	"sort"
	"strconv"
	"strings"
	"sync"

	"oss.terrastruct.com/d2/d2cli"
	"verif/h/sched/instmain"
	"verif/h/vsched"
	"verif/h/vsched/fake/websocket"
)

type Params = instmain.Params

func main() {
	instmain.Main(map[string]instmain.BodyFunc{
		"c44": func(p Params) (func(), func()) { return c44Body(p), nil },
		"c45": func(p Params) (func(), func()) { return c45Body(p), nil },
	})
}

func uniq(s []string) []string {
	sort.Strings(s)
	var o []string
	for i, x := range s {
		if i == 0 || x != s[i-1] {
			o = append(o, x)
		}
	}
	return o
}

const handlerSite = "watcher.handleWatch#0" // the client handler goroutine started by handleWatch

type watchState struct {
	mu          sync.Mutex // only for the free-running pass; cooperative runs are single-threaded
	compiled    []int
	deliv       map[int][]int
	conns       map[int]*websocket.Conn
	hwErr       map[int]error
	hwDone      map[int]bool
	closeDone   bool
	acceptAfter []int
}

func newWatchState() *watchState {
	return &watchState{deliv: map[int][]int{}, conns: map[int]*websocket.Conn{}, hwErr: map[int]error{}, hwDone: map[int]bool{}}
}

func (st *watchState) env(p Params) *websocket.Env {
	return &websocket.Env{WriteMayFail: p.WriteFail, GoneEvents: p.Gone, AcceptMayFail: p.AcceptFail, PingMayFail: p.PingFail,
		OnWrite: func(c *websocket.Conn, v any) {
			svg, ok := d2cli.VerifResultSVG(v)
			ver, err := strconv.Atoi(svg)
			if !ok || err != nil {
				vsched.Failf("client-received-non-result", "client %d received %#v", c.ID, v)
				return
			}
			st.mu.Lock()
			st.deliv[c.ID] = append(st.deliv[c.ID], ver)
			st.mu.Unlock()
			vsched.Tracef("client %d <- result %d", c.ID, ver)
		},
		OnAccept: func(c *websocket.Conn) {
			st.mu.Lock()
			st.conns[c.ID] = c
			if st.closeDone {
				st.acceptAfter = append(st.acceptAfter, c.ID)
			}
			st.mu.Unlock()
		}}
}

func liveHandlers() int {
	n := 0
	for _, s := range vsched.LiveSites() {
		if s == handlerSite {
			n++
		}
	}
	return n
}

// c44Body: compile loop + editor making `Changes` edits + `Clients` browser clients connecting at any
// time; at quiescence the oracle of C44 is evaluated, then the server is shut down.
func c44Body(p Params) func() {
	return func() {
		st := newWatchState()
		content := vsched.NewCell("content", 0)
		d2cli.VerifCompile = func(ctx context.Context) ([]byte, error) {
			v := content.Load()
			st.mu.Lock()
			st.compiled = append(st.compiled, v)
			st.mu.Unlock()
			vsched.Tracef("compile reads content version %d", v)
			return []byte(strconv.Itoa(v)), nil
		}
		websocket.SetEnv(st.env(p))
		w, err := d2cli.VerifNewWatcher(context.Background(), "/verif-virtual/in.d2")
		if err != nil {
			vsched.HarnessError("newWatcher: %v", err)
		}
		w.StartCompileLoop()
		vsched.Go("editor", func() {
			for i := 1; i <= p.Changes; i++ {
				content.Store(i)
				w.RequestCompile()
			}
		})
		for k := 0; k < p.Clients; k++ {
			vsched.Go("browser", func() {
				err := w.HandleWatch(k)
				st.mu.Lock()
				st.hwErr[k], st.hwDone[k] = err, true
				st.mu.Unlock()
			})
		}
		vsched.Quiesce()

		// ---- oracle at quiescence (the input has stopped changing) --------------------------------
		final := content.Peek()
		out := ""
		if !vsched.Passthrough() {
			out = fmt.Sprintf("compiled=%v", st.compiled)
			if len(st.compiled) == 0 {
				vsched.Failf("compile-request-lost:no-compile-ran", "%d changes were requested, no compile ran; %s", p.Changes, vsched.LiveDesc())
			} else if last := st.compiled[len(st.compiled)-1]; last != final {
				vsched.Failf("compile-request-lost:last-compile-used-stale-content", "content is at version %d, the last compile used %d (compiles: %v)", final, last, st.compiled)
			}
			ids := make([]int, 0, len(st.conns))
			for id := range st.conns {
				ids = append(ids, id)
			}
			sort.Ints(ids)
			for _, id := range ids {
				c := st.conns[id]
				dl := st.deliv[id]
				out += fmt.Sprintf(" c%d=%v", id, dl)
				for i := 1; i < len(dl); i++ {
					if dl[i] < dl[i-1] {
						vsched.Failf("client-received-older-result-after-newer", "client %d deliveries %v", id, dl)
						break
					}
				}
				if c.Gone() {
					out += "(gone)"
					continue
				}
				if c.Closed() {
					vsched.Failf("server-closed-connected-client-before-shutdown", "client %d was closed by the server although it never failed; deliveries %v", id, dl)
					continue
				}
				if len(st.compiled) > 0 && (len(dl) == 0 || dl[len(dl)-1] != final) {
					cls := "client-missed-latest-result"
					if len(dl) == 0 {
						cls += ":nothing-delivered"
					} else {
						cls += ":last-delivery-stale"
					}
					vsched.Failf(cls, "client %d is connected, latest version is %d, its deliveries are %v (compiles %v); %s", id, final, dl, st.compiled, vsched.LiveDesc())
				}
			}
			for k := 0; k < p.Clients; k++ {
				if !st.hwDone[k] {
					vsched.Failf("handleWatch-did-not-return", "client %d: %s", k, vsched.LiveDesc())
				}
			}
		}

		// ---- shutdown --------------------------------------------------------------------------------
		w.Close()
		if n := liveHandlers(); n > 0 {
			vsched.Failf("close-returned-with-live-client-handler", "%d handler goroutine(s) alive when close() returned: %s", n, vsched.LiveDesc())
		}
		w.WaitLoops()
		vsched.Quiesce()
		if live := vsched.LiveThreads(); len(live) > 0 {
			vsched.Failf("goroutine-leak-after-shutdown:"+strings.Join(uniq(live), ","), "%s", vsched.LiveDesc())
		}
		vsched.SetOutcome(out)
	}
}

// c45Body: close() (optionally twice, sequentially, as run() does) in parallel with `Clients`
// handleWatch calls and optionally one broadcast; afterwards a late client must be refused.
func c45Body(p Params) func() {
	return func() {
		st := newWatchState()
		d2cli.VerifCompile = func(ctx context.Context) ([]byte, error) { return []byte("0"), nil }
		websocket.SetEnv(st.env(p))
		w, err := d2cli.VerifNewWatcher(context.Background(), "/verif-virtual/in.d2")
		if err != nil {
			vsched.HarnessError("newWatcher: %v", err)
		}
		vsched.Observe(func(op, obj string) {
			if op == "wg.add" && obj == "watcher.wsclientsWG" && w.Closing() {
				vsched.Failf("client-admitted-after-shutdown:registered-while-closing", "a client handler was added to wsclientsWG although the closing flag was already set")
			}
		})
		var lateErr error
		lateDone := false
		vsched.Go("closer", func() {
			w.Close()
			if n := liveHandlers(); n > 0 {
				vsched.Failf("close-returned-with-live-client-handler", "%d handler goroutine(s) alive when close() returned: %s", n, vsched.LiveDesc())
			}
			st.mu.Lock()
			st.closeDone = true
			st.mu.Unlock()
			if p.DoubleClose {
				w.Close()
			}
			before := vsched.ThreadCount()
			lateErr = w.HandleWatch(100)
			lateDone = true
			if !vsched.Passthrough() {
				if lateErr == nil {
					vsched.Failf("client-admitted-after-shutdown:handleWatch-returned-nil", "a handleWatch call that started after close() had returned was not refused")
				}
				if vsched.ThreadCount() != before {
					vsched.Failf("client-admitted-after-shutdown:handler-spawned", "a handleWatch call that started after close() had returned spawned a goroutine")
				}
			}
		})
		for k := 0; k < p.Clients; k++ {
			vsched.Go("browser", func() {
				err := w.HandleWatch(k)
				st.mu.Lock()
				st.hwErr[k], st.hwDone[k] = err, true
				st.mu.Unlock()
			})
		}
		if p.Broadcast {
			vsched.Go("broadcaster", func() { w.Broadcast("1") })
		}
		vsched.Quiesce()
		if vsched.Passthrough() {
			return
		}
		if !lateDone {
			vsched.Failf("close-did-not-return", "%s", vsched.LiveDesc())
		}
		if len(st.acceptAfter) > 0 {
			vsched.Failf("client-admitted-after-shutdown:accepted-after-close-returned", "clients %v were upgraded after close() had returned", st.acceptAfter)
		}
		if live := vsched.LiveThreads(); len(live) > 0 {
			vsched.Failf("goroutine-leak-after-shutdown:"+strings.Join(uniq(live), ","), "%s", vsched.LiveDesc())
		}
		if n := w.ClientsWGCounter(); n != 0 {
			vsched.Failf("client-waitgroup-not-balanced", "wsclientsWG counter is %d after everything finished", n)
		}
		if n := w.RegisteredClients(); n != 0 {
			vsched.Failf("client-registry-not-empty-after-shutdown", "%d clients still registered", n)
		}
		admitted, refused := 0, 0
		detail := ""
		for k := 0; k < p.Clients; k++ {
			switch {
			case !st.hwDone[k]:
				vsched.Failf("handleWatch-did-not-return", "client %d", k)
			case st.hwErr[k] != nil && st.conns[k] == nil && strings.Contains(st.hwErr[k].Error(), "shutting down"):
				refused++
				detail += fmt.Sprintf(" c%d:refused", k)
			case st.hwErr[k] != nil:
				refused++
				detail += fmt.Sprintf(" c%d:accept-failed", k)
			default:
				admitted++
				detail += fmt.Sprintf(" c%d:admitted,got=%v", k, st.deliv[k])
				if st.conns[k].Gone() {
					detail += ",peer-left"
				}
			}
		}
		for id, c := range st.conns {
			if !c.Closed() {
				vsched.Failf("client-connection-left-open-after-shutdown", "client %d", id)
			}
		}
		vsched.SetOutcome(fmt.Sprintf("admitted=%d refused=%d accepted=%d%s", admitted, refused, len(st.conns), detail))
	}
}
