package sched

import (
	"fmt"
	"path/filepath"
	"time"

	"verif/h/eng"
)

var commonAssumptions = []string{
	"the scheduler's granularity: one managed goroutine runs at a time and may be preempted exactly before a Lock/RLock, a positive WaitGroup.Add, WaitGroup.Wait, a channel send/receive/select/close, a sync.Map operation, a context cancellation, a ctx.Err() read of a not yet cancelled context, a virtual timer event, a fake I/O seam (websocket Accept/Ping/Write/Close, file read, HTTP round trip) and a harness cell; Unlock / RUnlock / Done are left-movers (TryLock is not offered) and do not yield. By Lipton's reduction this covers every behaviour of a program whose shared accesses are ordered by those operations; unsynchronised accesses are the job of the separate free-running -race pass (coverage.race_pass)",
	"state-key pruning identifies two decision nodes when every thread has the same history of operation results and every synchronisation object has the same sequence of operations applied (Mazurkiewicz-equivalent prefixes); keys are 64-bit hashes (collision probability < 1e-5 at 1e7 states)",
	"context deadlines (1 h, 5 min, 30 s, 1 min) never expire inside an execution; context cancellation is observed through the closed Done channel",
	"trusted: the Go runtime and go/types (the rewriter), the vsched shim's model of sync / channels / timers (self-tested on seven toy systems with known answers at the start of every run), the fakes standing in for coder/websocket, fsnotify, xbrowser, the listener and the render step",
}

func watchRace(dir string) []Job {
	return []Job{
		{Harness: "c44", Name: "race/H2", P: Params{Changes: 3, Clients: 2}},
		{Harness: "c45", Name: "race/S2", P: Params{Clients: 2, Broadcast: true, DoubleClose: true}},
	}
}

func c44Jobs(thorough bool, dir string, noPoll map[string]bool) []Job {
	b012 := []int{0, 1, 2}
	unb := []int{0, 1, 2, -1}
	js := []Job{
		// largest first (better packing on the worker pool)
		{Harness: "c44", Name: "H2/changes=2,clients=2", P: Params{Changes: 2, Clients: 2}, Bounds: []int{0}},
		{Harness: "c44", Name: "H1/changes=3,clients=1", P: Params{Changes: 3, Clients: 1}, Bounds: b012},
		{Harness: "c44", Name: "H3/changes=2,clients=1,peer-gone+write-error", P: Params{Changes: 2, Clients: 1, Gone: true, WriteFail: true}, Bounds: b012, EnvBudget: 1},
		{Harness: "c44", Name: "H2/changes=1,clients=2", P: Params{Changes: 1, Clients: 2}, Bounds: []int{0, 1}},
		{Harness: "c44", Name: "H1/changes=2,clients=1", P: Params{Changes: 2, Clients: 1}, Bounds: unb},
		{Harness: "c44", Name: "H3/changes=2,clients=1,ping-failure+timer", P: Params{Changes: 2, Clients: 1, PingFail: true}, Bounds: b012, EnvBudget: 1},
		{Harness: "c44", Name: "H1/changes=1,clients=1", P: Params{Changes: 1, Clients: 1}, Bounds: unb},
	}
	if thorough {
		js = []Job{
			{Harness: "c44", Name: "H2/changes=2,clients=2", P: Params{Changes: 2, Clients: 2}, Bounds: b012, Shards: 8},
			{Harness: "c44", Name: "H2/changes=1,clients=2", P: Params{Changes: 1, Clients: 2}, Bounds: b012, Shards: 4},
			{Harness: "c44", Name: "H3/changes=2,clients=2,peer-gone+write-error", P: Params{Changes: 2, Clients: 2, Gone: true, WriteFail: true}, Bounds: []int{0, 1}, EnvBudget: 1},
			{Harness: "c44", Name: "H1/changes=4,clients=1", P: Params{Changes: 4, Clients: 1}, Bounds: b012},
			{Harness: "c44", Name: "H1/changes=3,clients=1", P: Params{Changes: 3, Clients: 1}, Bounds: unb},
			{Harness: "c44", Name: "H3/changes=2,clients=1,peer-gone+write-error", P: Params{Changes: 2, Clients: 1, Gone: true, WriteFail: true}, Bounds: unb, EnvBudget: 1},
			{Harness: "c44", Name: "H3/changes=2,clients=1,ping-failure+timer", P: Params{Changes: 2, Clients: 1, PingFail: true}, Bounds: unb, EnvBudget: 1},
			{Harness: "c44", Name: "H3/changes=1,clients=1,two-environment-events", P: Params{Changes: 1, Clients: 1, PingFail: true, Gone: true, WriteFail: true}, Bounds: b012, EnvBudget: 2},
			{Harness: "c44", Name: "H1/changes=2,clients=1", P: Params{Changes: 2, Clients: 1}, Bounds: unb},
			{Harness: "c44", Name: "H1/changes=1,clients=1", P: Params{Changes: 1, Clients: 1}, Bounds: unb},
		}
	}
	for i := range js {
		js[i].Prune = true
	}
	return js
}

func c45Jobs(thorough bool, dir string, noPoll map[string]bool) []Job {
	unb := []int{0, 1, 2, -1}
	js := []Job{
		{Harness: "c45", Name: "S2/close∥handleWatch×2∥broadcast", P: Params{Clients: 2, Broadcast: true}, Bounds: []int{0}},
		{Harness: "c45", Name: "S2'/close∥handleWatch×2", P: Params{Clients: 2}, Bounds: []int{0, 1}},
		{Harness: "c45", Name: "S3/close;close∥handleWatch∥broadcast", P: Params{Clients: 1, Broadcast: true, DoubleClose: true}, Bounds: unb},
		{Harness: "c45", Name: "S1/close∥handleWatch,accept-or-ping-may-fail,peer-may-leave", P: Params{Clients: 1, AcceptFail: true, PingFail: true, Gone: true}, Bounds: unb, EnvBudget: 1},
		{Harness: "c45", Name: "S1/close∥handleWatch", P: Params{Clients: 1}, Bounds: unb},
	}
	if thorough {
		js = []Job{
			{Harness: "c45", Name: "S2/close∥handleWatch×2∥broadcast", P: Params{Clients: 2, Broadcast: true}, Bounds: []int{0, 1, 2}, Shards: 16},
			{Harness: "c45", Name: "S2'/close∥handleWatch×2", P: Params{Clients: 2}, Bounds: []int{0, 1, 2}, Shards: 4},
			{Harness: "c45", Name: "S2''/close;close∥handleWatch×2,accept-may-fail", P: Params{Clients: 2, AcceptFail: true, DoubleClose: true}, Bounds: []int{0, 1}, Shards: 2},
			{Harness: "c45", Name: "S3/close;close∥handleWatch∥broadcast", P: Params{Clients: 1, Broadcast: true, DoubleClose: true}, Bounds: unb},
			{Harness: "c45", Name: "S1/close∥handleWatch,accept-or-ping-may-fail,peer-may-leave", P: Params{Clients: 1, AcceptFail: true, PingFail: true, Gone: true}, Bounds: unb, EnvBudget: 2},
			{Harness: "c45", Name: "S1/close∥handleWatch", P: Params{Clients: 1}, Bounds: unb},
		}
	}
	for i := range js {
		js[i].Prune = true
	}
	return js
}

func c46Jobs(thorough bool, dir string, noPoll map[string]bool) []Job {
	np := noPoll["imgbundler.go"]
	var js []Job
	add := func(p Params, bounds []int, env int) {
		mode := "local"
		if p.Remote {
			mode = "remote"
		}
		name := fmt.Sprintf("%s/n=%d,failing=%0*b,cache=%v", mode, p.N, p.N, p.Fail, p.Cache)
		if !p.Remote {
			p.Dir = filepath.Join(dir, "files", fmt.Sprintf("%s-n%d-f%d-c%v", mode, p.N, p.Fail, p.Cache))
		}
		js = append(js, Job{Harness: "c46", Name: name, P: p, Bounds: bounds, Prune: true, EnvBudget: env, NoPolling: np, Distinct1: true})
	}
	// the semaphore harness first (longest)
	for _, remote := range []bool{false, true} {
		b := []int{0, 1}
		if thorough {
			b = []int{0, 1, 2}
		}
		add(Params{Remote: remote, N: 17, Fail: 1<<3 | 1<<16, Variant: "plain", Cache: remote}, b, 0)
		js[len(js)-1].Deviation = true // 20 symmetric threads: deviation bounding instead of preemption bounding
		if thorough {
			js[len(js)-1].Shards = 16
		}
		// failure patterns that interact with the 16-slot semaphore: sixteen failures before / after the one loadable
		// reference, everything failing, nothing failing (default schedule and, thorough, one deviation)
		for _, mask := range []int{0, 0xFFFF, 0x1FFFE, 0x1FFFF} {
			eb := []int{0}
			if thorough {
				eb = []int{0, 1}
			}
			add(Params{Remote: remote, N: 17, Fail: mask, Variant: "plain", Cache: remote}, eb, 0)
			js[len(js)-1].Deviation = true
		}
	}
	for n := 3; n >= 1; n-- {
		for _, remote := range []bool{false, true} {
			for _, cache := range []bool{false, true} {
				for mask := 0; mask < 1<<n; mask++ {
					bounds := []int{0, 1, 2, -1}
					env := 1
					if n == 3 {
						env = 0 // the 5 s progress ticker is explored for n <= 2 only
						if !thorough && cache {
							bounds = []int{0, 1, 2}
						}
					}
					add(Params{Remote: remote, N: n, Fail: mask, Cache: cache, Variant: "mixed"}, bounds, env)
				}
			}
		}
	}
	if thorough {
		for _, remote := range []bool{false, true} {
			add(Params{Remote: remote, N: 4, Fail: 0b0101, Variant: "plain"}, []int{0, 1, 2}, 0)
		}
	}
	return js
}

func c46Race(dir string) []Job {
	return []Job{
		{Harness: "c46", Name: "race/local-n3-all-failing", P: Params{N: 3, Fail: 7, Variant: "mixed", Dir: filepath.Join(dir, "files", "race-local")}},
		{Harness: "c46", Name: "race/local-n17-half-failing", P: Params{N: 17, Fail: 0x15555, Variant: "plain", Dir: filepath.Join(dir, "files", "race-local17")}},
		{Harness: "c46", Name: "race/remote-n17-cache-half-failing", P: Params{Remote: true, N: 17, Fail: 0x0aaaa, Variant: "plain", Cache: true}},
	}
}

func init() {
	reg := func(id, rule string, assumptions []string, sp spec) {
		sp.id = id
		eng.Register(&eng.Check{
			ID: id, Level: "model_checking", Rule: rule,
			Assumptions:    append(append([]string{}, assumptions...), commonAssumptions...),
			QuickBudget:    280 * time.Second, // sized for ≈ 45 s on an idle 16-core machine; the slack is for a loaded one
			ThoroughBudget: 24 * time.Minute,
			Oracles:        map[string]eng.Oracle{"schedule": replayOracle(id, sp.target), "race": raceReplayOracle(id, sp.target, sp.raceRuns)},
			Solo:           func(p *eng.Solo) { runSpec(p, sp) },
		})
	}
	reg("C44",
		"deviation-bounded DFS (preemption bounds 0,1,2 then unbounded with state-key pruning, as listed per system) over ALL schedules of closed systems built from the real requestCompile / compileLoop / broadcast / getRes / handleWatch / writeLoop / wsHeartbeat / close of the current d2cli/watch.go (rewritten at check time): H1 = compile loop + editor making c changes + 1 browser client connecting at any time, H2 = 2 clients, H3 = H1 with environment deviations (peer leaves, write error, ping failure, heartbeat timer fires); every execution runs the real code to quiescence, the oracle is evaluated there, then the server is shut down; an execution is non-trivial/distinct when it reaches at least one scheduler state (history key) not seen before",
		[]string{
			"the render step is replaced by a function that reads the harness's content cell (one scheduling point) and returns its version; 'input stops changing' = the editor thread has finished and no thread is enabled",
			"the file-system watch loop (watchLoop / ensureAddWatch) is not part of the closed systems: compile requests are issued by the editor thread through the real requestCompile",
			"a client whose peer left, or whose write/ping failed by an explorer-chosen environment answer, is exempt from the delivery clause",
		},
		spec{jobs: c44Jobs, raceJobs: watchRace, raceRuns: 40, target: tWatch})
	reg("C45",
		"same engine as C44 over closed systems around shutdown: S1 = close() ∥ handleWatch, S2 = close() ∥ handleWatch×2 ∥ one broadcast, S3 = close();close() (sequential, as run() does) ∥ handleWatch ∥ broadcast; in every system the closing thread afterwards starts one more handleWatch which must be refused; environment deviations: Accept fails, ping fails, peer leaves; oracle at every close() return (no thread spawned at the handler go statement of handleWatch is alive), at the late handleWatch (error, nothing spawned, no upgrade), at the end (no live thread, wait-group counter 0, registry empty, every accepted connection closed) and inside the WaitGroup shim (documented misuse rules)",
		[]string{
			"two close() calls running concurrently are outside the space: run() calls close() from one goroutine only, and a second close() returns early by design",
			"'handler' means the goroutine started by the first go statement of handleWatch; the heartbeat goroutine it starts is only required to end eventually (no leak)",
		},
		spec{jobs: c45Jobs, raceJobs: watchRace, raceRuns: 40, target: tWatch})
	reg("C46",
		"same engine over the real bundle / runWorkers / worker of the current lib/imgbundler/imgbundler.go: for n ∈ {1,2,3} references (document also contains a duplicate, a data: URI, a reference of the other kind and text nodes repeating reference strings; one reference is a suffix of another), every failing subset (2^n; missing file, HTTP 404 or transport error), local and remote mode, image cache on/off, ALL schedules of waiter + dispatcher + n workers + collector (bounds as listed per system), plus n = 17 (semaphore of 16) under deviation bounding (every non-default scheduling choice costs 1) at bound 1 (thorough: 2); per configuration the number of distinct outcomes over all explored schedules must be 1",
		[]string{
			"file reads are real reads of files in the scratch directory behind one scheduling point; HTTP goes through the real httpGet with a fake RoundTripper (one scheduling point, 200/404/transport error)",
			"the reported failing set is parsed from the error text ('[a b]'), compared as a set: the order of the entries is completion order by design",
		},
		spec{jobs: c46Jobs, raceJobs: c46Race, raceRuns: 60, target: tBundler})
}
