// Package xbrowser replaces oss.terrastruct.com/util-go/xbrowser in rewritten files.
package xbrowser

import (
	"context"

	"oss.terrastruct.com/util-go/xos"
	"verif/h/vsched"
)

// Open records the URL; it never starts a browser.
func Open(ctx context.Context, env *xos.Env, url string) error {
	n, _ := vsched.Value("xbrowser.opens").(int)
	vsched.SetValue("xbrowser.opens", n+1)
	return nil
}
