// Package wsjson replaces github.com/coder/websocket/wsjson in rewritten files.
package wsjson

import (
	"context"

	"verif/h/vsched/fake/websocket"
)

func Write(ctx context.Context, c *websocket.Conn, v interface{}) error { return c.WriteJSON(ctx, v) }
