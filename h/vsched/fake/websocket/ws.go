// Package websocket replaces github.com/coder/websocket in rewritten files. Accept, Ping and
// wsjson.Write are scheduling points whose failure answers are explorer choices; a peer disconnect
// is an environment event.
package websocket

import (
	"context"
	"errors"
	"net/http"
	"strconv"
	"sync"

	"verif/h/vsched"
)

type StatusCode int

const (
	StatusNormalClosure StatusCode = 1000
	StatusGoingAway     StatusCode = 1001
	StatusInternalError StatusCode = 1011
)

type CompressionMode int

const (
	CompressionDisabled CompressionMode = iota
	CompressionContextTakeover
	CompressionNoContextTakeover
)

type AcceptOptions struct {
	Subprotocols         []string
	InsecureSkipVerify   bool
	OriginPatterns       []string
	CompressionMode      CompressionMode
	CompressionThreshold int
}

// Env configures the environment's behaviour for one execution (set by the harness).
type Env struct {
	AcceptMayFail bool // Accept may answer an error (deviation)
	WriteMayFail  bool // a write may fail because the peer is gone (deviation)
	PingMayFail   bool
	GoneEvents    bool // a peer may disconnect at any time (environment event)
	OnWrite       func(c *Conn, v any)
	OnClose       func(c *Conn)
	OnAccept      func(c *Conn)
}

func env() *Env {
	e, _ := vsched.Value("websocket.env").(*Env)
	if e == nil {
		e = &Env{}
	}
	return e
}

func SetEnv(e *Env) { vsched.SetValue("websocket.env", e) }

type Conn struct {
	ID int

	mu       sync.Mutex
	closed   bool
	gone     bool
	readCtx  context.Context
	cancelRd context.CancelFunc
	gev      *vsched.EnvEvent
}

// VerifID orders connections deterministically (used for map iteration in rewritten code).
func (c *Conn) VerifID() int { return c.ID }

// Accept: the client index travels in the X-Verif-Client header of the fake request.
func Accept(w http.ResponseWriter, r *http.Request, opts *AcceptOptions) (*Conn, error) {
	vsched.Yield("ws.accept")
	e := env()
	if e.AcceptMayFail && vsched.Choose(2, "ws.accept-fails", 1) == 1 {
		return nil, errors.New("fake websocket: failed to accept connection")
	}
	id, _ := strconv.Atoi(r.Header.Get("X-Verif-Client"))
	c := &Conn{ID: id}
	if e.GoneEvents && !vsched.Passthrough() {
		c.gev = vsched.NewEnvEvent("ws.peer-gone#"+strconv.Itoa(id), 1, func() { c.peerGone() })
		c.gev.Arm(true)
	}
	if e.OnAccept != nil {
		e.OnAccept(c)
	}
	return c, nil
}

func (c *Conn) peerGone() {
	c.mu.Lock()
	c.gone = true
	cancel := c.cancelRd
	c.mu.Unlock()
	if cancel != nil {
		cancel()
	}
}

// Gone reports whether the peer disconnected or a write failed.
func (c *Conn) Gone() bool   { c.mu.Lock(); defer c.mu.Unlock(); return c.gone }
func (c *Conn) Closed() bool { c.mu.Lock(); defer c.mu.Unlock(); return c.closed }

func (c *Conn) Close(code StatusCode, reason string) error {
	vsched.Yield("ws.close") // the close handshake is network I/O, and it cancels the read context others may poll
	c.mu.Lock()
	if c.closed {
		c.mu.Unlock()
		return errors.New("fake websocket: already closed")
	}
	c.closed = true
	cancel := c.cancelRd
	gev := c.gev
	c.mu.Unlock()
	if gev != nil {
		gev.Arm(false)
	}
	if cancel != nil {
		cancel()
	}
	if e := env(); e.OnClose != nil {
		e.OnClose(c)
	}
	return nil
}

func (c *Conn) CloseNow() error { return c.Close(StatusGoingAway, "") }

// CloseRead returns a context that is cancelled when the connection is closed or the peer goes away.
func (c *Conn) CloseRead(ctx context.Context) context.Context {
	ctx, cancel := context.WithCancel(ctx)
	c.mu.Lock()
	c.readCtx, c.cancelRd = ctx, cancel
	dead := c.closed || c.gone
	c.mu.Unlock()
	if dead {
		cancel()
	}
	return ctx
}

func (c *Conn) Ping(ctx context.Context) error {
	vsched.Yield("ws.ping")
	if err := ctx.Err(); err != nil {
		return err
	}
	c.mu.Lock()
	dead := c.closed || c.gone
	c.mu.Unlock()
	if dead {
		return errors.New("fake websocket: connection closed")
	}
	if env().PingMayFail && vsched.Choose(2, "ws.ping-fails", 1) == 1 {
		c.peerGone()
		return errors.New("fake websocket: ping failed")
	}
	return nil
}

// WriteJSON is the implementation of wsjson.Write.
func (c *Conn) WriteJSON(ctx context.Context, v any) error {
	vsched.Yield("ws.write")
	if err := ctx.Err(); err != nil {
		return err
	}
	c.mu.Lock()
	dead := c.closed || c.gone
	c.mu.Unlock()
	if dead {
		return errors.New("fake websocket: write on closed connection")
	}
	e := env()
	if e.WriteMayFail && vsched.Choose(2, "ws.write-fails", 1) == 1 {
		c.peerGone()
		return errors.New("fake websocket: peer is gone")
	}
	if e.OnWrite != nil {
		e.OnWrite(c, v)
	}
	return nil
}
