// Package fsnotify replaces github.com/fsnotify/fsnotify in rewritten files: a watch list and two
// model channels; events are injected by the harness with Inject.
package fsnotify

import (
	"errors"
	"sort"
	"sync"

	"verif/h/vsched"
)

type Op uint32

const (
	Create Op = 1 << iota
	Write
	Remove
	Rename
	Chmod
)

func (o Op) Has(h Op) bool { return o&h != 0 }
func (o Op) String() string {
	s := ""
	for i, n := range []string{"CREATE", "WRITE", "REMOVE", "RENAME", "CHMOD"} {
		if o&(1<<i) != 0 {
			s += "|" + n
		}
	}
	if s == "" {
		return "[no events]"
	}
	return s[1:]
}

type Event struct {
	Name string
	Op   Op
}

func (e Event) Has(op Op) bool { return e.Op.Has(op) }
func (e Event) String() string { return e.Op.String() + " \"" + e.Name + "\"" }

type Watcher struct {
	Events chan Event
	Errors chan error

	mu     sync.Mutex
	list   map[string]struct{}
	closed bool
}

func NewWatcher() (*Watcher, error) {
	w := &Watcher{Events: vsched.MakeChan[Event](0), Errors: vsched.MakeChan[error](0), list: map[string]struct{}{}}
	vsched.NameChan(w.Events, "fsnotify.Events")
	vsched.NameChan(w.Errors, "fsnotify.Errors")
	vsched.SetValue("fsnotify.last", w)
	return w, nil
}

// Last returns the watcher most recently created in this execution.
func Last() *Watcher { w, _ := vsched.Value("fsnotify.last").(*Watcher); return w }

var ErrClosed = errors.New("fsnotify: watcher already closed")

func (w *Watcher) Add(name string) error {
	w.mu.Lock()
	defer w.mu.Unlock()
	if w.closed {
		return ErrClosed
	}
	w.list[name] = struct{}{}
	return nil
}

func (w *Watcher) Remove(name string) error {
	w.mu.Lock()
	defer w.mu.Unlock()
	if w.closed {
		return nil
	}
	if _, ok := w.list[name]; !ok {
		return errors.New("fsnotify: can't remove non-existent watch: " + name)
	}
	delete(w.list, name)
	return nil
}

func (w *Watcher) WatchList() []string {
	w.mu.Lock()
	defer w.mu.Unlock()
	if w.closed {
		return nil
	}
	var l []string
	for k := range w.list {
		l = append(l, k)
	}
	sort.Strings(l)
	return l
}

func (w *Watcher) Close() error {
	w.mu.Lock()
	if w.closed {
		w.mu.Unlock()
		return nil
	}
	w.closed = true
	w.mu.Unlock()
	vsched.Close(w.Events)
	vsched.Close(w.Errors)
	return nil
}

func (w *Watcher) IsClosed() bool { w.mu.Lock(); defer w.mu.Unlock(); return w.closed }

// Inject delivers an event like the backend's reader goroutine would (blocking send).
func (w *Watcher) Inject(e Event) { vsched.Send(w.Events, e) }
