package vsched

import (
	"reflect"
	"sync"
	"unsafe"
)

// Shims for package sync. Lock / RLock / Wait / positive Add / Once.Do / Map operations are
// scheduling points. Unlock / RUnlock / Done are recorded but do not yield: they are left-movers (no
// other thread can have operated on the mutex while it was held, or completed a Wait before the Done;
// TryLock, which would break this, is not offered), so by Lipton's reduction the block "… Unlock" is
// atomic. close(ch), context cancellation and ctx.Err() are NOT left/right movers (another thread may
// send, poll or read) and therefore are scheduling points.
//
// The documented misuse rules of sync are modelled as panics with the runtime's messages:
//   - "sync: negative WaitGroup counter"
//   - "sync: WaitGroup misuse: Add called concurrently with Wait" (positive Add that starts from a zero
//     counter while another goroutine is in Wait: the documented rule that such an Add must
//     happen-before Wait is violated as soon as both are pending together)
//   - "sync: unlock of unlocked mutex", "sync: RUnlock of unlocked RWMutex", "sync: Unlock of unlocked RWMutex"

type Mutex struct {
	real   sync.Mutex
	locked bool
	obj    *Obj
}

func (m *Mutex) o(ex *Exec) *Obj {
	if m.obj == nil || ex.lazyObjs[m] == nil {
		m.obj = ex.lazyObj(m, "mutex")
		m.locked = false
	}
	return m.obj
}

func (m *Mutex) Lock() {
	if passthrough {
		m.real.Lock()
		return
	}
	ex := mustExec("Mutex.Lock")
	o := m.o(ex)
	ex.block(&pend{kind: kLock, obj: o, ready: func() bool { return !m.locked }, fire: func() { m.locked = true }})
}

// TryLock is deliberately absent: with polling lock operations Unlock would have to be a scheduling point.

func (m *Mutex) Unlock() {
	if passthrough {
		m.real.Unlock()
		return
	}
	ex := mustExec("Mutex.Unlock")
	o := m.o(ex)
	if !m.locked {
		panic("sync: unlock of unlocked mutex")
	}
	m.locked = false
	ex.note(ex.cur, kUnlock, o, 0)
}

type RWMutex struct {
	real    sync.RWMutex
	writer  bool
	readers int
	obj     *Obj
}

func (m *RWMutex) o(ex *Exec) *Obj {
	if m.obj == nil || ex.lazyObjs[m] == nil {
		m.obj = ex.lazyObj(m, "rwmutex")
		m.writer, m.readers = false, 0
	}
	return m.obj
}

func (m *RWMutex) Lock() {
	if passthrough {
		m.real.Lock()
		return
	}
	ex := mustExec("RWMutex.Lock")
	o := m.o(ex)
	ex.block(&pend{kind: kLock, obj: o, ready: func() bool { return !m.writer && m.readers == 0 }, fire: func() { m.writer = true }})
}

func (m *RWMutex) Unlock() {
	if passthrough {
		m.real.Unlock()
		return
	}
	ex := mustExec("RWMutex.Unlock")
	o := m.o(ex)
	if !m.writer {
		panic("sync: Unlock of unlocked RWMutex")
	}
	m.writer = false
	ex.note(ex.cur, kUnlock, o, 0)
}

func (m *RWMutex) RLock() {
	if passthrough {
		m.real.RLock()
		return
	}
	ex := mustExec("RWMutex.RLock")
	o := m.o(ex)
	ex.block(&pend{kind: kRLock, obj: o, ready: func() bool { return !m.writer }, fire: func() { m.readers++ }})
}

func (m *RWMutex) RUnlock() {
	if passthrough {
		m.real.RUnlock()
		return
	}
	ex := mustExec("RWMutex.RUnlock")
	o := m.o(ex)
	if m.readers == 0 {
		panic("sync: RUnlock of unlocked RWMutex")
	}
	m.readers--
	ex.note(ex.cur, kRUnlock, o, 0)
}

func (m *RWMutex) RLocker() sync.Locker { return (*rlocker)(m) }

type rlocker RWMutex

func (r *rlocker) Lock()   { (*RWMutex)(r).RLock() }
func (r *rlocker) Unlock() { (*RWMutex)(r).RUnlock() }

// Locker re-exports sync.Locker.
type Locker = sync.Locker

type WaitGroup struct {
	real sync.WaitGroup
	n    int
	obj  *Obj
}

func (w *WaitGroup) o(ex *Exec) *Obj {
	if w.obj == nil || ex.lazyObjs[w] == nil {
		w.obj = ex.lazyObj(w, "waitgroup")
		w.n = 0
	}
	return w.obj
}

func (w *WaitGroup) waiters(ex *Exec) int {
	n := 0
	for _, t := range ex.threads {
		if !t.done && t.pend != nil && t.pend.kind == kWGWait && t.pend.obj == w.obj {
			n++
		}
	}
	return n
}

func (w *WaitGroup) Add(delta int) {
	if passthrough {
		w.real.Add(delta)
		return
	}
	ex := mustExec("WaitGroup.Add")
	o := w.o(ex)
	if delta > 0 {
		t := ex.cur
		ex.block(&pend{kind: kWGAdd, obj: o, fire: func() {
			if w.n == 0 && w.waiters(ex) > 0 {
				t.panicMsg = "sync: WaitGroup misuse: Add called concurrently with Wait"
				return
			}
			w.n += delta
		}})
		return
	}
	w.n += delta
	ex.note(ex.cur, kWGDone, o, uint64(-delta))
	if w.n < 0 {
		panic("sync: negative WaitGroup counter")
	}
}

func (w *WaitGroup) Done() { w.Add(-1) }

func (w *WaitGroup) Wait() {
	if passthrough {
		w.real.Wait()
		return
	}
	ex := mustExec("WaitGroup.Wait")
	o := w.o(ex)
	ex.block(&pend{kind: kWGWait, obj: o, ready: func() bool { return w.n == 0 }})
}

// Go is sync.WaitGroup.Go (Go 1.25).
func (w *WaitGroup) Go(f func()) {
	w.Add(1)
	Go("WaitGroup.Go", func() {
		defer w.Done()
		f()
	})
}

// Counter exposes the model counter (oracle use).
func (w *WaitGroup) Counter() int { return w.n }

type Once struct {
	real sync.Once
	m    Mutex
	done bool
	obj  *Obj
}

func (o *Once) Do(f func()) {
	if passthrough {
		o.real.Do(f)
		return
	}
	ex := mustExec("Once.Do")
	if o.obj == nil || ex.lazyObjs[o] == nil {
		o.obj = ex.lazyObj(o, "once")
		o.done = false
	}
	o.m.Lock()
	defer o.m.Unlock()
	if !o.done {
		defer func() { o.done = true }()
		f()
	}
}

// Map wraps sync.Map; every operation is a scheduling point.
type Map struct {
	real sync.Map
	obj  *Obj
}

func (m *Map) pt(label string) {
	if passthrough {
		return
	}
	ex := mustExec("sync.Map." + label)
	if m.obj == nil || ex.lazyObjs[m] == nil {
		m.obj = ex.lazyObj(m, "syncmap")
	}
	ex.block(&pend{kind: kCell, obj: m.obj, label: label})
}

func (m *Map) Load(k any) (any, bool)    { m.pt("load"); return m.real.Load(k) }
func (m *Map) Store(k, v any)            { m.pt("store"); m.real.Store(k, v) }
func (m *Map) Delete(k any)              { m.pt("delete"); m.real.Delete(k) }
func (m *Map) Clear()                    { m.pt("clear"); m.real.Clear() }
func (m *Map) Swap(k, v any) (any, bool) { m.pt("swap"); return m.real.Swap(k, v) }
func (m *Map) LoadOrStore(k, v any) (any, bool) {
	m.pt("loadorstore")
	return m.real.LoadOrStore(k, v)
}
func (m *Map) LoadAndDelete(k any) (any, bool) {
	m.pt("loadanddelete")
	return m.real.LoadAndDelete(k)
}
func (m *Map) CompareAndSwap(k, o, n any) bool {
	m.pt("cas")
	return m.real.CompareAndSwap(k, o, n)
}
func (m *Map) CompareAndDelete(k, o any) bool {
	m.pt("cad")
	return m.real.CompareAndDelete(k, o)
}
func (m *Map) Range(f func(k, v any) bool) {
	if passthrough {
		m.real.Range(f)
		return
	}
	HarnessError("sync.Map.Range is not supported by the vsync shim (iteration order is not controlled)")
}

// RegisterAll pre-registers, in field order, every shim object embedded by value in *p (recursively
// through nested structs), so that their canonical ids do not depend on which thread uses them first.
func RegisterAll(p any, prefix string) {
	if passthrough {
		return
	}
	ex := mustExec("RegisterAll")
	v := reflect.ValueOf(p)
	if v.Kind() != reflect.Pointer || v.Elem().Kind() != reflect.Struct {
		HarnessError("RegisterAll needs a pointer to struct, got %T", p)
	}
	registerStruct(ex, v.Elem(), prefix)
}

var (
	tMutex   = reflect.TypeOf(Mutex{})
	tRWMutex = reflect.TypeOf(RWMutex{})
	tWG      = reflect.TypeOf(WaitGroup{})
	tOnce    = reflect.TypeOf(Once{})
	tMap     = reflect.TypeOf(Map{})
)

func registerStruct(ex *Exec, v reflect.Value, prefix string) {
	t := v.Type()
	for i := 0; i < t.NumField(); i++ {
		f := v.Field(i)
		name := prefix + t.Field(i).Name
		if !f.CanAddr() {
			continue
		}
		ptr := unsafe.Pointer(f.UnsafeAddr())
		switch f.Type() {
		case tMutex:
			m := (*Mutex)(ptr)
			m.obj = ex.lazyObj(m, name)
			m.locked = false
		case tRWMutex:
			m := (*RWMutex)(ptr)
			m.obj = ex.lazyObj(m, name)
			m.writer, m.readers = false, 0
		case tWG:
			w := (*WaitGroup)(ptr)
			w.obj = ex.lazyObj(w, name)
			w.n = 0
		case tOnce:
			o := (*Once)(ptr)
			o.obj = ex.lazyObj(o, name)
			o.done = false
		case tMap:
			m := (*Map)(ptr)
			m.obj = ex.lazyObj(m, name)
		default:
			if f.Kind() == reflect.Struct {
				registerStruct(ex, f, name+".")
			}
		}
	}
}
