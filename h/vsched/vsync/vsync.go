// Package vsync replaces import "sync" in rewritten files (see vsched/sync.go for the semantics).
// Anything of package sync that is not listed here is unsupported: the rewritten file fails to compile.
package vsync

import "verif/h/vsched"

type (
	Mutex     = vsched.Mutex
	RWMutex   = vsched.RWMutex
	WaitGroup = vsched.WaitGroup
	Once      = vsched.Once
	Map       = vsched.Map
	Locker    = vsched.Locker
)
