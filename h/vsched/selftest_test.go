package vsched

import "testing"

func TestSelf(t *testing.T) {
	for _, b := range SelfTest() {
		t.Error(b)
	}
}
