package vsched

import (
	"fmt"
	"sort"
	"strings"
	"time"
)

// Explorer is the deviation-bounded DFS over the choice tree of one closed system (harness + config).
type Explorer struct {
	Name         string
	Body         func()    // harness body, runs as managed thread 0
	Reset        func()    // optional: reset package-level state of the code under test between executions
	Bounds       []int     // deviation bounds to run in order; -1 = unbounded
	Prune        bool      // state-key pruning (Mazurkiewicz-history keys)
	Horizon      int       // max scheduling steps per execution (livelock detector)
	EnvBudget    int       // max environment events (timer fires, disconnects) per execution
	Deadline     time.Time // zero = none
	MaxFailExecs int       // stop exploring after this many failing executions (0 = 25)
	ReplayEvery  int       // replay every n-th execution to prove determinism (0 = 100)
	// NoPolling asserts that no select-with-default ever involves an unbuffered model channel (checked at
	// run time); then a thread's arrival at a channel operation is not observable and needs no step of its own.
	NoPolling bool
	// EveryDeviationCosts switches from preemption bounding to deviation bounding: every choice other than
	// the default one (continue the running thread, else the lowest enabled thread id, first ready select
	// case) costs 1, also when the running thread is blocked. For systems with many symmetric threads.
	EveryDeviationCosts bool
	// Sharding of one large system over several processes: the choice tree is cut at depth SplitDepth;
	// every shard walks the tree above the cut, and expands below it only the depth-SplitDepth prefixes
	// whose hash it owns. Each shard prunes with its own table only, so the union over shards is exhaustive.
	Shard, NShards, SplitDepth int

	bound       int
	prune       bool
	visited     map[uint64]int
	transitions int64
}

// FailRec is a violating execution with its schedule.
type FailRec struct {
	Class   string   `json:"class"`
	Detail  string   `json:"detail"`
	Choices []int    `json:"choices"`
	Trace   []string `json:"trace,omitempty"`
	Replays int      `json:"replays_identical"`
}

// Result summarises the exploration of one closed system.
type Result struct {
	Name           string           `json:"name"`
	Executions     int64            `json:"executions"`
	NovelExecs     int64            `json:"novel_executions"` // executions that reached at least one state not seen before
	States         int64            `json:"states"`
	Transitions    int64            `json:"transitions"`
	BoundCompleted string           `json:"bound_completed"` // "none", "0", "1", …, "unbounded"
	PerBound       []BoundRec       `json:"per_bound"`
	Exhaustive     bool             `json:"exhaustive"`
	Outcomes       map[string]int64 `json:"outcomes"`
	Fails          []FailRec        `json:"fails"`
	FailCounts     map[string]int64 `json:"fail_counts"`
	Samples        [][]int          `json:"samples"`
	ReplaysChecked int64            `json:"replays_checked"`
	MaxDepth       int              `json:"max_depth"`
	MaxThreads     int              `json:"max_threads"`
	WallMS         int64            `json:"wall_ms"`
}

type BoundRec struct {
	Bound      string `json:"bound"`
	Executions int64  `json:"executions"`
	States     int64  `json:"states"`
	Complete   bool   `json:"complete"`
}

type execSummary struct {
	choices []int
	sigs    []uint64
	trace   []Decision
	fails   []Failure
	outcome string
	log     []string
	steps   int
	threads int
	fresh   int64
	newKeys int64
	trans   int64
}

// runOne executes the body once under the given choice prefix.
func (x *Explorer) runOne(prefix []int, psig []uint64, tracing bool) *execSummary {
	return x.runOneL(prefix, psig, tracing, false)
}

func (x *Explorer) runOneL(prefix []int, psig []uint64, tracing, lenient bool) *execSummary {
	if x.Reset != nil {
		x.Reset()
	}
	ex := &Exec{x: x, prefix: prefix, psig: psig, chans: map[uintptr]*chanObj{}, done: make(chan struct{}), tracing: tracing,
		lazyObjs: map[any]*Obj{}, Values: map[string]any{}, lenient: lenient}
	curExec = ex
	Go("main", x.Body)
	ex.dispatch(nil)
	<-ex.done
	for _, f := range ex.atEnd {
		f()
	}
	curExec = nil
	s := &execSummary{trace: ex.trace, fails: ex.fails, outcome: ex.outcome, log: ex.log, steps: ex.steps, threads: len(ex.threads), fresh: ex.fresh, newKeys: ex.newKeys, trans: ex.trans}
	s.choices = make([]int, len(ex.trace))
	s.sigs = make([]uint64, len(ex.trace))
	for i, d := range ex.trace {
		s.choices[i], s.sigs[i] = d.C, d.Sig
	}
	if len(ex.trace) < len(prefix) && !lenient {
		HarnessError("replay divergence in harness %q: execution ended after %d choices but the prefix has %d", x.Name, len(ex.trace), len(prefix))
	}
	return s
}

// next computes the next DFS prefix (deepest untried alternative within the bound), nil when done.
func (x *Explorer) next(s *execSummary) ([]int, []uint64) {
	cum := make([]int, len(s.trace)+1)
	for i, d := range s.trace {
		cum[i+1] = cum[i] + int(d.Costs[d.C])
	}
	for i := len(s.trace) - 1; i >= 0; i-- {
		d := s.trace[i]
		if d.Pruned {
			continue
		}
		for j := d.C + 1; j < d.N; j++ {
			if x.bound < 0 || cum[i]+int(d.Costs[j]) <= x.bound {
				p := append(append([]int(nil), s.choices[:i]...), j)
				return p, append([]uint64(nil), s.sigs[:i+1]...)
			}
		}
	}
	return nil, nil
}

// owns tells whether this shard expands the subtree below the first SplitDepth choices of tr.
func (x *Explorer) owns(tr []Decision) bool {
	if x.NShards <= 1 {
		return true
	}
	h := uint64(0x5a17)
	for i := 0; i < x.SplitDepth; i++ {
		c := 0
		if i < len(tr) {
			c = tr[i].C
		}
		h = mix(h, uint64(c))
	}
	return int(h%uint64(x.NShards)) == x.Shard
}

func boundName(b int) string {
	if b < 0 {
		return "unbounded"
	}
	return fmt.Sprint(b)
}

func (s *execSummary) fingerprint() string {
	var b strings.Builder
	fmt.Fprint(&b, s.choices, "|", s.outcome, "|", s.steps, "|")
	for _, f := range s.fails {
		b.WriteString(f.Class + ";")
	}
	return b.String()
}

// Explore runs all bounds in order and returns the merged result.
func (x *Explorer) Explore() *Result {
	start := time.Now()
	if x.Horizon == 0 {
		x.Horizon = 5000
	}
	if x.MaxFailExecs == 0 {
		x.MaxFailExecs = 25
	}
	if x.ReplayEvery == 0 {
		x.ReplayEvery = 100
	}
	res := &Result{Name: x.Name, Outcomes: map[string]int64{}, FailCounts: map[string]int64{}, BoundCompleted: "none", Exhaustive: true}
	failExecs := 0
	seenFail := map[string]int{}
	for _, b := range x.Bounds {
		x.bound, x.prune = b, x.Prune
		x.visited = map[uint64]int{}
		br := BoundRec{Bound: boundName(b)}
		var prefix []int
		var psig []uint64
		complete := true
		for {
			if !x.Deadline.IsZero() && br.Executions&63 == 0 && time.Now().After(x.Deadline) {
				complete = false
				break
			}
			s := x.runOne(prefix, psig, false)
			if !x.owns(s.trace) {
				// skeleton execution owned by another shard: walked only to discover the tree above the cut
				prefix, psig = x.next(s)
				if prefix == nil {
					break
				}
				continue
			}
			br.Executions++
			res.Executions++
			br.States += s.newKeys
			if s.newKeys > 0 {
				res.NovelExecs++
			}
			x.transitions += s.trans
			if len(s.trace) > res.MaxDepth {
				res.MaxDepth = len(s.trace)
			}
			if s.threads > res.MaxThreads {
				res.MaxThreads = s.threads
			}
			res.Outcomes[s.outcome]++
			if n := res.Executions; n <= 2 || (n&(n-1)) == 0 && len(res.Samples) < 12 {
				res.Samples = append(res.Samples, s.choices)
			}
			if res.Executions%int64(x.ReplayEvery) == 0 {
				x.verifyReplay(s, 1)
				res.ReplaysChecked++
			}
			if len(s.fails) > 0 {
				failExecs++
				for _, f := range s.fails {
					res.FailCounts[f.Class]++
					if seenFail[f.Class] < 2 {
						seenFail[f.Class]++
						n := x.verifyReplay(s, 5)
						tr := x.runOne(s.choices, s.sigs, true)
						res.Fails = append(res.Fails, FailRec{Class: f.Class, Detail: f.Detail, Choices: s.choices, Trace: tr.log, Replays: n})
						res.ReplaysChecked += int64(n)
					}
				}
				if failExecs >= x.MaxFailExecs {
					complete = false
					break
				}
			}
			prefix, psig = x.next(s)
			if prefix == nil {
				break
			}
		}
		br.Complete = complete
		res.PerBound = append(res.PerBound, br)
		res.States += br.States
		if !complete {
			res.Exhaustive = false
			break
		}
		res.BoundCompleted = boundName(b)
	}
	res.Transitions = x.transitions
	sort.SliceStable(res.Fails, func(i, j int) bool { return len(res.Fails[i].Choices) < len(res.Fails[j].Choices) })
	res.WallMS = time.Since(start).Milliseconds()
	return res
}

// verifyReplay re-runs the full choice list n times; any difference in choices, outcome, step count
// or failure classes is a harness error.
func (x *Explorer) verifyReplay(s *execSummary, n int) int {
	savedPrune := x.prune
	x.prune = false
	defer func() { x.prune = savedPrune }()
	want := s.fingerprint()
	for i := 0; i < n; i++ {
		r := x.runOne(s.choices, s.sigs, false)
		if got := r.fingerprint(); got != want {
			HarnessError("replay of harness %q is not deterministic:\n first: %s\n again: %s", x.Name, want, got)
		}
	}
	return n
}

// Replay runs one recorded schedule with tracing and returns the failures, outcome and the trace.
func (x *Explorer) Replay(choices []int) ([]Failure, string, []string) {
	if x.Horizon == 0 {
		x.Horizon = 5000
	}
	x.bound, x.prune = -1, false
	s := x.runOneL(choices, nil, true, true)
	return s.fails, s.outcome, s.log
}
