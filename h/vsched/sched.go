// Package vsched is a cooperative scheduler and schedule explorer for real Go code (engine E2 of
// DESIGN.md). Code under test is rewritten by vinstr so that every goroutine start, channel
// operation, select, lock, wait-group operation, timer and blocking I/O seam calls into this package.
//
// Controlled mode: exactly one managed goroutine runs at a time. Before each hooked operation the
// thread parks and publishes its pending operation; the scheduler enumerates the enabled
// (thread, alternative) pairs in canonical order (running thread first, then ascending thread id,
// then environment events) and the explorer picks one. An execution is therefore fully determined
// by its choice list, which is the replayable artefact.
//
// Pass-through mode (SetPassthrough(true)): every hook performs the real primitive; used for the
// free-running -race companion pass.
package vsched

import (
	"fmt"
	"os"
	"runtime/debug"
	"sort"
	"strings"
)

var passthrough bool

// SetPassthrough selects free-running mode (must be called before any hooked operation).
func SetPassthrough(b bool) { passthrough = b }
func Passthrough() bool     { return passthrough }

// HarnessError aborts the process with exit status 2: the harness (not the code under test) is wrong.
func HarnessError(format string, a ...any) {
	fmt.Fprintf(os.Stderr, "HARNESS ERROR: "+format+"\n", a...)
	os.Exit(2)
}

func mix(a uint64, bs ...uint64) uint64 {
	for _, b := range bs {
		a ^= b + 0x9e3779b97f4a7c15 + (a << 6) + (a >> 2)
		a *= 0xff51afd7ed558ccd
		a ^= a >> 33
	}
	return a
}

func hashStr(s string) uint64 {
	h := uint64(14695981039346656037)
	for i := 0; i < len(s); i++ {
		h ^= uint64(s[i])
		h *= 1099511628211
	}
	return h
}

// operation kinds
const (
	kStart uint8 = iota + 1
	kResume
	kLock
	kRLock
	kUnlock
	kRUnlock
	kWGAdd
	kWGDone
	kWGWait
	kChan // send / recv / select
	kClose
	kYield
	kQuiesce
	kSpawn
	kDone
	kCell
	kOnce
	kTimer
	kEnv
	kChoose
	kMapOrder
)

var kindName = map[uint8]string{kStart: "start", kResume: "resume", kLock: "lock", kRLock: "rlock", kUnlock: "unlock", kRUnlock: "runlock",
	kWGAdd: "wg.add", kWGDone: "wg.done", kWGWait: "wg.wait", kChan: "chan", kClose: "close", kYield: "yield", kQuiesce: "quiesce", kSpawn: "go",
	kDone: "exit", kCell: "cell", kOnce: "once", kTimer: "timer", kEnv: "env", kChoose: "choose", kMapOrder: "maporder"}

// Obj is the scheduler's view of one synchronisation object (mutex, channel, wait group, cell, …).
type Obj struct {
	cid  uint64 // canonical id: (creating thread's canonical id, its creation index)
	hist uint64 // running hash of the sequence of operations applied (thread, kind, thread-local op index)
	seq  uint64 // number of operations applied
	name string
}

// Thread is one managed goroutine.
type Thread struct {
	id       int
	cid      uint64
	Site     string
	wake     chan struct{}
	pend     *pend
	done     bool
	hist     uint64
	nops     uint64
	nspawn   uint64
	nobj     uint64
	sel      selResult
	panicMsg string
}

type pend struct {
	kind       uint8
	obj        *Obj
	ready      func() bool // nil = always ready (non-channel ops)
	fire       func()      // effect applied when the thread is chosen (non-channel ops)
	cases      []*chanCase // channel ops
	hasDefault bool
	label      string
}

type selResult struct {
	idx int
	val any
	ok  bool
}

// alt is one enabled transition.
type alt struct {
	t       *Thread
	ci      int // case index for channel ops (-1 default, -2 n/a)
	partner *Thread
	pci     int
	env     *envEvent
}

// Decision is one recorded choice point with more than one option.
type Decision struct {
	N      int     `json:"n"`
	C      int     `json:"c"`
	Costs  []uint8 `json:"-"`
	Sig    uint64  `json:"-"`
	Pruned bool    `json:"-"`
	Desc   string  `json:"-"` // description of the chosen option (filled only when tracing)
}

// Failure is a property violation observed in one execution.
type Failure struct {
	Class  string `json:"class"`
	Detail string `json:"detail"`
}

type envEvent struct {
	name  string
	armed bool
	fire  func()
	obj   *Obj
	cost  uint8
}

// Exec is one execution of a harness body under a fixed choice prefix.
type Exec struct {
	x        *Explorer
	threads  []*Thread
	cur      *Thread
	steps    int
	trace    []Decision
	prefix   []int
	psig     []uint64
	used     int
	pruned   bool
	chans    map[uintptr]*chanObj
	envs     []*envEvent
	fires    int
	thrSum   uint64
	objSum   uint64
	done     chan struct{}
	ended    bool
	fails    []Failure
	outcome  string
	tracing  bool
	log      []string
	opts     []alt
	costs    []uint8
	fresh    int64 // transitions executed beyond the replayed prefix
	newKeys  int64
	lazyObjs map[any]*Obj
	keep     []any
	eager    []eagerFrame
	observer func(op, obj string)
	lenient  bool
	trans    int64
	Values   map[string]any // per-execution scratch for harness / fakes
	atEnd    []func()
}

var curExec *Exec

// Cur returns the current execution (nil in pass-through mode or outside an exploration).
func Cur() *Exec { return curExec }

func mustExec(what string) *Exec {
	if curExec == nil {
		HarnessError("%s outside a managed execution (package-level or unmanaged goroutine use is not supported)", what)
	}
	return curExec
}

func (ex *Exec) newObj(name string) *Obj {
	t := ex.cur
	var cid uint64
	if t == nil {
		cid = mix(0xabcdef, uint64(len(ex.envs)), hashStr(name))
	} else {
		cid = mix(t.cid, 0x0b, t.nobj)
		t.nobj++
	}
	o := &Obj{cid: cid, name: name}
	ex.objSum += mix(o.cid, o.hist)
	return o
}

// lazyObj finds or creates the Obj for a zero-value shim object identified by its address.
func (ex *Exec) lazyObj(key any, name string) *Obj {
	if o := ex.lazyObjs[key]; o != nil {
		return o
	}
	o := ex.newObj(name)
	ex.lazyObjs[key] = o
	return o
}

// note records that thread t applied an operation of kind k on o with result r.
func (ex *Exec) note(t *Thread, k uint8, o *Obj, r uint64) {
	old := t.hist
	var oc, os_ uint64
	if o != nil {
		oc, os_ = o.cid, o.seq
		oh := o.hist
		o.hist = mix(o.hist, t.cid, uint64(k), t.nops, r)
		o.seq++
		ex.objSum += mix(o.cid, o.hist) - mix(o.cid, oh)
	}
	t.hist = mix(t.hist, uint64(k), oc, os_, r)
	t.nops++
	ex.thrSum += mix(t.cid, t.hist) - mix(t.cid, old)
	if ex.observer != nil && o != nil {
		ex.observer(kindName[k], o.name)
	}
	if ex.tracing {
		on := ""
		if o != nil {
			on = " " + o.name
		}
		ex.log = append(ex.log, fmt.Sprintf("T%d[%s] %s%s r=%d", t.id, t.Site, kindName[k], on, r))
	}
}

// noteEnv records an operation applied to o by the environment (no thread history changes).
func (ex *Exec) noteEnv(o *Obj, r uint64) {
	oh := o.hist
	o.hist = mix(o.hist, 0xe, o.seq, r)
	o.seq++
	ex.objSum += mix(o.cid, o.hist) - mix(o.cid, oh)
}

func (ex *Exec) key(kind uint8, extra uint64) uint64 {
	var c uint64
	if ex.cur != nil && !ex.cur.done {
		c = ex.cur.cid
	}
	return mix(ex.thrSum, ex.objSum, c, uint64(kind), extra, uint64(ex.fires))
}

// Failf records a violation in the current execution (the execution continues).
func Failf(class, format string, a ...any) {
	if passthrough {
		return
	}
	ex := mustExec("Failf")
	ex.fails = append(ex.fails, Failure{Class: class, Detail: fmt.Sprintf(format, a...)})
}

// SetOutcome records the canonical observable outcome of the execution.
func SetOutcome(s string) {
	if passthrough {
		return
	}
	mustExec("SetOutcome").outcome = s
}

func (ex *Exec) end() {
	if !ex.ended {
		ex.ended = true
		close(ex.done)
	}
}

// pick resolves one choice point with n options.
func (ex *Exec) pick(n int, costs []uint8, sig uint64, kind uint8, desc func(i int) string) int {
	if n == 1 {
		return 0
	}
	i := len(ex.trace)
	c := 0
	d := Decision{N: n, Sig: sig}
	if i < len(ex.prefix) {
		c = ex.prefix[i]
		if ex.lenient {
			if c >= n {
				c = 0
			}
		} else if i < len(ex.psig) && ex.psig[i] != sig || c >= n {
			ex.diverged(i, n, sig, desc)
		}
	} else {
		ex.fresh++
		if !ex.pruned && ex.x != nil && ex.x.NShards > 1 && i >= ex.x.SplitDepth && !ex.x.owns(ex.trace) {
			// another shard explores everything below this depth-SplitDepth prefix
			ex.pruned = true
		}
		if !ex.pruned && ex.x != nil && ex.x.prune {
			k := ex.key(kind, sig)
			rem := 1 << 30
			if ex.x.bound >= 0 {
				rem = ex.x.bound - ex.used
			}
			if old, ok := ex.x.visited[k]; ok && old >= rem {
				ex.pruned = true
			} else {
				if !ok {
					ex.newKeys++
				}
				ex.x.visited[k] = rem
			}
		} else if !ex.pruned {
			ex.newKeys++
		}
		d.Pruned = ex.pruned
	}
	d.C = c
	d.Costs = append([]uint8(nil), costs[:n]...)
	if ex.tracing && desc != nil {
		d.Desc = desc(c)
		ex.log = append(ex.log, fmt.Sprintf("  choice #%d: %d of %d -> %s", i, c, n, d.Desc))
	}
	ex.used += int(costs[c])
	ex.trace = append(ex.trace, d)
	return c
}

func (ex *Exec) diverged(i, n int, sig uint64, desc func(int) string) {
	var opts []string
	if desc != nil {
		for j := 0; j < n; j++ {
			opts = append(opts, desc(j))
		}
	}
	var ps uint64
	if i < len(ex.psig) {
		ps = ex.psig[i]
	}
	HarnessError("replay divergence at choice #%d of harness %q: prefix recorded signature %x / choice %d, now %d options signature %x (%s). The code under test is not deterministic under the scheduler (unhooked nondeterminism).",
		i, ex.x.Name, ps, ex.prefix[i], n, sig, strings.Join(opts, " | "))
}

func (ex *Exec) altDesc(a alt) string {
	if a.env != nil {
		return "env:" + a.env.name
	}
	p := a.t.pend
	s := fmt.Sprintf("T%d[%s] %s", a.t.id, a.t.Site, kindName[p.kind])
	if p.obj != nil {
		s += " " + p.obj.name
	}
	if p.label != "" {
		s += " " + p.label
	}
	if p.kind == kChan && a.ci == -2 {
		s += " [" + p.chanNames() + "]"
		if p.hasDefault {
			s += " default"
		}
	} else if p.kind == kChan {
		if a.ci == -1 {
			s += " default"
		} else {
			c := p.cases[a.ci]
			dir := "recv"
			if c.send {
				dir = "send"
			}
			s += fmt.Sprintf(" case%d:%s %s", a.ci, dir, c.name())
		}
		if a.partner != nil {
			s += fmt.Sprintf(" <-> T%d", a.partner.id)
		}
	}
	return s
}

func (ex *Exec) altSig(a alt) uint64 {
	if a.env != nil {
		return mix(0xe, a.env.obj.cid)
	}
	p := a.t.pend
	var oc, pc uint64
	if p.obj != nil {
		oc = p.obj.cid
	}
	if a.partner != nil {
		pc = a.partner.cid
	}
	return mix(a.t.cid, uint64(p.kind), oc, uint64(a.ci+3), pc, uint64(a.pci+3))
}

// decide enumerates the enabled transitions and lets the explorer choose one. nil = execution over.
func (ex *Exec) decide(from *Thread) *alt {
	if ex.ended {
		return nil
	}
	ex.steps++
	if ex.x != nil && ex.steps > ex.x.Horizon {
		ex.fails = append(ex.fails, Failure{Class: "livelock:horizon-exceeded", Detail: fmt.Sprintf("execution exceeded %d scheduling steps; live threads: %s", ex.x.Horizon, ex.liveDesc())})
		ex.end()
		return nil
	}
	opts := ex.opts[:0]
	hasQ := false
	add := func(t *Thread) {
		if t.done {
			return
		}
		p := t.pend
		switch {
		case p.kind == kQuiesce:
			hasQ = true
		case p.kind == kChan:
			opts = ex.chanAlts(t, opts)
		case p.ready == nil || p.ready():
			opts = append(opts, alt{t: t, ci: -2})
		}
	}
	if from != nil {
		add(from)
	}
	curEnabled := len(opts) > 0
	for _, t := range ex.threads {
		if t != from {
			add(t)
		}
	}
	if len(opts) == 0 && hasQ {
		curEnabled = false
		if from != nil && !from.done && from.pend.kind == kQuiesce {
			opts = append(opts, alt{t: from, ci: -2})
			curEnabled = true
		}
		for _, t := range ex.threads {
			if t != from && !t.done && t.pend.kind == kQuiesce {
				opts = append(opts, alt{t: t, ci: -2})
			}
		}
	}
	nThr := len(opts)
	if ex.x == nil || ex.fires < ex.x.EnvBudget {
		for _, e := range ex.envs {
			if e.armed {
				opts = append(opts, alt{env: e})
			}
		}
	}
	ex.opts = opts
	if len(opts) == 0 {
		live := 0
		for _, t := range ex.threads {
			if !t.done {
				live++
			}
		}
		if live > 0 {
			ex.fails = append(ex.fails, Failure{Class: "deadlock:" + ex.deadlockClass(), Detail: "no enabled thread; blocked: " + ex.liveDesc()})
		}
		ex.end()
		return nil
	}
	costs := ex.costs[:0]
	var sig uint64 = 0x51
	for i, a := range opts {
		c := uint8(0)
		if a.env != nil {
			c = a.env.cost
		} else if curEnabled && a.t != from {
			c = 1
		} else if i > 0 && ex.x != nil && ex.x.EveryDeviationCosts {
			c = 1
		}
		_ = i
		_ = nThr
		costs = append(costs, c)
		sig = mix(sig, ex.altSig(a))
	}
	ex.costs = costs
	if len(ex.trace) >= len(ex.prefix) {
		ex.trans++
	}
	c := ex.pick(len(opts), costs, sig, kChan, func(i int) string { return ex.altDesc(opts[i]) })
	a := opts[c]
	return &a
}

func (ex *Exec) liveDesc() string {
	var s []string
	for _, t := range ex.threads {
		if !t.done {
			s = append(s, ex.altDesc(alt{t: t, ci: -2}))
		}
	}
	return strings.Join(s, "; ")
}

// deadlockClass names the blocked operations by spawn site and kind (mechanism, not input).
func (ex *Exec) deadlockClass() string {
	var s []string
	for _, t := range ex.threads {
		if !t.done {
			d := t.Site + "@" + kindName[t.pend.kind]
			if t.pend.obj != nil {
				d += ":" + t.pend.obj.name
			}
			if t.pend.kind == kChan {
				d += ":" + t.pend.chanNames()
			}
			s = append(s, d)
		}
	}
	sort.Strings(s)
	return strings.Join(s, ",")
}

func (ex *Exec) fireAlt(a *alt) {
	t := a.t
	p := t.pend
	if p.kind == kChan {
		ex.fireChan(a)
		return
	}
	if p.fire != nil {
		p.fire()
	}
	var r uint64
	if p.label != "" {
		r = hashStr(p.label)
	}
	ex.note(t, p.kind, p.obj, r)
}

// dispatch runs the scheduler from thread `from` (which has published its pending op, or is done, or nil
// for the initial kick) until `from` itself is chosen, or another thread has been woken.
func (ex *Exec) dispatch(from *Thread) {
	for {
		a := ex.decide(from)
		if a == nil {
			if from != nil && !from.done {
				select {} // execution ended while this thread is blocked: park forever
			}
			return
		}
		if a.env != nil {
			ex.fires++
			a.env.armed = false
			ex.noteEnv(a.env.obj, 0)
			if ex.tracing {
				ex.log = append(ex.log, "env "+a.env.name)
			}
			a.env.fire()
			continue
		}
		ex.fireAlt(a)
		if a.partner != nil && a.partner != from {
			// (when the partner is the dispatching thread itself it keeps a visible "resume" step instead)
			// the rendezvous partner runs its invisible local steps up to its next scheduling point now
			ex.runUntilYield(a.partner)
		}
		next := a.t
		ex.cur = next
		if next == from {
			return
		}
		next.wake <- struct{}{}
		if from == nil || from.done {
			return
		}
		<-from.wake
		return
	}
}

// block publishes p as the current thread's pending operation and returns once it has been performed.
func (ex *Exec) block(p *pend) *Thread {
	t := ex.cur
	if t == nil {
		HarnessError("hooked operation %s called from outside a managed thread", kindName[p.kind])
	}
	t.pend = p
	if n := len(ex.eager); n > 0 && ex.eager[n-1].t == t {
		if ex.arrivalVisible(p) {
			// another thread may poll this unbuffered channel (select with default): whether this thread
			// has arrived at the operation is observable, so the arrival stays a separate visible step
			t.pend = resumePend
			ex.eagerReturn(t)
			<-t.wake
			t.pend = p
			ex.dispatch(t)
		} else {
			ex.eagerReturn(t)
			<-t.wake
		}
	} else {
		ex.dispatch(t)
	}
	if t.panicMsg != "" {
		m := t.panicMsg
		t.panicMsg = ""
		panic(m)
	}
	return t
}

var startPend = &pend{kind: kStart}
var resumePend = &pend{kind: kResume}

// Go starts a managed goroutine. site names the spawn site (function#index), stable under edits.
func Go(site string, f func()) {
	if passthrough {
		go f()
		return
	}
	ex := mustExec("go statement")
	parent := ex.cur
	t := &Thread{id: len(ex.threads), Site: site, wake: make(chan struct{}, 1), pend: startPend}
	if parent != nil {
		t.cid = mix(parent.cid, 0x60, parent.nspawn)
		parent.nspawn++
		ex.note(parent, kSpawn, nil, t.cid)
	} else {
		t.cid = 0x1001
	}
	ex.thrSum += mix(t.cid, t.hist)
	ex.threads = append(ex.threads, t)
	go func() {
		<-t.wake
		defer func() {
			if r := recover(); r != nil {
				st := string(debug.Stack())
				ex.fails = append(ex.fails, Failure{Class: "panic:" + panicClass(r, st), Detail: fmt.Sprintf("thread T%d[%s] panicked: %v\n%s", t.id, t.Site, r, clip(st, 2500))})
				ex.end()
			}
		}()
		f()
		t.done = true
		t.pend = nil
		ex.note(t, kDone, nil, 0)
		if !ex.eagerReturn(t) {
			ex.dispatch(t)
		}
	}()
	if parent != nil {
		// the new thread's code up to its first scheduling point is invisible to the others: run it now
		// (removes the separate "thread start" scheduling point)
		ex.runUntilYield(t)
	}
}

// arrivalVisible: does publishing p change what a polling operation of another thread can observe?
func (ex *Exec) arrivalVisible(p *pend) bool {
	if p.kind != kChan || (ex.x != nil && ex.x.NoPolling) {
		return false
	}
	for _, c := range p.cases {
		if c.co != nil && c.co.cap == 0 {
			return true
		}
	}
	return false
}

type eagerFrame struct {
	t   *Thread
	ret chan struct{}
}

// runUntilYield lets x run until it publishes its next pending operation (or ends), then returns.
func (ex *Exec) runUntilYield(x *Thread) {
	if ex.ended {
		return
	}
	prev := ex.cur
	fr := eagerFrame{t: x, ret: make(chan struct{}, 1)}
	ex.eager = append(ex.eager, fr)
	ex.cur = x
	x.wake <- struct{}{}
	<-fr.ret
	ex.cur = prev
}

// eagerReturn hands control back to the goroutine that is eagerly running t (if any).
func (ex *Exec) eagerReturn(t *Thread) bool {
	n := len(ex.eager)
	if n == 0 || ex.eager[n-1].t != t {
		return false
	}
	fr := ex.eager[n-1]
	ex.eager = ex.eager[:n-1]
	fr.ret <- struct{}{}
	return true
}

func clip(s string, n int) string {
	if len(s) > n {
		return s[:n] + "…"
	}
	return s
}

// panicClass: message with digits/addresses stripped + first frame outside runtime and vsched.
func panicClass(r any, stack string) string {
	msg := fmt.Sprint(r)
	if i := strings.IndexByte(msg, '\n'); i >= 0 {
		msg = msg[:i]
	}
	if len(msg) > 80 {
		msg = msg[:80]
	}
	lines := strings.Split(stack, "\n")
	seen := false
	site := "unknown"
	for _, l := range lines {
		if strings.HasPrefix(l, "panic(") {
			seen = true
			continue
		}
		if !seen || strings.HasPrefix(l, "\t") || strings.HasPrefix(l, "runtime.") || strings.HasPrefix(l, "runtime/") || strings.HasPrefix(l, "verif/h/vsched.") || strings.HasPrefix(l, "verif/h/vsched/fake") {
			continue
		}
		if strings.HasPrefix(l, "created by") {
			break
		}
		if p := strings.LastIndex(l, "("); p > 0 {
			l = l[:p]
		}
		site = l
		break
	}
	return msg + "@" + site
}

// Yield is a plain scheduling point (blocking I/O seam of a fake).
func Yield(label string) {
	if passthrough {
		return
	}
	ex := mustExec("Yield")
	ex.block(&pend{kind: kYield, label: label})
}

// Quiesce blocks the calling thread until no other thread is enabled (environment events excluded).
func Quiesce() {
	if passthrough {
		passthroughQuiesce()
		return
	}
	ex := mustExec("Quiesce")
	ex.block(&pend{kind: kQuiesce})
}

// Choose is an environment / data choice with n options; option 0 is the default, every other option
// costs `cost` deviations.
func Choose(n int, label string, cost int) int {
	if n <= 1 {
		return 0
	}
	if passthrough {
		return passthroughChoose(n)
	}
	ex := mustExec("Choose")
	costs := ex.costs[:0]
	for i := 0; i < n; i++ {
		c := uint8(cost)
		if i == 0 {
			c = 0
		}
		costs = append(costs, c)
	}
	ex.costs = costs
	var tc uint64
	if ex.cur != nil {
		tc = ex.cur.cid
	}
	sig := mix(0xc5, hashStr(label), uint64(n), tc)
	c := ex.pick(n, costs, sig, kChoose, func(i int) string { return fmt.Sprintf("%s=%d", label, i) })
	if ex.cur != nil {
		ex.note(ex.cur, kChoose, nil, uint64(c))
	}
	return c
}

// LiveThreads lists the spawn sites of managed threads that have not finished (excluding the caller).
func LiveThreads() []string {
	if passthrough {
		return nil
	}
	ex := mustExec("LiveThreads")
	var s []string
	for _, t := range ex.threads {
		if !t.done && t != ex.cur {
			s = append(s, t.Site)
		}
	}
	sort.Strings(s)
	return s
}

// LiveDesc describes the unfinished threads and what they are blocked on.
func LiveDesc() string {
	if passthrough {
		return ""
	}
	return mustExec("LiveDesc").liveDesc()
}

// LiveSites returns, for every unfinished managed thread (caller included), its spawn site.
func LiveSites() []string {
	if passthrough {
		return nil
	}
	ex := mustExec("LiveSites")
	var s []string
	for _, t := range ex.threads {
		if !t.done {
			s = append(s, t.Site)
		}
	}
	return s
}

// ThreadCount is the number of managed threads started so far in this execution.
func ThreadCount() int {
	if passthrough {
		return 0
	}
	return len(mustExec("ThreadCount").threads)
}

// Self returns the running thread's id.
func Self() int {
	if ex := curExec; ex != nil && ex.cur != nil {
		return ex.cur.id
	}
	return -1
}

// NewEnvEvent registers an environment event (timer fire, peer disconnect). It is offered to the
// explorer as a deviation of the given cost whenever it is armed.
type EnvEvent struct{ e *envEvent }

func NewEnvEvent(name string, cost int, fire func()) *EnvEvent {
	ex := mustExec("NewEnvEvent")
	e := &envEvent{name: name, fire: fire, cost: uint8(cost)}
	e.obj = ex.newObj("env:" + name)
	ex.envs = append(ex.envs, e)
	return &EnvEvent{e}
}

func (e *EnvEvent) Arm(on bool) {
	ex := mustExec("EnvEvent.Arm")
	if e.e.armed != on {
		e.e.armed = on
		var r uint64
		if on {
			r = 1
		}
		ex.noteEnv(e.e.obj, r+1)
	}
}
func (e *EnvEvent) Armed() bool { return e.e.armed }

// Value / SetValue: per-execution storage for fakes and harnesses.
func Value(k string) any {
	if curExec == nil {
		return ptValues.get(k)
	}
	return curExec.Values[k]
}
func SetValue(k string, v any) {
	if curExec == nil {
		ptValues.set(k, v)
		return
	}
	curExec.Values[k] = v
}

// Observe installs a per-execution observer that is told about every operation a thread applies to a
// named synchronisation object (oracle use: "at the moment of wg.add on X, is flag Y set?").
func Observe(f func(op, obj string)) {
	if ex := curExec; ex != nil {
		ex.observer = f
	}
}
