// Package vcontext replaces import "context" in rewritten files. Context values are the real ones;
// what changes is that cancellation becomes visible to the scheduler: the CancelFunc returned by
// WithCancel / WithTimeout / WithDeadline is a scheduling point when it actually cancels (cancel is
// not a left-mover: another thread may poll ctx.Err()), and vinstr rewrites x.Err() on a
// context.Context into vsched.CtxErr(x). Receiving from Done() is hooked like any channel receive.
// Deadlines keep their real timers; they are far longer than an execution (see the check's assumptions).
// WithCancelCause, AfterFunc, WithoutCancel are deliberately absent.
package vcontext

import (
	"context"
	"time"

	"verif/h/vsched"
)

type (
	Context    = context.Context
	CancelFunc = context.CancelFunc
)

var (
	Canceled         = context.Canceled
	DeadlineExceeded = context.DeadlineExceeded
)

func Background() Context { return context.Background() }
func TODO() Context       { return context.TODO() }

func WithValue(parent Context, key, val any) Context { return context.WithValue(parent, key, val) }

func wrap(ctx Context, cancel context.CancelFunc) (Context, CancelFunc) {
	return ctx, func() {
		if ctx.Err() == nil { // cancelling an already cancelled context changes nothing: no scheduling point
			vsched.Yield("ctx.cancel")
		}
		cancel()
	}
}

func WithCancel(parent Context) (Context, CancelFunc) { return wrap(context.WithCancel(parent)) }
func WithTimeout(parent Context, d time.Duration) (Context, CancelFunc) {
	return wrap(context.WithTimeout(parent, d))
}
func WithDeadline(parent Context, t time.Time) (Context, CancelFunc) {
	return wrap(context.WithDeadline(parent, t))
}
