package vsched

import (
	"fmt"
	"sort"
	"strings"
)

// SelfTest explores a set of toy systems with known answers: the explorer must find the seeded
// concurrency bugs and must pass the correct variants. It returns a list of problems (empty = ok).
// It runs at the start of every check so that a broken explorer cannot report "no violation".
func SelfTest() []string {
	var bad []string
	expect := func(name string, res *Result, wantClass string) {
		got := []string{}
		for c := range res.FailCounts {
			got = append(got, c)
		}
		sort.Strings(got)
		switch {
		case wantClass == "" && len(got) > 0:
			bad = append(bad, fmt.Sprintf("%s: correct toy reported %v", name, got))
		case wantClass != "":
			found := false
			for _, g := range got {
				if strings.HasPrefix(g, wantClass) {
					found = true
				}
			}
			if !found {
				bad = append(bad, fmt.Sprintf("%s: seeded bug %q not found (got %v after %d executions)", name, wantClass, got, res.Executions))
			}
		}
		if wantClass == "" && !res.Exhaustive {
			bad = append(bad, name+": exploration did not complete")
		}
	}

	// 1. lost update: two threads do load; store(load+1) on a cell without a lock.
	lost := func(locked bool) func() {
		return func() {
			var mu Mutex
			c := NewCell("x", 0)
			var wg WaitGroup
			wg.Add(2)
			for i := 0; i < 2; i++ {
				Go("inc", func() {
					defer wg.Done()
					if locked {
						mu.Lock()
						defer mu.Unlock()
					}
					v := c.Load()
					c.Store(v + 1)
				})
			}
			wg.Wait()
			if c.Peek() != 2 {
				Failf("lost-update", "x=%d", c.Peek())
			}
			SetOutcome(fmt.Sprint(c.Peek()))
		}
	}
	for _, prune := range []bool{false, true} {
		r := (&Explorer{Name: "toy-lost-update", Body: lost(false), Bounds: []int{0, 1, 2}, Prune: prune}).Explore()
		expect(fmt.Sprintf("lost-update(prune=%v)", prune), r, "lost-update")
		r = (&Explorer{Name: "toy-locked-update", Body: lost(true), Bounds: []int{0, 1, 2, -1}, Prune: prune}).Explore()
		expect(fmt.Sprintf("locked-update(prune=%v)", prune), r, "")
		if len(r.Outcomes) != 1 {
			bad = append(bad, fmt.Sprintf("locked-update: %d outcomes", len(r.Outcomes)))
		}
	}
	// the unlocked version needs exactly one preemption: bound 0 must NOT find it
	r0 := (&Explorer{Name: "toy-lost-update-b0", Body: lost(false), Bounds: []int{0}}).Explore()
	if len(r0.FailCounts) != 0 {
		bad = append(bad, "lost-update found at preemption bound 0 (cost accounting is wrong)")
	}

	// 2. unbuffered rendezvous + select + close: producer/consumer must deliver everything in order.
	pc := func(buggy bool) func() {
		return func() {
			ch := MakeChan[int](0)
			done := MakeChan[struct{}](0)
			var got []int
			Go("producer", func() {
				for i := 1; i <= 3; i++ {
					if buggy && i == 2 {
						switch Select(true, S(ch, i)) { // non-blocking send drops the value when nobody waits
						}
						continue
					}
					Send(ch, i)
				}
				Close(ch)
			})
			Go("consumer", func() {
				for {
					r := R(ch)
					if Select(false, r) == 0 {
						v, ok := r.Got2()
						if !ok {
							Close(done)
							return
						}
						got = append(got, v)
					}
				}
			})
			Recv(done)
			if fmt.Sprint(got) != "[1 2 3]" {
				Failf("dropped-value", "got %v", got)
			}
			SetOutcome(fmt.Sprint(got))
		}
	}
	expect("producer-consumer", (&Explorer{Name: "toy-pc", Body: pc(false), Bounds: []int{0, 1, -1}, Prune: true}).Explore(), "")
	expect("producer-consumer-buggy", (&Explorer{Name: "toy-pc-buggy", Body: pc(true), Bounds: []int{0, 1, 2}, Prune: true}).Explore(), "dropped-value")

	// 3. lock-order deadlock
	dl := func(buggy bool) func() {
		return func() {
			var a, b Mutex
			var wg WaitGroup
			wg.Add(2)
			Go("ab", func() { defer wg.Done(); a.Lock(); b.Lock(); b.Unlock(); a.Unlock() })
			Go("ba", func() {
				defer wg.Done()
				if buggy {
					b.Lock()
					a.Lock()
					a.Unlock()
					b.Unlock()
				} else {
					a.Lock()
					b.Lock()
					b.Unlock()
					a.Unlock()
				}
			})
			wg.Wait()
		}
	}
	expect("lock-order", (&Explorer{Name: "toy-lockorder", Body: dl(false), Bounds: []int{-1}, Prune: true}).Explore(), "")
	expect("lock-order-buggy", (&Explorer{Name: "toy-lockorder-buggy", Body: dl(true), Bounds: []int{0, 1}, Prune: true}).Explore(), "deadlock:")

	// 4. WaitGroup misuse: Add inside the goroutine races with Wait.
	wgm := func(buggy bool) func() {
		return func() {
			var wg WaitGroup
			ran := false
			if !buggy {
				wg.Add(1)
			}
			Go("worker", func() {
				if buggy {
					wg.Add(1)
				}
				defer wg.Done()
				ran = true
			})
			wg.Wait()
			if !ran {
				Failf("wait-returned-early", "")
			}
			Quiesce()
		}
	}
	expect("wg", (&Explorer{Name: "toy-wg", Body: wgm(false), Bounds: []int{-1}, Prune: true}).Explore(), "")
	rw := (&Explorer{Name: "toy-wg-buggy", Body: wgm(true), Bounds: []int{0, 1}, Prune: true}).Explore()
	expect("wg-buggy-early", rw, "wait-returned-early")
	expect("wg-buggy-misuse", rw, "panic:sync: WaitGroup misuse")

	// 5. timers are environment deviations; a timer that is needed but never fires within budget 0 blocks.
	tm := func() {
		t := NewTimer(1)
		fired := false
		switch Select(true, R(t.C)) {
		case 0:
			fired = true
		}
		SetOutcome(fmt.Sprint(fired))
	}
	rt := (&Explorer{Name: "toy-timer", Body: tm, Bounds: []int{0, 1}, EnvBudget: 1}).Explore()
	if len(rt.Outcomes) != 2 {
		bad = append(bad, fmt.Sprintf("timer toy: expected outcomes {false,true}, got %v", rt.Outcomes))
	}
	// 6. pruning must not lose outcomes: three threads appending to a log under a lock: 6 orders.
	perm := func() {
		var mu Mutex
		var log []string
		var wg WaitGroup
		wg.Add(3)
		for _, n := range []string{"a", "b", "c"} {
			Go("p"+n, func() { defer wg.Done(); mu.Lock(); log = append(log, n); mu.Unlock() })
		}
		wg.Wait()
		SetOutcome(strings.Join(log, ""))
	}
	for _, prune := range []bool{false, true} {
		rp := (&Explorer{Name: "toy-perm", Body: perm, Bounds: []int{-1}, Prune: prune}).Explore()
		if len(rp.Outcomes) != 6 {
			bad = append(bad, fmt.Sprintf("perm toy (prune=%v): expected 6 outcomes, got %v", prune, rp.Outcomes))
		}
	}
	// 7. sharding: the union over shards must cover every outcome, and a seeded bug must be found by some shard
	union := map[string]bool{}
	found := false
	for sh := 0; sh < 3; sh++ {
		rp := (&Explorer{Name: "toy-perm-shard", Body: perm, Bounds: []int{-1}, Prune: true, Shard: sh, NShards: 3, SplitDepth: 2}).Explore()
		for o := range rp.Outcomes {
			union[o] = true
		}
		rl := (&Explorer{Name: "toy-lost-update-shard", Body: lost(false), Bounds: []int{0, 1, 2}, Prune: true, Shard: sh, NShards: 3, SplitDepth: 2}).Explore()
		if rl.FailCounts["lost-update"] > 0 {
			found = true
		}
	}
	if len(union) != 6 {
		bad = append(bad, fmt.Sprintf("sharded perm toy: union of outcomes has %d elements, want 6", len(union)))
	}
	if !found {
		bad = append(bad, "sharded lost-update toy: no shard found the seeded bug")
	}
	return bad
}
