// Package vtime replaces import "time" in rewritten files: types, constants and pure functions are
// re-exported; NewTimer / NewTicker / After / Sleep are virtual (see vsched/time.go).
// Now, Since, Until, AfterFunc, Tick are deliberately absent (wall-clock dependence is unsupported).
package vtime

import (
	"time"

	"verif/h/vsched"
)

type (
	Time     = time.Time
	Duration = time.Duration
	Month    = time.Month
	Weekday  = time.Weekday
	Location = time.Location
	Timer    = vsched.Timer
	Ticker   = vsched.Ticker
)

const (
	Nanosecond  = time.Nanosecond
	Microsecond = time.Microsecond
	Millisecond = time.Millisecond
	Second      = time.Second
	Minute      = time.Minute
	Hour        = time.Hour

	RFC3339     = time.RFC3339
	RFC3339Nano = time.RFC3339Nano
	Kitchen     = time.Kitchen
)

var UTC = time.UTC

func NewTimer(d Duration) *Timer   { return vsched.NewTimer(d) }
func NewTicker(d Duration) *Ticker { return vsched.NewTicker(d) }
func After(d Duration) <-chan Time { return vsched.After(d) }
func Sleep(d Duration)             { vsched.Sleep(d) }

func Unix(sec, nsec int64) Time                { return time.Unix(sec, nsec) }
func ParseDuration(s string) (Duration, error) { return time.ParseDuration(s) }
func Parse(layout, value string) (Time, error) { return time.Parse(layout, value) }
func Date(y int, m Month, d, h, mi, s, ns int, l *Location) Time {
	return time.Date(y, m, d, h, mi, s, ns, l)
}
