package vsched

import (
	"fmt"
	"time"
)

// Virtual timers. In controlled mode a timer with a positive duration fires only when the explorer
// picks its "fire" environment event (cost 1 deviation, bounded by Explorer.EnvBudget); a timer with
// duration <= 0 fires at once. Reset / Stop follow the Go >= 1.23 semantics (no stale tick remains
// in the channel). Virtual time has no clock: durations are not compared with each other.

type Timer struct {
	C    <-chan time.Time
	c    chan time.Time
	real *time.Timer
	ev   *EnvEvent
}

func newVTimer(name string, d time.Duration, periodic bool) (chan time.Time, *EnvEvent) {
	c := MakeChan[time.Time](1)
	NameChan(c, name+".C")
	var ev *EnvEvent
	ev = NewEnvEvent(name+".fire", 1, func() {
		envSend(c, time.Time{})
		if periodic {
			ev.e.armed = true
		}
	})
	if d <= 0 && !periodic {
		envSend(c, time.Time{})
	} else {
		ev.Arm(true)
	}
	return c, ev
}

func timerName(kind string, d time.Duration) string { return fmt.Sprintf("%s(%v)", kind, d) }

func NewTimer(d time.Duration) *Timer {
	if passthrough {
		r := time.NewTimer(d)
		return &Timer{C: r.C, real: r}
	}
	c, ev := newVTimer(timerName("timer", d), d, false)
	return &Timer{C: c, c: c, ev: ev}
}

func (t *Timer) Reset(d time.Duration) bool {
	if t.real != nil {
		return t.real.Reset(d)
	}
	was := t.ev.Armed()
	drain(t.c)
	if d <= 0 {
		t.ev.Arm(false)
		envSend(t.c, time.Time{})
	} else {
		t.ev.Arm(true)
	}
	return was
}

func (t *Timer) Stop() bool {
	if t.real != nil {
		return t.real.Stop()
	}
	was := t.ev.Armed()
	t.ev.Arm(false)
	drain(t.c)
	return was
}

type Ticker struct {
	C    <-chan time.Time
	c    chan time.Time
	real *time.Ticker
	ev   *EnvEvent
}

func NewTicker(d time.Duration) *Ticker {
	if d <= 0 {
		panic("non-positive interval for NewTicker")
	}
	if passthrough {
		r := time.NewTicker(d)
		return &Ticker{C: r.C, real: r}
	}
	c, ev := newVTimer(timerName("ticker", d), d, true)
	return &Ticker{C: c, c: c, ev: ev}
}

func (t *Ticker) Stop() {
	if t.real != nil {
		t.real.Stop()
		return
	}
	t.ev.Arm(false)
}

func (t *Ticker) Reset(d time.Duration) {
	if t.real != nil {
		t.real.Reset(d)
		return
	}
	drain(t.c)
	t.ev.Arm(true)
}

func After(d time.Duration) <-chan time.Time {
	if passthrough {
		return time.After(d)
	}
	return NewTimer(d).C
}

func Sleep(d time.Duration) {
	if passthrough {
		time.Sleep(d)
		return
	}
	Yield("sleep") // a sleep always ends: it is a scheduling point, not an environment deviation
}
