package vsched

import (
	"fmt"
	"reflect"
	"strings"
	"unsafe"
)

// chanObj is the model of one channel created by rewritten code (MakeChan). In controlled mode the
// model carries the buffer; the real channel is never operated on.
type chanObj struct {
	obj    *Obj
	cap    int
	q      []any
	closed bool
}

type chanCase struct {
	send    bool
	ptr     uintptr
	co      *chanObj      // nil = foreign (not created by rewritten code) or nil channel
	foreign reflect.Value // valid for foreign receive
	isNil   bool
	val     any
	res     *selResult // where a RecvCase wants its value (nil for sends)
}

func (c *chanCase) name() string {
	switch {
	case c.isNil:
		return "nil-chan"
	case c.co != nil:
		return c.co.obj.name
	default:
		return "foreign-chan"
	}
}

func (p *pend) chanNames() string {
	var s []string
	for _, c := range p.cases {
		d := "recv "
		if c.send {
			d = "send "
		}
		s = append(s, d+c.name())
	}
	return strings.Join(s, "|")
}

func chanPtr[T any](c chan T) uintptr    { return uintptr(*(*unsafe.Pointer)(unsafe.Pointer(&c))) }
func rchanPtr[T any](c <-chan T) uintptr { return uintptr(*(*unsafe.Pointer)(unsafe.Pointer(&c))) }
func schanPtr[T any](c chan<- T) uintptr { return uintptr(*(*unsafe.Pointer)(unsafe.Pointer(&c))) }

// MakeChan replaces make(chan T, n).
func MakeChan[T any](n int) chan T {
	c := make(chan T, n)
	if passthrough {
		return c
	}
	ex := mustExec("make(chan)")
	var z T
	name := fmt.Sprintf("chan %T/%d", z, n)
	ex.chans[chanPtr(c)] = &chanObj{obj: ex.newObj(name), cap: n}
	ex.keep = append(ex.keep, c)
	return c
}

// NameChan gives a model channel a readable name (for failure classes and traces).
func NameChan[T any](c chan T, name string) {
	if ex := curExec; ex != nil {
		if co := ex.chans[chanPtr(c)]; co != nil {
			co.obj.name = name
		}
	}
}

// Case is one arm of a select.
type Case interface{ vcase() *chanCase }

type RecvCase[T any] struct {
	ch  <-chan T
	cc  chanCase
	res selResult
}

type SendCase[T any] struct {
	ch chan<- T
	v  T
	cc chanCase
}

func (r *RecvCase[T]) vcase() *chanCase { return &r.cc }
func (s *SendCase[T]) vcase() *chanCase { return &s.cc }

// R builds a receive case.
func R[T any](ch <-chan T) *RecvCase[T] {
	r := &RecvCase[T]{ch: ch}
	r.cc.ptr = rchanPtr(ch)
	r.cc.res = &r.res
	if passthrough {
		return r
	}
	if ch == nil {
		r.cc.isNil = true
		return r
	}
	ex := mustExec("channel receive")
	if co := ex.chans[r.cc.ptr]; co != nil {
		r.cc.co = co
	} else {
		r.cc.foreign = reflect.ValueOf(ch)
	}
	return r
}

// S builds a send case.
func S[T any](ch chan<- T, v T) *SendCase[T] {
	s := &SendCase[T]{ch: ch, v: v}
	s.cc.send = true
	s.cc.ptr = schanPtr(ch)
	s.cc.val = v
	if passthrough {
		return s
	}
	if ch == nil {
		s.cc.isNil = true
		return s
	}
	ex := mustExec("channel send")
	if co := ex.chans[s.cc.ptr]; co != nil {
		s.cc.co = co
	} else {
		HarnessError("send on a channel that was not created by rewritten code (foreign channel, %T)", ch)
	}
	return s
}

// Got returns the value received by this case after Select chose it.
func (r *RecvCase[T]) Got() T {
	v, _ := r.res.val.(T)
	return v
}

func (r *RecvCase[T]) Got2() (T, bool) {
	v, _ := r.res.val.(T)
	return v, r.res.ok
}

// foreignReady probes a channel that the model does not own (context.Done and the like): ready iff
// it is closed or has a buffered element. The probe never consumes: with an empty buffer and a single
// running goroutine a non-blocking receive can only succeed on a closed channel.
func foreignReady(v reflect.Value) bool {
	if v.Len() > 0 {
		return true
	}
	chosen, _, ok := reflect.Select([]reflect.SelectCase{{Dir: reflect.SelectRecv, Chan: v}, {Dir: reflect.SelectDefault}})
	if chosen == 0 {
		if ok {
			HarnessError("foreign channel delivered a value during a readiness probe (an unmanaged goroutine is sending)")
		}
		return true
	}
	return false
}

// chanAlts appends the enabled alternatives of t's pending channel operation.
func (ex *Exec) chanAlts(t *Thread, opts []alt) []alt {
	p := t.pend
	n0 := len(opts)
	for ci, c := range p.cases {
		if c.isNil {
			continue
		}
		if c.co == nil {
			if !c.send && foreignReady(c.foreign) {
				opts = append(opts, alt{t: t, ci: ci})
			}
			continue
		}
		co := c.co
		if c.send {
			switch {
			case co.closed:
				opts = append(opts, alt{t: t, ci: ci})
			case co.cap > 0:
				if len(co.q) < co.cap {
					opts = append(opts, alt{t: t, ci: ci})
				}
			default:
				opts = ex.partners(t, ci, co, false, opts)
			}
		} else {
			switch {
			case len(co.q) > 0, co.closed:
				opts = append(opts, alt{t: t, ci: ci})
			case co.cap == 0:
				opts = ex.partners(t, ci, co, true, opts)
			}
		}
	}
	if len(opts) == n0 && p.hasDefault {
		opts = append(opts, alt{t: t, ci: -1})
	}
	return opts
}

// partners appends one alternative per parked thread that offers the complementary operation on co.
func (ex *Exec) partners(t *Thread, ci int, co *chanObj, wantSend bool, opts []alt) []alt {
	for _, u := range ex.threads {
		if u == t || u.done || u.pend == nil || u.pend.kind != kChan {
			continue
		}
		for ui, uc := range u.pend.cases {
			if uc.co == co && uc.send == wantSend {
				opts = append(opts, alt{t: t, ci: ci, partner: u, pci: ui})
			}
		}
	}
	return opts
}

func (ex *Exec) fireChan(a *alt) {
	t := a.t
	p := t.pend
	if a.ci == -1 {
		t.sel = selResult{idx: -1}
		ex.note(t, kChan, nil, 0xdef)
		return
	}
	c := p.cases[a.ci]
	t.sel = selResult{idx: a.ci}
	if c.co == nil { // foreign receive
		chosen, v, ok := reflect.Select([]reflect.SelectCase{{Dir: reflect.SelectRecv, Chan: c.foreign}, {Dir: reflect.SelectDefault}})
		if chosen != 0 {
			HarnessError("foreign channel was ready at decision time but not at fire time")
		}
		if ok {
			c.res.val = v.Interface()
		}
		c.res.ok = ok
		ex.note(t, kChan, nil, uint64(a.ci)<<1|1)
		return
	}
	co := c.co
	switch {
	case c.send && co.closed:
		t.panicMsg = "send on closed channel"
		ex.note(t, kChan, co.obj, uint64(a.ci)<<2|3)
	case c.send && a.partner == nil:
		co.q = append(co.q, c.val)
		ex.note(t, kChan, co.obj, uint64(a.ci)<<2)
	case c.send:
		u := a.partner
		uc := u.pend.cases[a.pci]
		uc.res.val, uc.res.ok = c.val, true
		u.sel = selResult{idx: a.pci}
		ex.note(t, kChan, co.obj, uint64(a.ci)<<2)
		ex.note(u, kChan, co.obj, uint64(a.pci)<<2|1)
		u.pend = resumePend
	case a.partner != nil: // receive by rendezvous
		u := a.partner
		uc := u.pend.cases[a.pci]
		c.res.val, c.res.ok = uc.val, true
		u.sel = selResult{idx: a.pci}
		ex.note(u, kChan, co.obj, uint64(a.pci)<<2)
		ex.note(t, kChan, co.obj, uint64(a.ci)<<2|1)
		u.pend = resumePend
	case len(co.q) > 0:
		c.res.val, c.res.ok = co.q[0], true
		co.q = co.q[1:]
		ex.note(t, kChan, co.obj, uint64(a.ci)<<2|1)
	default: // closed and drained
		c.res.val, c.res.ok = nil, false
		ex.note(t, kChan, co.obj, uint64(a.ci)<<2|2)
	}
}

// Select replaces a select statement: it blocks until one case can proceed, performs that
// operation and returns its index (-1 = default).
func Select(hasDefault bool, cases ...Case) int {
	if passthrough {
		return passthroughSelect(hasDefault, cases)
	}
	ex := mustExec("select")
	p := &pend{kind: kChan, hasDefault: hasDefault, cases: make([]*chanCase, len(cases))}
	for i, c := range cases {
		p.cases[i] = c.vcase()
		if hasDefault && ex.x != nil && ex.x.NoPolling && p.cases[i].co != nil && p.cases[i].co.cap == 0 {
			HarnessError("select with default on the unbuffered channel %s although the harness declared NoPolling", p.cases[i].co.obj.name)
		}
	}
	t := ex.block(p)
	return t.sel.idx
}

// Send replaces `ch <- v`.
func Send[T any](ch chan<- T, v T) {
	if passthrough {
		ch <- v
		return
	}
	Select(false, S(ch, v))
}

// Recv replaces `<-ch`.
func Recv[T any](ch <-chan T) T {
	if passthrough {
		return <-ch
	}
	r := R(ch)
	Select(false, r)
	return r.Got()
}

// Recv2 replaces `v, ok := <-ch`.
func Recv2[T any](ch <-chan T) (T, bool) {
	if passthrough {
		v, ok := <-ch
		return v, ok
	}
	r := R(ch)
	Select(false, r)
	return r.Got2()
}

// Close replaces close(ch).
func Close[T any](ch chan<- T) {
	if passthrough {
		close(ch)
		return
	}
	ex := mustExec("close")
	if ch == nil {
		panic("close of nil channel")
	}
	co := ex.chans[schanPtr(ch)]
	if co == nil {
		HarnessError("close of a channel that was not created by rewritten code")
	}
	// close is not a left-mover (another thread may send on, or poll, the channel): scheduling point
	t := ex.cur
	ex.block(&pend{kind: kClose, obj: co.obj, fire: func() {
		if co.closed {
			t.panicMsg = "close of closed channel"
			return
		}
		co.closed = true
	}})
}

// envSend is used by environment events (timers, fake event sources) to push into a model channel
// without blocking; it reports false when the buffer is full (the tick is dropped, like time.Ticker).
func envSend[T any](ch chan T, v T) bool {
	ex := curExec
	co := ex.chans[chanPtr(ch)]
	if co == nil || co.closed || len(co.q) >= co.cap {
		return false
	}
	co.q = append(co.q, v)
	ex.noteEnv(co.obj, 1)
	return true
}

// drain empties a model channel (timer Reset/Stop semantics of Go ≥ 1.23).
func drain[T any](ch chan T) {
	ex := curExec
	if co := ex.chans[chanPtr(ch)]; co != nil && len(co.q) > 0 {
		co.q = co.q[:0]
		ex.noteEnv(co.obj, 2)
	}
}

func passthroughSelect(hasDefault bool, cases []Case) int {
	sc := make([]reflect.SelectCase, 0, len(cases)+1)
	for _, c := range cases {
		sc = append(sc, c.(interface{ rcase() reflect.SelectCase }).rcase())
	}
	if hasDefault {
		sc = append(sc, reflect.SelectCase{Dir: reflect.SelectDefault})
	}
	i, v, ok := reflect.Select(sc)
	if i == len(cases) {
		return -1
	}
	cc := cases[i].vcase()
	if !cc.send {
		if ok {
			cc.res.val = v.Interface()
		}
		cc.res.ok = ok
	}
	return i
}

func (r *RecvCase[T]) rcase() reflect.SelectCase {
	return reflect.SelectCase{Dir: reflect.SelectRecv, Chan: reflect.ValueOf(r.ch)}
}
func (s *SendCase[T]) rcase() reflect.SelectCase {
	return reflect.SelectCase{Dir: reflect.SelectSend, Chan: reflect.ValueOf(s.ch), Send: reflect.ValueOf(s.v)}
}
