package vsched

import (
	"context"
	"fmt"
	"reflect"
	"sort"
	"sync"
	"sync/atomic"
	"time"
)

// ---- pass-through helpers ------------------------------------------------------------------------

var ptQuiesce = 2 * time.Millisecond

// SetPassthroughQuiesce sets how long Quiesce sleeps in the free-running pass.
func SetPassthroughQuiesce(d time.Duration) { ptQuiesce = d }

func passthroughQuiesce() { time.Sleep(ptQuiesce) }

var ptChooseCtr atomic.Uint64
var ptChooseSeed atomic.Uint64

// SetPassthroughRun makes Choose in pass-through mode enumerate systematically: run k answers the
// i-th Choose call with digit i of k (no randomness).
func SetPassthroughRun(k uint64) { ptChooseSeed.Store(k); ptChooseCtr.Store(0) }

func passthroughChoose(n int) int {
	i := ptChooseCtr.Add(1) - 1
	k := ptChooseSeed.Load()
	for ; i > 0; i-- {
		k /= 3
	}
	return int(k%3) % n
}

type ptVals struct {
	mu sync.Mutex
	m  map[string]any
}

var ptValues = &ptVals{m: map[string]any{}}

func (p *ptVals) get(k string) any { p.mu.Lock(); defer p.mu.Unlock(); return p.m[k] }
func (p *ptVals) set(k string, v any) {
	p.mu.Lock()
	defer p.mu.Unlock()
	p.m[k] = v
}

// ---- harness cells ----------------------------------------------------------------------------------

// Cell is a shared harness variable whose accesses are scheduling points (e.g. "the file content").
type Cell[T any] struct {
	mu  sync.Mutex
	v   T
	obj *Obj
	nm  string
}

func NewCell[T any](name string, v T) *Cell[T] {
	c := &Cell[T]{v: v, nm: name}
	if !passthrough {
		c.obj = mustExec("NewCell").newObj("cell:" + name)
	}
	return c
}

func (c *Cell[T]) Load() T {
	if passthrough {
		c.mu.Lock()
		defer c.mu.Unlock()
		return c.v
	}
	ex := mustExec("Cell.Load")
	ex.block(&pend{kind: kCell, obj: c.obj, label: "load"})
	return c.v
}

func (c *Cell[T]) Store(v T) {
	if passthrough {
		c.mu.Lock()
		c.v = v
		c.mu.Unlock()
		return
	}
	ex := mustExec("Cell.Store")
	ex.block(&pend{kind: kCell, obj: c.obj, label: "store"})
	c.v = v
}

// Peek reads without a scheduling point (oracle use only, at quiescence).
func (c *Cell[T]) Peek() T {
	c.mu.Lock()
	defer c.mu.Unlock()
	return c.v
}

// ---- controlled map iteration order ------------------------------------------------------------------

var keyOrder []func(k any) (int, bool)

// RegisterKeyOrder installs an identity function for map keys that have no natural order (pointers):
// it must return a number that is assigned deterministically (e.g. a connection id given by a fake).
func RegisterKeyOrder(f func(k any) (int, bool)) { keyOrder = append(keyOrder, f) }

// MapKeys replaces `range m` over a map: in controlled mode the keys come in ascending order, or in
// descending order as an environment deviation (Go's order is unspecified; both extremes are explored).
func MapKeys[K comparable, V any](m map[K]V) []K {
	keys := make([]K, 0, len(m))
	for k := range m {
		keys = append(keys, k)
	}
	if passthrough || len(keys) < 2 {
		return keys
	}
	ids := make([]int, len(keys))
	var less func(i, j int) bool
	switch any(keys[0]).(type) {
	case string:
		less = func(i, j int) bool { return any(keys[i]).(string) < any(keys[j]).(string) }
	case int:
		less = func(i, j int) bool { return any(keys[i]).(int) < any(keys[j]).(int) }
	default:
		rv := reflect.ValueOf(keys[0])
		switch {
		case rv.CanInt():
			less = func(i, j int) bool { return reflect.ValueOf(keys[i]).Int() < reflect.ValueOf(keys[j]).Int() }
		case rv.CanUint():
			less = func(i, j int) bool { return reflect.ValueOf(keys[i]).Uint() < reflect.ValueOf(keys[j]).Uint() }
		default:
			for i, k := range keys {
				found := false
				for _, f := range keyOrder {
					if id, ok := f(k); ok {
						ids[i], found = id, true
						break
					}
				}
				if !found {
					HarnessError("range over map with key type %T: no deterministic key order registered (vsched.RegisterKeyOrder)", k)
				}
			}
			less = func(i, j int) bool { return ids[i] < ids[j] }
		}
	}
	idx := make([]int, len(keys))
	for i := range idx {
		idx[i] = i
	}
	sort.SliceStable(idx, func(a, b int) bool { return less(idx[a], idx[b]) })
	out := make([]K, len(keys))
	desc := Choose(2, "map-order-descending", 1) == 1
	for i, j := range idx {
		if desc {
			out[len(keys)-1-i] = keys[j]
		} else {
			out[i] = keys[j]
		}
	}
	return out
}

// AtEnd registers a function run by the explorer goroutine after the execution ended.
func AtEnd(f func()) {
	if ex := curExec; ex != nil {
		ex.atEnd = append(ex.atEnd, f)
	}
}

// Tracef adds a line to the execution trace (only materialised when a violating schedule is re-run).
func Tracef(format string, a ...any) {
	if ex := curExec; ex != nil && ex.tracing {
		ex.log = append(ex.log, "    "+fmt.Sprintf(format, a...))
	}
}

// CtxErr replaces ctx.Err(): an error already set is stable (no scheduling point); a nil answer
// depends on a concurrent cancel, so the read is a scheduling point.
func CtxErr(ctx context.Context) error {
	if passthrough {
		return ctx.Err()
	}
	if err := ctx.Err(); err != nil {
		return err
	}
	Yield("ctx.Err")
	return ctx.Err()
}
