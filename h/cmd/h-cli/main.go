package main

import (
	_ "verif/h/cli"
	"verif/h/eng"
)

func main() { eng.Main() }
