package main

import (
	"verif/h/eng"
	_ "verif/h/renderb"
)

func main() { eng.Main() }
