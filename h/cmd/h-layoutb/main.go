package main

import (
	"verif/h/eng"
	_ "verif/h/layoutb"
)

func main() { eng.Main() }
