package main

import (
	"verif/h/eng"
	_ "verif/h/layouta"
)

func main() { eng.Main() }
