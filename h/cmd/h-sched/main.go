package main

import (
	"verif/h/eng"
	_ "verif/h/sched"
)

func main() { eng.Main() }
