package main

import (
	"verif/h/eng"
	_ "verif/h/rendera"
)

func main() { eng.Main() }
