package main

import (
	_ "verif/h/edit"
	"verif/h/eng"
)

func main() { eng.Main() }
