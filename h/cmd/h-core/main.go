package main

import (
	_ "verif/h/checks"
	"verif/h/eng"
)

func main() { eng.Main() }
