package u

import (
	"reflect"
	"sort"
	"strings"

	"oss.terrastruct.com/d2/d2ast"
)

func IsNilNode(n any) bool {
	if n == nil {
		return true
	}
	v := reflect.ValueOf(n)
	return v.Kind() == reflect.Ptr && v.IsNil()
}

// tokenNeighbours: all single-token deletions, duplications and adjacent swaps, tokens split at the
// boundaries of the real parser's node ranges (falls back to whitespace/punctuation split).
func TokenNeighbours(src string) []string {
	cuts := map[int]bool{0: true, len(src): true}
	if m, _ := Parse(src); m != nil {
		d2ast.Walk(m, func(n d2ast.Node) bool {
			if IsNilNode(n) {
				return false
			}
			r := n.GetRange()
			if r.Start.Byte >= 0 && r.Start.Byte <= len(src) {
				cuts[r.Start.Byte] = true
			}
			if r.End.Byte >= 0 && r.End.Byte <= len(src) {
				cuts[r.End.Byte] = true
			}
			return true
		})
	}
	for i := 0; i < len(src); i++ {
		switch src[i] {
		case ' ', '\n', '{', '}', ':', ';', '[', ']', '(', ')', '.':
			cuts[i] = true
			cuts[i+1] = true
		}
	}
	var cs []int
	for c := range cuts {
		cs = append(cs, c)
	}
	SortInts(cs)
	var toks []string
	for i := 0; i+1 < len(cs); i++ {
		toks = append(toks, src[cs[i]:cs[i+1]])
	}
	var out []string
	for i := range toks {
		out = append(out, strings.Join(toks[:i], "")+strings.Join(toks[i+1:], ""))                // delete
		out = append(out, strings.Join(toks[:i+1], "")+toks[i]+strings.Join(toks[i+1:], ""))       // duplicate
		if i+1 < len(toks) {
			out = append(out, strings.Join(toks[:i], "")+toks[i+1]+toks[i]+strings.Join(toks[i+2:], "")) // swap
		}
	}
	return out
}

func SortInts(a []int) { sort.Ints(a) }
