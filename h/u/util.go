package u

import (
	"context"
	"encoding/json"
	"errors"
	"fmt"
	"go/ast"
	goparser "go/parser"
	"go/token"
	"io/fs"
	"os"
	"path/filepath"
	"sort"
	"strconv"
	"strings"
	"testing/fstest"
	"unicode/utf8"

	"oss.terrastruct.com/d2/d2ast"
	"oss.terrastruct.com/d2/d2compiler"
	"oss.terrastruct.com/d2/d2format"
	"oss.terrastruct.com/d2/d2graph"
	"oss.terrastruct.com/d2/d2parser"
	"oss.terrastruct.com/d2/d2target"
	"oss.terrastruct.com/d2/lib/log"
	"verif/h/eng"
)

var Bgctx = log.WithDefault(context.Background())

// ---- compile helpers ---------------------------------------------------------------------------

// Files is an in-memory file set; "index.d2" is the entry point unless stated.
type Files map[string]string

func (f Files) FS() fs.FS {
	m := fstest.MapFS{}
	for k, v := range f {
		m[k] = &fstest.MapFile{Data: []byte(v)}
	}
	return m
}

func Compile(src string) (*d2graph.Graph, *d2target.Config, error) {
	return d2compiler.Compile("index.d2", strings.NewReader(src), &d2compiler.CompileOptions{FS: fstest.MapFS{}})
}

func CompileFS(path, src string, files Files) (*d2graph.Graph, *d2target.Config, error) {
	return d2compiler.Compile(path, strings.NewReader(src), &d2compiler.CompileOptions{FS: files.FS()})
}

func Parse(src string) (*d2ast.Map, error) {
	return d2parser.Parse("index.d2", strings.NewReader(src), nil)
}

func Format(src string) (string, error) {
	m, err := Parse(src)
	if err != nil {
		return "", err
	}
	return d2format.Format(m), nil
}

func ErrClass(err error) string {
	if err == nil {
		return "ok"
	}
	var pe *d2parser.ParseError
	if errors.As(err, &pe) {
		var ms []string
		for _, e := range pe.Errors {
			ms = append(ms, StripDigits(e.Message))
		}
		return "E:" + strings.Join(ms, "|")
	}
	return "err:" + StripDigits(err.Error())
}

func StripDigits(s string) string {
	// error messages begin with path:line:col: ; drop positions
	if i := strings.Index(s, ": "); i >= 0 && strings.Contains(s[:i], ":") {
		s = s[i+2:]
	}
	return s
}

// ---- canonical graph projection ------------------------------------------------------------------

type canonObj struct {
	AbsID    string          `json:"abs_id"`
	ID       string          `json:"id"`
	IDVal    string          `json:"id_val"`
	Parent   string          `json:"parent"`
	Children []string        `json:"children"`
	Attrs    json.RawMessage `json:"attrs"`
	Near     string          `json:"near,omitempty"`
	Class    json.RawMessage `json:"class,omitempty"`
	SQL      json.RawMessage `json:"sql,omitempty"`
}

type canonEdge struct {
	AbsID    string          `json:"abs_id"`
	Src      string          `json:"src"`
	Dst      string          `json:"dst"`
	SrcArrow bool            `json:"src_arrow"`
	DstArrow bool            `json:"dst_arrow"`
	Index    int             `json:"index"`
	Attrs    json.RawMessage `json:"attrs"`
	SrcHead  json.RawMessage `json:"src_head,omitempty"`
	DstHead  json.RawMessage `json:"dst_head,omitempty"`
}

type canonBoard struct {
	Name       string          `json:"name"`
	Kind       string          `json:"kind"`
	FolderOnly bool            `json:"folder_only"`
	RootAttrs  json.RawMessage `json:"root_attrs"`
	Objects    []canonObj      `json:"objects"`
	Edges      []canonEdge     `json:"edges"`
	Legend     json.RawMessage `json:"legend,omitempty"`
	Data       json.RawMessage `json:"data,omitempty"`
	Boards     []*canonBoard   `json:"boards,omitempty"`
}

func AttrsJSON(a *d2graph.Attributes) (json.RawMessage, string) {
	if a == nil {
		return nil, ""
	}
	c := *a
	near := ""
	if c.NearKey != nil {
		near = strings.Join(d2format.KeyPath(c.NearKey), ".")
	}
	c.NearKey = nil
	b, err := json.Marshal(&c)
	if err != nil {
		return json.RawMessage(strconv.Quote("marshal error: " + err.Error())), near
	}
	return b, near
}

// CanonOpts tunes the projection.
type CanonOpts struct {
	SortObjects  bool // ignore Objects/Edges order (sorted by AbsID)
	SortChildren bool // ignore ChildrenArray order
	LowerIDs     bool
}

func CanonBoardOf(g *d2graph.Graph, kind string, o CanonOpts) *canonBoard {
	cb := &canonBoard{Name: g.Name, Kind: kind, FolderOnly: g.IsFolderOnly}
	cb.RootAttrs, _ = AttrsJSON(&g.Root.Attributes)
	id := func(s string) string {
		if o.LowerIDs {
			return strings.ToLower(s)
		}
		return s
	}
	for _, ob := range g.Objects {
		co := canonObj{AbsID: id(ob.AbsID()), ID: id(ob.ID), IDVal: ob.IDVal}
		if ob.Parent != nil {
			co.Parent = id(ob.Parent.AbsID())
		}
		for _, ch := range ob.ChildrenArray {
			co.Children = append(co.Children, id(ch.ID))
		}
		if o.SortChildren {
			sort.Strings(co.Children)
		}
		co.Attrs, co.Near = AttrsJSON(&ob.Attributes)
		if ob.Class != nil {
			co.Class, _ = json.Marshal(ob.Class)
		}
		if ob.SQLTable != nil {
			co.SQL, _ = json.Marshal(ob.SQLTable)
		}
		cb.Objects = append(cb.Objects, co)
	}
	for _, e := range g.Edges {
		ce := canonEdge{AbsID: id(e.AbsID()), SrcArrow: e.SrcArrow, DstArrow: e.DstArrow, Index: e.Index}
		if e.Src != nil {
			ce.Src = id(e.Src.AbsID())
		}
		if e.Dst != nil {
			ce.Dst = id(e.Dst.AbsID())
		}
		ce.Attrs, _ = AttrsJSON(&e.Attributes)
		ce.SrcHead, _ = AttrsJSON(e.SrcArrowhead)
		ce.DstHead, _ = AttrsJSON(e.DstArrowhead)
		cb.Edges = append(cb.Edges, ce)
	}
	if o.SortObjects {
		sort.SliceStable(cb.Objects, func(i, j int) bool { return cb.Objects[i].AbsID < cb.Objects[j].AbsID })
		sort.SliceStable(cb.Edges, func(i, j int) bool { return cb.Edges[i].AbsID < cb.Edges[j].AbsID })
	}
	if g.Legend != nil {
		lg := map[string]any{"label": g.Legend.Label}
		var os_, es []string
		for _, ob := range g.Legend.Objects {
			a, _ := AttrsJSON(&ob.Attributes)
			os_ = append(os_, ob.ID+":"+string(a))
		}
		for _, e := range g.Legend.Edges {
			a, _ := AttrsJSON(&e.Attributes)
			es = append(es, fmt.Sprint(e.SrcArrow, e.DstArrow)+":"+string(a))
		}
		lg["objects"], lg["edges"] = os_, es
		cb.Legend, _ = json.Marshal(lg)
	}
	if len(g.Data) > 0 {
		cb.Data, _ = json.Marshal(g.Data)
	}
	for _, l := range g.Layers {
		cb.Boards = append(cb.Boards, CanonBoardOf(l, "layer", o))
	}
	for _, l := range g.Scenarios {
		cb.Boards = append(cb.Boards, CanonBoardOf(l, "scenario", o))
	}
	for _, l := range g.Steps {
		cb.Boards = append(cb.Boards, CanonBoardOf(l, "step", o))
	}
	return cb
}

// canon is the canonical projection of a compiled graph (all boards) plus config.
func Canon(g *d2graph.Graph, cfg *d2target.Config) string {
	return CanonWith(g, cfg, CanonOpts{})
}

func CanonWith(g *d2graph.Graph, cfg *d2target.Config, o CanonOpts) string {
	cb := CanonBoardOf(g, "root", o)
	b, _ := json.Marshal(map[string]any{"board": cb, "config": cfg})
	return string(b)
}

// canonRoot projects only the root board (no nested boards).
func CanonRoot(g *d2graph.Graph) string {
	cb := CanonBoardOf(g, "root", CanonOpts{})
	cb.Boards = nil
	b, _ := json.Marshal(cb)
	return string(b)
}

// firstDiff gives a short description of where two canonical strings differ.
func FirstDiff(a, b string) string {
	n := len(a)
	if len(b) < n {
		n = len(b)
	}
	i := 0
	for i < n && a[i] == b[i] {
		i++
	}
	lo := i - 80
	if lo < 0 {
		lo = 0
	}
	ha, hb := i+120, i+120
	if ha > len(a) {
		ha = len(a)
	}
	if hb > len(b) {
		hb = len(b)
	}
	return fmt.Sprintf("…%s\n  vs\n…%s", a[lo:ha], b[lo:hb])
}

// jsonDiffPaths returns the JSON paths at which two JSON documents differ (bounded).
func JSONDiffPaths(a, b string) []string {
	var va, vb any
	json.Unmarshal([]byte(a), &va)
	json.Unmarshal([]byte(b), &vb)
	var out []string
	var rec func(p string, x, y any)
	rec = func(p string, x, y any) {
		if len(out) > 20 {
			return
		}
		switch xv := x.(type) {
		case map[string]any:
			yv, ok := y.(map[string]any)
			if !ok {
				out = append(out, p)
				return
			}
			keys := map[string]bool{}
			for k := range xv {
				keys[k] = true
			}
			for k := range yv {
				keys[k] = true
			}
			ks := make([]string, 0, len(keys))
			for k := range keys {
				ks = append(ks, k)
			}
			sort.Strings(ks)
			for _, k := range ks {
				rec(p+"."+k, xv[k], yv[k])
			}
		case []any:
			yv, ok := y.([]any)
			if !ok || len(xv) != len(yv) {
				out = append(out, p+"[len]")
				return
			}
			for i := range xv {
				rec(p+"[]", xv[i], yv[i])
			}
		default:
			ja, _ := json.Marshal(x)
			jb, _ := json.Marshal(y)
			if string(ja) != string(jb) {
				out = append(out, p)
			}
		}
	}
	rec("", va, vb)
	// dedupe
	seen := map[string]bool{}
	var res []string
	for _, s := range out {
		if !seen[s] {
			seen[s] = true
			res = append(res, s)
		}
	}
	return res
}

// ---- enumeration ---------------------------------------------------------------------------------

// seqs calls visit for every sequence over alpha of exactly length k (lexicographic in alphabet order).
func Seqs(alpha []string, k int, visit func(seq []string)) {
	idx := make([]int, k)
	cur := make([]string, k)
	if k == 0 {
		visit(cur)
		return
	}
	for i := range cur {
		cur[i] = alpha[0]
	}
	for {
		visit(cur)
		i := k - 1
		for i >= 0 {
			idx[i]++
			if idx[i] < len(alpha) {
				cur[i] = alpha[idx[i]]
				break
			}
			idx[i] = 0
			cur[i] = alpha[0]
			i--
		}
		if i < 0 {
			return
		}
	}
}

func Pow(a, b int) int64 {
	r := int64(1)
	for i := 0; i < b; i++ {
		r *= int64(a)
	}
	return r
}

// ---- corpus ----------------------------------------------------------------------------------------

var corpusCache []string

// corpus returns every .d2 file under /repo plus every string literal of every *_test.go that contains a
// newline or looks like D2 (deduplicated, deterministic order).
func Corpus() []string {
	if corpusCache != nil {
		return corpusCache
	}
	cache := filepath.Join(eng.Root, ".scratch", "corpus.json")
	if b, err := os.ReadFile(cache); err == nil {
		var c []string
		if json.Unmarshal(b, &c) == nil && len(c) > 0 {
			corpusCache = c
			return c
		}
	}
	corpusCache = buildCorpus()
	return corpusCache
}

func buildCorpus() []string {
	seen := map[string]bool{}
	var out []string
	add := func(s string) {
		if len(s) == 0 || len(s) > 20000 || seen[s] {
			return
		}
		seen[s] = true
		out = append(out, s)
	}
	filepath.WalkDir("/repo", func(p string, d fs.DirEntry, err error) error {
		if err != nil {
			return nil
		}
		if d.IsDir() {
			if n := d.Name(); n == ".git" || n == "node_modules" {
				return filepath.SkipDir
			}
			return nil
		}
		if strings.HasSuffix(p, ".d2") {
			if b, err := os.ReadFile(p); err == nil {
				add(string(b))
			}
		}
		if strings.HasSuffix(p, "_test.go") {
			fset := token.NewFileSet()
			f, err := goparser.ParseFile(fset, p, nil, 0)
			if err != nil {
				return nil
			}
			ast.Inspect(f, func(n ast.Node) bool {
				if bl, ok := n.(*ast.BasicLit); ok && bl.Kind == token.STRING {
					if s, err := strconv.Unquote(bl.Value); err == nil && utf8.ValidString(s) {
						if strings.ContainsAny(s, "\n:{>") && len(s) >= 3 {
							add(s)
						}
					}
				}
				return true
			})
		}
		return nil
	})
	sort.Strings(out)
	return out
}

// WriteCorpusCache is called by the parent before workers start.
func WriteCorpusCache() {
	os.MkdirAll(filepath.Join(eng.Root, ".scratch"), 0o755)
	c := buildCorpus()
	b, _ := json.Marshal(c)
	os.WriteFile(filepath.Join(eng.Root, ".scratch", "corpus.json"), b, 0o644)
}
