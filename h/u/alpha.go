package u

import "strings"

// SigmaR: one representative per lexical class the parser branches on (DESIGN §2.1 level 1).
var SigmaR = []string{
	"a", "n", "1", "_", " ", "\t", "\n", ";", "#", "{", "}", "[", "]", ":", ".", "-", ">", "<", "*", "&", "!",
	"(", ")", "\"", "'", "|", "\\", "$", "@", "`", "é", "世", "😀", "Ａ", // U+FF21: high BMP (above the surrogate range), 3 UTF-8 bytes, 1 UTF-16 unit
}

// raw bytes for invalid-UTF-8 / BOM runs
var SigmaRaw = []string{"\xff", "\xfe", "\x00", "\x80", "\xef\xbb\xbf", "\r"}

// SigmaT: token alphabet (DESIGN §2.1 level 2).
var SigmaT = []string{
	"a", "B", "\"a b\"", "'q'", "é", "x", "1", ".5", "label", "shape", "style", "opacity", "near", "vars", "classes",
	"layers", "scenarios", "steps", "class", "link", "icon", "width", "direction", "d2-config", "grid-rows", "source-arrowhead",
	"|md x|", "||x||", "|`x`|", "->", "<-", "<->", "--", "-*", ":", ".", "{", "}", "[", "]", ";", "\n", " ",
	"*", "**", "***", "a*", "&", "!&", "(", ")", "[0]", "[*]", "...@x", "@x", "${v}", "...${v}",
	"null", "true", "suspend", "unsuspend", "#c", "\"\"\"c\"\"\"", "\\\n", "_", "circle", "sql_table", "top-left", "0.4", "red",
}

func Join(seq []string) string { return strings.Join(seq, "") }
