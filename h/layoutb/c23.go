package layoutb

import (
	"fmt"
	"math"
	"regexp"
	"sort"
	"strconv"
	"strings"
	"time"

	"oss.terrastruct.com/d2/d2target"
	"verif/h/eng"
	"verif/h/u"
)

// A sequence-diagram spec is "a=<actors>;A=<actor variant>;j=<nl|semi>;w=<root|box>;S=<stmt>|<stmt>|…"
// stmt: "m <src> <dst> <L|->"  message (L = with a label), endpoints are a<i>, a<i>.s (span), a<i>.s.t (nested span)
//
//	"n <actor>"            note on that actor
//	"g{" … "}"             group around the statements in between
//
// Everything the oracle expects is derived from the spec, nothing from d2's own data structures.
type seqSpec struct {
	actors  int
	variant int // 0 plain, 1 = a1 (or a0) is tall, 2 = a0 has a long label, 3 = both
	join    string
	wrap    string
	stmts   []string
}

func (s seqSpec) String() string {
	return fmt.Sprintf("a=%d;A=%d;j=%s;w=%s;S=%s", s.actors, s.variant, s.join, s.wrap, strings.Join(s.stmts, "|"))
}

func parseSeqSpec(in string) (seqSpec, error) {
	var s seqSpec
	parts := strings.SplitN(in, ";", 5)
	if len(parts) != 5 {
		return s, fmt.Errorf("bad sequence spec %q", in)
	}
	s.actors, _ = strconv.Atoi(strings.TrimPrefix(parts[0], "a="))
	s.variant, _ = strconv.Atoi(strings.TrimPrefix(parts[1], "A="))
	s.join = strings.TrimPrefix(parts[2], "j=")
	s.wrap = strings.TrimPrefix(parts[3], "w=")
	if st := strings.TrimPrefix(parts[4], "S="); st != "" {
		s.stmts = strings.Split(st, "|")
	}
	return s, nil
}

func (s seqSpec) source() string {
	var lines []string
	lines = append(lines, "shape: sequence_diagram")
	for i := 0; i < s.actors; i++ {
		l := fmt.Sprintf("a%d", i)
		tall := s.actors - 1
		if tall > 1 {
			tall = 1
		}
		switch {
		case (s.variant == 1 || s.variant == 3) && i == tall:
			l += ": {height: 120}"
		case (s.variant == 2 || s.variant == 3) && i == 0:
			l += ": the first actor has a rather long label"
		}
		lines = append(lines, l)
	}
	notes := 0
	groups := 0
	for k, st := range s.stmts {
		f := strings.Fields(st)
		switch f[0] {
		case "m":
			l := f[1] + " -> " + f[2]
			if f[3] == "L" {
				l += ": " + msgLabel(k)
			}
			lines = append(lines, l)
		case "n":
			lines = append(lines, fmt.Sprintf("%s.n%d: a note", f[1], notes))
			notes++
		case "g{":
			lines = append(lines, fmt.Sprintf("g%d: {", groups))
			groups++
		case "}":
			lines = append(lines, "}")
		}
	}
	sep := "\n"
	if s.join == "semi" {
		sep = "; "
	}
	var b strings.Builder
	if s.wrap == "box" {
		b.WriteString("sd: {")
		b.WriteString(sep)
	}
	for i, l := range lines {
		b.WriteString(l)
		// no separator directly after an opening brace
		if i < len(lines)-1 && !(s.join == "semi" && strings.HasSuffix(l, "{")) {
			b.WriteString(sep)
		} else if i < len(lines)-1 {
			b.WriteString(" ")
		}
	}
	if s.wrap == "box" {
		b.WriteString(sep)
		b.WriteString("}")
	}
	b.WriteString("\n")
	return b.String()
}

// msgLabel is the unique label of the labelled message at statement index k (identifies its connection).
func msgLabel(k int) string { return fmt.Sprintf("message number %d", k) }

func topActor(endpoint string) string {
	if i := strings.Index(endpoint, "."); i >= 0 {
		return endpoint[:i]
	}
	return endpoint
}

// Actor naming scheme "prefix" (spec variants 10..13): the actors a0..a4 are written ab, a, abc, b, bc in the D2 text, so
// that one actor's name is a string prefix of another's in both message directions. The exported ids are mapped back to
// a0..a4 before the checks, which therefore stay independent of the names.
var prefixNames = []string{"ab", "a", "abc", "b", "bc"}
var actorTokRe = regexp.MustCompile(`\ba([0-4])\b`)

func renameActors(src string) string {
	return actorTokRe.ReplaceAllStringFunc(src, func(m string) string { return prefixNames[m[1]-'0'] })
}

func unrenamePath(id string) string {
	parts := strings.Split(id, ".")
	k := 0
	if len(parts) > 1 && parts[0] == "sd" {
		k = 1
	}
	for i, n := range prefixNames {
		if parts[k] == n {
			parts[k] = fmt.Sprintf("a%d", i)
			break
		}
	}
	return strings.Join(parts, ".")
}

var connIDRe = regexp.MustCompile(`^(.*)\((.*) (<?->?|--) (.*)\)\[(\d+)\]$`)

func c23Oracle(in string) eng.Res {
	s, err := parseSeqSpec(in)
	if err != nil {
		return eng.Bad("harness:bad-spec", err.Error())
	}
	src := s.source()
	renamed := s.variant >= 10
	if renamed {
		s.variant -= 10
		src = renameActors(s.source())
	}
	diagram, _, err := layoutD2(src)
	if err != nil {
		return eng.Bad(errClass(err), err.Error()+"\n"+src)
	}
	if renamed {
		for i := range diagram.Shapes {
			diagram.Shapes[i].ID = unrenamePath(diagram.Shapes[i].ID)
		}
		for i := range diagram.Connections {
			c := &diagram.Connections[i]
			c.Src, c.Dst = unrenamePath(c.Src), unrenamePath(c.Dst)
			if m := connIDRe.FindStringSubmatch(c.ID); m != nil {
				// the id's endpoints are relative to the scope prefix m[1]: map the absolute endpoints and cut the prefix again
				scope := strings.TrimSuffix(m[1], ".")
				rel := func(e string) string {
					abs := e
					if scope != "" {
						abs = scope + "." + e
					}
					return strings.TrimPrefix(unrenamePath(abs), func() string {
						if scope == "" {
							return ""
						}
						return unrenamePath(scope) + "."
					}())
				}
				pre := ""
				if scope != "" {
					pre = unrenamePath(scope) + "."
				}
				c.ID = fmt.Sprintf("%s(%s %s %s)[%s]", pre, rel(m[2]), m[3], rel(m[4]), m[5])
			}
		}
	}
	prefix := ""
	if s.wrap == "box" {
		prefix = "sd."
	}
	shapes := map[string]rect{}
	for _, sh := range diagram.Shapes {
		shapes[sh.ID] = shapeRect(sh)
	}
	// Connections are identified by what a reader sees: labelled messages by their (unique) label,
	// unlabelled ones by their endpoints; unlabelled messages with identical endpoints are interchangeable
	// and taken top to bottom. (d2's own edge indices do not follow declaration order across groups.)
	byLabel := map[string]d2target.Connection{}
	unlabelled := map[string][]d2target.Connection{}
	lifeline := map[string]d2target.Connection{}
	topOf := func(c d2target.Connection) float64 {
		t := math.Inf(1)
		for _, p := range c.Route {
			t = math.Min(t, p.Y)
		}
		return t
	}
	for _, c := range diagram.Connections {
		switch {
		case strings.Contains(c.Dst, "-lifeline-end-"):
			lifeline[c.Src] = c
		case c.Label != "":
			byLabel[c.Label] = c
		default:
			k := c.Src + " -> " + c.Dst
			unlabelled[k] = append(unlabelled[k], c)
		}
	}
	for _, l := range unlabelled {
		sort.SliceStable(l, func(i, j int) bool { return topOf(l[i]) < topOf(l[j]) })
	}
	dump := func() string {
		var b strings.Builder
		b.WriteString(src)
		for _, sh := range diagram.Shapes {
			fmt.Fprintf(&b, "shape %s x=%d y=%d w=%d h=%d\n", sh.ID, sh.Pos.X, sh.Pos.Y, sh.Width, sh.Height)
		}
		for _, c := range diagram.Connections {
			fmt.Fprintf(&b, "conn %s:", c.ID)
			for _, p := range c.Route {
				fmt.Fprintf(&b, " (%v,%v)", p.X, p.Y)
			}
			b.WriteString("\n")
		}
		return b.String()
	}
	bad := func(class, detail string) eng.Res { return eng.Bad(class, detail+"\n"+dump()) }

	// ---- actors: left to right in declaration order, common baseline, lifeline under the centre
	var prev rect
	for i := 0; i < s.actors; i++ {
		id := fmt.Sprintf("%sa%d", prefix, i)
		r, ok := shapes[id]
		if !ok {
			return bad("actor-not-exported", id)
		}
		if i > 0 {
			if r.x <= prev.x {
				return bad("actors-not-left-to-right-in-declaration-order", fmt.Sprintf("a%d at x=%v, a%d at x=%v", i-1, prev.x, i, r.x))
			}
			if r.x < prev.r() {
				return bad("actors-overlap-horizontally", fmt.Sprintf("a%d ends at x=%v, a%d starts at x=%v", i-1, prev.r(), i, r.x))
			}
			if math.Abs(r.b()-prev.b()) > 1 {
				return bad("actors-not-on-a-common-baseline", fmt.Sprintf("a%d bottom %v, a%d bottom %v", i-1, prev.b(), i, r.b()))
			}
		}
		ll, ok := lifeline[id]
		if !ok || len(ll.Route) != 2 {
			return bad("actor-without-lifeline", id)
		}
		if math.Abs(ll.Route[0].X-ll.Route[1].X) > geoEps || math.Abs(ll.Route[0].X-(r.x+r.w/2)) > 1 {
			return bad("lifeline-not-vertical-under-actor-centre", fmt.Sprintf("%s centre x=%v lifeline x=%v..%v", id, r.x+r.w/2, ll.Route[0].X, ll.Route[1].X))
		}
		prev = r
	}

	// ---- messages
	occ := map[string]int{}
	lastBottom := math.Inf(-1)
	lastMsg := ""
	nmsg, nself, nspan := 0, 0, 0
	for k, st := range s.stmts {
		f := strings.Fields(st)
		if f[0] != "m" {
			continue
		}
		sEnd, dEnd := prefix+f[1], prefix+f[2]
		id := fmt.Sprintf("statement %d (%s -> %s)", k, f[1], f[2])
		var c d2target.Connection
		ok := false
		if f[3] == "L" {
			c, ok = byLabel[msgLabel(k)]
			if ok && (c.Src != sEnd || c.Dst != dEnd) {
				return bad("message-exported-with-wrong-endpoints", fmt.Sprintf("%s exported as %s -> %s", id, c.Src, c.Dst))
			}
		} else {
			key := sEnd + " -> " + dEnd
			if l := unlabelled[key]; occ[key] < len(l) {
				c, ok = l[occ[key]], true
			}
			occ[key]++
		}
		if !ok {
			return bad("message-not-exported", id)
		}
		if len(c.Route) < 2 {
			return bad("message-route-too-short", id)
		}
		nmsg++
		top, bot := math.Inf(1), math.Inf(-1)
		for _, p := range c.Route {
			top, bot = math.Min(top, p.Y), math.Max(bot, p.Y)
		}
		if !(top > lastBottom) {
			return bad("messages-not-top-to-bottom-in-declaration-order", fmt.Sprintf("%s spans y=%v..%v but the message declared before it (%s) reaches down to y=%v", id, top, bot, lastMsg, lastBottom))
		}
		lastBottom, lastMsg = bot, id
		if topActor(f[1]) != topActor(f[2]) {
			if len(c.Route) != 2 || math.Abs(c.Route[0].Y-c.Route[1].Y) > geoEps {
				return bad("message-between-different-actors-not-a-horizontal-segment", id)
			}
		} else {
			nself++
		}
		ends := []struct {
			obj string
			p   [2]float64
			nm  string
		}{{sEnd, [2]float64{c.Route[0].X, c.Route[0].Y}, "start"}, {dEnd, [2]float64{c.Route[len(c.Route)-1].X, c.Route[len(c.Route)-1].Y}, "end"}}
		for _, e := range ends {
			if strings.Contains(strings.TrimPrefix(e.obj, prefix), ".") {
				nspan++
				sp, ok := shapes[e.obj]
				if !ok {
					return bad("span-not-exported", e.obj)
				}
				if math.Abs(e.p[0]-sp.x) > 1 && math.Abs(e.p[0]-sp.r()) > 1 {
					return bad("message-"+e.nm+"-not-on-a-vertical-side-of-its-span", fmt.Sprintf("%s %s x=%v, span %s spans x=%v..%v", id, e.nm, e.p[0], e.obj, sp.x, sp.r()))
				}
				if e.p[1] < sp.y-1 || e.p[1] > sp.b()+1 {
					return bad("message-"+e.nm+"-outside-vertical-extent-of-its-span", fmt.Sprintf("%s %s y=%v, span %s spans y=%v..%v", id, e.nm, e.p[1], e.obj, sp.y, sp.b()))
				}
				// the span itself sits on its actor's lifeline
				ll := lifeline[prefix+topActor(strings.TrimPrefix(e.obj, prefix))]
				if len(ll.Route) == 2 && math.Abs((sp.x+sp.w/2)-ll.Route[0].X) > 1 {
					return bad("span-not-centred-on-its-actors-lifeline", fmt.Sprintf("span %s centre x=%v lifeline x=%v", e.obj, sp.x+sp.w/2, ll.Route[0].X))
				}
			} else {
				ll := lifeline[e.obj]
				if len(ll.Route) != 2 {
					return bad("actor-without-lifeline", e.obj)
				}
				if math.Abs(e.p[0]-ll.Route[0].X) > 1 {
					return bad("message-"+e.nm+"-not-on-its-actors-lifeline", fmt.Sprintf("%s %s x=%v, lifeline of %s at x=%v", id, e.nm, e.p[0], e.obj, ll.Route[0].X))
				}
				if e.p[1] < ll.Route[0].Y-1 || e.p[1] > ll.Route[1].Y+1 {
					return bad("message-"+e.nm+"-beyond-the-ends-of-its-actors-lifeline", fmt.Sprintf("%s %s y=%v, lifeline of %s spans y=%v..%v", id, e.nm, e.p[1], e.obj, ll.Route[0].Y, ll.Route[1].Y))
				}
			}
		}
	}
	return eng.OK(fmt.Sprintf("a%d m%d self%d span%d w%.0f h%.0f", s.actors, nmsg, nself, nspan, prev.r(), lastBottom), nmsg >= 1)
}

func init() {
	actorNames := func(a int) []string {
		var r []string
		for i := 0; i < a; i++ {
			r = append(r, fmt.Sprintf("a%d", i))
		}
		return r
	}
	plainAlphabet := func(a int) []string {
		var al []string
		for _, s := range actorNames(a) {
			for _, d := range actorNames(a) {
				al = append(al, "m "+s+" "+d+" -", "m "+s+" "+d+" L")
			}
		}
		return al
	}
	eng.Register(&eng.Check{
		ID: "C23", Level: "exploration", HangBound: 120 * time.Second,
		QuickBudget: 110 * time.Second, ThoroughBudget: 24 * time.Minute,
		Rule: "every sequence-diagram spec of the phase (actors a0..a(n-1) declared first, in two phases written with names that are string prefixes of one another: ab, a, abc; statement lists = all sequences up to the phase's length over the phase's alphabet of messages {src->dst incl. self, labelled/unlabelled, endpoints = actors, spans a.s, nested spans a.s.t}, notes, and a group around every contiguous statement range; long cyclic lists of 13 and 30 messages; one statement per line or all on one line) is rendered to D2 text and laid out through d2lib.Compile (d2sequence via LayoutNested; dagre only when the diagram is nested in a container); checked on the exported shapes and connections; expectations are derived from the spec alone; non-trivial = at least one message",
		Assumptions: []string{
			"actors are rectangles with inside labels (shapes with outside-bottom labels such as person/image are aligned by their label bottoms, which the statement's 'common baseline' does not describe)",
			"'on the lifeline' = within 1 px of the x of the actor's exported lifeline connection and within its vertical extent; 'on the span' = within 1 px of one of the span's vertical sides and within its vertical extent",
			"horizontality is required only when the two endpoints belong to different top-level actors; messages between an actor and its own spans are drawn as self-message loops",
			"declaration order of messages = textual order of the statements (also when several statements share a line)",
		},
		Oracles: map[string]eng.Oracle{"seq": c23Oracle},
		Run: func(w *eng.W) {
			ev := func(a, variant int, join, wrap string, stmts []string) {
				w.Eval("seq", seqSpec{a, variant, join, wrap, stmts}.String())
			}
			// P1 plain messages
			for a := 1; a <= w.Pick(4, 5); a++ {
				a := a
				maxLen := 3
				if w.Thorough() && a <= 3 {
					maxLen = 4
				}
				w.Phase(fmt.Sprintf("plain actors=%d messages<=%d", a, maxLen), func() {
					al := plainAlphabet(a)
					for k := 0; k <= maxLen; k++ {
						u.Seqs(al, k, func(s []string) { ev(a, 0, "nl", "root", s) })
					}
				})
			}
			// P1b the same plain messages with actor names that are string prefixes of one another
			for a := 2; a <= 3; a++ {
				a := a
				w.Phase(fmt.Sprintf("plain actors=%d messages<=3, prefix-related actor names", a), func() {
					al := plainAlphabet(a)
					for k := 1; k <= 3; k++ {
						u.Seqs(al, k, func(s []string) { ev(a, 10, "nl", "root", s) })
					}
				})
			}
			w.Phase("spans actors=2 endpoints=5 messages<=2, prefix-related actor names", func() {
				ends := []string{"a0", "a1", "a0.s", "a0.s.t", "a1.s"}
				var al []string
				for _, s := range ends {
					for _, d := range ends {
						al = append(al, "m "+s+" "+d+" -")
					}
				}
				for k := 1; k <= 2; k++ {
					u.Seqs(al, k, func(s []string) { ev(2, 10, "nl", "root", s) })
				}
			})
			// P2 spans and nested spans
			spanPhase := func(a, maxLen int, ends []string) {
				w.Phase(fmt.Sprintf("spans actors=%d endpoints=%d messages<=%d", a, len(ends), maxLen), func() {
					var al []string
					for _, s := range ends {
						for _, d := range ends {
							al = append(al, "m "+s+" "+d+" -")
						}
					}
					for k := 1; k <= maxLen; k++ {
						u.Seqs(al, k, func(s []string) { ev(a, 0, "nl", "root", s) })
					}
				})
			}
			spanPhase(2, w.Pick(3, 3), []string{"a0", "a1", "a0.s", "a0.s.t", "a1.s"})
			if w.Thorough() {
				spanPhase(3, 3, []string{"a0", "a1", "a2", "a0.s", "a0.s.t", "a1.s", "a2.s"})
				spanPhase(2, 4, []string{"a0", "a1", "a0.s", "a0.s.t"})
			} else {
				spanPhase(3, 2, []string{"a0", "a1", "a2", "a0.s", "a0.s.t", "a1.s", "a2.s"})
			}
			// P3 notes and groups, both line styles
			w.Phase(fmt.Sprintf("notes+groups actors=2 statements<=%d", w.Pick(3, 4)), func() {
				al := []string{"m a0 a1 -", "m a1 a0 -", "m a0 a0 -", "m a1 a1 -", "m a0 a1 L", "m a1 a1 L", "n a0", "n a1", "m a0 a1.s -"}
				for k := 1; k <= w.Pick(3, 4); k++ {
					u.Seqs(al, k, func(s []string) {
						for _, join := range []string{"nl", "semi"} {
							ev(2, 0, join, "root", s)
							for i := 0; i < len(s); i++ {
								for j := i + 1; j <= len(s); j++ {
									var st []string
									st = append(st, s[:i]...)
									st = append(st, "g{")
									st = append(st, s[i:j]...)
									st = append(st, "}")
									st = append(st, s[j:]...)
									ev(2, 0, join, "root", st)
									// nested group around the first statement of the range
									if w.Thorough() && j-i >= 2 {
										var st2 []string
										st2 = append(st2, s[:i]...)
										st2 = append(st2, "g{", "g{", s[i], "}")
										st2 = append(st2, s[i+1:j]...)
										st2 = append(st2, "}")
										st2 = append(st2, s[j:]...)
										ev(2, 0, join, "root", st2)
									}
								}
							}
						}
					})
				}
			})
			// P4 actor size variants
			w.Phase("actor-variants actors<=3 messages<=2", func() {
				for a := 1; a <= 3; a++ {
					al := plainAlphabet(a)
					for k := 0; k <= 2; k++ {
						u.Seqs(al, k, func(s []string) {
							for v := 1; v <= 3; v++ {
								ev(a, v, "nl", "root", s)
							}
						})
					}
				}
			})
			// P5 long cyclic lists
			w.Phase("long-lists 13/30 messages", func() {
				for _, a := range []int{1, 2, 5, 8} {
					for _, n := range []int{13, 30} {
						for _, labelled := range []string{"-", "L"} {
							for _, spans := range []bool{false, true} {
								for _, join := range []string{"nl", "semi"} {
									var st []string
									for k := 0; k < n; k++ {
										src := fmt.Sprintf("a%d", k%a)
										dst := fmt.Sprintf("a%d", (k*3+1)%a)
										if spans && k%4 == 1 {
											dst += ".s"
										}
										if spans && k%7 == 3 {
											src += ".s"
										}
										st = append(st, "m "+src+" "+dst+" "+labelled)
									}
									ev(a, 0, join, "root", st)
								}
							}
						}
					}
				}
			})
			// P6 nested in a container laid out by dagre
			w.Phase(fmt.Sprintf("nested-in-container actors=2 messages<=%d (dagre at root)", w.Pick(2, 3)), func() {
				al := append(plainAlphabet(2), "m a0 a1.s -", "n a1")
				for k := 0; k <= w.Pick(2, 3); k++ {
					u.Seqs(al, k, func(s []string) { ev(2, 0, "nl", "box", s) })
				}
			})
			w.Count("dagre_calls", int64(dagreCalls))
		},
	})
}
