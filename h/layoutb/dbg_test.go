package layoutb
import ("testing";"fmt";"strings")
func TestDbg(t *testing.T){
  cnt:=map[string]int{}; ex:=map[string]string{}
  for _,ty:=range shapeTypes{ for w:=1;w<=300;w+=1{ for h:=1;h<=300;h+=1{ for _,p:=range [][2]float64{{0,0},{5,5},{40,40},{40,20},{10,40},{28.28,28.28},{1,1},{2,2},{3,3}}{
    in:=fmt.Sprintf("%s %d %d %v %v",tname(ty),w,h,p[0],p[1])
    r:=c27Fit(in); if r.Fail!=nil && !strings.Contains(r.Fail.Class,"C4Person"){ k:=fmt.Sprintf("%s pad=%v",r.Fail.Class,p); cnt[k]++; if ex[k]==""{ex[k]=in+" :: "+r.Fail.Detail}}
  }}}}
  for k,v:=range cnt{fmt.Println(v,k,"\n    ",ex[k])}
}
