package layoutb

import (
	"fmt"
	"math"
	"strings"
	"time"

	"oss.terrastruct.com/d2/lib/geo"
	"oss.terrastruct.com/d2/lib/shape"
	"verif/h/eng"
)

// every shape type lib/shape knows, plus "" (NewShape's default arm)
var shapeTypes = []string{
	shape.SQUARE_TYPE, shape.REAL_SQUARE_TYPE, shape.PARALLELOGRAM_TYPE, shape.DOCUMENT_TYPE, shape.CYLINDER_TYPE,
	shape.QUEUE_TYPE, shape.PAGE_TYPE, shape.PACKAGE_TYPE, shape.STEP_TYPE, shape.CALLOUT_TYPE, shape.STORED_DATA_TYPE,
	shape.PERSON_TYPE, shape.C4_PERSON_TYPE, shape.DIAMOND_TYPE, shape.OVAL_TYPE, shape.CIRCLE_TYPE, shape.HEXAGON_TYPE,
	shape.CLOUD_TYPE, shape.TABLE_TYPE, shape.CLASS_TYPE, shape.TEXT_TYPE, shape.CODE_TYPE, shape.IMAGE_TYPE, "",
}

const fitEps = 1e-6

func bucket(v float64) int {
	if v < 0 {
		return -1 - bucket(-v)
	}
	return int(math.Floor(math.Log2(v + 1)))
}

// c27Fit: input "Type w h px py".
func c27Fit(in string) eng.Res {
	f := strings.Split(in, " ")
	typ, w, h, px, py := f[0], atof(f[1]), atof(f[2]), atof(f[3]), atof(f[4])
	if typ == "-" {
		typ = ""
	}
	s0 := shape.NewShape(typ, boxOf(0, 0, w, h))
	W, H := s0.GetDimensionsToFit(w, h, px, py)
	if math.IsNaN(W) || math.IsNaN(H) || math.IsInf(W, 0) || math.IsInf(H, 0) || W < 0 || H < 0 {
		return eng.Bad("fit-size-not-finite:"+typ, fmt.Sprintf("GetDimensionsToFit(%v,%v,%v,%v) = %v,%v", w, h, px, py, W, H))
	}
	s := shape.NewShape(typ, boxOf(0, 0, W, H))
	var inner *geo.Box
	if typ == shape.CLOUD_TYPE {
		inner = s.GetInnerBoxForContent(w, h) // the cloud's text area depends on the content's aspect ratio
	} else {
		inner = s.GetInnerBox()
	}
	if inner == nil {
		return eng.Bad("inner-box-nil:"+typ, "")
	}
	detail := func() string {
		return fmt.Sprintf("content %vx%v padding %v,%v -> fitted size %vx%v; inner box at (%v,%v) size %vx%v", w, h, px, py, W, H, inner.TopLeft.X, inner.TopLeft.Y, inner.Width, inner.Height)
	}
	// ⊆ box
	if inner.TopLeft.X < -fitEps || inner.TopLeft.Y < -fitEps || inner.TopLeft.X+inner.Width > W+fitEps || inner.TopLeft.Y+inner.Height > H+fitEps {
		over := math.Max(math.Max(-inner.TopLeft.X, -inner.TopLeft.Y), math.Max(inner.TopLeft.X+inner.Width-W, inner.TopLeft.Y+inner.Height-H))
		mag := "by-1px-or-more"
		if over < 1 {
			mag = "by-less-than-1px(placement-rounded-up)"
		}
		return eng.Bad("inner-box-outside-shape-box:"+typ+":"+mag, detail())
	}
	dw, dh := inner.Width-w, inner.Height-h
	if dw < -fitEps || dh < -fitEps {
		def := math.Max(-dw, -dh)
		mag := "by-more-than-2px"
		if def <= 2+fitEps {
			mag = "by-at-most-2px(integer-rounding)"
		}
		if typ == shape.CLOUD_TYPE && cloudClass(w, h) != cloudClass(w+px, h+py) {
			return eng.Bad("inner-box-smaller-than-content:Cloud:fit-picks-aspect-class-from-padded-size-but-inner-box-from-unpadded", detail())
		}
		return eng.Bad(fmt.Sprintf("inner-box-smaller-than-content:%s:%s", typ, mag), detail())
	}
	return eng.OK(fmt.Sprintf("%s|%d|%d", typ, bucket(dw), bucket(dh)), w > 0 && h > 0)
}

func cloudClass(w, h float64) string {
	ar := w / h
	if ar > shape.CLOUD_WIDE_ASPECT_BOUNDARY {
		return "wide"
	} else if ar < shape.CLOUD_TALL_ASPECT_BOUNDARY {
		return "tall"
	}
	return "square"
}

type traceGeom struct {
	s shape.Shape
	o *outline
}

var traceCache = map[string]*traceGeom{}

var sideNormal = map[string][2]float64{"top": {0, 1}, "right": {-1, 0}, "bottom": {0, -1}, "left": {1, 0}}

// c27Trace: input "Type x y W H side frac angle dist": the connection's previous point lies dist
// outside the box, the route enters the box at the border point (side, frac) under `angle` degrees from the
// inward normal.
func c27Trace(in string) eng.Res {
	f := strings.Split(in, " ")
	typ := f[0]
	if typ == "-" {
		typ = ""
	}
	x, y, W, H := atof(f[1]), atof(f[2]), atof(f[3]), atof(f[4])
	side, frac, ang, dist := f[5], atof(f[6]), atof(f[7]), atof(f[8])
	key := strings.Join(f[:5], " ")
	tg := traceCache[key]
	if tg == nil {
		s := shape.NewShape(typ, boxOf(x, y, W, H))
		o, err := drawnOutline(s)
		if err != nil {
			return eng.Bad("outline-unparseable:"+typ, err.Error())
		}
		if len(traceCache) > 64 {
			traceCache = map[string]*traceGeom{}
		}
		tg = &traceGeom{s, o}
		traceCache[key] = tg
	}
	var rx, ry float64
	switch side {
	case "top":
		rx, ry = x+frac*W, y
	case "bottom":
		rx, ry = x+frac*W, y+H
	case "left":
		rx, ry = x, y+frac*H
	case "right":
		rx, ry = x+W, y+frac*H
	}
	n := sideNormal[side]
	a := ang * math.Pi / 180
	ca, sa := math.Cos(a), math.Sin(a)
	if math.Abs(sa) < 1e-12 {
		sa = 0
	}
	dx, dy := n[0]*ca-n[1]*sa, n[0]*sa+n[1]*ca
	if math.Abs(dx) < 1e-12 {
		dx = 0
	}
	if math.Abs(dy) < 1e-12 {
		dy = 0
	}
	px, py := rx-dist*dx, ry-dist*dy
	r := geo.NewPoint(rx, ry)
	prev := geo.NewPoint(px, py)
	got := shape.TraceToShapeBorder(tg.s, r, prev)
	if got == nil || math.IsNaN(got.X) || math.IsNaN(got.Y) || math.IsInf(got.X, 0) || math.IsInf(got.Y, 0) {
		return eng.Bad("trace-result-not-finite:"+typ, fmt.Sprintf("border point (%v,%v) prev (%v,%v) -> %v", rx, ry, px, py, got))
	}
	const tol = 1.5
	d := tg.o.dist(got.X, got.Y)
	// does the route's line really cross the outline (robustly: also when shifted 1px sideways)?
	t0, kind, ok0 := tg.o.rayHit(px, py, dx, dy)
	_, _, ok1 := tg.o.rayHit(px-dy, py+dx, dx, dy)
	_, _, ok2 := tg.o.rayHit(px+dy, py-dx, dx, dy)
	crosses := ok0 && ok1 && ok2
	if d <= tol {
		return eng.OK(fmt.Sprintf("%s|on-outline|%s|%v", typ, kind, crosses), true)
	}
	if !crosses {
		// the line does not (robustly) meet the shape: there is no outline point to land on; outside the statement
		return eng.OK(typ+"|line-misses-shape", false)
	}
	detail := fmt.Sprintf("%s box (%v,%v) %vx%v: route from (%v,%v) enters the box at (%v,%v); traced end (%v,%v) is %.2f px from the drawn outline; the line meets the outline %.2f px after the border point (outline piece %s)",
		typ, x, y, W, H, px, py, rx, ry, got.X, got.Y, d, t0-dist, kind)
	untraced := got.X == math.Round(rx) && got.Y == math.Round(ry)
	if untraced {
		scale := W
		scaleName := "width"
		if px == rx {
			scale, scaleName = H, "height"
		}
		if t0-dist > scale {
			return eng.Bad("trace-left-on-box:outline-farther-than-probe-extension("+scaleName+")", detail)
		}
		return eng.Bad("trace-left-on-box:intersection-not-found:"+typ+":"+kind, detail)
	}
	return eng.Bad("trace-off-outline:"+typ+":"+kind, detail)
}

var fitGrid = []float64{1, 2, 3, 5, 8, 10, 13, 21, 34, 50, 55, 89, 100, 144, 233, 377, 500, 610, 987, 1000, 1597}
var fitPads = []float64{0, 5, 40}

func tname(t string) string {
	if t == "" {
		return "-"
	}
	return t
}

func init() {
	eng.Register(&eng.Check{
		ID: "C27", Level: "exploration", HangBound: 60 * time.Second,
		QuickBudget: 100 * time.Second, ThoroughBudget: 20 * time.Minute,
		Rule: "fit: every lib/shape type (23 + the default arm) x content (w,h) in G^2 (G = 21 values 1..1597, Fibonacci + round numbers; thorough: every integer pair 1..160 as well) x padding in {0,5,40}^2 and in the paddings d2graph passes (the type's default per axis, 0, +26 for an icon's label, +64 for link+tooltip) and, for content below 150, in P^2 with P = 17 values 0..100, GetDimensionsToFit -> NewShape -> GetInnerBox (cloud: GetInnerBoxForContent); trace: every type x box sizes/origins x 9 (thorough 17) entry points per side x 35 (thorough 69) entry angles (-85..85 deg from the inward normal) x 3 distances of the previous point, TraceToShapeBorder against the harness's own flattened model of the DRAWN outline (GetSVGPathData / inscribed ellipse / box); non-trivial = positive content size (fit) or the route's line robustly crosses the outline (trace); all inputs distinct by construction",
		Assumptions: []string{
			"content sizes and paddings outside the stated grids are not covered; the quantifier's 'symbolic reasoning over the fit formulas' is not attempted",
			"zero-size content is excluded (degenerate aspect ratios; d2graph never sizes a shape to empty content)",
			"the text area of a cloud is GetInnerBoxForContent(content) as d2graph uses it; for all other shapes GetInnerBox()",
			"the outline is the drawn one (first SVG path of the shape, both paths for c4-person, inscribed ellipse for oval/circle, the box for rectangular shapes), flattened with 256 steps per Bezier / 1440 per ellipse; tolerance 1.5 px (the traced point is rounded to integers)",
			"trace cases whose line does not cross the outline also when shifted by 1 px to either side are outside the statement (nothing to land on) and only counted",
			"the previous point is always outside the shape's box (as produced by the layout engines)",
		},
		Oracles: map[string]eng.Oracle{"fit": c27Fit, "trace": c27Trace},
		Run: func(w *eng.W) {
			w.Phase("fit-grid", func() {
				for _, t := range shapeTypes {
					for _, cw := range fitGrid {
						for _, ch := range fitGrid {
							for _, px := range fitPads {
								for _, py := range fitPads {
									w.Eval("fit", fmt.Sprintf("%s %s %s %s %s", tname(t), fnum(cw), fnum(ch), fnum(px), fnum(py)))
								}
							}
						}
					}
				}
			})
			// the paddings d2graph.SetDimensions really passes: the type's GetDefaultPadding per axis, 0 on an axis whose size is
			// explicit, plus the label height (here 26) for shapes with an icon and 64 on x for link + tooltip
			w.Phase("fit-grid x d2graph's paddings", func() {
				for _, t := range shapeTypes {
					dpx, dpy := shape.NewShape(t, geo.NewBox(geo.NewPoint(0, 0), 10, 10)).GetDefaultPadding()
					pxs := []float64{0, dpx, dpx + 26, dpx + 64, dpx + 90}
					pys := []float64{0, dpy, dpy + 26}
					for _, cw := range fitGrid {
						for _, ch := range fitGrid {
							for _, px := range pxs {
								for _, py := range pys {
									w.Eval("fit", fmt.Sprintf("%s %s %s %s %s", tname(t), fnum(cw), fnum(ch), fnum(px), fnum(py)))
								}
							}
						}
					}
				}
			})
			// a denser padding grid on the content sizes below 150 (where the fit formulas switch cases: short pages, small
			// persons, aspect-ratio limits)
			w.Phase("fit-small-content x 17 paddings^2", func() {
				pads := []float64{0, 1, 2, 5, 8, 10, 15, 20, 21, 25, 30, 40, 41, 45, 50, 60, 100}
				for _, t := range shapeTypes {
					for _, cw := range fitGrid {
						for _, ch := range fitGrid {
							if cw > 150 || ch > 150 {
								continue
							}
							for _, px := range pads {
								for _, py := range pads {
									if (px == 0 || px == 5 || px == 40) && (py == 0 || py == 5 || py == 40) {
										continue // fit-grid
									}
									w.Eval("fit", fmt.Sprintf("%s %s %s %s %s", tname(t), fnum(cw), fnum(ch), fnum(px), fnum(py)))
								}
							}
						}
					}
				}
			})
			if w.Thorough() {
				w.Phase("fit-dense-0..160", func() {
					for _, t := range shapeTypes {
						for cw := 1; cw <= 160; cw++ {
							for ch := 1; ch <= 160; ch++ {
								for _, p := range [][2]float64{{0, 0}, {5, 5}, {40, 40}, {40, 20}} {
									w.Eval("fit", fmt.Sprintf("%s %d %d %s %s", tname(t), cw, ch, fnum(p[0]), fnum(p[1])))
								}
							}
						}
					}
				})
			}
			type bx struct{ x, y, w, h float64 }
			boxes := []bx{{0, 0, 100, 100}, {-130, 57, 240, 90}, {12, -300, 80, 260}, {1000, 1000, 53, 53}}
			if w.Thorough() {
				boxes = append(boxes, bx{0, 0, 400, 66}, bx{-7, -7, 66, 400}, bx{3, 4, 171, 128}, bx{0, 0, 1000, 1000}, bx{50, 50, 30, 30}, bx{0, 0, 640, 210})
			}
			fracs := []float64{0.02, 0.125, 0.25, 0.4, 0.5, 0.6, 0.75, 0.875, 0.98}
			dists := []float64{2, 35, 400}
			angStep := 5.0
			if w.Thorough() {
				fracs = []float64{0.005, 0.02, 0.0625, 0.125, 0.1875, 0.25, 0.333, 0.4, 0.5, 0.6, 0.667, 0.75, 0.8125, 0.875, 0.9375, 0.98, 0.995}
				angStep = 2.5
			}
			w.Phase("trace", func() {
				for _, t := range shapeTypes {
					for _, b := range boxes {
						if (t == shape.CIRCLE_TYPE || t == shape.REAL_SQUARE_TYPE) && b.w != b.h {
							b.h = b.w // these are always laid out with equal sides
						}
						for _, side := range []string{"top", "right", "bottom", "left"} {
							for _, fr := range fracs {
								for ang := -85.0; ang <= 85; ang += angStep {
									for _, d := range dists {
										w.Eval("trace", fmt.Sprintf("%s %s %s %s %s %s %s %s %s", tname(t), fnum(b.x), fnum(b.y), fnum(b.w), fnum(b.h), side, fnum(fr), fnum(ang), fnum(d)))
									}
								}
							}
						}
					}
				}
			})
		},
	})
}
