package layoutb

import (
	"fmt"
	"strconv"
	"strings"
	"time"

	"oss.terrastruct.com/d2/d2graph"
	"verif/h/eng"
)

// gridSpec is the self-contained description of one generated grid diagram.
// text form: "n p r c o gg vg hg w", '-' = unset, r/c 0 = unset, o = rc|cr (which keyword is declared first),
// w = root (the board itself is the grid) | box (the grid is a container `g` laid out by dagre at the root).
type gridSpec struct {
	n, pat, rows, cols int
	order              string
	gg, vg, hg         int // -1 unset
	wrap               string
}

func gapStr(v int) string {
	if v < 0 {
		return "-"
	}
	return strconv.Itoa(v)
}

func (s gridSpec) String() string {
	return fmt.Sprintf("%d %d %d %d %s %s %s %s %s", s.n, s.pat, s.rows, s.cols, s.order, gapStr(s.gg), gapStr(s.vg), gapStr(s.hg), s.wrap)
}

func parseGap(s string) int {
	if s == "-" {
		return -1
	}
	v, _ := strconv.Atoi(s)
	return v
}

func parseGridSpec(in string) (gridSpec, error) {
	f := strings.Fields(in)
	if len(f) != 9 {
		return gridSpec{}, fmt.Errorf("bad grid spec %q", in)
	}
	var s gridSpec
	s.n, _ = strconv.Atoi(f[0])
	s.pat, _ = strconv.Atoi(f[1])
	s.rows, _ = strconv.Atoi(f[2])
	s.cols, _ = strconv.Atoi(f[3])
	s.order = f[4]
	s.gg, s.vg, s.hg = parseGap(f[5]), parseGap(f[6]), parseGap(f[7])
	s.wrap = f[8]
	return s, nil
}

const (
	patEqual = iota
	patOneWide
	patOneTall
	patIncreasing
	patAlternating
	patContainerCell        // one cell is an unlabelled container with two connected children (dagre inside)
	patLabelledContainerCell // same, with its default label: the grid gives it an outside label
	nPatterns
)

func (s gridSpec) containerIdx() int {
	if s.n >= 2 {
		return 1
	}
	return 0
}

func (s gridSpec) source() string {
	var b strings.Builder
	ind := ""
	if s.wrap == "box" {
		b.WriteString("g: {\n")
		ind = "  "
	}
	kw := func(k string, v int) {
		if v >= 0 {
			fmt.Fprintf(&b, "%s%s: %d\n", ind, k, v)
		}
	}
	r, c := s.rows, s.cols
	if r == 0 {
		r = -1
	}
	if c == 0 {
		c = -1
	}
	if s.order == "rc" {
		kw("grid-rows", r)
		kw("grid-columns", c)
	} else {
		kw("grid-columns", c)
		kw("grid-rows", r)
	}
	kw("grid-gap", s.gg)
	kw("vertical-gap", s.vg)
	kw("horizontal-gap", s.hg)
	for i := 0; i < s.n; i++ {
		switch {
		case s.pat == patOneWide && i == s.n/2:
			fmt.Fprintf(&b, "%sc%d: {width: 300}\n", ind, i)
		case s.pat == patOneTall && i == s.n/2:
			fmt.Fprintf(&b, "%sc%d: {height: 200}\n", ind, i)
		case s.pat == patIncreasing:
			fmt.Fprintf(&b, "%sc%d: {width: %d; height: %d}\n", ind, i, 40+20*i, 40+10*i)
		case s.pat == patAlternating && i%2 == 0:
			fmt.Fprintf(&b, "%sc%d: {width: 60; height: 60}\n", ind, i)
		case s.pat == patAlternating:
			fmt.Fprintf(&b, "%sc%d: {width: 120; height: 40}\n", ind, i)
		case s.pat == patContainerCell && i == s.containerIdx():
			fmt.Fprintf(&b, "%sc%d: \"\" {x; y; x -> y}\n", ind, i)
		case s.pat == patLabelledContainerCell && i == s.containerIdx():
			fmt.Fprintf(&b, "%sc%d: {x; y; x -> y}\n", ind, i)
		default:
			fmt.Fprintf(&b, "%sc%d\n", ind, i)
		}
	}
	if s.wrap == "box" {
		b.WriteString("}\n")
	}
	return b.String()
}

const geoEps = 1e-6

func c22Oracle(in string) eng.Res {
	s, err := parseGridSpec(in)
	if err != nil {
		return eng.Bad("harness:bad-spec", err.Error())
	}
	src := s.source()
	diagram, g, err := layoutD2(src)
	if err != nil {
		return eng.Bad(errClass(err), err.Error()+"\n"+src)
	}
	prefix := ""
	var container *d2graph.Object
	byID := map[string]*d2graph.Object{}
	for _, o := range g.Objects {
		byID[o.AbsID()] = o
	}
	if s.wrap == "box" {
		prefix = "g."
		container = byID["g"]
		if container == nil {
			return eng.Bad("grid-container-missing-after-layout", src)
		}
	}
	exported := map[string]rect{}
	for _, sh := range diagram.Shapes {
		exported[sh.ID] = shapeRect(sh)
	}
	cells := make([]rect, s.n)
	ex := make([]rect, s.n)
	for i := 0; i < s.n; i++ {
		id := fmt.Sprintf("%sc%d", prefix, i)
		o := byID[id]
		if o == nil || o.TopLeft == nil {
			return eng.Bad("cell-missing-after-layout", id+"\n"+src)
		}
		cells[i] = objRect(o)
		e, ok := exported[id]
		if !ok {
			return eng.Bad("cell-not-exported", id+"\n"+src)
		}
		ex[i] = e
	}
	hg, vg := 40, 40
	if s.gg >= 0 {
		hg, vg = s.gg, s.gg
	}
	if s.vg >= 0 {
		vg = s.vg
	}
	if s.hg >= 0 {
		hg = s.hg
	}
	both := s.rows > 0 && s.cols > 0
	rowDirected := s.cols == 0 || (both && s.order == "rc")
	dump := func() string {
		var b strings.Builder
		b.WriteString(src)
		for i, c := range cells {
			fmt.Fprintf(&b, "c%d: x=%v y=%v w=%v h=%v   exported x=%v y=%v w=%v h=%v\n", i, c.x, c.y, c.w, c.h, ex[i].x, ex[i].y, ex[i].w, ex[i].h)
		}
		if container != nil {
			fmt.Fprintf(&b, "g: %+v\n", objRect(container))
		}
		return b.String()
	}
	dirName := "rows"
	if !rowDirected {
		dirName = "columns"
	}
	// main axis = the direction cells advance in within a line (x for rows), cross = the direction lines advance in
	type ax struct{ m0, m1, c0, c1, msize, csize float64 }
	proj := func(r rect) ax {
		if rowDirected {
			return ax{r.x, r.r(), r.y, r.b(), r.w, r.h}
		}
		return ax{r.y, r.b(), r.x, r.r(), r.h, r.w}
	}
	gapMain, gapCross := float64(hg), float64(vg)
	if !rowDirected {
		gapMain, gapCross = float64(vg), float64(hg)
	}
	exact := both && s.pat != patLabelledContainerCell

	check := func(rs []rect, tol float64, which string) (lines [][]int, fail *eng.Res) {
		bad := func(class, detail string) ([][]int, *eng.Res) {
			r := eng.Bad(class, detail+"\n"+dump())
			return nil, &r
		}
		for i := 0; i < len(rs); i++ {
			if i == 0 || proj(rs[i]).m0 < proj(rs[i-1]).m1-tol {
				lines = append(lines, nil)
			}
			lines[len(lines)-1] = append(lines[len(lines)-1], i)
		}
		for li, ln := range lines {
			for k := 1; k < len(ln); k++ {
				a, b := proj(rs[ln[k-1]]), proj(rs[ln[k]])
				if b.m0-a.m1 < gapMain-tol {
					return bad(fmt.Sprintf("gap-between-neighbours-in-a-line-too-small:%s:%s", dirName, which), fmt.Sprintf("c%d and c%d are %v apart, configured gap %v", ln[k-1], ln[k], b.m0-a.m1, gapMain))
				}
				if exact && which == "layout" && b.m0-a.m1 > gapMain+tol {
					return bad("gap-between-neighbours-in-a-line-too-large:"+dirName, fmt.Sprintf("c%d and c%d are %v apart, configured gap %v (rows and columns both given)", ln[k-1], ln[k], b.m0-a.m1, gapMain))
				}
			}
			if li > 0 {
				prevEnd := proj(rs[lines[li-1][0]]).c1
				for _, j := range lines[li-1] {
					prevEnd = maxf(prevEnd, proj(rs[j]).c1)
				}
				for _, j := range ln {
					if d := proj(rs[j]).c0 - prevEnd; d < gapCross-tol {
						return bad(fmt.Sprintf("declaration-order-or-gap-between-lines-broken:%s:%s", dirName, which), fmt.Sprintf("c%d starts %v after the end of the previous line (which holds c%d..c%d), configured gap %v", j, d, lines[li-1][0], lines[li-1][len(lines[li-1])-1], gapCross))
					}
				}
			}
		}
		for i := 0; i < len(rs); i++ {
			for j := i + 1; j < len(rs); j++ {
				if ox, oy := overlap(rs[i], rs[j]); ox > tol && oy > tol {
					return bad("cells-overlap:"+which, fmt.Sprintf("c%d and c%d overlap by %vx%v", i, j, ox, oy))
				}
			}
		}
		return lines, nil
	}
	lines, f := check(cells, geoEps, "layout")
	if f != nil {
		return *f
	}
	if _, f := check(ex, 1, "exported"); f != nil {
		return *f
	}
	bad := func(class, detail string) eng.Res { return eng.Bad(class, detail+"\n"+dump()) }
	if both {
		per := s.cols
		if !rowDirected {
			per = s.rows
		}
		for li, ln := range lines {
			want := per
			if li == len(lines)-1 {
				want = len(ln)
				if want > per {
					want = per
				}
			}
			if len(ln) != want {
				return bad("line-length-differs-from-configured-count:"+dirName, fmt.Sprintf("line %d holds %d cells, grid-rows=%d grid-columns=%d", li, len(ln), s.rows, s.cols))
			}
		}
	} else if s.n > 0 {
		want := s.rows + s.cols // one of them is 0
		if want > s.n {
			want = s.n
		}
		if len(lines) != want {
			return bad("number-of-lines-differs-from-configured-count:"+dirName, fmt.Sprintf("%d lines, configured %d, %d cells", len(lines), s.rows+s.cols, s.n))
		}
	}
	if exact {
		for _, ln := range lines {
			for k, j := range ln {
				a, b := proj(cells[ln[0]]), proj(cells[j])
				if diff(a.csize, b.csize) || diff(a.c0, b.c0) {
					return bad("cells-of-one-line-differ-in-size-or-alignment:"+dirName, fmt.Sprintf("c%d vs c%d", ln[0], j))
				}
				// same position within the line = same column (row-directed) / row (column-directed)
				a0 := proj(cells[lines[0][k]])
				if diff(a0.msize, b.msize) || diff(a0.m0, b.m0) {
					return bad("cells-at-the-same-position-of-different-lines-differ-in-size-or-alignment:"+dirName, fmt.Sprintf("c%d vs c%d", lines[0][k], j))
				}
			}
		}
	}
	if container != nil {
		cr := objRect(container)
		for i, c := range cells {
			if c.x < cr.x-geoEps || c.y < cr.y-geoEps || c.r() > cr.r()+geoEps || c.b() > cr.b()+geoEps {
				return bad("cell-outside-grid-container", fmt.Sprintf("c%d %+v container %+v", i, c, cr))
			}
		}
		if ce, ok := exported["g"]; ok {
			for i, c := range ex {
				if c.x < ce.x-1 || c.y < ce.y-1 || c.r() > ce.r()+1 || c.b() > ce.b()+1 {
					return bad("cell-outside-grid-container:exported", fmt.Sprintf("c%d %+v container %+v", i, c, ce))
				}
			}
		}
	}
	var ll []string
	for _, ln := range lines {
		ll = append(ll, strconv.Itoa(len(ln)))
	}
	bw, bh := 0.0, 0.0
	for _, c := range cells {
		bw, bh = maxf(bw, c.r()), maxf(bh, c.b())
	}
	if len(cells) > 0 {
		bw -= cells[0].x
		bh -= cells[0].y
	}
	return eng.OK(fmt.Sprintf("%s %s %.0fx%.0f", dirName, strings.Join(ll, ","), bw, bh), s.n >= 2)
}

func diff(a, b float64) bool { d := a - b; return d > geoEps || d < -geoEps }

func init() {
	rcVals := []int{0, 1, 2, 3, 5}
	gapVals := []int{-1, 0, 7, 40}
	eng.Register(&eng.Check{
		ID: "C22", Level: "exploration", HangBound: 120 * time.Second,
		QuickBudget: 118 * time.Second, ThoroughBudget: 24 * time.Minute,
		Rule: "every grid spec (cell count n, size pattern in {equal, one wide, one tall, increasing, alternating, one unlabelled container cell, one labelled container cell}, grid-rows x grid-columns in {unset,1,2,3,5}^2 (thorough: {unset,1,2,3,4,5,7}^2) minus both-unset, both declaration orders when both are set, grid-gap x vertical-gap x horizontal-gap in {unset,0,7,40}^3 or the stated slice of that cube; bounds per phase are in the phase names) is rendered to D2 text and laid out through d2lib.Compile (d2grid via LayoutNested; dagre for container cells and for the root when the grid is a nested container); checked on the d2graph boxes (exact, 1e-6) and the exported integer boxes (1 px); all specs distinct; non-trivial = at least 2 cells",
		Assumptions: []string{
			"cells carry no outside labels or icons (a cell with an outside label is deliberately shrunk by the label margin after layout, which the statement's equal-size clause does not describe); the labelled-container-cell pattern, which d2 gives an outside label, is therefore checked for order, gaps (>=), overlap and containment only",
			"which cells form a line is read off the geometry: a cell continues the current line iff it starts at or after the end of the previous cell on the main axis",
			"the count clauses (line length when both keywords are given, number of lines when one is given) are read as part of 'placed along rows/columns' of a grid with the configured counts",
			"gap equality is required only when rows and columns are both given (dynamic layouts stretch cells, so only >= holds there)",
			"containment in the grid container is checked only when the grid is a nested container (wrap=box); dagre lays out the root there",
		},
		Oracles: map[string]eng.Oracle{"grid": c22Oracle},
		Run: func(w *eng.W) {
			run := func(name string, ns []int, pats []int, rc []int, wraps []string, gapFilter func(gg, vg, hg int) bool) {
				w.Phase(name, func() {
					for _, n := range ns {
						for _, p := range pats {
							for _, r := range rc {
								for _, c := range rc {
									if r == 0 && c == 0 {
										continue
									}
									orders := []string{"rc"}
									if r > 0 && c > 0 {
										orders = []string{"rc", "cr"}
									}
									for _, o := range orders {
										for _, gg := range gapVals {
											for _, vg := range gapVals {
												for _, hg := range gapVals {
													if gapFilter != nil && !gapFilter(gg, vg, hg) {
														continue
													}
													for _, wr := range wraps {
														w.Eval("grid", gridSpec{n, p, r, c, o, gg, vg, hg, wr}.String())
													}
												}
											}
										}
									}
								}
							}
						}
					}
				})
			}
			seq := func(a, b int) []int {
				var r []int
				for i := a; i <= b; i++ {
					r = append(r, i)
				}
				return r
			}
			pure := []int{patEqual, patOneWide, patOneTall, patIncreasing, patAlternating}
			dagre := []int{patContainerCell, patLabelledContainerCell}
			// slices of the gap cube: every effective (horizontal, vertical) source combination appears at least once
			slice8 := func(gg, vg, hg int) bool {
				switch [3]int{gg, vg, hg} {
				case [3]int{-1, -1, -1}, [3]int{7, -1, -1}, [3]int{0, -1, -1}, [3]int{-1, 0, 40}, [3]int{-1, 7, -1}, [3]int{40, 7, 0}, [3]int{0, 40, 7}, [3]int{7, -1, 0}:
					return true
				}
				return false
			}
			slice2 := func(gg, vg, hg int) bool {
				return (gg == -1 && vg == -1 && hg == -1) || (gg == 40 && vg == 7 && hg == 0)
			}
			if !w.Thorough() {
				run("root-grid n<=3 full gap cube", seq(0, 3), pure, rcVals, []string{"root"}, nil)
				run("root-grid n=4..12 gap slice(8)", seq(4, 12), pure, rcVals, []string{"root"}, slice8)
				rcS := []int{0, 1, 2, 3}
				run("container-cell n<=3 rows/cols<=3 (dagre, gap slice 2)", seq(1, 3), dagre, rcS, []string{"root"}, slice2)
				run("nested-grid n<=3 rows/cols<=3 (dagre at root, gap slice 2)", seq(0, 3), []int{patEqual, patIncreasing, patAlternating}, rcS, []string{"box"}, slice2)
			} else {
				rcT := []int{0, 1, 2, 3, 4, 5, 7}
				run("root-grid n<=10 rows/cols in {unset,1,2,3,4,5,7} full gap cube", seq(0, 10), pure, rcT, []string{"root"}, nil)
				run("container-cell n<=4 (dagre, gap slice 8)", seq(1, 4), dagre, rcVals, []string{"root"}, slice8)
				run("container-cell n=5..10 (dagre, gap slice 2)", seq(5, 10), dagre, rcVals, []string{"root"}, slice2)
				run("nested-grid n<=6 (dagre at root, gap slice 2)", seq(0, 6), pure, rcVals, []string{"box"}, slice2)
				run("nested-grid n=7..12 equal/increasing/alternating (dagre at root, gap slice 2)", seq(7, 12), []int{patEqual, patIncreasing, patAlternating}, rcVals, []string{"box"}, slice2)
				run("root-grid n=11..20 same rows/cols set, full gap cube", seq(11, 20), pure, rcT, []string{"root"}, nil)
				run("root-grid n=21..30 same rows/cols set, full gap cube", seq(21, 30), pure, rcT, []string{"root"}, nil)
			}
			w.Count("dagre_calls", int64(dagreCalls))
		},
	})
}
