package layoutb

import (
	"fmt"
	"strconv"
	"strings"
	"time"

	"oss.terrastruct.com/d2/d2target"
	"oss.terrastruct.com/d2/lib/shape"
	"verif/h/eng"
)

// A sizing spec is "l=<label kind>;f=<font size|->;s=<plain|bold|italic|bolditalic>;i=<none|in|out>;w=<n|->;h=<n|->#<dsl shape>".
// One spec (left of '#') describes a whole D2 program holding one leaf of every shape type with those
// attributes, laid out by dagre in one go; the part after '#' selects the shape the evaluation is about.
type sizeSpec struct {
	label, font, style, icon string
	w, h                     int    // 0 = unset
	via                      string // "" = width/height written on the shape, "class" = supplied through a class
}

func (s sizeSpec) String() string {
	d := func(v int) string {
		if v == 0 {
			return "-"
		}
		return strconv.Itoa(v)
	}
	r := fmt.Sprintf("l=%s;f=%s;s=%s;i=%s;w=%s;h=%s", s.label, s.font, s.style, s.icon, d(s.w), d(s.h))
	if s.via != "" {
		r += ";v=" + s.via
	}
	return r
}

func parseSizeSpec(in string) (sizeSpec, error) {
	var s sizeSpec
	p := strings.Split(in, ";")
	if len(p) != 6 && len(p) != 7 {
		return s, fmt.Errorf("bad size spec %q", in)
	}
	if len(p) == 7 {
		s.via = strings.TrimPrefix(p[6], "v=")
	}
	get := func(x, k string) string { return strings.TrimPrefix(x, k+"=") }
	s.label, s.font, s.style, s.icon = get(p[0], "l"), get(p[1], "f"), get(p[2], "s"), get(p[3], "i")
	s.w, _ = strconv.Atoi(get(p[4], "w"))
	s.h, _ = strconv.Atoi(get(p[5], "h"))
	return s, nil
}

var sizeLabels = map[string]string{
	"empty": `""`,
	"x":     `x`,
	"c12":   `twelve chars`,
	"c60":   `a label of sixty characters that goes on and on for a while.`,
	"lines": `"first line\nthe second line is longer\nthird"`,
	"tall":  `"1\n2\n3\n4\n5\n6\n7\n8"`,
	"block": `"a block of text, line one\nline two of the same block\nline three, about as long\nline four is here as well\nline five keeps on going\nline six, nearly there now\nline seven of nine lines\nline eight, one more to go\nline nine ends the block"`,
	"cjk":   `図形のラベル`,
	"emoji": `🙂 ok 🚀`,
}
var sizeLabelOrder = []string{"x", "c12", "c60", "lines", "tall", "block", "cjk", "emoji"}

// every leaf shape keyword of the language (sequence_diagram and hierarchy are diagram types, not leaf shapes)
var dslShapes = []string{
	d2target.ShapeRectangle, d2target.ShapeSquare, d2target.ShapePage, d2target.ShapeParallelogram, d2target.ShapeDocument,
	d2target.ShapeCylinder, d2target.ShapeQueue, d2target.ShapePackage, d2target.ShapeStep, d2target.ShapeCallout,
	d2target.ShapeStoredData, d2target.ShapePerson, d2target.ShapeC4Person, d2target.ShapeDiamond, d2target.ShapeOval,
	d2target.ShapeCircle, d2target.ShapeHexagon, d2target.ShapeCloud, d2target.ShapeText, d2target.ShapeCode,
	d2target.ShapeClass, d2target.ShapeSQLTable, d2target.ShapeImage,
}

const iconURL = "https://icons.terrastruct.com/essentials/004-picture.svg"

func objName(sh string) string { return "s_" + strings.ReplaceAll(sh, "-", "_") }

// has tells whether the program of this spec contains the shape: the compiler rejects unequal explicit
// width/height on square and circle, so those two are left out of such programs.
func (s sizeSpec) has(sh string) bool {
	if (sh == d2target.ShapeSquare || sh == d2target.ShapeCircle) && s.w > 0 && s.h > 0 && s.w != s.h && s.via != "class" {
		return false // (the compiler's check looks at keys written on the shape itself; through a class they are accepted)
	}
	if s.label == "empty" && sh == d2target.ShapeText {
		return false // "shape text must have a non-empty label"
	}
	return true
}

func (s sizeSpec) source() string {
	var b strings.Builder
	if s.via == "class" {
		var dim []string
		if s.w > 0 {
			dim = append(dim, fmt.Sprintf("width: %d", s.w))
		}
		if s.h > 0 {
			dim = append(dim, fmt.Sprintf("height: %d", s.h))
		}
		fmt.Fprintf(&b, "classes: {\n  dim: {\n    %s\n  }\n}\n", strings.Join(dim, "\n    "))
	}
	for _, sh := range dslShapes {
		if !s.has(sh) {
			continue
		}
		lbl := sizeLabels[s.label]
		if (sh == d2target.ShapeSQLTable || sh == d2target.ShapeClass) && strings.Contains(lbl, `\n`) {
			lbl = sizeLabels["c12"] // the compiler rejects newlines in table/class headers
		}
		var attrs []string
		body := ""
		switch sh {
		case d2target.ShapeCode:
			// the label of a code shape is its source text
			lbl = "|go\nfunc main() {\n\tfmt.Println(\"" + s.label + "\")\n}\n|"
		case d2target.ShapeClass:
			body = "+field: int; -other: \"[]string\"; +method(a uint64): (x, y int)"
		case d2target.ShapeSQLTable:
			body = "id: int {constraint: primary_key}; name: varchar; owner_id: int {constraint: foreign_key}"
		}
		if sh != d2target.ShapeCode {
			attrs = append(attrs, "shape: "+sh)
		}
		if s.font != "-" {
			attrs = append(attrs, "style.font-size: "+s.font)
		}
		if strings.Contains(s.style, "bold") {
			attrs = append(attrs, "style.bold: true")
		}
		if strings.Contains(s.style, "italic") {
			attrs = append(attrs, "style.italic: true")
		}
		switch {
		case s.icon == "in" || (sh == d2target.ShapeImage && s.icon == "none"):
			attrs = append(attrs, "icon: "+iconURL)
		case s.icon == "out":
			attrs = append(attrs, "icon: "+iconURL, "icon.near: outside-top-left")
		}
		if s.via == "class" {
			attrs = append(attrs, "class: dim")
		} else {
			if s.w > 0 {
				attrs = append(attrs, fmt.Sprintf("width: %d", s.w))
			}
			if s.h > 0 {
				attrs = append(attrs, fmt.Sprintf("height: %d", s.h))
			}
		}
		if body != "" {
			attrs = append(attrs, body)
		}
		fmt.Fprintf(&b, "%s: %s {\n  %s\n}\n", objName(sh), lbl, strings.Join(attrs, "\n  "))
	}
	return b.String()
}

type sizedProgram struct {
	src    string
	shapes map[string]d2target.Shape
	err    error
}

var sizeCache = map[string]*sizedProgram{}

func layoutSized(s sizeSpec) *sizedProgram {
	key := s.String()
	if p := sizeCache[key]; p != nil {
		return p
	}
	if len(sizeCache) > 8 {
		sizeCache = map[string]*sizedProgram{}
	}
	p := &sizedProgram{src: s.source(), shapes: map[string]d2target.Shape{}}
	d, _, err := layoutD2(p.src)
	p.err = err
	if err == nil {
		for _, sh := range d.Shapes {
			p.shapes[sh.ID] = sh
		}
	}
	sizeCache[key] = p
	return p
}

func c21Oracle(in string) eng.Res {
	i := strings.LastIndex(in, "#")
	if i < 0 {
		return eng.Bad("harness:bad-spec", in)
	}
	s, err := parseSizeSpec(in[:i])
	if err != nil {
		return eng.Bad("harness:bad-spec", err.Error())
	}
	dsl := in[i+1:]
	if !s.has(dsl) {
		return eng.OK("not-in-program", false)
	}
	p := layoutSized(s)
	if p.err != nil {
		return eng.Bad(errClass(p.err), p.err.Error()+"\n"+p.src)
	}
	sh, ok := p.shapes[objName(dsl)]
	if !ok {
		return eng.Bad("shape-not-exported", objName(dsl)+"\n"+p.src)
	}
	W, H := sh.Width, sh.Height
	stanza := func() string {
		// the statement of this shape only
		name := objName(dsl) + ":"
		k := strings.Index(p.src, name)
		e := strings.Index(p.src[k:], "\n}\n")
		return p.src[k : k+e+3]
	}
	desc := func() string {
		return fmt.Sprintf("%slaid out %dx%d, label %dx%d at %s, icon at %q", stanza(), W, H, sh.LabelWidth, sh.LabelHeight, sh.LabelPosition, sh.IconPosition)
	}
	if W <= 0 || H <= 0 {
		return eng.Bad("non-positive-size:"+dsl, desc())
	}
	switch {
	case s.w > 0 && s.h > 0:
		switch dsl {
		case d2target.ShapeSquare, d2target.ShapeCircle:
			m := s.w
			if s.h > m {
				m = s.h
			}
			if W != m || H != m {
				return eng.Bad("explicit-size-not-honoured:"+dsl+":expected-larger-of-the-two-for-both", desc())
			}
		case d2target.ShapeSQLTable, d2target.ShapeClass, d2target.ShapeCode:
			// never below the content: the content size is what the same shape gets when asked for 1x1
			min := s
			min.w, min.h = 1, 1
			q := layoutSized(min)
			if q.err != nil {
				return eng.Bad(errClass(q.err), q.err.Error()+"\n"+q.src)
			}
			c := q.shapes[objName(dsl)]
			if c.Width < sh.LabelWidth || c.Height < sh.LabelHeight {
				return eng.Bad("content-size-smaller-than-label:"+dsl, fmt.Sprintf("asked for 1x1: %dx%d, label %dx%d\n%s", c.Width, c.Height, sh.LabelWidth, sh.LabelHeight, desc()))
			}
			ew, eh := s.w, s.h
			if c.Width > ew {
				ew = c.Width
			}
			if c.Height > eh {
				eh = c.Height
			}
			if W < c.Width || H < c.Height {
				return eng.Bad("explicit-size-shrinks-below-content:"+dsl, fmt.Sprintf("content %dx%d\n%s", c.Width, c.Height, desc()))
			}
			if W != ew || H != eh {
				return eng.Bad("explicit-size-not-honoured:"+dsl+":expected-max(explicit,content)", fmt.Sprintf("content %dx%d\n%s", c.Width, c.Height, desc()))
			}
		default:
			if W != s.w || H != s.h {
				cause := ""
				if dsl == d2target.ShapeImage && (s.w < 5 || s.h < 5) {
					cause = ":clamped-to-minimum-5"
				}
				return eng.Bad("explicit-size-not-honoured:"+dsl+cause, desc())
			}
		}
		return eng.OK(fmt.Sprintf("explicit %s %dx%d", dsl, W, H), true)
	case s.w == 0 && s.h == 0:
		if sh.Label == "" || !strings.HasPrefix(sh.LabelPosition, "INSIDE") {
			return eng.OK(fmt.Sprintf("auto %s label-not-inside %s", dsl, sh.LabelPosition), false)
		}
		t := shape.NewShape(d2target.DSL_SHAPE_TO_SHAPE_TYPE[dsl], boxOf(float64(sh.Pos.X), float64(sh.Pos.Y), float64(W), float64(H)))
		if dsl == d2target.ShapeCloud && sh.ContentAspectRatio != nil {
			t.SetInnerBoxAspectRatio(*sh.ContentAspectRatio)
		}
		inner := t.GetInnerBox()
		if inner.Width+geoEps < float64(sh.LabelWidth) || inner.Height+geoEps < float64(sh.LabelHeight) {
			return eng.Bad("automatic-size-text-area-smaller-than-label:"+dsl, fmt.Sprintf("text area %.2fx%.2f\n%s", inner.Width, inner.Height, desc()))
		}
		return eng.OK(fmt.Sprintf("auto %s slack %d,%d", dsl, bucket(inner.Width-float64(sh.LabelWidth)), bucket(inner.Height-float64(sh.LabelHeight))), true)
	}
	// only one of width/height given: the statement is silent; the case is laid out for crashes and sanity only
	return eng.OK(fmt.Sprintf("mixed %s", dsl), false)
}

// c21Leaf renders one automatically sized root-level leaf on one line.
func c21Leaf(name, label, shp, family, style, fsize string) string {
	attrs := []string{"shape: " + shp}
	if family != "-" {
		attrs = append(attrs, "style.font: "+family)
	}
	if strings.Contains(style, "bold") {
		attrs = append(attrs, "style.bold: true")
	}
	if strings.Contains(style, "italic") {
		attrs = append(attrs, "style.italic: true")
	}
	if fsize != "-" {
		attrs = append(attrs, "style.font-size: "+fsize)
	}
	return fmt.Sprintf("%s: %s {%s}", name, sizeLabels[label], strings.Join(attrs, "; "))
}

var c21Alone = map[string]d2target.Shape{}

// c21CtxFree: the automatic size of a root-level leaf depends on its own label and text attributes only. The input
// is a two-line program (leaves p and q with the SAME label text and different text attributes); each leaf must get
// the box and the label measurement it gets when it is the only shape of the diagram. This is a differential oracle
// for "sized to fit the label": a measurement remembered for one shape and reused for another (same text, other font
// family / weight / size) makes the exported labelWidth itself wrong, which the text-area oracle has to trust.
func c21CtxFree(in string) eng.Res {
	lines := strings.Split(in, "\n")
	if len(lines) != 2 {
		return eng.Bad("harness:bad-pair", in)
	}
	d, _, err := layoutD2(in)
	if err != nil {
		return eng.Bad(errClass(err), err.Error()+"\n"+in)
	}
	got := map[string]d2target.Shape{}
	for _, sh := range d.Shapes {
		got[sh.ID] = sh
	}
	for i, l := range lines {
		name := []string{"p", "q"}[i]
		body := l[len(name):]
		alone, ok := c21Alone[body]
		if !ok {
			if len(c21Alone) > 4096 {
				c21Alone = map[string]d2target.Shape{}
			}
			d1, _, err := layoutD2("p" + body)
			if err != nil {
				return eng.Bad(errClass(err), err.Error()+"\np"+body)
			}
			alone = d1.Shapes[0]
			c21Alone[body] = alone
		}
		g := got[name]
		if g.Width != alone.Width || g.Height != alone.Height || g.LabelWidth != alone.LabelWidth || g.LabelHeight != alone.LabelHeight {
			return eng.Bad("automatic-size-depends-on-another-shape:"+g.Type+":"+[]string{"first", "second"}[i]+"-of-two",
				fmt.Sprintf("%s is %dx%d (label %dx%d) next to the other leaf but %dx%d (label %dx%d) alone\n%s", name, g.Width, g.Height, g.LabelWidth, g.LabelHeight, alone.Width, alone.Height, alone.LabelWidth, alone.LabelHeight, in))
		}
	}
	return eng.OK(fmt.Sprintf("ctxfree %s %s", got["p"].Type, got["q"].Type), true)
}

func init() {
	eng.Register(&eng.Check{
		ID: "C21", Level: "exploration", HangBound: 120 * time.Second,
		QuickBudget: 118 * time.Second, ThoroughBudget: 24 * time.Minute,
		Rule: "every attribute combination (label in {1 char, 12 chars, 60 chars, 3 lines, 8 short lines, 9-line block, CJK, emoji (thorough)} x font-size x bold/italic x icon in {none, inside, outside-top-left} x (width,height) in D^2, D per phase, written on the shape or supplied through a class; plus the empty label) is rendered to a D2 program holding one root-level leaf of each of the 23 leaf shape keywords with those attributes, laid out through d2lib.Compile with dagre; each (combination, shape) pair is one evaluation on the exported shape; plus every ordered pair of two root-level leaves with the same label (3 labels) and different (shape in {rectangle,text} (thorough + hexagon, cloud), font family in {default,mono}, plain/bold/italic, font-size in {-,40}), each leaf compared with the same leaf laid out alone; non-trivial = both dimensions explicit, or automatic size with an inside label",
		Assumptions: []string{
			"leaf shapes at the root of a dagre-laid-out board only (no grid, no sequence diagram, no containers, no near)",
			"when only one of width/height is given the statement is silent: such cases are laid out but only checked for errors and positive size",
			"'content' of sql_table/class/code = the size the same shape gets when asked for 1x1 (must itself cover the label); the explicit case must then equal max(explicit, content) per axis",
			"'label drawn inside' = exported labelPosition starts with INSIDE; the text area is lib/shape GetInnerBox of the exported box (cloud: with the exported contentAspectRatio), compared with the exported label width/height",
			"markdown/latex text blocks are not in the space (they never shrink below content like code, which the statement does not list)",
			"text measurement is d2's own ruler (trusted); the check is about sizing given those measurements, and (pair phase) about each shape getting the measurement of ITS OWN text attributes",
		},
		Oracles: map[string]eng.Oracle{"size": c21Oracle, "ctxfree": c21CtxFree},
		Run: func(w *eng.W) {
			via := ""
			run := func(name string, labels, fonts, styles, icons []string, dims [][2]int) {
				w.Phase(name, func() {
					for _, l := range labels {
						for _, f := range fonts {
							for _, st := range styles {
								for _, ic := range icons {
									for _, d := range dims {
										if !w.Mine() { // shard by program: its 23 evaluations share one layout
											continue
										}
										sp := sizeSpec{l, f, st, ic, d[0], d[1], via}
										for _, sh := range dslShapes {
											if sp.has(sh) {
												w.EvalMine("size", sp.String()+"#"+sh)
											}
										}
									}
								}
							}
						}
					}
				})
			}
			sq := func(vals []int) [][2]int {
				var r [][2]int
				for _, a := range vals {
					for _, b := range vals {
						r = append(r, [2]int{a, b})
					}
				}
				return r
			}
			if !w.Thorough() {
				ql := []string{"x", "c60", "lines", "tall", "block", "cjk"}
				qf := []string{"-", "40"}
				qs := []string{"plain", "bolditalic"}
				qi := []string{"none", "in", "out"}
				run("automatic size: labels(6) x font{-,40} x {plain,bolditalic} x icons(3)", ql, qf, qs, qi, [][2]int{{0, 0}})
				run("explicit size {(1,1),(37,200),(200,37),(1000,1000)}: same attribute grid", ql, qf, qs, qi, [][2]int{{1, 1}, {37, 200}, {200, 37}, {1000, 1000}})
				run("one-sided size {(37,-),(-,200)}: same attribute grid", ql, qf, qs, qi, [][2]int{{37, 0}, {0, 200}})
				el := []string{"empty", "x", "lines"}
				run("empty label: explicit {(1,1),(37,200),(200,37),(1000,1000)} x icons(3)", []string{"empty"}, qf, []string{"plain"}, qi, [][2]int{{1, 1}, {37, 200}, {200, 37}, {1000, 1000}, {0, 0}})
				via = "class"
				run("size through a class {(1,1),(37,200),(200,37),(130,130)}: labels{empty,x,lines} x icons(3)", el, []string{"-"}, []string{"plain"}, qi, [][2]int{{1, 1}, {37, 200}, {200, 37}, {130, 130}})
				via = ""
			} else {
				tf := []string{"-", "8", "32", "100"}
				ts := []string{"plain", "bold", "italic", "bolditalic"}
				ti := []string{"none", "in", "out"}
				vals := []int{1, 37, 200, 1000}
				var oneSided [][2]int
				for _, v := range vals {
					oneSided = append(oneSided, [2]int{v, 0}, [2]int{0, v})
				}
				run("automatic size: labels(8) x font{-,8,32,100} x styles(4) x icons(3)", sizeLabelOrder, tf, ts, ti, [][2]int{{0, 0}})
				run("explicit size {1,37,200,1000}^2: same attribute grid", sizeLabelOrder, tf, ts, ti, sq(vals))
				run("one-sided size {1,37,200,1000} on either axis: same attribute grid", sizeLabelOrder, tf, ts, ti, oneSided)
				run("empty label: explicit {1,37,200,1000}^2 and automatic", []string{"empty"}, tf, ts, ti, append(sq(vals), [2]int{0, 0}))
				via = "class"
				run("size through a class {1,37,200,1000}^2: labels(8+empty) x icons(3)", append([]string{"empty"}, sizeLabelOrder...), []string{"-", "32"}, []string{"plain"}, ti, sq(vals))
				via = ""
			}
			w.Phase("two leaves, same label, different text attributes: each sized as when alone", func() {
				type variant struct{ shp, family, style, fsize string }
				var vs []variant
				shapes := []string{d2target.ShapeRectangle, d2target.ShapeText}
				if w.Thorough() {
					shapes = append(shapes, d2target.ShapeHexagon, d2target.ShapeCloud)
				}
				for _, shp := range shapes {
					for _, fam := range []string{"-", "mono"} {
						for _, st := range []string{"plain", "bold", "italic"} {
							for _, fs := range []string{"-", "40"} {
								vs = append(vs, variant{shp, fam, st, fs})
							}
						}
					}
				}
				for _, l := range []string{"x", "c60", "lines"} {
					for i, a := range vs {
						for j, b := range vs {
							if i != j {
								w.Eval("ctxfree", c21Leaf("p", l, a.shp, a.family, a.style, a.fsize)+"\n"+c21Leaf("q", l, b.shp, b.family, b.style, b.fsize))
							}
						}
					}
				}
			})
			w.Count("dagre_calls", int64(dagreCalls))
		},
	})
}
