// Package layoutb holds the checks of group "layoutb": C21 (shape sizing), C22 (grid layout),
// C23 (sequence diagrams), C27 (lib/shape fit / trace).
package layoutb

import (
	"fmt"
	"math"
	"strconv"
	"strings"

	"oss.terrastruct.com/d2/lib/geo"
	"oss.terrastruct.com/d2/lib/shape"
)

// ---- the harness's own outline model -------------------------------------------------------------
//
// The outline a user sees is what the renderer draws: for path shapes the first entry of
// GetSVGPathData() (both entries for C4Person: body and head), for Oval/Circle the ellipse inscribed
// in the box (d2svg.renderOval), for everything rectangular the box itself. The outline is rebuilt
// here from those drawn primitives (not from Perimeter(), which is what the code under test uses)
// and flattened into a polyline; all distance / ray computations below are the harness's own.

type seg struct{ x1, y1, x2, y2 float64 }

type outline struct {
	segs []seg
	kind []string // drawn primitive each flattened piece comes from: L, C, E (ellipse), R (rect)
}

const bezierSteps = 256

func parsePath(d string, o *outline) error {
	f := strings.Fields(d)
	var cx, cy, sx, sy float64
	num := func(i int) (float64, error) {
		if i >= len(f) {
			return 0, fmt.Errorf("short path")
		}
		return strconv.ParseFloat(f[i], 64)
	}
	for i := 0; i < len(f); {
		switch f[i] {
		case "M":
			x, e1 := num(i + 1)
			y, e2 := num(i + 2)
			if e1 != nil || e2 != nil {
				return fmt.Errorf("bad M in %q", d)
			}
			cx, cy, sx, sy = x, y, x, y
			i += 3
		case "L":
			x, e1 := num(i + 1)
			y, e2 := num(i + 2)
			if e1 != nil || e2 != nil {
				return fmt.Errorf("bad L in %q", d)
			}
			o.add(seg{cx, cy, x, y}, "L")
			cx, cy = x, y
			i += 3
		case "H":
			x, e1 := num(i + 1)
			if e1 != nil {
				return fmt.Errorf("bad H in %q", d)
			}
			o.add(seg{cx, cy, x, cy}, "L")
			cx = x
			i += 2
		case "V":
			y, e1 := num(i + 1)
			if e1 != nil {
				return fmt.Errorf("bad V in %q", d)
			}
			o.add(seg{cx, cy, cx, y}, "L")
			cy = y
			i += 2
		case "C":
			var p [6]float64
			for k := 0; k < 6; k++ {
				v, e := num(i + 1 + k)
				if e != nil {
					return fmt.Errorf("bad C in %q", d)
				}
				p[k] = v
			}
			px, py := cx, cy
			for s := 1; s <= bezierSteps; s++ {
				t := float64(s) / bezierSteps
				u := 1 - t
				x := u*u*u*cx + 3*u*u*t*p[0] + 3*u*t*t*p[2] + t*t*t*p[4]
				y := u*u*u*cy + 3*u*u*t*p[1] + 3*u*t*t*p[3] + t*t*t*p[5]
				o.add(seg{px, py, x, y}, "C")
				px, py = x, y
			}
			cx, cy = p[4], p[5]
			i += 7
		case "Z":
			o.add(seg{cx, cy, sx, sy}, "L")
			cx, cy = sx, sy
			i++
		default:
			return fmt.Errorf("unknown path command %q in %q", f[i], d)
		}
	}
	return nil
}

func (o *outline) add(s seg, k string) {
	if s.x1 == s.x2 && s.y1 == s.y2 {
		return
	}
	o.segs = append(o.segs, s)
	o.kind = append(o.kind, k)
}

func drawnOutline(s shape.Shape) (*outline, error) {
	o := &outline{}
	b := s.GetBox()
	x, y, w, h := b.TopLeft.X, b.TopLeft.Y, b.Width, b.Height
	data := s.GetSVGPathData()
	switch {
	case s.GetType() == shape.OVAL_TYPE || s.GetType() == shape.CIRCLE_TYPE:
		const n = 1440
		cx, cy := x+w/2, y+h/2
		px, py := cx+w/2, cy
		for i := 1; i <= n; i++ {
			a := 2 * math.Pi * float64(i) / n
			qx, qy := cx+w/2*math.Cos(a), cy+h/2*math.Sin(a)
			o.add(seg{px, py, qx, qy}, "E")
			px, py = qx, qy
		}
	case len(data) == 0:
		o.add(seg{x, y, x + w, y}, "R")
		o.add(seg{x + w, y, x + w, y + h}, "R")
		o.add(seg{x + w, y + h, x, y + h}, "R")
		o.add(seg{x, y + h, x, y}, "R")
	default:
		n := 1
		if s.GetType() == shape.C4_PERSON_TYPE {
			n = len(data)
		}
		for i := 0; i < n; i++ {
			if err := parsePath(data[i], o); err != nil {
				return nil, err
			}
		}
	}
	return o, nil
}

func distPointSeg(px, py float64, s seg) float64 {
	dx, dy := s.x2-s.x1, s.y2-s.y1
	l2 := dx*dx + dy*dy
	t := 0.0
	if l2 > 0 {
		t = ((px-s.x1)*dx + (py-s.y1)*dy) / l2
		t = math.Max(0, math.Min(1, t))
	}
	return math.Hypot(px-(s.x1+t*dx), py-(s.y1+t*dy))
}

func (o *outline) dist(px, py float64) float64 {
	d := math.Inf(1)
	for _, s := range o.segs {
		if v := distPointSeg(px, py, s); v < d {
			d = v
		}
	}
	return d
}

// rayHit returns the distance from (ox,oy) along the unit direction (dx,dy) to the first piece of the
// outline hit, and that piece's kind; ok=false when the half-line misses the outline.
func (o *outline) rayHit(ox, oy, dx, dy float64) (t float64, kind string, ok bool) {
	t = math.Inf(1)
	for i, s := range o.segs {
		ex, ey := s.x2-s.x1, s.y2-s.y1
		den := dx*ey - dy*ex
		if math.Abs(den) < 1e-12 {
			continue
		}
		// o + t d = s1 + u e
		wx, wy := s.x1-ox, s.y1-oy
		tt := (wx*ey - wy*ex) / den
		u := (wx*dy - wy*dx) / den
		if tt >= 0 && u >= 0 && u <= 1 && tt < t {
			t, kind, ok = tt, o.kind[i], true
		}
	}
	return
}

func boxOf(x, y, w, h float64) *geo.Box { return geo.NewBox(geo.NewPoint(x, y), w, h) }

func fnum(v float64) string { return strconv.FormatFloat(v, 'g', -1, 64) }

func atof(s string) float64 { v, _ := strconv.ParseFloat(s, 64); return v }
