package layoutb

import (
	"context"
	"fmt"
	"os"
	"regexp"
	"runtime"
	"strings"
	"sync"

	"oss.terrastruct.com/d2/d2graph"
	"oss.terrastruct.com/d2/d2layouts/d2dagrelayout"
	"oss.terrastruct.com/d2/d2lib"
	"oss.terrastruct.com/d2/d2target"
	"oss.terrastruct.com/d2/lib/textmeasure"
	"oss.terrastruct.com/util-go/go2"
	"verif/h/u"
)

// Worker processes are single-threaded explorers; 16 of them run side by side, so keep each one's
// GC from spawning 16 more threads.
func init() {
	for _, a := range os.Args {
		if a == "--worker" {
			runtime.GOMAXPROCS(2)
		}
	}
}

var (
	rulerOnce sync.Once
	ruler     *textmeasure.Ruler
	rulerErr  error
)

func getRuler() (*textmeasure.Ruler, error) {
	rulerOnce.Do(func() { ruler, rulerErr = textmeasure.NewRuler() })
	return ruler, rulerErr
}

// dagreCalls counts invocations of the JS engine (for coverage notes).
var dagreCalls int

// layoutD2 drives the public path: d2lib.Compile = compile -> SetDimensions -> LayoutNested (grid and
// sequence diagrams are laid out by d2grid / d2sequence inside it, everything else by dagre) -> export.
func layoutD2(src string) (*d2target.Diagram, *d2graph.Graph, error) {
	r, err := getRuler()
	if err != nil {
		return nil, nil, fmt.Errorf("ruler: %w", err)
	}
	resolver := func(engine string) (d2graph.LayoutGraph, error) {
		return func(ctx context.Context, g *d2graph.Graph) error {
			dagreCalls++
			return d2dagrelayout.DefaultLayout(ctx, g)
		}, nil
	}
	return d2lib.Compile(u.Bgctx, src, &d2lib.CompileOptions{
		Ruler:          r,
		LayoutResolver: resolver,
		Layout:         go2.Pointer("dagre"),
	}, nil)
}

var (
	reQuoted = regexp.MustCompile(`"[^"]*"`)
	reNumber = regexp.MustCompile(`[-+]?[0-9]+(\.[0-9]+)?`)
)

// errClass turns a compile/layout error into a failure class without input-specific names and numbers.
func errClass(err error) string {
	m := u.StripDigits(err.Error())
	if i := strings.Index(m, "\n"); i >= 0 {
		m = m[:i]
	}
	m = reQuoted.ReplaceAllString(m, `"…"`)
	m = reNumber.ReplaceAllString(m, "N")
	return "compile-or-layout-error:" + m
}

type rect struct{ x, y, w, h float64 }

func (a rect) r() float64 { return a.x + a.w }
func (a rect) b() float64 { return a.y + a.h }

func objRect(o *d2graph.Object) rect {
	return rect{o.TopLeft.X, o.TopLeft.Y, o.Width, o.Height}
}

func shapeRect(s d2target.Shape) rect {
	return rect{float64(s.Pos.X), float64(s.Pos.Y), float64(s.Width), float64(s.Height)}
}

// overlap returns the size of the interior intersection of two rectangles (0 when they only touch).
func overlap(a, b rect) (float64, float64) {
	ox := minf(a.r(), b.r()) - maxf(a.x, b.x)
	oy := minf(a.b(), b.b()) - maxf(a.y, b.y)
	return ox, oy
}

func minf(a, b float64) float64 {
	if a < b {
		return a
	}
	return b
}
func maxf(a, b float64) float64 {
	if a > b {
		return a
	}
	return b
}
