package edit

import (
	"fmt"
	"sort"
	"strings"

	"oss.terrastruct.com/d2/d2graph"
	"oss.terrastruct.com/d2/d2parser"
)

// Reference edit model (C38, C39, C40). An expectation says, for every object of the board before the
// edit that must survive, under which (surviving) object it has to be found afterwards and whether its
// name is pinned ("fixed") or may have been changed ("free": the edit renames it, or the statement
// allows a rename because the name is taken). Matching is top-down; free objects are matched by their
// explicit label, then by identical content, then by elimination.

type xObj struct {
	pre  *PObj
	par  *xObj // expected parent; nil = board root
	free bool
	post *PObj
}

type expectation struct {
	objs         []*xObj
	by           map[string]*xObj // by AbsID before
	removedObjs  map[string]bool
	keptEdges    []*PEdge
	removedEdges map[string]bool
	ordered      bool // parallel connections must keep their relative order (connection delete)
	allowExtra   bool // new objects may appear (containers created on a destination path)
	globs        bool // the diagram has globs: what a glob gives an object depends on where the object is
}

func newExpectation(r *Rec, pre *PBoard) *expectation {
	x := &expectation{globs: strings.Contains(r.Pre, "*"), by: map[string]*xObj{}, removedObjs: map[string]bool{}, removedEdges: map[string]bool{}}
	for _, o := range pre.Objs {
		xo := &xObj{pre: o}
		x.objs = append(x.objs, xo)
		x.by[o.Abs] = xo
	}
	for _, xo := range x.objs {
		if xo.pre.Parent != "" {
			xo.par = x.by[xo.pre.Parent]
		}
	}
	x.keptEdges = append(x.keptEdges, pre.Edges...)
	return x
}

func (x *expectation) removeObj(abs string) {
	x.removedObjs[abs] = true
	var kept []*xObj
	for _, o := range x.objs {
		if o.pre.Abs != abs {
			kept = append(kept, o)
		}
	}
	x.objs = kept
	delete(x.by, abs)
}

func (x *expectation) removeEdgesWhere(f func(e *PEdge) bool) {
	var kept []*PEdge
	for _, e := range x.keptEdges {
		if f(e) {
			x.removedEdges[e.Abs] = true
		} else {
			kept = append(kept, e)
		}
	}
	x.keptEdges = kept
}

type mismatch struct{ what, detail string }

func (m *mismatch) String() string { return m.what + ": " + m.detail }

func content(o *PObj) string { return fmt.Sprintf("%q|%v|%s", o.Label, o.Implicit, o.Attrs) }

// match fills xObj.post for every expected object, or reports the first mismatch.
func (x *expectation) match(post *PBoard) *mismatch {
	kids := map[*xObj][]*xObj{}
	for _, o := range x.objs {
		o.post = nil
		kids[o.par] = append(kids[o.par], o)
	}
	postKids := map[string][]*PObj{}
	for _, q := range post.Objs {
		postKids[q.Parent] = append(postKids[q.Parent], q)
	}
	used := map[*PObj]bool{}
	var level func(par *xObj) *mismatch
	level = func(par *xObj) *mismatch {
		pabs := ""
		if par != nil {
			pabs = par.post.Abs
		}
		cands := postKids[pabs]
		ks := kids[par]
		for _, k := range ks {
			if k.free {
				continue
			}
			for _, c := range cands {
				if !used[c] && strings.EqualFold(c.ID, k.pre.ID) {
					k.post = c
					used[c] = true
					break
				}
			}
			if k.post == nil {
				// the object is there (same unique label, same parent) under another name although its name is free
				for _, c := range cands {
					if !used[c] && k.pre.Label != "" && c.Label == k.pre.Label && !strings.EqualFold(c.ID, k.pre.Label) {
						return &mismatch{"object-renamed-although-its-name-is-free", fmt.Sprintf("object %s (label %q) should keep the name %q under %q — no surviving object there has that name — but is called %q afterwards", k.pre.Abs, k.pre.Label, k.pre.ID, pabs, c.ID)}
					}
				}
				return &mismatch{"object-lost", fmt.Sprintf("object %s (label %q) should be found as %q under %q afterwards, but is not", k.pre.Abs, k.pre.Label, k.pre.ID, pabs)}
			}
		}
		var free []*xObj
		for _, k := range ks {
			if k.free {
				free = append(free, k)
			}
		}
		pick := func(k *xObj, ok func(c *PObj) bool) {
			if k.post != nil {
				return
			}
			var hit *PObj
			n := 0
			for _, c := range cands {
				if !used[c] && ok(c) {
					hit = c
					n++
				}
			}
			if n == 1 {
				k.post = hit
				used[hit] = true
			}
		}
		for _, k := range free { // explicit label
			if !k.pre.Implicit {
				pick(k, func(c *PObj) bool { return !c.Implicit && c.Label == k.pre.Label })
			}
		}
		for _, k := range free { // same name still there
			pick(k, func(c *PObj) bool { return strings.EqualFold(c.ID, k.pre.ID) && content(c) == content(k.pre) })
		}
		for _, k := range free { // identical content
			pick(k, func(c *PObj) bool { return content(c) == content(k.pre) })
		}
		for _, k := range free { // elimination
			pick(k, func(c *PObj) bool { return true })
		}
		for _, k := range free {
			if k.post == nil {
				// several indistinguishable candidates: take them in order
				for _, c := range cands {
					if !used[c] && content(c) == content(k.pre) {
						k.post = c
						used[c] = true
						break
					}
				}
			}
			if k.post == nil {
				return &mismatch{"object-lost", fmt.Sprintf("object %s (label %q) should be found under %q afterwards (possibly renamed), but no object there matches it", k.pre.Abs, k.pre.Label, pabs)}
			}
		}
		for _, k := range ks {
			if m := level(k); m != nil {
				return m
			}
		}
		return nil
	}
	if m := level(nil); m != nil {
		return m
	}
	if !x.allowExtra {
		for _, q := range post.Objs {
			if !used[q] {
				return &mismatch{"object-added", fmt.Sprintf("object %s (label %q) exists afterwards but corresponds to nothing before", q.Abs, q.Label)}
			}
		}
	}
	// own fields
	for _, o := range x.objs {
		a, b := o.pre, o.post
		if a.Label != b.Label || a.Implicit != b.Implicit {
			return &mismatch{"object-label-changed", fmt.Sprintf("object %s -> %s: label %q (implicit %v) -> %q (implicit %v)", a.Abs, b.Abs, a.Label, a.Implicit, b.Label, b.Implicit)}
		}
		relocated := o.free || (o.par == nil) != (a.Parent == "") || (o.par != nil && o.par.pre.Abs != a.Parent)
		aa, ba := a.Attrs, b.Attrs
		if relocated && strings.Contains(aa, `"language":`) {
			// the shape of an object with a block-string label depends on the kind of its container
			aa, ba = attrsWithoutShape(aa), attrsWithoutShape(ba)
		}
		if aa != ba && !(relocated && x.globs) {
			return &mismatch{"object-attributes-changed", fmt.Sprintf("object %s -> %s: attributes\n  %s\n  ->\n  %s", a.Abs, b.Abs, a.Attrs, b.Attrs)}
		}
		if a.Near == "" && b.Near != "" {
			return &mismatch{"object-near-changed", fmt.Sprintf("object %s -> %s: near %q -> %q", a.Abs, b.Abs, a.Near, b.Near)}
		}
		if a.Near != "" {
			if t, ok := x.by[a.Near]; ok {
				if !strings.EqualFold(b.Near, t.post.Abs) {
					return &mismatch{"object-near-changed", fmt.Sprintf("object %s -> %s: near %q pointed at the object that is now %q, but is %q afterwards", a.Abs, b.Abs, a.Near, t.post.Abs, b.Near)}
				}
			}
		}
	}
	return nil
}

func attrsWithoutShape(a string) string {
	i := strings.Index(a, `"shape":{"value":"`)
	if i < 0 {
		return a
	}
	j := strings.Index(a[i+18:], `"`)
	return a[:i+18] + a[i+18+j:]
}

type xEdge struct {
	pre      *PEdge
	src, dst string // expected endpoints afterwards (AbsID)
	post     *PEdge // nil when the counterpart cannot be told apart from its parallel siblings
}

func econtent(e *PEdge) string { return fmt.Sprintf("%q|%s", e.Label, e.Attrs) }

// in diagrams with globs what a glob gives a connection depends on where its end points are
func (x *expectation) econtent(e *PEdge) string {
	if x.globs {
		return fmt.Sprintf("%q", e.Label)
	}
	return econtent(e)
}

// matchEdges compares the surviving connections group by group (same endpoints and arrows).
func (x *expectation) matchEdges(post *PBoard) ([]*xEdge, *mismatch) {
	var xs []*xEdge
	groups := map[string][]*xEdge{}
	var order []string
	for _, e := range x.keptEdges {
		s, okS := x.by[e.Src]
		d, okD := x.by[e.Dst]
		if !okS || !okD || s.post == nil || d.post == nil {
			return nil, &mismatch{"harness:endpoint-not-tracked", e.Abs}
		}
		xe := &xEdge{pre: e, src: s.post.Abs, dst: d.post.Abs}
		xs = append(xs, xe)
		k := fmt.Sprintf("%s\x00%s\x00%v%v", strings.ToLower(xe.src), strings.ToLower(xe.dst), e.SrcArrow, e.DstArrow)
		if _, ok := groups[k]; !ok {
			order = append(order, k)
		}
		groups[k] = append(groups[k], xe)
	}
	pg := map[string][]*PEdge{}
	for _, f := range post.Edges {
		pg[f.group()] = append(pg[f.group()], f)
	}
	for k := range pg {
		sort.SliceStable(pg[k], func(i, j int) bool { return pg[k][i].Index < pg[k][j].Index })
	}
	for _, k := range order {
		exp, got := groups[k], pg[k]
		desc := fmt.Sprintf("%s -> %s", exp[0].src, exp[0].dst)
		if len(got) < len(exp) {
			return nil, &mismatch{"connection-lost", fmt.Sprintf("%d connection(s) %s expected afterwards (e.g. the former %s, label %q), %d found", len(exp), desc, exp[0].pre.Abs, exp[0].pre.Label, len(got))}
		}
		if len(got) > len(exp) {
			return nil, &mismatch{"connection-added", fmt.Sprintf("%d connection(s) %s expected afterwards, %d found", len(exp), desc, len(got))}
		}
		for i, f := range got {
			if f.Index != i {
				return nil, &mismatch{"connection-indices-not-consecutive", fmt.Sprintf("parallel connections %s carry index %d at position %d", desc, f.Index, i)}
			}
		}
		if x.ordered {
			for i := range exp {
				if x.econtent(exp[i].pre) != x.econtent(got[i]) {
					return nil, &mismatch{"connection-content-changed", fmt.Sprintf("connection %s (label %q) should be %s afterwards, which has label %q / attributes\n  %s\n  vs\n  %s", exp[i].pre.Abs, exp[i].pre.Label, got[i].Abs, got[i].Label, exp[i].pre.Attrs, got[i].Attrs)}
				}
				exp[i].post = got[i]
			}
			continue
		}
		usedF := map[*PEdge]bool{}
		for _, xe := range exp {
			n := 0
			for _, xe2 := range exp {
				if x.econtent(xe2.pre) == x.econtent(xe.pre) {
					n++
				}
			}
			var hit *PEdge
			m := 0
			for _, f := range got {
				if !usedF[f] && x.econtent(f) == x.econtent(xe.pre) {
					if hit == nil {
						hit = f
					}
					m++
				}
			}
			if hit == nil {
				return nil, &mismatch{"connection-content-changed", fmt.Sprintf("connection %s (label %q) has no counterpart with the same label and attributes among the %d connection(s) %s afterwards", xe.pre.Abs, xe.pre.Label, len(got), desc)}
			}
			usedF[hit] = true
			if n == 1 || allSame(exp) {
				xe.post = hit
			}
		}
	}
	for k, got := range pg {
		if _, ok := groups[k]; !ok {
			return nil, &mismatch{"connection-added", fmt.Sprintf("connection %s (label %q) exists afterwards but corresponds to nothing before", got[0].Abs, got[0].Label)}
		}
	}
	return xs, nil
}

func allSame(xs []*xEdge) bool {
	for _, e := range xs {
		if econtent(e.pre) != econtent(xs[0].pre) {
			return false
		}
	}
	return true
}

// ---- helpers over keys ---------------------------------------------------------------------------------

// boardOf returns board path p of g (nil when it does not exist).
func boardOf(g *d2graph.Graph, p []string) *d2graph.Graph {
	k := strings.Join(p, "\x00")
	for _, b := range Boards(g) {
		if b.Key() == k {
			return b.G
		}
	}
	return nil
}

// resolveObj finds the object a key names (through d2graph's own lookup) and returns its AbsID.
func resolveObj(g *d2graph.Graph, key string) (string, bool) {
	mk, err := d2parser.ParseMapKey(key)
	if err != nil || mk.Key == nil || len(mk.Edges) > 0 {
		return "", false
	}
	for _, seg := range d2graph.Key(mk.Key) {
		if seg == "_" {
			return "", false
		}
	}
	o, ok := g.Root.HasChild(d2graph.Key(mk.Key))
	if !ok || o == g.Root {
		return "", false
	}
	return o.AbsID(), true
}

// resolveEdge finds the connection an indexed edge key names.
func resolveEdge(g *d2graph.Graph, key string) (string, bool) {
	for _, e := range g.Edges {
		if e.AbsID() == key {
			return key, true
		}
	}
	mk, err := d2parser.ParseMapKey(key)
	if err != nil || len(mk.Edges) != 1 || mk.EdgeIndex == nil || mk.EdgeIndex.Int == nil || mk.EdgeKey != nil {
		return "", false
	}
	// compare formatted forms: the key may spell the common prefix differently
	want := normEdgeKey(key)
	for _, e := range g.Edges {
		if normEdgeKey(e.AbsID()) == want {
			return e.AbsID(), true
		}
	}
	return "", false
}

// normEdgeKey writes an edge key with absolute endpoints: "(a.b -> a.c)[0]".
func normEdgeKey(k string) string {
	pre, body, idx, ok := splitEdgeID(k)
	if !ok {
		return k
	}
	for _, a := range []string{" <-> ", " <- ", " -> ", " -- "} {
		if i := strings.Index(body, a); i >= 0 {
			return strings.ToLower("(" + pre + body[:i] + a + pre + body[i+len(a):] + ")" + idx)
		}
	}
	return k
}

// splitAttrKey splits "elem.attr.path" into the element key and the reserved suffix for the attribute
// paths this group's menu uses.
func splitAttrKey(key string) (elem, attr string) {
	for _, a := range []string{".style.fill", ".style.opacity", ".style.stroke", ".target-arrowhead.label", ".shape", ".near", ".label", ".class"} {
		if strings.HasSuffix(key, a) {
			return key[:len(key)-len(a)], a[1:]
		}
	}
	return key, ""
}

func parentOfKey(abs string) string {
	// AbsIDs of this group's diagrams never contain quoted dots except the rename target "q.r"
	depth := 0
	inq := false
	last := -1
	for i, r := range abs {
		switch {
		case r == '"':
			inq = !inq
		case r == '(' && !inq:
			depth++
		case r == ')' && !inq:
			depth--
		case r == '.' && !inq && depth == 0:
			last = i
		}
	}
	if last < 0 {
		return ""
	}
	return abs[:last]
}
