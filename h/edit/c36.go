package edit

import (
	"fmt"
	"strings"
	"time"

	"oss.terrastruct.com/d2/d2format"
	"oss.terrastruct.com/d2/d2graph"
	"oss.terrastruct.com/d2/d2parser"
	"verif/h/eng"
	"verif/h/u"
)

func canonAll(g *d2graph.Graph) string { return u.CanonWith(g, nil, u.CanonOpts{}) }

func compileErrClass(err error) string {
	s := err.Error()
	// "index.d2:3:1: message" (possibly several lines) -> first message without position and names
	if i := strings.Index(s, "\n"); i >= 0 {
		s = s[:i]
	}
	if k := strings.Index(s, ": "); k >= 0 && strings.Contains(s[:k], ":") {
		s = s[k+2:]
	}
	return clipq(s)
}

func refusedOutcome(r *Rec) string {
	if r.Panic != "" {
		return "panic:" + r.Op.K
	}
	return "refused:" + r.Op.K + ":" + errClass(r.Err)
}

// c36: every successful edit yields text that compiles to the returned diagram and is a formatter fixpoint.
func c36(r *Rec) eng.Res {
	if !r.OK() {
		return eng.OK(refusedOutcome(r), false)
	}
	t := r.Post
	g2, err := compileFS(t, r.Files)
	if err != nil {
		return eng.Bad("result-text-does-not-compile:"+r.Op.K+":"+compileErrClass(err),
			fmt.Sprintf("%s on\n%s\nsucceeded and returned a graph whose AST formats to\n%s\nwhich does not compile: %v", r.Op, indent(r.Pre), indent(t), err))
	}
	ca, cb := canonAll(r.G1), canonAll(g2)
	if ca != cb {
		paths := u.JSONDiffPaths(ca, cb)
		first := "?"
		if len(paths) > 0 {
			first = paths[0]
		}
		return eng.Bad("result-text-compiles-to-different-diagram:"+r.Op.K+":"+first,
			fmt.Sprintf("%s on\n%s\nreturned a graph that differs from what its own text\n%s\ncompiles to, at %v\n%s", r.Op, indent(r.Pre), indent(t), paths, u.FirstDiff(ca, cb)))
	}
	m, perr := d2parser.Parse("index.d2", strings.NewReader(t), nil)
	if perr != nil {
		return eng.Bad("result-text-does-not-parse:"+r.Op.K, perr.Error())
	}
	if t2 := d2format.Format(m); t2 != t {
		return eng.Bad("result-text-not-formatter-fixpoint:"+r.Op.K,
			fmt.Sprintf("%s on\n%s\nreturned text\n%s\nwhich the formatter rewrites to\n%s", r.Op, indent(r.Pre), indent(t), indent(t2)))
	}
	changed := "same-text"
	if r.Post != r.Pre {
		changed = fmt.Sprintf("objs%+d,edges%+d", len(r.G1.Objects)-len(r.G0.Objects), len(r.G1.Edges)-len(r.G0.Edges))
	}
	return eng.OK("ok:"+r.Op.K+":"+fmt.Sprint(len(r.Op.B))+":"+changed, r.Post != r.Pre)
}

func init() {
	register(&checkDef{
		ID: "C36", Oracle: c36,
		Rule: "breadth-first search over edit histories: a state is a source text (Format of the returned AST); from each of the seed diagrams (unique label on every element; containers, parallel connections, chains, styles, classes, globs, imports, layers, scenarios, steps) every edit of the state's menu — Create / Set / Delete / Rename / Move / ReconnectEdge instantiated from the state's own boards, objects, connections and set attributes — is executed by the real d2oracle on a fresh graph compiled from the text; successor texts are deduplicated; every transition is a distinct (state, edit) pair; non-trivial = the edit succeeded and changed the text. A second phase enumerates UpdateImport over import spellings x old/new paths. A third phase enumerates every history of length ≤3 (thorough 4) over a fixed 17-edit menu from two seed diagrams in which each edit is applied to the GRAPH RETURNED by the previous edit, all in one process (including histories that return to an earlier text), and checks the property after every step.",
		Assume: []string{
			"the graph comparison uses the position-free canonical projection of all boards (u.Canon without config: d2oracle's recompile does not return the config)",
			"panics and refusals of an edit are counted (panics_observed, edits_refused) but are not violations: the statement speaks of successful edits only",
			"import update: the old path is always given in the spelling used by the text, the renamed file set contains the file under its new name only; removal (nil) is checked against the unchanged file set",
		},
		Extra: func(p *eng.Solo, cov map[string]any, deadline time.Time) bool {
			a := c36ImportPhase(p, cov, deadline)
			b := c36ChainPhase(p, cov, deadline)
			return a && b
		}, ExtraOracles: map[string]eng.Oracle{"import": importOracle, "chain": chainOracle},
	})
}
