package edit

import (
	"encoding/json"
	"fmt"
	"regexp"
	"strings"

	"oss.terrastruct.com/d2/d2graph"
	"verif/h/eng"
)

// hoistChildren re-parents the children of X to X's parent. A child's name stays pinned unless the
// name is already taken there by another surviving object (X's own name is free after the delete).
func hoistChildren(x *expectation, X *xObj) {
	former := X.par
	var ch []*xObj
	for _, o := range x.objs {
		if o.par == X {
			ch = append(ch, o)
		}
	}
	for _, c := range ch {
		c.par = former
	}
	for _, c := range ch {
		// a child named like X itself (in any letter case) keeps its name: X is gone, so the name is not taken
		for _, o := range x.objs {
			if o != c && o != X && o.par == former && strings.EqualFold(o.pre.ID, c.pre.ID) {
				c.free = true
				// the statement does not say which of two equally named objects keeps the name
				o.free = o.free || isIn(ch, o)
			}
		}
	}
}

// seedFeature qualifies failure classes with the (seed-constant) language feature of the diagram.
func seedFeature(r *Rec) string {
	switch {
	case r.Files != nil:
		return ":diagram-has-import"
	case strings.Contains(r.Pre, "*"):
		return ":diagram-has-glob"
	case strings.Contains(r.Pre, "_."):
		return ":diagram-has-underscore-reference"
	}
	return ""
}

// a chain of connections whose key carries a map block: the block is shared by every connection of the chain
var chainWithMapRe = regexp.MustCompile(`(<-|->|--|<->)[^\n]*(<-|->|--|<->)[^\n]*\{`)

func isIn(xs []*xObj, o *xObj) bool {
	for _, x := range xs {
		if x == o {
			return true
		}
	}
	return false
}

// c38AddedQual says what kind of object was deleted when something new appears afterwards: the recorded mechanism
// (a table with a connection from its own column to itself) must not hide other ways of leaving strays behind.
func c38AddedQual(g *d2graph.Graph, key string) string {
	if g == nil || isEdgeKey(key) {
		return ""
	}
	var target *d2graph.Object
	for _, o := range g.Objects {
		if strings.EqualFold(o.AbsID(), key) {
			target = o
		}
	}
	if target == nil {
		return ""
	}
	sh := strings.ToLower(target.Shape.Value)
	if sh != "sql_table" && sh != "class" {
		return ""
	}
	for _, e := range g.Edges {
		if e.Src != nil && e.Dst != nil && (e.Src == target || e.Src.Parent == target) && (e.Dst == target || e.Dst.Parent == target) {
			return ":deleted-" + sh + "-has-a-connection-to-itself"
		}
	}
	return ":deleted-" + sh + "-has-a-connection-through-a-member"
}

// expectDelete builds the expectation of Delete for object / connection keys ("" kind = not applicable).
func expectDelete(r *Rec, g0 *d2graph.Graph, pre *PBoard) (x *expectation, kind string) {
	key := r.Op.Key
	if _, attr := splitAttrKey(key); attr != "" {
		return nil, ""
	}
	if isEdgeKey(key) {
		abs, ok := resolveEdge(g0, key)
		if !ok {
			return nil, ""
		}
		x = newExpectation(r, pre)
		x.ordered = true
		x.removeEdgesWhere(func(e *PEdge) bool { return e.Abs == abs })
		return x, "connection"
	}
	abs, ok := resolveObj(g0, key)
	if !ok {
		return nil, ""
	}
	x = newExpectation(r, pre)
	X := x.by[abs]
	if X == nil {
		return nil, ""
	}
	hoistChildren(x, X)
	x.removeObj(abs)
	x.removeEdgesWhere(func(e *PEdge) bool { return e.Src == abs || e.Dst == abs })
	return x, "object"
}

func jsonWithout(js string, path ...string) string {
	var m map[string]any
	if json.Unmarshal([]byte(js), &m) != nil {
		return js
	}
	cur := m
	for i, p := range path {
		if i == len(path)-1 {
			delete(cur, p)
			break
		}
		nx, ok := cur[p].(map[string]any)
		if !ok {
			break
		}
		cur = nx
	}
	b, _ := json.Marshal(m)
	return string(b)
}

func jsonHas(js string, path ...string) bool {
	var m map[string]any
	if json.Unmarshal([]byte(js), &m) != nil {
		return false
	}
	var cur any = m
	for _, p := range path {
		mm, ok := cur.(map[string]any)
		if !ok {
			return false
		}
		cur, ok = mm[p]
		if !ok {
			return false
		}
	}
	return cur != nil
}

func c38(r *Rec) eng.Res {
	if r.Op.K != "delete" {
		return eng.OK("n/a:"+r.Op.K, false)
	}
	if !r.OK() {
		return eng.OK(refusedOutcome(r), false)
	}
	g0, g1 := boardOf(r.G0, r.Op.B), boardOf(r.G1, r.Op.B)
	if g0 == nil || g0.IsFolderOnly {
		return eng.OK("n/a:board-missing-or-folder-only", false)
	}
	bad := func(class, detail string) eng.Res {
		return eng.Bad(class, fmt.Sprintf("%s on\n%s\n%s\nreturned text:\n%s", r.Op, indent(r.Pre), detail, indent(r.Post)))
	}
	if g1 == nil {
		return bad("delete:addressed-board-missing-afterwards", "")
	}
	if g1.IsFolderOnly {
		return eng.OK("n/a:board-became-folder-only", false) // nothing of its own left: it shows nothing
	}
	pre, post := Project(g0), Project(g1)
	origin := seedFeature(r)
	if len(r.Op.B) > 0 {
		origin += ":" + targetOrigin(r)
	}
	if elem, attr := splitAttrKey(r.Op.Key); attr != "" {
		return c38Attr(r, pre, post, elem, attr, origin, bad)
	}
	x, kind := expectDelete(r, g0, pre)
	if x == nil {
		return eng.OK("n/a:key-names-nothing", false)
	}
	if m := x.match(post); m != nil {
		what := m.what
		if what == "object-added" {
			what += c38AddedQual(g0, r.Op.Key)
		}
		return bad("delete-"+kind+origin+":"+what, m.detail)
	}
	if _, m := x.matchEdges(post); m != nil {
		return bad("delete-"+kind+origin+":"+m.what, m.detail)
	}
	return eng.OK(fmt.Sprintf("ok:delete-%s%s:objs%+d:edges%+d", kind, origin, len(post.Objs)-len(pre.Objs), len(post.Edges)-len(pre.Edges)), true)
}

func c38Attr(r *Rec, pre, post *PBoard, elem, attr, origin string, bad func(string, string) eng.Res) eng.Res {
	if attr == "class" {
		return eng.OK("n/a:delete-class", false) // removing a class changes every attribute the class gave
	}
	g0 := boardOf(r.G0, r.Op.B)
	// may the attribute legitimately survive because something else supplies it?
	strict := len(r.Op.B) == 0 && r.Files == nil && !strings.Contains(r.Pre, "*")
	cls := "delete-attribute:" + attr + origin
	path := strings.Split(attr, ".")
	if isEdgeKey(elem) {
		abs, ok := resolveEdge(g0, elem)
		if !ok {
			return eng.OK("n/a:key-names-nothing", false)
		}
		if attr != "label" && chainWithMapRe.MatchString(r.Pre) {
			cls += ":diagram-has-chain-with-map"
		}
		if what, det := diffExisting(pre, post, "", abs); what != "" {
			return bad(cls+":other-"+what, det)
		}
		if len(post.Objs) != len(pre.Objs) || len(post.Edges) != len(pre.Edges) {
			return bad(cls+":element-count-changed", fmt.Sprintf("%d objects / %d connections before, %d / %d afterwards", len(pre.Objs), len(pre.Edges), len(post.Objs), len(post.Edges)))
		}
		a, b := pre.EBy[abs], post.EBy[abs]
		if b == nil {
			return bad(cls+":target-removed", "connection "+abs+" is gone")
		}
		aj, bj := a.AJSON, b.AJSON
		al, bl, adl, bdl := a.Label, b.Label, a.DHL, b.DHL
		reset := true
		switch attr {
		case "label":
			al, bl = "", ""
			reset = b.Label == ""
		case "target-arrowhead.label":
			adl, bdl = "", ""
			reset = b.DHL == ""
		default:
			aj, bj = jsonWithout(aj, path...), jsonWithout(bj, path...)
			reset = !jsonHas(b.AJSON, path...)
		}
		if aj != bj || al != bl || adl != bdl || a.SH != b.SH || a.DH != b.DH || a.SHL != b.SHL {
			return bad(cls+":other-field-of-target-changed", fmt.Sprintf("connection %s: %s\n ->\n %s", abs, a.Attrs+" label "+a.Label, b.Attrs+" label "+b.Label))
		}
		if strict && jsonHas(a.AJSON, "classes") {
			strict = false
		}
		if strict && !reset {
			return bad(cls+":attribute-not-reset", fmt.Sprintf("connection %s still has %s afterwards: %s label %q", abs, attr, b.Attrs, b.Label))
		}
		return eng.OK(fmt.Sprintf("ok:delete-attribute:connection:%s:reset=%v", attr, reset), true)
	}
	abs, ok := resolveObj(g0, elem)
	if !ok {
		return eng.OK("n/a:key-names-nothing", false)
	}
	if what, det := diffExisting(pre, post, abs, ""); what != "" {
		return bad(cls+":other-"+what, det)
	}
	if len(post.Objs) != len(pre.Objs) || len(post.Edges) != len(pre.Edges) {
		return bad(cls+":element-count-changed", fmt.Sprintf("%d objects / %d connections before, %d / %d afterwards", len(pre.Objs), len(pre.Edges), len(post.Objs), len(post.Edges)))
	}
	a, b := pre.By[abs], post.By[abs]
	if b == nil {
		return bad(cls+":target-removed", "object "+abs+" is gone")
	}
	aj, bj := a.AJSON, b.AJSON
	al, bl := fmt.Sprint(a.Label, a.Implicit), fmt.Sprint(b.Label, b.Implicit)
	an, bn := a.Near, b.Near
	reset := true
	switch attr {
	case "label":
		al, bl = "", ""
		reset = b.Implicit
	case "near":
		an, bn = "", ""
		reset = b.Near == "" && !jsonHas(b.AJSON, "near_key")
	case "shape":
		aj, bj = jsonWithout(aj, "shape"), jsonWithout(bj, "shape")
		reset = strings.Contains(b.AJSON, `"shape":{"value":"rectangle"}`)
	default:
		aj, bj = jsonWithout(aj, path...), jsonWithout(bj, path...)
		reset = !jsonHas(b.AJSON, path...)
	}
	if aj != bj || al != bl || an != bn || a.Parent != b.Parent {
		return bad(cls+":other-field-of-target-changed", fmt.Sprintf("object %s: label %q near %q %s\n ->\n label %q near %q %s", abs, a.Label, a.Near, a.Attrs, b.Label, b.Near, b.Attrs))
	}
	if strict && jsonHas(a.AJSON, "classes") {
		strict = false
	}
	if strict && !reset {
		return bad(cls+":attribute-not-reset", fmt.Sprintf("object %s still has %s afterwards: label %q near %q %s", abs, attr, b.Label, b.Near, b.Attrs))
	}
	return eng.OK(fmt.Sprintf("ok:delete-attribute:object:%s:reset=%v", attr, reset), true)
}

func init() {
	register(&checkDef{
		ID: "C38", Oracle: c38,
		Rule: "breadth-first search over edit histories (same seeds, menu and state de-duplication as C36); the oracle is evaluated on every Delete of an object, a connection or a set attribute (label, shape, near, style.fill/opacity/stroke, target-arrowhead.label) against a reference model of the addressed board: object delete => the object and exactly the connections attached to it are gone, its children are found under its former parent with their names (a different name only where the name is taken there), deeper descendants follow, every surviving object keeps label, attributes and near target, every surviving connection keeps end points, label, attributes (compared per group of parallel connections, indices consecutive); connection delete => objects unchanged, the group of parallel connections is the old one without that member, in order; attribute delete => every other element and every other field of the target unchanged and, where nothing else can supply it (root board, no class, glob or import), the attribute is back at its default; non-trivial = successful delete of an existing target",
		Assume: []string{
			"only the addressed board is compared (C41 covers the others); edits addressed to folder-only boards are trivial",
			"objects are matched through the reference model's predicted location; where the statement allows a rename (name taken) the object is matched by its unique label, then by identical content, then by elimination",
			"a child whose name equals the deleted container's name may keep or change its name",
			"Delete of `class` and Delete of keys that name nothing are executed as transitions but are outside the statement",
			"attribute reset is only demanded on the root board of single-file diagrams without globs for elements without a class; elsewhere the attribute may legitimately keep an inherited value",
		},
	})
}
