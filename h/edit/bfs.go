package edit

import (
	"bufio"
	"encoding/json"
	"fmt"
	"hash/fnv"
	"io"
	"os"
	"os/exec"
	"runtime"
	"sort"
	"strconv"
	"strings"
	"sync"
	"sync/atomic"
	"time"

	"verif/h/eng"
)

// ---- check definitions --------------------------------------------------------------------------------

type transOracle func(r *Rec) eng.Res

type checkDef struct {
	ID           string
	Oracle       transOracle
	Deltas       bool // run the *IDDeltas predictor on every transition
	BoardsOnly   bool // restrict seeds to those with nested boards (C41)
	Rule         string
	Assume       []string
	ExtraOracles map[string]eng.Oracle
	Extra        func(p *eng.Solo, cov map[string]any, deadline time.Time) bool // additional (non-BFS) phase; returns complete
}

var defs = map[string]*checkDef{}
var oracles = map[string]transOracle{}

// plan = menu level per depth and which seeds take part, per tier.
type level struct {
	menu     menuLevel
	miniOnly bool // expand only states whose whole history consists of mini-menu edits
	mixed    bool // full menu from states reached by mini-menu edits, mini menu from all other states
	maxSeedB int  // only states descending from seeds of at most this many bytes (0 = all)
}

func plan(thorough bool) []level {
	if thorough {
		return []level{{menu: menuFull}, {menu: menuFull, mixed: true}, {menu: menuMini, miniOnly: true, maxSeedB: 110}, {menu: menuMini, miniOnly: true, maxSeedB: 30}}
	}
	return []level{{menu: menuFull}, {menu: menuMini, miniOnly: true}}
}

const hangBound = 30 * time.Second

// ---- worker (child process) ---------------------------------------------------------------------------

type wReq struct {
	I     int               `json:"i"`
	Text  string            `json:"text"`
	Files map[string]string `json:"files,omitempty"`
	Menu  int               `json:"menu"`
	Start int               `json:"start"` // first op index to execute (after a worker death)
}

type wRes struct {
	I      int    `json:"i"`
	N      int    `json:"n,omitempty"`    // header: menu size
	Hdr    bool   `json:"hdr,omitempty"`  // header line
	Done   bool   `json:"done,omitempty"` // trailer line
	J      int    `json:"j"`
	Op     *Op    `json:"op,omitempty"`
	Mini   bool   `json:"mini,omitempty"`
	Ok     bool   `json:"ok,omitempty"`   // edit succeeded
	Post   string `json:"post,omitempty"` // successor text (only when it compiles and differs from the state)
	Noop   bool   `json:"noop,omitempty"`
	Out    string `json:"out,omitempty"`
	NT     bool   `json:"nt,omitempty"`
	Class  string `json:"class,omitempty"`
	Detail string `json:"detail,omitempty"`
	Pan    string `json:"pan,omitempty"`
	DPan   string `json:"dpan,omitempty"`
	Ref    string `json:"ref,omitempty"` // refusal class
	Err    string `json:"err,omitempty"` // harness problem
}

func init() {
	eng.Internal["edit-worker"] = func(args []string) {
		def := defs[args[0]]
		if def == nil {
			fmt.Fprintln(os.Stderr, "edit-worker: unknown check", args[0])
			os.Exit(2)
		}
		var cur atomic.Int64
		var curDesc atomic.Value
		go func() {
			for {
				time.Sleep(time.Second)
				if st := cur.Load(); st != 0 && time.Since(time.Unix(0, st)) > hangBound {
					fmt.Fprintf(os.Stderr, "HANG %v\n", curDesc.Load())
					os.Exit(7)
				}
			}
		}()
		in := bufio.NewReaderSize(os.Stdin, 1<<20)
		out := bufio.NewWriterSize(os.Stdout, 1<<16)
		enc := json.NewEncoder(out)
		for {
			line, err := in.ReadBytes('\n')
			if len(line) == 0 && err != nil {
				return
			}
			var rq wReq
			if jerr := json.Unmarshal(line, &rq); jerr != nil {
				fmt.Fprintln(os.Stderr, "edit-worker: bad request:", jerr)
				os.Exit(2)
			}
			g, cerr := compileFS(rq.Text, rq.Files)
			if cerr != nil {
				enc.Encode(wRes{I: rq.I, Hdr: true, Err: "state does not compile: " + cerr.Error()})
				enc.Encode(wRes{I: rq.I, Done: true})
				out.Flush()
				continue
			}
			ops := Menu(g, menuLevel(rq.Menu))
			enc.Encode(wRes{I: rq.I, Hdr: true, N: len(ops)})
			out.Flush()
			for j := rq.Start; j < len(ops); j++ {
				op := ops[j].Op
				curDesc.Store(op.String())
				cur.Store(time.Now().UnixNano())
				t0 := time.Now()
				res := evalTransition(def, rq.Text, rq.Files, op)
				cur.Store(0)
				if os.Getenv("VERIF_EDIT_TIMING") != "" {
					fmt.Fprintf(os.Stderr, "%8d us %s\n", time.Since(t0).Microseconds(), op)
				}
				res.I, res.J, res.Op, res.Mini = rq.I, j, &ops[j].Op, ops[j].Mini
				enc.Encode(res)
				out.Flush()
			}
			enc.Encode(wRes{I: rq.I, Done: true})
			out.Flush()
		}
	}
}

func evalTransition(def *checkDef, text string, files map[string]string, op Op) wRes {
	var res wRes
	r, err := Step(text, files, op, def.Deltas)
	if err != nil {
		res.Err = err.Error()
		return res
	}
	res.Pan, res.DPan = r.Panic, r.DeltasPanic
	if r.Panic == "" && r.Err != nil {
		res.Ref = errClass(r.Err)
	}
	if r.OK() {
		res.Ok = true
		if r.Post == r.Pre {
			res.Noop = true
		} else if r.PostOK {
			res.Post = r.Post
		}
	}
	var or eng.Res
	pan := catch(func() { or = def.Oracle(r) })
	if pan != "" {
		res.Err = "oracle panicked: " + pan
		return res
	}
	res.Out, res.NT = or.Outcome, or.Nontrivial
	if or.Fail != nil {
		res.Class, res.Detail = or.Fail.Class, or.Fail.Detail
	}
	return res
}

// replayOracle re-executes a Case without the explorer (the "edit" oracle of every check of this group).
func replayOracle(def *checkDef) eng.Oracle {
	return func(in string) eng.Res {
		var c Case
		if err := json.Unmarshal([]byte(in), &c); err != nil {
			return eng.Bad("harness:bad-witness", err.Error())
		}
		text := c.Text
		last := eng.OK("no-ops", false)
		for i, op := range c.Ops {
			r, err := Step(text, c.Files, op, def.Deltas)
			if err != nil {
				return eng.OK(fmt.Sprintf("op %d: %v", i, err), false)
			}
			last = def.Oracle(r)
			if last.Fail != nil {
				return last
			}
			if !r.PostOK {
				break
			}
			text = r.Post
		}
		return last
	}
}

// ---- parent: breadth-first search ---------------------------------------------------------------------

type state struct {
	text   string
	files  map[string]string
	seed   int
	parent int // index into all states, -1 for seeds
	via    Op
	depth  int
	mini   bool // reached by mini-menu edits only
}

type proc struct {
	cmd *exec.Cmd
	in  io.WriteCloser
	out *bufio.Reader
	err *strings.Builder
}

func startProc(id string) (*proc, error) {
	self, _ := os.Executable()
	cmd := exec.Command(self, "edit-worker", id)
	// the worker is sequential; many runtime threads per process only cost futex traffic on a busy machine
	cmd.Env = append(os.Environ(), "GOMAXPROCS=2", "GOGC=200")
	in, _ := cmd.StdinPipe()
	outp, _ := cmd.StdoutPipe()
	var sb strings.Builder
	cmd.Stderr = &sb
	if err := cmd.Start(); err != nil {
		return nil, err
	}
	return &proc{cmd: cmd, in: in, out: bufio.NewReaderSize(outp, 1<<20), err: &sb}, nil
}

type stateOut struct {
	res    []wRes
	deaths []string // "op / stderr tail" for every worker death while expanding this state
	herr   string
}

func nworkers() int {
	n := runtime.NumCPU()
	if v := os.Getenv("VERIF_WORKERS"); v != "" {
		if k, err := strconv.Atoi(v); err == nil && k > 0 {
			n = k
		}
	}
	return n
}

// expandAll runs the menu of every state of the frontier on worker processes; results come back indexed
// by frontier position, so that merging is independent of scheduling.
func expandAll(p *eng.Solo, def *checkDef, frontier []*state, menuOf func(*state) menuLevel) ([]*stateOut, bool) {
	outs := make([]*stateOut, len(frontier))
	var next atomic.Int64
	var wg sync.WaitGroup
	complete := atomic.Bool{}
	complete.Store(true)
	for w := 0; w < nworkers(); w++ {
		wg.Add(1)
		go func() {
			defer wg.Done()
			var pr *proc
			defer func() {
				if pr != nil {
					pr.in.Close()
					pr.cmd.Wait()
				}
			}()
			for {
				i := int(next.Add(1) - 1)
				if i >= len(frontier) {
					return
				}
				if p.Expired() {
					complete.Store(false)
					return
				}
				st := frontier[i]
				so := &stateOut{}
				outs[i] = so
				start := 0
				for attempt := 0; attempt < 50; attempt++ {
					if pr == nil {
						var err error
						if pr, err = startProc(def.ID); err != nil {
							so.herr = err.Error()
							return
						}
					}
					b, _ := json.Marshal(wReq{I: i, Text: st.text, Files: st.files, Menu: int(menuOf(st)), Start: start})
					pr.in.Write(append(b, '\n'))
					n, lastJ, done := -1, start-1, false
					var lastOp string
					for {
						line, err := pr.out.ReadBytes('\n')
						if err != nil {
							break
						}
						var r wRes
						if json.Unmarshal(line, &r) != nil {
							so.herr = "bad worker line: " + string(line)
							break
						}
						if r.Hdr {
							n = r.N
							if r.Err != "" {
								so.herr = r.Err
							}
							continue
						}
						if r.Done {
							done = true
							break
						}
						lastJ = r.J
						lastOp = r.Op.String()
						if r.Err != "" && so.herr == "" {
							so.herr = r.Err + " at " + lastOp
						}
						so.res = append(so.res, r)
					}
					if done {
						break
					}
					// the worker died while executing op lastJ+1
					pr.in.Close()
					pr.cmd.Wait()
					tail := pr.err.String()
					if len(tail) > 1500 {
						tail = tail[:700] + "\n…\n" + tail[len(tail)-700:]
					}
					pr = nil
					so.deaths = append(so.deaths, fmt.Sprintf("state %q op #%d (after %s): %s", st.text, lastJ+1, lastOp, tail))
					start = lastJ + 2
					if n >= 0 && start >= n {
						break
					}
				}
			}
		}()
	}
	wg.Wait()
	return outs, complete.Load()
}

func history(all []*state, i int) []Op {
	var ops []Op
	for i >= 0 && all[i].parent >= 0 {
		ops = append([]Op{all[i].via}, ops...)
		i = all[i].parent
	}
	return ops
}

func runBFS(p *eng.Solo, def *checkDef) {
	thorough := p.Thorough()
	lv := plan(thorough)
	var all []*state
	seen := map[string]int{}
	key := func(seed int, text string) string {
		if Seeds[seed].Files != nil {
			return fmt.Sprintf("F%d\x00%s", seed, text)
		}
		return text
	}
	var frontier []*state
	var frontierIdx []int
	var seedNames []string
	for si, s := range Seeds {
		if s.Tier >= 1 && !thorough {
			continue
		}
		if s.Tier == 2 && !def.BoardsOnly {
			continue
		}
		if def.BoardsOnly && !strings.Contains(s.Text, "layers:") && !strings.Contains(s.Text, "scenarios:") {
			continue
		}
		if _, err := compileFS(s.Text, s.Files); err != nil {
			p.HarnessErr = fmt.Sprintf("seed %s does not compile: %v", s.Name, err)
			return
		}
		st := &state{text: s.Text, files: s.Files, seed: si, parent: -1, mini: true}
		seen[key(si, s.Text)] = len(all)
		all = append(all, st)
		frontier = append(frontier, st)
		frontierIdx = append(frontierIdx, len(all)-1)
		seedNames = append(seedNames, s.Name)
	}

	cnt := map[string]int64{}
	outcomes := map[uint64]struct{}{}
	var transitions, evals, nontrivial, expanded, deaths int64
	var phases []map[string]any
	var samples []any
	exhaustive := true
	panicSites := map[string]int64{}
	refusals := map[string]int64{}

	for d := 1; d <= len(lv); d++ {
		L := lv[d-1]
		if L.maxSeedB > 0 || L.miniOnly || d >= 2 {
			var f2 []*state
			var i2 []int
			for k, st := range frontier {
				if Seeds[st.seed].Tier == 2 {
					// generated board-tree seeds: full menu at depth 1; trees of two boards also mini menu from mini-reached states at depth 2
					if d == 2 && st.mini && Seeds[st.seed].Deep {
						f2 = append(f2, st)
						i2 = append(i2, frontierIdx[k])
					}
					continue
				}
				if (L.maxSeedB == 0 || (len(Seeds[st.seed].Text) <= L.maxSeedB && Seeds[st.seed].Files == nil)) && (!L.miniOnly || st.mini) {
					f2 = append(f2, st)
					i2 = append(i2, frontierIdx[k])
				}
			}
			frontier, frontierIdx = f2, i2
		}
		mname := map[menuLevel]string{menuMini: "mini", menuFull: "full"}[L.menu]
		if L.mixed {
			mname = "full-after-mini-edits/mini-otherwise"
		}
		name := fmt.Sprintf("depth<=%d(menu=%s,states=%d)", d, mname, len(frontier))
		if p.Expired() {
			phases = append(phases, map[string]any{"phase": name, "complete": false, "evaluations": 0})
			exhaustive = false
			break
		}
		if len(frontier) == 0 {
			break
		}
		outs, complete := expandAll(p, def, frontier, func(st *state) menuLevel {
			if Seeds[st.seed].Tier == 2 && d >= 2 {
				return menuMini
			}
			if L.mixed && !st.mini {
				return menuMini
			}
			return L.menu
		})
		var nextF []*state
		var nextI []int
		var levelEvals int64
		for k, so := range outs {
			if so == nil {
				continue
			}
			if so.herr != "" {
				p.HarnessErr = so.herr
				return
			}
			st := frontier[k]
			expanded++
			for _, dm := range so.deaths {
				deaths++
				fmt.Fprintf(os.Stderr, "note: worker died (not a violation of %s by itself): %s\n", def.ID, dm)
			}
			for _, r := range so.res {
				transitions++
				cnt["op:"+r.Op.K]++
				if len(r.Op.B) > 0 {
					cnt["board_scoped_transitions"]++
				}
				switch {
				case r.Pan != "":
					cnt["panics_observed"]++
					site := r.Pan[strings.LastIndex(r.Pan, "@ ")+2:]
					panicSites[r.Op.K+" @ "+site]++
				case r.Ok:
					cnt["edits_succeeded"]++
					if r.Noop {
						cnt["edits_succeeded_without_text_change"]++
					}
				default:
					cnt["edits_refused"]++
					refusals[r.Op.K+": "+r.Ref]++
				}
				if r.DPan != "" {
					cnt["delta_predictor_panics_observed"]++
					site := r.DPan[strings.LastIndex(r.DPan, "@ ")+2:]
					panicSites["deltas:"+r.Op.K+" @ "+site]++
				}
				evals++
				levelEvals++
				if r.NT {
					nontrivial++
				}
				if r.Out != "" {
					h := fnv.New64a()
					h.Write([]byte(r.Out))
					outcomes[h.Sum64()] = struct{}{}
				}
				if r.Class != "" {
					hist := history(all, frontierIdx[k])
					hb, _ := json.Marshal(hist)
					p.Fail(eng.Fail{Oracle: "edit", Class: r.Class,
						Witness: Case{Text: st.text, Files: st.files, Ops: []Op{*r.Op}}.JSON(),
						Detail:  r.Detail + fmt.Sprintf("\nstate reached from seed %q by %s", Seeds[st.seed].Name, hb)})
				}
				if r.Post != "" {
					kk := key(st.seed, r.Post)
					if j, dup := seen[kk]; dup {
						cnt["successors_already_seen"]++
						if all[j].depth == d && st.mini && r.Mini {
							all[j].mini = true // also reachable at this depth by mini-menu edits only
						}
					} else {
						ns := &state{text: r.Post, files: st.files, seed: st.seed, parent: frontierIdx[k], via: *r.Op, depth: d, mini: st.mini && r.Mini}
						seen[kk] = len(all)
						all = append(all, ns)
						nextF = append(nextF, ns)
						nextI = append(nextI, len(all)-1)
					}
				}
				if t := nontrivial; r.NT && (t&(t-1)) == 0 && len(samples) < 16 {
					samples = append(samples, map[string]any{"seed": Seeds[st.seed].Name, "history": append(history(all, frontierIdx[k]), *r.Op), "succeeded": r.Ok, "outcome": r.Out})
				}
			}
		}
		phases = append(phases, map[string]any{"phase": name, "complete": complete, "evaluations": levelEvals})
		if !complete {
			exhaustive = false
			break
		}
		frontier, frontierIdx = nextF, nextI
	}

	cov := p.Coverage
	cov["evaluations"] = evals
	cov["distinct_nontrivial"] = nontrivial
	cov["states"] = expanded
	cov["states_discovered"] = len(all)
	cov["transitions"] = transitions
	cov["traces_validated_against_impl"] = transitions
	cov["outcome_classes"] = len(outcomes)
	cov["phases"] = phases
	cov["seeds"] = seedNames
	cov["workers"] = nworkers()
	cov["worker_deaths"] = deaths
	for k, v := range cnt {
		cov[k] = v
	}
	if _, ok := cov["panics_observed"]; !ok {
		cov["panics_observed"] = 0
	}
	cov["panic_sites"] = topN(panicSites, 40)
	cov["refusal_classes"] = topN(refusals, 40)
	if def.Extra != nil && exhaustive {
		if !def.Extra(p, cov, p.Deadline) {
			exhaustive = false
		}
	}
	cov["exhaustive"] = exhaustive
	if len(samples) == 0 {
		samples = append(samples, "(none)")
	}
	cov["samples"] = samples
	for _, ph := range phases {
		fmt.Printf("  phase %-44v complete=%v evals=%v\n", ph["phase"], ph["complete"], ph["evaluations"])
	}
	fmt.Printf("  succeeded=%d refused=%d panics=%d outcome_classes=%d nontrivial=%d worker_deaths=%d\n", cnt["edits_succeeded"], cnt["edits_refused"], cnt["panics_observed"], len(outcomes), nontrivial, deaths)
}

func topN(m map[string]int64, n int) []string {
	ks := sortedKeys(m)
	sort.SliceStable(ks, func(i, j int) bool { return m[ks[i]] > m[ks[j]] })
	if len(ks) > n {
		ks = ks[:n]
	}
	out := make([]string, len(ks))
	for i, k := range ks {
		out[i] = fmt.Sprintf("%d× %s", m[k], k)
	}
	return out
}

func register(def *checkDef) {
	defs[def.ID] = def
	oracles[def.ID] = def.Oracle
	ors := map[string]eng.Oracle{"edit": replayOracle(def)}
	for k, v := range def.ExtraOracles {
		ors[k] = v
	}
	eng.Register(&eng.Check{
		ID: def.ID, Level: "model_checking", Rule: def.Rule, Assumptions: def.Assume,
		QuickBudget: 200 * time.Second, ThoroughBudget: 24 * time.Minute,
		Oracles: ors,
		Solo:    func(p *eng.Solo) { runBFS(p, def) },
	})
}
