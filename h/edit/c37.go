package edit

import (
	"encoding/json"
	"fmt"
	"strings"

	"oss.terrastruct.com/d2/d2graph"
	"oss.terrastruct.com/d2/d2parser"
	"verif/h/eng"
)

func isEdgeKey(k string) bool {
	mk, err := d2parser.ParseMapKey(k)
	return err == nil && len(mk.Edges) > 0
}

func mustEdge(g *d2graph.Graph, key string) string {
	abs, _ := resolveEdge(g, key)
	return abs
}

func ancestorsOf(abs string) []string {
	var out []string
	for p := parentOfKey(abs); p != ""; p = parentOfKey(p) {
		out = append(out, p)
	}
	return out
}

// keywordValued: attributes whose values are keywords (compared up to letter case).
var keywordValued = map[string]bool{"shape": true, "style.fill-pattern": true, "style.text-transform": true, "style.font": true,
	"style.bold": true, "style.italic": true, "style.underline": true, "style.animated": true, "style.shadow": true, "style.multiple": true,
	"style.3d": true, "style.double-border": true, "style.filled": true}

func styleValue(a *d2graph.Attributes, name string) (string, bool) {
	b, _ := json.Marshal(a.Style)
	var m map[string]struct {
		Value string `json:"value"`
	}
	json.Unmarshal(b, &m)
	v, ok := m[name]
	return v.Value, ok
}

func c37(r *Rec) eng.Res {
	if r.Op.K != "create" && r.Op.K != "set" {
		return eng.OK("n/a:"+r.Op.K, false)
	}
	if !r.OK() {
		return eng.OK(refusedOutcome(r), false)
	}
	g0, g1 := boardOf(r.G0, r.Op.B), boardOf(r.G1, r.Op.B)
	if g0 == nil {
		return eng.OK("board-missing-before", false)
	}
	if g0.IsFolderOnly {
		return eng.OK("n/a:addressed-board-is-folder-only", false) // it shows nothing before; afterwards it shows what it inherits
	}
	bad := func(class, detail string) eng.Res {
		return eng.Bad(class, fmt.Sprintf("%s on\n%s\n%s\nreturned text:\n%s", r.Op, indent(r.Pre), detail, indent(r.Post)))
	}
	if g1 == nil {
		return bad(r.Op.K+":addressed-board-missing-afterwards", "")
	}
	pre, post := Project(g0), Project(g1)
	if r.Op.K == "create" {
		return c37Create(r, g0, g1, pre, post, bad)
	}
	return c37Set(r, g0, g1, pre, post, bad)
}

func c37Create(r *Rec, g0, g1 *d2graph.Graph, pre, post *PBoard, bad func(string, string) eng.Res) eng.Res {
	allowed := map[string]bool{}
	kind := "object"
	if isEdgeKey(r.Op.Key) {
		kind = "connection"
		abs, ok := resolveEdge(g1, r.NewKey)
		if !ok {
			return bad("create:returned-connection-key-not-found-afterwards", fmt.Sprintf("returned key %q names no connection of the returned graph", r.NewKey))
		}
		if _, was := resolveEdge(g0, r.NewKey); was {
			return bad("create:returned-connection-key-existed-before", fmt.Sprintf("returned key %q already named a connection before", r.NewKey))
		}
		ne := post.EBy[abs]
		for _, f := range post.Edges {
			if _, ok := pre.EBy[f.Abs]; !ok && f.Abs != abs {
				return bad("create:unrelated-connection-added", fmt.Sprintf("besides %s, connection %s appeared", abs, f.Abs))
			}
		}
		for _, end := range []string{ne.Src, ne.Dst} {
			allowed[end] = true
			for _, a := range ancestorsOf(end) {
				allowed[a] = true
			}
		}
	} else {
		abs, ok := resolveObj(g1, r.NewKey)
		if !ok {
			return bad("create:returned-object-key-not-found-afterwards", fmt.Sprintf("returned key %q names no object of the returned graph", r.NewKey))
		}
		if _, was := resolveObj(g0, r.NewKey); was {
			return bad("create:returned-object-key-existed-before", fmt.Sprintf("returned key %q already named an object before", r.NewKey))
		}
		allowed[abs] = true
		for _, a := range ancestorsOf(abs) {
			allowed[a] = true
		}
		for _, f := range post.Edges {
			if _, ok := pre.EBy[f.Abs]; !ok {
				return bad("create:connection-added-by-object-create", fmt.Sprintf("connection %s appeared", f.Abs))
			}
		}
	}
	for _, q := range post.Objs {
		if _, ok := pre.By[q.Abs]; !ok && !allowed[q.Abs] {
			return bad("create:unrelated-object-added:"+kind, fmt.Sprintf("object %s appeared; only %v may be new", q.Abs, sortedKeys(allowed)))
		}
	}
	// every existing element unchanged
	if what, det := diffExisting(pre, post, "", ""); what != "" {
		if kind == "connection" && strings.HasPrefix(what, "connection-") {
			if ne, ok := post.EBy[mustEdge(g1, r.NewKey)]; ok {
				for _, e := range pre.Edges {
					if e.group() == ne.group() && e.Index < ne.Index {
						if f := post.EBy[e.Abs]; f != nil && (f.Label != e.Label || f.Attrs != e.Attrs) {
							return bad("create:new-connection-takes-index-of-existing-parallel-connection", det+fmt.Sprintf("\n(the returned key %s names the connection that existed before)", r.NewKey))
						}
					}
				}
			}
		}
		return bad("create:existing-"+what+":"+kind, det)
	}
	return eng.OK(fmt.Sprintf("ok:create:%s:new-objs=%d", kind, len(post.Objs)-len(pre.Objs)), true)
}

// diffExisting: every element of a (except the named ones) is in b unchanged; nothing else is in b.
func diffExisting(a, b *PBoard, skipObj, skipEdge string) (string, string) {
	for _, o := range a.Objs {
		if o.Abs == skipObj {
			continue
		}
		q, ok := b.By[o.Abs]
		if !ok {
			return "object-removed", fmt.Sprintf("object %s (label %q) is gone", o.Abs, o.Label)
		}
		switch {
		case o.Label != q.Label || o.Implicit != q.Implicit:
			return "object-label-changed", fmt.Sprintf("object %s label %q -> %q", o.Abs, o.Label, q.Label)
		case o.Near != q.Near:
			return "object-near-changed", fmt.Sprintf("object %s near %q -> %q", o.Abs, o.Near, q.Near)
		case o.Attrs != q.Attrs:
			return "object-attributes-changed", fmt.Sprintf("object %s attributes\n  %s\n  ->\n  %s", o.Abs, o.Attrs, q.Attrs)
		case o.Parent != q.Parent:
			return "object-parent-changed", fmt.Sprintf("object %s parent %q -> %q", o.Abs, o.Parent, q.Parent)
		}
	}
	for _, e := range a.Edges {
		if e.Abs == skipEdge {
			continue
		}
		f, ok := b.EBy[e.Abs]
		if !ok {
			return "connection-removed", fmt.Sprintf("connection %s (label %q) is gone", e.Abs, e.Label)
		}
		switch {
		case e.Label != f.Label:
			return "connection-label-changed", fmt.Sprintf("connection %s label %q -> %q", e.Abs, e.Label, f.Label)
		case e.Attrs != f.Attrs:
			return "connection-attributes-changed", fmt.Sprintf("connection %s attributes\n  %s\n  ->\n  %s", e.Abs, e.Attrs, f.Attrs)
		}
	}
	return "", ""
}

func c37Set(r *Rec, g0, g1 *d2graph.Graph, pre, post *PBoard, bad func(string, string) eng.Res) eng.Res {
	if r.Op.Val == nil {
		return eng.OK("n/a:set-nil", false)
	}
	v := *r.Op.Val
	elem, attr := splitAttrKey(r.Op.Key)
	if attr != "" && attr != "label" && !strings.HasPrefix(attr, "style.") {
		return eng.OK("n/a:set-"+attr, false) // the statement covers the label and style attributes
	}
	field := attr
	if field == "" {
		field = "label"
	}
	if v == "" && field != "label" {
		return eng.OK("n/a:set-style-to-empty-string", false) // not a value of any style attribute
	}
	eq := func(got string) bool {
		if keywordValued[field] {
			return strings.EqualFold(got, v)
		}
		return got == v
	}
	tagged := ""
	if r.Op.Tag != nil {
		tagged = ":block-string"
	}
	if isEdgeKey(elem) {
		abs, ok := resolveEdge(g0, elem)
		if !ok {
			return eng.OK("n/a:set-on-missing-connection", false)
		}
		var e1 *d2graph.Edge
		for _, e := range g1.Edges {
			if e.AbsID() == abs {
				e1 = e
			}
		}
		if e1 == nil {
			return bad("set:connection-"+field+tagged+":target-missing-afterwards", fmt.Sprintf("connection %s is gone", abs))
		}
		var got string
		if field == "label" {
			got = e1.Label.Value
		} else {
			got, _ = styleValue(&e1.Attributes, strings.TrimPrefix(field, "style."))
		}
		if !eq(got) {
			return bad("set:connection-"+field+tagged+":"+setEffect(r, edgeField(g0, abs, field), got, v, false), fmt.Sprintf("%s of %s is %q afterwards, %q was given", field, abs, got, v))
		}
		if what, det := diffExisting(pre, post, "", abs); what != "" {
			return bad("set:connection-"+field+tagged+":other-"+what, det)
		}
		if len(post.Objs) != len(pre.Objs) || len(post.Edges) != len(pre.Edges) {
			return bad("set:connection-"+field+tagged+":element-added", fmt.Sprintf("%d objects / %d connections before, %d / %d afterwards", len(pre.Objs), len(pre.Edges), len(post.Objs), len(post.Edges)))
		}
		return eng.OK("ok:set:connection:"+field+tagged+":"+valueClass(v), true)
	}
	abs, ok := resolveObj(g0, elem)
	if !ok {
		return eng.OK("n/a:set-on-missing-object", false)
	}
	var o1 *d2graph.Object
	for _, o := range g1.Objects {
		if o.AbsID() == abs {
			o1 = o
		}
	}
	if o1 == nil {
		return bad("set:object-"+field+tagged+":target-missing-afterwards", fmt.Sprintf("object %s is gone", abs))
	}
	var got string
	if field == "label" {
		got = o1.Label.Value
	} else {
		got, _ = styleValue(&o1.Attributes, strings.TrimPrefix(field, "style."))
	}
	if !eq(got) {
		return bad("set:object-"+field+tagged+":"+setEffect(r, objField(g0, abs, field), got, v, pre.By[abs] != nil && pre.By[abs].Imported), fmt.Sprintf("%s of %s is %q afterwards, %q was given", field, abs, got, v))
	}
	if what, det := diffExisting(pre, post, abs, ""); what != "" {
		return bad("set:object-"+field+tagged+":other-"+what, det)
	}
	if len(post.Objs) != len(pre.Objs) || len(post.Edges) != len(pre.Edges) {
		return bad("set:object-"+field+tagged+":element-added", fmt.Sprintf("%d objects / %d connections before, %d / %d afterwards", len(pre.Objs), len(pre.Edges), len(post.Objs), len(post.Edges)))
	}
	return eng.OK("ok:set:object:"+field+tagged+":"+valueClass(v), true)
}

// setEffect names what a Set did instead of what was asked (mechanism part of the failure class).
func setEffect(r *Rec, old, got, v string, imported bool) string {
	var eff string
	switch {
	case got == old:
		eff = "value-unchanged"
	case strings.EqualFold(got, v):
		eff = "letter-case-changed:" + valueClass(v)
	case old != "" && strings.HasPrefix(got, old) && strings.HasSuffix(got, v):
		eff = "new-value-appended-to-old-value"
	default:
		eff = "other-value:" + valueClass(v)
	}
	if strings.HasPrefix(eff, "letter-case-changed") {
		return eff // a matter of how the value is written, wherever the element lives
	}
	if imported {
		eff += ":target-defined-in-imported-file"
	} else {
		if f := seedFeature(r); f != ":diagram-has-underscore-reference" {
			eff += f
		}
	}
	if len(r.Op.B) > 0 {
		eff += ":" + targetOrigin(r)
	}
	return eff
}

func objField(g *d2graph.Graph, abs, field string) string {
	for _, o := range g.Objects {
		if o.AbsID() == abs {
			if field == "label" {
				return o.Label.Value
			}
			v, _ := styleValue(&o.Attributes, strings.TrimPrefix(field, "style."))
			return v
		}
	}
	return ""
}

func edgeField(g *d2graph.Graph, abs, field string) string {
	for _, e := range g.Edges {
		if e.AbsID() == abs {
			if field == "label" {
				return e.Label.Value
			}
			v, _ := styleValue(&e.Attributes, strings.TrimPrefix(field, "style."))
			return v
		}
	}
	return ""
}

// valueClass names the kind of value (the value alphabet is finite, so this is a mechanism, not an input).
func valueClass(v string) string {
	switch {
	case v == "":
		return "empty"
	case v == "null":
		return "null"
	case strings.EqualFold(v, "null"):
		return "null-in-other-letter-case"
	case strings.EqualFold(v, "true"):
		return "boolean-word"
	case strings.EqualFold(v, "shape"):
		return "reserved-keyword"
	case strings.HasPrefix(v, "#"):
		return "hex-colour"
	case strings.Contains(v, ": "):
		return "contains-colon"
	case strings.Contains(v, "."):
		return "contains-dot"
	case strings.Contains(v, " "):
		return "two-words"
	case v[0] >= '0' && v[0] <= '9':
		return "number"
	}
	return "plain"
}

func init() {
	register(&checkDef{
		ID: "C37", Oracle: c37,
		Rule: "breadth-first search over edit histories (same seeds, menu and state de-duplication as C36); the oracle is evaluated on every Create and on every Set of a label or style attribute (object or connection, with and without a block-string tag, value alphabet: plain, two words, null, NULL, true, Shape, dotted, number, empty, #f00, `v: w`): Create(k) => the returned key names an element that exists afterwards and did not exist before, the only new objects are that object / the connection's end points and their missing containers, every existing object and connection (label, all attributes, parent, index) is unchanged; Set => the addressed field equals the value exactly (case-insensitively only for keyword-valued attributes), every other object and connection is unchanged and nothing is added or removed; non-trivial = successful Create, or successful Set inside that scope",
		Assume: []string{
			"only the addressed board is compared (effects on inheriting boards are intended; isolation of other boards is C41)",
			"Set of shape / near / arrowhead attributes, Set with a nil value and Set of a style attribute to the empty string are executed as transitions but are outside the statement (label and style attributes, a value), so they are trivial here",
			"an edit addressed to a folder-only board (a board key without content) is trivial here: the board shows nothing before and everything it inherits afterwards",
			"other fields of the addressed element itself may change with a Set (e.g. language with a block-string tag): the statement only requires other elements to stay unchanged",
			"implicit labels (label == own name) are projected as 'implicit'; label values and names are disjoint alphabets",
		},
	})
}
