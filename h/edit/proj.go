package edit

import (
	"encoding/json"
	"fmt"
	"strings"

	"oss.terrastruct.com/d2/d2format"
	"oss.terrastruct.com/d2/d2graph"
)

// PObj / PEdge / PBoard: position-free projection of one board, used by the reference edit models.
type PObj struct {
	Abs      string   `json:"abs"`
	ID       string   `json:"id"`
	IDVal    string   `json:"-"`
	Parent   string   `json:"parent"` // AbsID of the parent, "" = board root
	Label    string   `json:"label"`  // "" when implicit (label == own name)
	Implicit bool     `json:"implicit"`
	Near     string   `json:"near,omitempty"` // target key of a non-constant near
	Attrs    string   `json:"attrs"`          // every other attribute (JSON), label blanked
	Children []string `json:"-"`
	AJSON    string   `json:"-"` // the attributes JSON alone (Attrs may carry class / sql_table suffixes)
	Imported bool     `json:"-"` // some reference to it lies in another file
	idx      int
}

type PEdge struct {
	Abs      string `json:"abs"`
	Src      string `json:"src"`
	Dst      string `json:"dst"`
	SrcArrow bool   `json:"sa"`
	DstArrow bool   `json:"da"`
	Index    int    `json:"index"`
	Label    string `json:"label"`
	Attrs    string `json:"attrs"` // attributes + arrowheads (JSON), label blanked
	AJSON    string `json:"-"`     // attributes JSON alone
	SH, DH   string `json:"-"`     // arrowhead attributes JSON
	SHL, DHL string `json:"-"`     // arrowhead labels
	idx      int
}

type PBoard struct {
	Objs  []*PObj
	Edges []*PEdge
	By    map[string]*PObj  // by AbsID
	EBy   map[string]*PEdge // by AbsID
}

func attrsNoLabel(a *d2graph.Attributes) (attrs, near string) {
	if a == nil {
		return "null", ""
	}
	c := *a
	if c.NearKey != nil {
		near = strings.Join(d2format.KeyPath(c.NearKey), ".")
	}
	c.NearKey = nil
	c.Label = d2graph.Scalar{}
	b, err := json.Marshal(&c)
	if err != nil {
		return fmt.Sprintf("%q", "marshal error: "+err.Error()), near
	}
	return string(b), near
}

var emptyAttrs, _ = attrsNoLabel(&d2graph.Attributes{})

// group identifies the set of parallel connections an edge belongs to.
func (e *PEdge) group() string {
	return fmt.Sprintf("%s\x00%s\x00%v%v", strings.ToLower(e.Src), strings.ToLower(e.Dst), e.SrcArrow, e.DstArrow)
}

func Project(g *d2graph.Graph) *PBoard {
	pb := &PBoard{By: map[string]*PObj{}, EBy: map[string]*PEdge{}}
	for i, ob := range g.Objects {
		po := &PObj{Abs: ob.AbsID(), ID: ob.ID, IDVal: ob.IDVal, idx: i}
		if ob.Parent != nil && ob.Parent != g.Root {
			po.Parent = ob.Parent.AbsID()
		}
		po.Attrs, po.Near = attrsNoLabel(&ob.Attributes)
		po.AJSON = po.Attrs
		for _, ref := range ob.References {
			if ref.Key != nil && ref.Key.Range.Path != "index.d2" {
				po.Imported = true
			}
		}
		if ob.Label.Value == ob.IDVal {
			po.Implicit = true
		} else {
			po.Label = ob.Label.Value
		}
		if ob.Class != nil {
			b, _ := json.Marshal(ob.Class)
			po.Attrs += "|class:" + string(b)
		}
		if ob.SQLTable != nil {
			b, _ := json.Marshal(ob.SQLTable)
			po.Attrs += "|sql:" + string(b)
		}
		for _, ch := range ob.ChildrenArray {
			po.Children = append(po.Children, ch.ID)
		}
		pb.Objs = append(pb.Objs, po)
		pb.By[po.Abs] = po
	}
	for i, e := range g.Edges {
		pe := &PEdge{Abs: e.AbsID(), SrcArrow: e.SrcArrow, DstArrow: e.DstArrow, Index: e.Index, Label: e.Label.Value, idx: i}
		if e.Src != nil {
			pe.Src = e.Src.AbsID()
		}
		if e.Dst != nil {
			pe.Dst = e.Dst.AbsID()
		}
		a, _ := attrsNoLabel(&e.Attributes)
		sh, _ := attrsNoLabel(e.SrcArrowhead)
		dh, _ := attrsNoLabel(e.DstArrowhead)
		// an arrowhead that carries only defaults is the same as none
		if sh == emptyAttrs {
			sh = "null"
		}
		if dh == emptyAttrs {
			dh = "null"
		}
		shl, dhl := "", ""
		if e.SrcArrowhead != nil {
			shl = e.SrcArrowhead.Label.Value
		}
		if e.DstArrowhead != nil {
			dhl = e.DstArrowhead.Label.Value
		}
		pe.Attrs = fmt.Sprintf("%s|sh:%s:%q|dh:%s:%q", a, sh, shl, dh, dhl)
		pe.AJSON, pe.SH, pe.DH, pe.SHL, pe.DHL = a, sh, dh, shl, dhl
		pb.Edges = append(pb.Edges, pe)
		pb.EBy[pe.Abs] = pe
	}
	return pb
}

func (pb *PBoard) Dump() string {
	var b strings.Builder
	for _, o := range pb.Objs {
		fmt.Fprintf(&b, "  obj %-14s parent=%-8q label=%q implicit=%v near=%q\n", o.Abs, o.Parent, o.Label, o.Implicit, o.Near)
	}
	for _, e := range pb.Edges {
		fmt.Fprintf(&b, "  edge %-22s %s -> %s label=%q\n", e.Abs, e.Src, e.Dst, e.Label)
	}
	return b.String()
}

// ---- board tree -------------------------------------------------------------------------------------

type BoardRef struct {
	Path []string
	Kind string // root | layer | scenario | step
	G    *d2graph.Graph
}

func (b BoardRef) Key() string { return strings.Join(b.Path, "\x00") }

// Boards lists every board of g (pre-order: the board, then its layers, scenarios, steps).
func Boards(g *d2graph.Graph) []BoardRef {
	var out []BoardRef
	var rec func(g *d2graph.Graph, path []string, kind string)
	rec = func(g *d2graph.Graph, path []string, kind string) {
		out = append(out, BoardRef{Path: append([]string{}, path...), Kind: kind, G: g})
		for _, l := range g.Layers {
			rec(l, append(path, l.Name), "layer")
		}
		for _, l := range g.Scenarios {
			rec(l, append(path, l.Name), "scenario")
		}
		for _, l := range g.Steps {
			rec(l, append(path, l.Name), "step")
		}
	}
	rec(g, nil, "root")
	return out
}

// diffBoards names the first difference between two projections of the same board, element by element
// (matched by AbsID): what = kind of difference (part of failure classes), detail = for humans.
func diffBoards(a, b *PBoard) (what, detail string) {
	for _, o := range a.Objs {
		q, ok := b.By[o.Abs]
		if !ok {
			return "object-removed", fmt.Sprintf("object %s (label %q) is gone", o.Abs, o.Label)
		}
		switch {
		case o.Label != q.Label || o.Implicit != q.Implicit:
			return "object-label-changed", fmt.Sprintf("object %s label %q -> %q", o.Abs, o.Label, q.Label)
		case o.Near != q.Near:
			return "object-near-changed", fmt.Sprintf("object %s near %q -> %q", o.Abs, o.Near, q.Near)
		case o.Attrs != q.Attrs:
			return "object-attributes-changed", fmt.Sprintf("object %s attributes\n  %s\n  ->\n  %s", o.Abs, o.Attrs, q.Attrs)
		}
	}
	for _, q := range b.Objs {
		if _, ok := a.By[q.Abs]; !ok {
			return "object-added", fmt.Sprintf("object %s (label %q) appeared", q.Abs, q.Label)
		}
	}
	for _, e := range a.Edges {
		f, ok := b.EBy[e.Abs]
		if !ok {
			return "connection-removed", fmt.Sprintf("connection %s (label %q) is gone", e.Abs, e.Label)
		}
		switch {
		case e.Label != f.Label:
			return "connection-label-changed", fmt.Sprintf("connection %s label %q -> %q", e.Abs, e.Label, f.Label)
		case e.Attrs != f.Attrs:
			return "connection-attributes-changed", fmt.Sprintf("connection %s attributes\n  %s\n  ->\n  %s", e.Abs, e.Attrs, f.Attrs)
		}
	}
	for _, f := range b.Edges {
		if _, ok := a.EBy[f.Abs]; !ok {
			return "connection-added", fmt.Sprintf("connection %s (label %q) appeared", f.Abs, f.Label)
		}
	}
	return "", ""
}

func diffBoardGraphs(a, b *d2graph.Graph) (what, detail string) {
	if what, detail = diffBoards(Project(a), Project(b)); what != "" {
		return
	}
	ra, _ := attrsNoLabel(&a.Root.Attributes)
	rb, _ := attrsNoLabel(&b.Root.Attributes)
	if ra != rb || a.Root.Label.Value != b.Root.Label.Value {
		return "board-attributes-changed", fmt.Sprintf("root attributes %s (label %q) -> %s (label %q)", ra, a.Root.Label.Value, rb, b.Root.Label.Value)
	}
	if a.IsFolderOnly != b.IsFolderOnly {
		return "board-folder-flag-changed", fmt.Sprintf("isFolderOnly %v -> %v", a.IsFolderOnly, b.IsFolderOnly)
	}
	return "", ""
}
