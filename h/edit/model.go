// Package edit is group "edit": engine E4 (explicit-state BFS over d2oracle edit histories) and the
// checks C36–C41. A state is source text; a transition is one real d2oracle call on a FRESH graph
// compiled from that text.
package edit

import (
	"encoding/json"
	"fmt"
	"runtime/debug"
	"sort"
	"strings"
	"testing/fstest"

	"oss.terrastruct.com/d2/d2compiler"
	"oss.terrastruct.com/d2/d2format"
	"oss.terrastruct.com/d2/d2graph"
	"oss.terrastruct.com/d2/d2oracle"
	"verif/h/eng"
)

// Op is one edit. K: create | set | delete | rename | move | reconnect.
type Op struct {
	K    string   `json:"k"`
	B    []string `json:"b,omitempty"`    // board path
	Key  string   `json:"key"`            // element key
	Tag  *string  `json:"tag,omitempty"`  // set: block string tag
	Val  *string  `json:"val,omitempty"`  // set: value (nil = unset); rename: new name; move: new key
	Incl bool     `json:"incl,omitempty"` // move: include descendants
	Src  *string  `json:"src,omitempty"`  // reconnect
	Dst  *string  `json:"dst,omitempty"`  // reconnect
}

func jsonNoEsc(v any) string {
	var sb strings.Builder
	e := json.NewEncoder(&sb)
	e.SetEscapeHTML(false)
	e.Encode(v)
	return strings.TrimSuffix(sb.String(), "\n")
}

func (o Op) String() string { return jsonNoEsc(o) }

func sp(s string) *string { return &s }

func deref(s *string) string {
	if s == nil {
		return "<nil>"
	}
	return *s
}

// Case is the self-contained input of every oracle of this group (also the replay witness): a start
// text, optional extra files (imports) and a list of edits applied one after another, each on a fresh
// graph compiled from the text the previous one produced. The property oracle is evaluated on every
// transition.
type Case struct {
	Text  string            `json:"text"`
	Files map[string]string `json:"files,omitempty"`
	Ops   []Op              `json:"ops"`
}

func (c Case) JSON() string { return jsonNoEsc(c) }

func compileFS(text string, files map[string]string) (*d2graph.Graph, error) {
	m := fstest.MapFS{}
	for k, v := range files {
		m[k] = &fstest.MapFile{Data: []byte(v)}
	}
	g, _, err := d2compiler.Compile("index.d2", strings.NewReader(text), &d2compiler.CompileOptions{FS: m})
	return g, err
}

// Rec is everything observed about one transition.
type Rec struct {
	Pre   string
	Files map[string]string
	Op    Op

	G0   *d2graph.Graph // pristine graph of Pre (never handed to d2oracle)
	Held *d2graph.Graph // the graph that was handed to the edit (the caller still holds it)
	G1   *d2graph.Graph // returned graph (nil on refusal)
	Err  error
	// Panic is the recovered panic value + first d2 frame when the edit panicked ("" otherwise).
	Panic  string
	NewKey string // Create: returned key; Rename: returned name

	// Deltas: the *IDDeltas prediction computed on its own fresh graph (delete/rename/move/reconnect).
	Deltas      map[string]string
	DeltasErr   error
	DeltasPanic string
	DeltasRan   bool

	Post   string // Format(G1.AST) when G1 != nil
	PostOK bool   // Post compiles (so it is a legitimate successor state)
}

func (r *Rec) OK() bool { return r.Panic == "" && r.Err == nil && r.G1 != nil }

func catch(f func()) (pan string) {
	defer func() {
		if x := recover(); x != nil {
			st := string(debug.Stack())
			pan = fmt.Sprintf("%v @ %s", x, eng.PanicSite(st))
		}
	}()
	f()
	return ""
}

// apply runs op on g with the real d2oracle.
func apply(g *d2graph.Graph, op Op) (g1 *d2graph.Graph, newKey string, err error) {
	switch op.K {
	case "create":
		return d2oracle.Create(g, op.B, op.Key)
	case "set":
		g1, err = d2oracle.Set(g, op.B, op.Key, op.Tag, op.Val)
	case "delete":
		g1, err = d2oracle.Delete(g, op.B, op.Key)
	case "rename":
		return d2oracle.Rename(g, op.B, op.Key, deref(op.Val))
	case "move":
		g1, err = d2oracle.Move(g, op.B, op.Key, deref(op.Val), op.Incl)
	case "reconnect":
		g1, err = d2oracle.ReconnectEdge(g, op.B, op.Key, op.Src, op.Dst)
	default:
		panic("unknown op kind " + op.K)
	}
	return g1, "", err
}

func predict(g *d2graph.Graph, op Op) (map[string]string, error, bool) {
	switch op.K {
	case "delete":
		d, err := d2oracle.DeleteIDDeltas(g, op.B, op.Key)
		return d, err, true
	case "rename":
		d, err := d2oracle.RenameIDDeltas(g, op.B, op.Key, deref(op.Val))
		return d, err, true
	case "move":
		if len(op.B) > 0 {
			return nil, nil, false // MoveIDDeltas has no board path
		}
		d, err := d2oracle.MoveIDDeltas(g, op.Key, deref(op.Val), op.Incl)
		return d, err, true
	case "reconnect":
		d, err := d2oracle.ReconnectEdgeIDDeltas(g, op.B, op.Key, op.Src, op.Dst)
		return d, err, true
	}
	return nil, nil, false
}

// Step executes one transition. withDeltas additionally runs the ID-delta predictor (C40).
func Step(pre string, files map[string]string, op Op, withDeltas bool) (*Rec, error) {
	r := &Rec{Pre: pre, Files: files, Op: op}
	var err error
	if r.G0, err = compileFS(pre, files); err != nil {
		return nil, fmt.Errorf("state does not compile: %v", err)
	}
	if withDeltas {
		gd, err := compileFS(pre, files)
		if err != nil {
			return nil, err
		}
		r.DeltasPanic = catch(func() { r.Deltas, r.DeltasErr, r.DeltasRan = predict(gd, op) })
	}
	if r.Held, err = compileFS(pre, files); err != nil {
		return nil, err
	}
	r.Panic = catch(func() { r.G1, r.NewKey, r.Err = apply(r.Held, op) })
	if r.Panic != "" {
		r.G1, r.Err = nil, nil
	}
	if r.OK() {
		pan := catch(func() { r.Post = d2format.Format(r.G1.AST) })
		if pan != "" {
			r.Panic = "Format(returned AST): " + pan
			r.G1 = nil
		} else if _, err := compileFS(r.Post, files); err == nil {
			r.PostOK = true
		}
	}
	return r, nil
}

// errClass strips the variable parts of a refusal so that refusals can be counted by kind.
func errClass(err error) string {
	if err == nil {
		return "ok"
	}
	s := err.Error()
	if i := strings.Index(s, "failed to recompile"); i >= 0 {
		// keep only the compile error messages (without positions)
		j := strings.LastIndex(s, "\n")
		msg := s[j+1:]
		if k := strings.Index(msg, ": "); k >= 0 && strings.Contains(msg[:k], ":") {
			msg = msg[k+2:]
		}
		return "recompile: " + clipq(msg)
	}
	if i := strings.LastIndex(s, ": "); i >= 0 && strings.HasPrefix(s, "failed to") {
		s = s[i+2:]
	}
	return clipq(s)
}

func clipq(s string) string {
	// drop quoted names and digits so classes do not depend on the input
	var b strings.Builder
	inq := false
	for _, r := range s {
		if r == '"' {
			inq = !inq
			if !inq {
				b.WriteString("\"…\"")
			}
			continue
		}
		if inq {
			continue
		}
		b.WriteRune(r)
	}
	str := b.String()
	if i := strings.Index(str, ": open "); i >= 0 { // "failed to import …: open d/x.d2: file does not exist"
		if j := strings.Index(str[i+7:], ":"); j >= 0 {
			str = str[:i+7] + "…" + str[i+7+j:]
		}
	}
	out := []rune(str)
	if len(out) > 70 {
		out = out[:70]
	}
	return string(out)
}

func sortedKeys[V any](m map[string]V) []string {
	ks := make([]string, 0, len(m))
	for k := range m {
		ks = append(ks, k)
	}
	sort.Strings(ks)
	return ks
}
