package edit

import (
	"fmt"
	"strings"

	"oss.terrastruct.com/d2/d2graph"
)

// ---- seeds -------------------------------------------------------------------------------------------
// Every element carries a unique label L<i>. Names (a, b, …) and label/value strings are disjoint sets,
// so "label == own name" identifies an implicit label.

type Seed struct {
	Name  string
	Text  string
	Files map[string]string
	Tier  int  // 0 = quick and thorough, 1 = thorough only, 2 = generated board trees (thorough tier of C41 only)
	Deep  bool // generated board trees: also expanded at depth 2 (trees of two boards)
}

var Seeds = []Seed{
	{Name: "basic", Text: "a: L1\nb: L2\na -> b: L3\n"},
	{Name: "nested", Text: `a: L1 {
  b: L2
  c: L3 {
    d: L4
  }
  b -> c.d: L5
}
e: L6
a.b -> e: L7
e -> a.c: L8
`},
	{Name: "parallel", Text: "a: L1\nb: L2\na -> b: L3\na -> b: L4\nb -> a: L5\na -> b: L6\n(a -> b)[1].style.stroke: red\n"},
	{Name: "chain", Text: "a: L1\nb: L2\nc: L3\na -> b -> c\n(a -> b)[0]: L4\n(b -> c)[0]: L5\n"},
	{Name: "styles", Text: `a: L1 {
  style: {
    fill: red
    stroke: blue
    opacity: 0.5
  }
}
b: L2
b.style.fill: blue
b.shape: circle
c: L5 {
  near: a
}
a -> b: L3 {
  style.stroke: green
  target-arrowhead: {
    label: L4
  }
}
`},
	{Name: "class", Text: `classes: {
  k: {
    style.fill: yellow
  }
}
a: L1 {
  class: k
}
b: L2
b.class: k
a -> b: L3 {
  class: k
}
`},
	{Name: "glob", Text: "a: L1\nb: L2\n*.style.opacity: 0.4\na -> b: L3\n(* -> *)[*].style.stroke: red\n"},
	{Name: "import", Text: "a: L1\n...@x\nc: L2 {\n  ...@y\n}\na -> i: L3\n",
		Files: map[string]string{"x.d2": "i: L4\nj: L5\ni -> j: L6\n", "y.d2": "p: L7\n"}},
	{Name: "layers", Text: `a: L1
b: L2
a -> b: L3

layers: {
  x: {
    c: L4
    d: L5
    c -> d: L6

    layers: {
      y: {
        e: L7
      }
    }
  }
  w: {
    f: L8
  }
}
`},
	{Name: "scenario-steps", Text: `a: L1
b: L2
a -> b: L3

scenarios: {
  s: {
    c: L4
    a -> c: L5
  }
}

steps: {
  p: {
    d: L6
  }
  q: {
    e: L7
    d -> e: L8
  }
}
`},
	{Name: "flat-underscore", Text: `a.b: L1
a.c: L2
a: L3
a.b -> a.c: L4
d: L5 {
  e: L6
  e -> _.a.b: L7
}
`},
	{Name: "same-name", Text: `a: L1 {
  a: L2
  b: L3
}
b: L4
b 2: L5
a.a -> b: L6
`},
	{Name: "case-variant-child", Text: "X: L1 {\n  x: L2\n  y: L3\n}\nz: L4\nX.x -> z: L5\n"},
	{Name: "chain-through-descendant", Text: "x: L1\ny: L2\nq: L3\na: L4 {\n  b: L5 {\n    c: L6\n  }\n}\nx -> a.b.c -> y: L7\n"},
	{Name: "chain-with-map", Text: "a: L1\nb: L2\nc: L3\na -> b -> c: {\n  style.stroke: red\n}\n"},
	{Name: "scoped-connection-key", Text: "a: L1 {\n  b: L2 {\n    c: L3\n    d: L4\n  }\n}\nz: L5\na.b.(c -> d): L6\na: {\n  b.(d -> c): L7\n}\n"},
	{Name: "two-classes-same-attribute", Text: "classes: {\n  k: {\n    style.fill: yellow\n    style.stroke: black\n  }\n  j: {\n    style.fill: blue\n    style.stroke: green\n  }\n}\na: L1 {\n  class: j\n}\nb: L2 {\n  class: j\n}\nc: L3 {\n  class: k\n}\na -> b: L4 {\n  class: j\n}\nc -> b: L5 {\n  class: j\n}\n"},
	{Name: "class-member-connection", Text: "k: L1 {\n  shape: class\n  f: int\n  g(): void\n}\na: L2\na -> k.f: L3\nk.\"g()\" -> a: L4\n"},
	{Name: "edge-only-object-in-base", Text: "a: L1\na -> b: L2\nc: L3\n\nscenarios: {\n  x: {\n    b.style.fill: red\n  }\n  y: {\n    d: L4\n  }\n}\n\nsteps: {\n  p: {\n    b.style.fill: blue\n  }\n  q: {\n    e: L5\n  }\n}\n"},
	{Name: "sql-class-shapes", Tier: 1, Text: `t: L1 {
  shape: sql_table
  id: int
  nm: string
}
k: L2 {
  shape: class
  f: int
}
a: L3
t.id -> a: L4
a -> k: L5
`},
	{Name: "sequence", Tier: 1, Text: `s: L1 {
  shape: sequence_diagram
  a: L2
  b: L3
  a -> b: L4
  b -> a: L5
}
o: L6
`},
}

// boardTreeSeeds: every tree of two or three nested boards of depth <= 2 over the three board kinds
// (siblings grouped by kind in the order layers, scenarios, steps), each board with one object and one
// connection of its own. Thorough tier of C41 only (Tier 2).
func boardTreeSeeds() []Seed {
	kinds := []string{"layers", "scenarios", "steps"}
	type bd struct {
		kind  int
		child int // kind of the nested board, -1 = none
	}
	var out []Seed
	emit := func(bs []bd) {
		n := 0
		lbl := 3
		body := func(ind string, withBase bool) string {
			n++
			lbl += 2
			src := "a"
			if !withBase {
				src = fmt.Sprintf("o%d", n)
				return fmt.Sprintf("%s%s: L%d\n%sp%d: L%d\n%s%s -> p%d\n", ind, src, lbl+40, ind, n, lbl, ind, src, n)
			}
			return fmt.Sprintf("%sp%d: L%d\n%s%s -> p%d: L%d\n", ind, n, lbl, ind, src, n, lbl+1)
		}
		var sb strings.Builder
		sb.WriteString("a: L1\nb: L2\na -> b: L3\n")
		name := ""
		for k := range kinds {
			var grp []bd
			for _, b := range bs {
				if b.kind == k {
					grp = append(grp, b)
				}
			}
			if len(grp) == 0 {
				continue
			}
			sb.WriteString("\n" + kinds[k] + ": {\n")
			for _, b := range grp {
				bn := fmt.Sprintf("%c%d", kinds[k][0], n+1)
				name += kinds[k][:2]
				sb.WriteString("  " + bn + ": {\n")
				sb.WriteString(body("    ", k != 0))
				if b.child >= 0 {
					name += "(" + kinds[b.child][:2] + ")"
					cn := fmt.Sprintf("%c%d", kinds[b.child][0], n+1)
					sb.WriteString("\n    " + kinds[b.child] + ": {\n      " + cn + ": {\n")
					sb.WriteString(body("        ", b.child != 0))
					sb.WriteString("      }\n    }\n")
				}
				sb.WriteString("  }\n")
			}
			sb.WriteString("}\n")
		}
		nb := len(bs)
		for _, b := range bs {
			if b.child >= 0 {
				nb++
			}
		}
		out = append(out, Seed{Name: "boards:" + name, Text: sb.String(), Tier: 2, Deep: nb <= 2})
	}
	for k1 := 0; k1 < 3; k1++ {
		for c := 0; c < 3; c++ {
			emit([]bd{{k1, c}}) // parent with one nested board
		}
		for k2 := k1; k2 < 3; k2++ {
			emit([]bd{{k1, -1}, {k2, -1}}) // two siblings
			for k3 := k2; k3 < 3; k3++ {
				emit([]bd{{k1, -1}, {k2, -1}, {k3, -1}}) // three siblings
			}
			for c := 0; c < 3; c++ {
				emit([]bd{{k1, c}, {k2, -1}}) // two siblings, the first has a nested board
				if k1 != k2 || k1 == 2 {
					emit([]bd{{k1, -1}, {k2, c}}) // … the second has it
				}
			}
		}
	}
	return out
}

func init() { Seeds = append(Seeds, boardTreeSeeds()...) }

// ---- menu --------------------------------------------------------------------------------------------

type menuLevel int

const (
	menuMini menuLevel = iota // the sub-menu used at deeper levels (every op of it is also in the full menu)
	menuFull                  // the full menu of DESIGN.md §3 Group D
)

var (
	valuesFull = []*string{sp("vx"), sp("two w"), sp("null"), sp("NULL"), sp("true"), sp("Shape"), sp("k.l"), sp("1"), sp(""), sp("#f00"), sp("v: w"), nil}
	tagMD      = sp("md")
)

const (
	freshName  = "n"
	freshName2 = "m"
)

// MOp is a menu entry; Mini marks membership in the mini menu.
type MOp struct {
	Op
	Mini bool
}

// Menu is enabled_ops(state): a finite list of edits instantiated from the state's own boards,
// objects, connections and set attributes. Deterministic in the graph (no map iteration).
func Menu(g *d2graph.Graph, lv menuLevel) []MOp {
	var ops []MOp
	for _, b := range Boards(g) {
		for _, o := range boardMenu(b) {
			if lv == menuFull || o.Mini {
				ops = append(ops, o)
			}
		}
	}
	return ops
}

func objAttrKeys(o *d2graph.Object) []string {
	var ks []string
	a := &o.Attributes
	if a.Shape.Value != "" && a.Shape.MapKey != nil {
		ks = append(ks, "shape")
	}
	if a.NearKey != nil {
		ks = append(ks, "near")
	}
	if a.Style.Fill != nil {
		ks = append(ks, "style.fill")
	}
	if a.Style.Opacity != nil {
		ks = append(ks, "style.opacity")
	}
	if a.Style.Stroke != nil {
		ks = append(ks, "style.stroke")
	}
	if len(a.Classes) > 0 {
		ks = append(ks, "class")
	}
	if o.Label.Value != o.IDVal {
		ks = append(ks, "label")
	}
	return ks
}

func edgeAttrKeys(e *d2graph.Edge) []string {
	var ks []string
	if e.Style.Stroke != nil {
		ks = append(ks, "style.stroke")
	}
	if e.Style.Opacity != nil {
		ks = append(ks, "style.opacity")
	}
	if e.DstArrowhead != nil && e.DstArrowhead.Label.Value != "" {
		ks = append(ks, "target-arrowhead.label")
	}
	if e.Label.Value != "" {
		ks = append(ks, "label")
	}
	return ks
}

func isUnder(id, anc string) bool { return id == anc || strings.HasPrefix(id, anc+".") }

func boardMenu(b BoardRef) []MOp {
	g := b.G
	bp := b.Path
	var ops []MOp
	add := func(mini bool, o Op) {
		o.B = bp
		ops = append(ops, MOp{Op: o, Mini: mini})
	}
	vals := valuesFull
	var objs []string
	var containers []string
	for _, o := range g.Objects {
		objs = append(objs, o.AbsID())
		if len(o.ChildrenArray) > 0 {
			containers = append(containers, o.AbsID())
		}
	}
	var edges []string
	for _, e := range g.Edges {
		edges = append(edges, e.AbsID())
	}
	last := len(objs) - 1

	// Create
	add(true, Op{K: "create", Key: freshName})
	if len(objs) > 0 {
		add(true, Op{K: "create", Key: objs[0]}) // existing name: a numbered sibling is generated
	}
	for i, c := range containers {
		add(i == 0, Op{K: "create", Key: c + "." + freshName})
	}
	add(false, Op{K: "create", Key: freshName2 + "." + freshName}) // missing container on the path
	ends := append(append([]string{}, objs...), freshName)
	for i, x := range ends {
		for j, y := range ends {
			mini := (i == 0 && (j == 1 || j == len(ends)-1)) || (i == len(ends)-1 && j == 0) || (i == last && j == 0 && last > 1)
			add(mini, Op{K: "create", Key: x + " -> " + y})
		}
	}

	// Set
	for i := range g.Objects {
		k := objs[i]
		for _, v := range vals {
			add(v != nil && *v == "vx", Op{K: "set", Key: k, Val: v})
			add(false, Op{K: "set", Key: k + ".style.opacity", Val: v})
			add(v != nil && *v == "#f00", Op{K: "set", Key: k + ".style.fill", Val: v})
			if v != nil {
				add(false, Op{K: "set", Key: k, Val: v, Tag: tagMD})
				add(false, Op{K: "set", Key: k + ".label", Val: v})
			}
		}
		add(false, Op{K: "set", Key: k + ".style.opacity", Val: sp("0.3")})
		for _, v := range []*string{sp("circle"), sp("Shape"), sp("CIRCLE"), sp("text"), nil} {
			add(false, Op{K: "set", Key: k + ".shape", Val: v})
		}
		add(false, Op{K: "set", Key: k + ".near", Val: sp("top-center")})
		for j := range g.Objects {
			if j != i {
				add(false, Op{K: "set", Key: k + ".near", Val: sp(objs[j])})
			}
		}
	}
	for _, k := range edges {
		for _, v := range vals {
			add(v != nil && *v == "vx", Op{K: "set", Key: k, Val: v})
			add(v != nil && *v == "#f00", Op{K: "set", Key: k + ".style.stroke", Val: v})
			add(false, Op{K: "set", Key: k + ".target-arrowhead.label", Val: v})
			if v != nil {
				add(false, Op{K: "set", Key: k, Val: v, Tag: tagMD})
				add(false, Op{K: "set", Key: k + ".style.opacity", Val: v})
			}
		}
		add(false, Op{K: "set", Key: k + ".style.opacity", Val: sp("0.3")})
	}

	// Delete
	for i, o := range g.Objects {
		add(true, Op{K: "delete", Key: objs[i]})
		for _, a := range objAttrKeys(o) {
			add(true, Op{K: "delete", Key: objs[i] + "." + a})
		}
	}
	for i, e := range g.Edges {
		add(true, Op{K: "delete", Key: edges[i]})
		for _, a := range edgeAttrKeys(e) {
			add(true, Op{K: "delete", Key: edges[i] + "." + a})
		}
	}
	add(false, Op{K: "delete", Key: "nope"})

	// Rename
	for i, o := range g.Objects {
		add(true, Op{K: "rename", Key: objs[i], Val: sp("z")})
		add(false, Op{K: "rename", Key: objs[i], Val: sp("q.r")})
		add(false, Op{K: "rename", Key: objs[i], Val: sp("a")})
		for _, sib := range o.Parent.ChildrenArray {
			if sib != o {
				add(true, Op{K: "rename", Key: objs[i], Val: sp(sib.IDVal)})
				break
			}
		}
	}
	for _, k := range edges {
		_, body, idx, ok := splitEdgeID(k)
		if !ok {
			continue
		}
		first := true
		for _, arrow := range []string{"<-", "<->", "--", "->"} {
			nb, changed := swapArrow(body, arrow)
			if changed {
				add(first, Op{K: "rename", Key: k, Val: sp("(" + nb + ")" + idx)})
				first = false
			}
		}
	}

	// Move. Moving a container WITH its descendants into its own subtree is left out: on the unchanged
	// tree that call does not return (observed; reported), and none of C36–C41 is about termination.
	for i, o := range g.Objects {
		dests := append([]string{""}, containers...)
		for _, d := range dests {
			if d == objs[i] {
				continue
			}
			nk := o.ID
			if d != "" {
				nk = d + "." + o.ID
			}
			if nk == objs[i] {
				continue // already there
			}
			if !isUnder(d, objs[i]) {
				add(true, Op{K: "move", Key: objs[i], Val: sp(nk), Incl: true})
			}
			add(true, Op{K: "move", Key: objs[i], Val: sp(nk), Incl: false})
		}
		// into a container that does not exist, and a rename-like move within the same scope
		if !isUnder(freshName2, objs[i]) {
			add(false, Op{K: "move", Key: objs[i], Val: sp(freshName2 + "." + o.ID), Incl: true})
		}
		same := "z"
		if o.Parent != g.Root {
			same = o.Parent.AbsID() + ".z"
		}
		add(true, Op{K: "move", Key: objs[i], Val: sp(same), Incl: true})
		add(false, Op{K: "move", Key: objs[i], Val: sp(same), Incl: false})
	}

	// ReconnectEdge
	for _, k := range edges {
		for i, x := range objs {
			mini := i == 0 || i == last
			add(mini, Op{K: "reconnect", Key: k, Src: sp(x)})
			add(mini, Op{K: "reconnect", Key: k, Dst: sp(x)})
		}
		for _, x := range objs {
			for _, y := range objs {
				add(false, Op{K: "reconnect", Key: k, Src: sp(x), Dst: sp(y)})
			}
		}
		add(false, Op{K: "reconnect", Key: k, Dst: sp("nope")})
	}
	return ops
}

// splitEdgeID splits "pre.(s -> d)[i]" into pre ("pre."), body ("s -> d"), idx ("[i]").
func splitEdgeID(id string) (pre, body, idx string, ok bool) {
	o := strings.LastIndex(id, "(")
	c := strings.LastIndex(id, ")[")
	if o < 0 || c < o {
		return "", "", "", false
	}
	return id[:o], id[o+1 : c], id[c+1:], true
}

func swapArrow(body, arrow string) (string, bool) {
	for _, a := range []string{" <-> ", " <- ", " -> ", " -- "} {
		if i := strings.Index(body, a); i >= 0 {
			if strings.TrimSpace(a) == arrow {
				return body, false
			}
			return body[:i] + " " + arrow + " " + body[i+len(a):], true
		}
	}
	return body, false
}

func (s Seed) String() string { return fmt.Sprintf("%s(%d bytes)", s.Name, len(s.Text)) }
