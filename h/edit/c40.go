package edit

import (
	"fmt"

	"verif/h/eng"
)

// c40: the *IDDeltas prediction agrees with what the edit did.
func c40(r *Rec) eng.Res {
	if !r.DeltasRan {
		return eng.OK("n/a:"+r.Op.K, false)
	}
	if r.DeltasPanic != "" {
		return eng.OK("predictor-panicked:"+r.Op.K, false)
	}
	if r.DeltasErr != nil {
		return eng.OK("predictor-refused:"+r.Op.K, false)
	}
	if !r.OK() {
		return eng.OK(refusedOutcome(r), false)
	}
	g0, g1 := boardOf(r.G0, r.Op.B), boardOf(r.G1, r.Op.B)
	if g0 == nil || g0.IsFolderOnly || g1 == nil || g1.IsFolderOnly {
		return eng.OK("n/a:board-missing-or-folder-only", false)
	}
	pre, post := Project(g0), Project(g1)
	bad := func(class, detail string) eng.Res {
		return eng.Bad(class, fmt.Sprintf("%s on\n%s\npredicted ID changes: %s\n%s\nreturned text:\n%s", r.Op, indent(r.Pre), jsonNoEsc(r.Deltas), detail, indent(r.Post)))
	}

	phiO := map[string]string{}
	phiE := map[string]string{}
	how := map[string]string{}
	removed := map[string]string{}

	// 1. elements that carry a unique explicit label on both sides
	cnt := map[string]int{}
	for _, o := range pre.Objs {
		if !o.Implicit {
			cnt["o"+o.Label]++
		}
	}
	pcnt := map[string][]*PObj{}
	for _, q := range post.Objs {
		if !q.Implicit {
			pcnt[q.Label] = append(pcnt[q.Label], q)
		}
	}
	for _, o := range pre.Objs {
		if !o.Implicit && cnt["o"+o.Label] == 1 && len(pcnt[o.Label]) == 1 {
			phiO[o.Abs] = pcnt[o.Label][0].Abs
			how[o.Abs] = "label"
		}
	}
	for _, e := range pre.Edges {
		if e.Label != "" {
			cnt["e"+e.Label]++
		}
	}
	ecnt := map[string][]*PEdge{}
	for _, f := range post.Edges {
		if f.Label != "" {
			ecnt[f.Label] = append(ecnt[f.Label], f)
		}
	}
	for _, e := range pre.Edges {
		if e.Label != "" && cnt["e"+e.Label] == 1 && len(ecnt[e.Label]) == 1 {
			phiE[e.Abs] = ecnt[e.Label][0].Abs
			how[e.Abs] = "label"
		}
	}

	// 2. the reference model of the edit, when it agrees with the outcome
	var alts []*expectation
	switch r.Op.K {
	case "delete":
		if x, _ := expectDelete(r, g0, pre); x != nil {
			alts = []*expectation{x}
		}
	case "rename", "move":
		alts, _ = expectMove(r, g0, pre)
	case "reconnect":
		alts = []*expectation{newExpectation(r, pre)}
	}
	for _, x := range alts {
		if x.match(post) != nil {
			continue
		}
		for _, o := range x.objs {
			if _, ok := phiO[o.pre.Abs]; !ok {
				phiO[o.pre.Abs] = o.post.Abs
				how[o.pre.Abs] = "model"
			}
		}
		if r.Op.K != "reconnect" {
			if xes, m := x.matchEdges(post); m == nil {
				for _, xe := range xes {
					if _, ok := phiE[xe.pre.Abs]; !ok && xe.post != nil {
						phiE[xe.pre.Abs] = xe.post.Abs
						how[xe.pre.Abs] = "model"
					}
				}
				for k := range x.removedObjs {
					removed[k] = "object"
				}
				for k := range x.removedEdges {
					removed[k] = "connection"
				}
			}
		}
		break
	}

	checked := 0
	check := func(kind, old, now string) *eng.Res {
		checked++
		pred, has := r.Deltas[old]
		var cls string
		switch {
		case has && pred == now:
			return nil
		case !has && old == now:
			return nil
		case !has:
			cls = "change-not-predicted"
		case old == now:
			cls = "predicted-change-did-not-happen"
		default:
			cls = "predicted-new-id-wrong"
		}
		p := "<none>"
		if has {
			p = pred
		}
		res := bad(fmt.Sprintf("deltas:%s%s:%s:%s", r.Op.K, seedFeature(r), kind, cls), fmt.Sprintf("%s %s (matched by %s) is %s afterwards; prediction for it: %s", kind, old, how[old], now, p))
		return &res
	}
	for _, o := range pre.Objs {
		if now, ok := phiO[o.Abs]; ok {
			if res := check("object", o.Abs, now); res != nil {
				return *res
			}
		}
	}
	for _, e := range pre.Edges {
		if now, ok := phiE[e.Abs]; ok {
			if res := check("connection", e.Abs, now); res != nil {
				return *res
			}
		}
	}
	for _, k := range sortedKeys(removed) {
		if _, ok := r.Deltas[k]; ok {
			return bad(fmt.Sprintf("deltas:%s%s:%s:change-predicted-for-removed-element", r.Op.K, seedFeature(r), removed[k]), fmt.Sprintf("%s %s is removed by the edit, yet the prediction maps it to %s", removed[k], k, r.Deltas[k]))
		}
	}
	nd := len(r.Deltas)
	if nd > 3 {
		nd = 3
	}
	return eng.OK(fmt.Sprintf("ok:%s:deltas%d:boards%d:%v", r.Op.K, nd, len(r.Op.B), checked > 0), checked > 0 && r.Post != r.Pre)
}

func init() {
	register(&checkDef{
		ID: "C40", Oracle: c40, Deltas: true,
		Rule: "breadth-first search over edit histories (same seeds, menu and state de-duplication as C36); for every Delete / Rename / Move / ReconnectEdge transition the matching *IDDeltas function is called on its own fresh graph of the state, then the edit is executed; objects and connections are matched across the edit by their unique explicit label, the rest through the reference edit model of C38/C39 when that model agrees with the outcome; for every matched survivor the new ID must equal deltas[old ID] if present and the old ID otherwise, and no key of deltas may name an element the edit removed; non-trivial = prediction and edit both succeeded, the text changed and at least one element was compared",
		Assume: []string{
			"MoveIDDeltas has no board path: Move transitions addressed to nested boards are not compared",
			"when the predictor or the edit refuses or panics there is nothing to compare (counted, trivial)",
			"elements that carry no unique label and cannot be located by the reference model (e.g. unlabelled parallel connections after a reconnect) are not compared",
			"the set of removed elements is taken from the reference model only when it agrees completely with the outcome of the edit",
		},
	})
}
