package edit

import (
	"encoding/json"
	"fmt"
	"hash/fnv"
	"strings"
	"time"

	"oss.terrastruct.com/d2/d2format"
	"oss.terrastruct.com/d2/d2graph"
	"verif/h/eng"
	"verif/h/u"
)

// Chained histories: the way a real client uses the editing API — every edit is applied to the GRAPH RETURNED by the
// previous edit, all in one process, and C36 is checked after every step. The BFS above recompiles every state from
// its text, so state that d2oracle keeps across calls (or inside the returned graph) is invisible to it; this phase
// enumerates every history of length ≤ chainDepth over a small menu, including histories that return to an earlier
// text (create x, delete x; set v, set w, set v).

type chainCase struct {
	Text string `json:"text"`
	Ops  []Op   `json:"ops"`
}

// chainMenu: a fixed, text-independent menu (ops that do not apply are refused by d2oracle, which ends the history).
func chainMenu() []Op {
	return []Op{
		{K: "create", Key: "n"}, {K: "create", Key: "m"}, {K: "create", Key: "a.n"}, {K: "create", Key: "a -> n"},
		{K: "delete", Key: "n"}, {K: "delete", Key: "m"}, {K: "delete", Key: "a.n"}, {K: "delete", Key: "(a -> n)[0]"}, {K: "delete", Key: "b"},
		{K: "set", Key: "a", Val: sp("vx")}, {K: "set", Key: "a", Val: sp("L1")}, {K: "set", Key: "a.style.fill", Val: sp("red")}, {K: "set", Key: "a.style.fill", Val: nil},
		{K: "rename", Key: "b", Val: sp("z")}, {K: "rename", Key: "z", Val: sp("b")},
		{K: "move", Key: "b", Val: sp("a.b")}, {K: "move", Key: "a.b", Val: sp("b")},
	}
}

var chainSeeds = []string{"a: L1\nb: L2\na -> b: L3\n", "a: L1 {\n  c: L4\n}\nb: L2\n"}

func checkC36Graph(g *d2graph.Graph) (class, detail string) {
	t := d2format.Format(g.AST)
	g2, err := compileFS(t, nil)
	if err != nil {
		return "result-text-does-not-compile:" + compileErrClass(err), fmt.Sprintf("returned graph's text\n%s\ndoes not compile: %v", indent(t), err)
	}
	ca, cb := canonAll(g), canonAll(g2)
	if ca != cb {
		paths := u.JSONDiffPaths(ca, cb)
		first := "?"
		if len(paths) > 0 {
			first = paths[0]
		}
		return "result-text-compiles-to-different-diagram:" + first, fmt.Sprintf("returned graph differs from what its own text\n%s\ncompiles to, at %v\n%s", indent(t), paths, u.FirstDiff(ca, cb))
	}
	return "", ""
}

func chainOracle(in string) eng.Res {
	var c chainCase
	if err := json.Unmarshal([]byte(in), &c); err != nil {
		return eng.Bad("harness:bad-witness", err.Error())
	}
	g, err := compileFS(c.Text, nil)
	if err != nil {
		return eng.OK("seed-does-not-compile", false)
	}
	applied := 0
	for i, op := range c.Ops {
		var g1 *d2graph.Graph
		var aerr error
		pan := catch(func() { g1, _, aerr = apply(g, op) })
		if pan != "" || aerr != nil || g1 == nil {
			return eng.OK(fmt.Sprintf("history-ended-at-%d", i), false) // refused or panicked: the history stops (not judged)
		}
		applied++
		if cl, det := checkC36Graph(g1); cl != "" {
			revisit := ""
			if applied >= 2 {
				revisit = ":after-earlier-edits-in-the-same-process"
			}
			return eng.Bad("chained-history:"+cl+revisit, fmt.Sprintf("history %v on\n%s\nstep %d (%s): %s", c.Ops[:i+1], indent(c.Text), i+1, op, det))
		}
		g = g1
	}
	return eng.OK("ok:"+strings.Repeat("+", applied)+d2format.Format(g.AST), applied == len(c.Ops))
}

const chainDepthQuick, chainDepthThorough = 3, 4

func c36ChainPhase(p *eng.Solo, cov map[string]any, deadline time.Time) bool {
	depth := chainDepthQuick
	if p.Thorough() {
		depth = chainDepthThorough
	}
	menu := chainMenu()
	var evals, nontriv int64
	outc := map[uint64]struct{}{}
	complete := true
	var rec func(seed string, ops []Op)
	rec = func(seed string, ops []Op) {
		if !complete {
			return
		}
		if len(ops) > 0 {
			if evals&255 == 0 && time.Now().After(deadline) {
				complete = false
				return
			}
			b, _ := json.Marshal(chainCase{Text: seed, Ops: ops})
			res := chainOracle(string(b))
			evals++
			if res.Nontrivial {
				nontriv++
			}
			h := fnv.New64a()
			h.Write([]byte(res.Outcome))
			outc[h.Sum64()] = struct{}{}
			if res.Fail != nil {
				p.Fail(eng.Fail{Oracle: "chain", Class: res.Fail.Class, Witness: string(b), Detail: res.Fail.Detail})
			}
			if !res.Nontrivial && res.Fail == nil {
				return // the history ended (refused edit): longer histories with this prefix end at the same place
			}
		}
		if len(ops) == depth {
			return
		}
		for _, op := range menu {
			rec(seed, append(append([]Op{}, ops...), op))
		}
	}
	for _, s := range chainSeeds {
		rec(s, nil)
	}
	cov["chained_histories"] = evals
	cov["chained_histories_fully_applied"] = nontriv
	cov["chained_history_outcome_classes"] = len(outc)
	cov["chained_history_depth"] = depth
	cov["evaluations"] = cov["evaluations"].(int64) + evals
	cov["distinct_nontrivial"] = cov["distinct_nontrivial"].(int64) + nontriv
	if ph, ok := cov["phases"].([]map[string]any); ok {
		cov["phases"] = append(ph, map[string]any{"phase": fmt.Sprintf("chained-histories<=%d-on-returned-graphs", depth), "complete": complete, "evaluations": evals})
	}
	fmt.Printf("  phase %-44v complete=%v evals=%v\n", fmt.Sprintf("chained-histories<=%d-on-returned-graphs", depth), complete, evals)
	return complete
}
