package edit

import (
	"encoding/json"
	"fmt"
	"strings"

	"oss.terrastruct.com/d2/d2ast"
	"oss.terrastruct.com/d2/d2format"
	"oss.terrastruct.com/d2/d2graph"
	"oss.terrastruct.com/d2/d2parser"
	"verif/h/eng"
)

// boardContent is the position-free content of ONE board (without its nested boards).
func boardContent(g *d2graph.Graph) string {
	pb := Project(g)
	ra, _ := attrsNoLabel(&g.Root.Attributes)
	b, _ := json.Marshal(map[string]any{"objs": pb.Objs, "edges": pb.Edges, "root": ra, "rootLabel": g.Root.Label.Value, "folder": g.IsFolderOnly})
	return string(b)
}

func hasPrefix(q, p []string) bool {
	if len(q) < len(p) {
		return false
	}
	for i := range p {
		if q[i] != p[i] {
			return false
		}
	}
	return true
}

// related(p) = p, everything nested in p, and — for every step on the path to p (p included) — the later
// sibling steps with everything nested in them (steps inherit from the step before).
func relatedBoards(boards []BoardRef, p []string) map[string]bool {
	rel := map[string]bool{}
	for _, b := range boards {
		if hasPrefix(b.Path, p) {
			rel[b.Key()] = true
		}
	}
	for k := 1; k <= len(p); k++ {
		anc := p[:k]
		// is anc a step? find it and its position among its siblings
		var sibs []BoardRef
		pos := -1
		for _, b := range boards {
			if len(b.Path) == k && hasPrefix(b.Path, anc[:k-1]) && b.Kind == "step" {
				if b.Path[k-1] == anc[k-1] {
					pos = len(sibs)
				}
				sibs = append(sibs, b)
			}
		}
		if pos < 0 {
			continue
		}
		for _, s := range sibs[pos+1:] {
			for _, b := range boards {
				if hasPrefix(b.Path, s.Path) {
					rel[b.Key()] = true
				}
			}
		}
	}
	return rel
}

// findBoardMap locates the map of board p in an AST written in the nested form
// `layers: { x: { … } }` (nil when it is spelled differently).
func findBoardMap(m *d2ast.Map, p []string) *d2ast.Map {
	if len(p) == 0 {
		return m
	}
	for _, n := range m.Nodes {
		if n.MapKey == nil || n.MapKey.Key == nil || len(n.MapKey.Key.Path) != 1 || n.MapKey.Value.Map == nil || len(n.MapKey.Edges) > 0 {
			continue
		}
		kw := n.MapKey.Key.Path[0].Unbox().ScalarString()
		if kw != "layers" && kw != "scenarios" && kw != "steps" {
			continue
		}
		for _, bn := range n.MapKey.Value.Map.Nodes {
			if bn.MapKey == nil || bn.MapKey.Key == nil || len(bn.MapKey.Key.Path) != 1 || bn.MapKey.Value.Map == nil || len(bn.MapKey.Edges) > 0 {
				continue
			}
			if bn.MapKey.Key.Path[0].Unbox().ScalarString() == p[0] {
				if r := findBoardMap(bn.MapKey.Value.Map, p[1:]); r != nil {
					return r
				}
			}
		}
	}
	return nil
}

// blanked returns text with the content of board p removed ("" , false when p cannot be located).
func blanked(text string, p []string) (string, bool) {
	m, err := d2parser.Parse("index.d2", strings.NewReader(text), nil)
	if err != nil || m == nil {
		return "", false
	}
	bm := findBoardMap(m, p)
	if bm == nil {
		return "", false
	}
	bm.Nodes = nil
	return d2format.Format(m), true
}

func compareUnrelated(pre, post *d2graph.Graph, p []string) (string, int) {
	preB := Boards(pre)
	rel := relatedBoards(preB, p)
	postBy := map[string]BoardRef{}
	for _, b := range Boards(post) {
		postBy[b.Key()] = b
	}
	n := 0
	for _, b := range preB {
		if rel[b.Key()] {
			continue
		}
		n++
		pb, ok := postBy[b.Key()]
		name := "root"
		if len(b.Path) > 0 {
			name = b.Kind
		}
		if !ok {
			return fmt.Sprintf("%s-board:disappeared|board %v exists before but not after", name, b.Path), n
		}
		if what, det := diffBoardGraphs(b.G, pb.G); what != "" {
			return fmt.Sprintf("%s-board:%s|board %v: %s", name, what, b.Path, det), n
		}
	}
	return "", n
}

// c41: an edit addressed to a nested board leaves the base board and unrelated boards as they were,
// whether it succeeds or is refused.
func c41(r *Rec) eng.Res {
	p := r.Op.B
	if len(p) == 0 {
		return eng.OK("root-edit", false)
	}
	if r.Panic != "" {
		return eng.OK("panic:"+r.Op.K, false)
	}
	origin := targetOrigin(r)
	bad := func(class, detail string) eng.Res {
		i := strings.Index(class, ":")
		return eng.Bad(class[:i]+":"+origin+class[i:], fmt.Sprintf("%s on\n%s\n%s", r.Op, indent(r.Pre), detail))
	}
	if r.OK() {
		diff, n := compareUnrelated(r.G0, r.G1, p)
		if diff != "" {
			i := strings.Index(diff, "|")
			return bad("after-successful-"+r.Op.K+":"+diff[:i], diff[i+1:]+"\nreturned text:\n"+indent(r.Post))
		}
		return eng.OK(fmt.Sprintf("ok:%s:depth%d:compared%d:%v", r.Op.K, len(p), n, r.Post != r.Pre), r.Post != r.Pre)
	}
	// refused: what does the graph the caller still holds say now?
	var left string
	if pan := catch(func() { left = d2format.Format(r.Held.AST) }); pan != "" {
		return eng.OK("refused:leftover-AST-unprintable", false)
	}
	ref := "refused:" + r.Op.K
	if left == r.Pre {
		return eng.OK(ref+":AST-untouched", false)
	}
	if g2, err := compileFS(left, r.Files); err == nil {
		diff, n := compareUnrelated(r.G0, g2, p)
		if diff != "" {
			i := strings.Index(diff, "|")
			return bad("after-refused-"+r.Op.K+":"+diff[:i], "the edit returned "+fmt.Sprintf("%q", r.Err.Error())+" and left the caller's AST as\n"+indent(left)+diff[i+1:])
		}
		return eng.OK(fmt.Sprintf("%s:AST-modified:compiles:compared%d", ref, n), true)
	}
	// The leftover text does not compile. The statement is about the content of OTHER boards, so take the
	// addressed board out of both texts and compare what remains.
	b0, ok0 := blanked(r.Pre, p)
	b1, ok1 := blanked(left, p)
	if !ok0 || !ok1 {
		return eng.OK(ref+":AST-modified:board-not-locatable", false)
	}
	g0, err0 := compileFS(b0, r.Files)
	if err0 != nil {
		return eng.OK(ref+":AST-modified:blanked-state-does-not-compile", false)
	}
	g2, err2 := compileFS(b1, r.Files)
	if err2 != nil {
		return bad("after-refused-"+r.Op.K+":text-outside-addressed-board-no-longer-compiles:"+compileErrClass(err2),
			"the edit returned "+fmt.Sprintf("%q", r.Err.Error())+" and left the caller's AST as\n"+indent(left)+"which, even with board "+fmt.Sprint(p)+" emptied, does not compile: "+err2.Error())
	}
	diff, n := compareUnrelated(g0, g2, p)
	if diff != "" {
		i := strings.Index(diff, "|")
		return bad("after-refused-"+r.Op.K+":"+diff[:i], "the edit returned "+fmt.Sprintf("%q", r.Err.Error())+" and left the caller's AST as\n"+indent(left)+"(compared with the addressed board emptied on both sides)\n"+diff[i+1:])
	}
	return eng.OK(fmt.Sprintf("%s:AST-modified:uncompilable-inside-board:compared%d", ref, n), true)
}

// targetOrigin says whether the element the edit names also exists in the board above the addressed one
// (then the addressed board only inherits it) or only in the addressed board.
func targetOrigin(r *Rec) string {
	p := r.Op.B
	var here, above *d2graph.Graph
	var prevStep *d2graph.Graph
	for _, b := range Boards(r.G0) {
		if b.Key() == strings.Join(p, "\x00") {
			here = b.G
			if b.Kind == "step" && prevStep != nil {
				above = prevStep // a step inherits from the step before it
			}
		} else if len(b.Path) == len(p) && hasPrefix(b.Path, p[:len(p)-1]) && b.Kind == "step" && here == nil {
			prevStep = b.G
		}
		if above == nil && b.Key() == strings.Join(p[:len(p)-1], "\x00") {
			above = b.G
		}
	}
	if here == nil || above == nil {
		return "target-unknown"
	}
	key := r.Op.Key
	in := func(g *d2graph.Graph) bool {
		pb := Project(g)
		for k := key; k != ""; {
			if _, ok := pb.By[k]; ok {
				return true
			}
			if _, ok := pb.EBy[k]; ok {
				return true
			}
			// strip one trailing attribute segment (a.style.fill -> a.style -> a)
			i := strings.LastIndex(k, ".")
			if i < 0 {
				break
			}
			k = k[:i]
		}
		return false
	}
	switch {
	case !in(here):
		return "target-absent"
	case in(above):
		return "target-inherited"
	}
	return "target-local"
}

func init() {
	register(&checkDef{
		ID: "C41", Oracle: c41, BoardsOnly: true,
		Rule: "breadth-first search over edit histories from the seed diagrams that have nested boards (layers with a nested layer; a scenario plus two steps), every menu edit addressed to every board path of the state (root edits are executed as transitions but are trivial for this property); after each edit every board that is neither the addressed board, nor nested in it, nor a later sibling step of a step on its path is compared (objects, connections, all attributes, root attributes; no positions) with the same board before the edit — on success in the returned graph, on refusal in the recompiled text of the AST the caller still holds; non-trivial = the text (or the held AST) changed",
		Assume: []string{
			"related boards = the addressed board, everything nested in it, later sibling steps (and their nested boards) of every step on the path; everything else must be unchanged",
			"when a refused edit leaves an AST whose text no longer compiles, the addressed board is emptied in both the old and the leftover text and the remaining boards are compared (the statement only speaks about other boards); boards spelled in flat form (layers.x: …) cannot be located and such cases are counted as trivial",
			"an edit that panics is neither a success nor a refusal; it is counted (panics_observed) and skipped",
		},
	})
}
