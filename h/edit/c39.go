package edit

import (
	"fmt"
	"strings"

	"oss.terrastruct.com/d2/d2graph"
	"verif/h/eng"
)

// expectMove builds the expectation(s) of Rename / Move of an object. More than one expectation is
// returned where the statement leaves a choice (same-scope move without descendants).
func expectMove(r *Rec, g0 *d2graph.Graph, pre *PBoard) (alts []*expectation, kind string) {
	if isEdgeKey(r.Op.Key) {
		return nil, ""
	}
	abs, ok := resolveObj(g0, r.Op.Key)
	if !ok {
		return nil, ""
	}
	if r.Op.K == "rename" {
		x := newExpectation(r, pre)
		x.by[abs].free = true
		return []*expectation{x}, "rename"
	}
	newKey := deref(r.Op.Val)
	if isEdgeKey(newKey) || newKey == r.Op.Key {
		return nil, ""
	}
	destAbs := ""
	if dp := parentOfKey(newKey); dp != "" {
		var ok bool
		if destAbs, ok = resolveObj(g0, dp); !ok {
			return nil, "" // destination container does not exist: the statement allows creating it, nothing to pin
		}
	}
	build := func(hoist bool) *expectation {
		x := newExpectation(r, pre)
		X := x.by[abs]
		var D *xObj
		if destAbs != "" {
			D = x.by[destAbs]
		}
		if hoist {
			hoistChildren(x, X)
		}
		X.par = D
		X.free = true
		return x
	}
	x0 := newExpectation(r, pre)
	X0 := x0.by[abs]
	var D0 *xObj
	if destAbs != "" {
		D0 = x0.by[destAbs]
	}
	cross := X0.par != D0
	if r.Op.Incl {
		if destAbs != "" && isUnder(destAbs, abs) {
			return nil, "" // into its own subtree together with its descendants: not meaningful
		}
		return []*expectation{build(false)}, "move-with-descendants"
	}
	if cross {
		return []*expectation{build(true)}, "move-without-descendants"
	}
	return []*expectation{build(false), build(true)}, "move-same-scope-without-descendants"
}

// declaredThroughFlatKey: some plain (non-connection) key that declares or passes through the object has
// more than one path element (`a.b: …`), the form Move has to split or slice.
func declaredThroughFlatKey(g *d2graph.Graph, key string) bool {
	abs, ok := resolveObj(g, key)
	if !ok {
		return false
	}
	for _, o := range g.Objects {
		if o.AbsID() != abs {
			continue
		}
		for _, ref := range o.References {
			if ref.MapKey != nil && len(ref.MapKey.Edges) == 0 && ref.Key != nil && len(ref.Key.Path) > 1 {
				return true
			}
		}
	}
	return false
}

func c39(r *Rec) eng.Res {
	if r.Op.K != "rename" && r.Op.K != "move" {
		return eng.OK("n/a:"+r.Op.K, false)
	}
	if !r.OK() {
		return eng.OK(refusedOutcome(r), false)
	}
	g0, g1 := boardOf(r.G0, r.Op.B), boardOf(r.G1, r.Op.B)
	if g0 == nil || g0.IsFolderOnly {
		return eng.OK("n/a:board-missing-or-folder-only", false)
	}
	bad := func(class, detail string) eng.Res {
		return eng.Bad(class, fmt.Sprintf("%s on\n%s\n%s\nreturned text:\n%s", r.Op, indent(r.Pre), detail, indent(r.Post)))
	}
	if g1 == nil {
		return bad(r.Op.K+":addressed-board-missing-afterwards", "")
	}
	if g1.IsFolderOnly {
		return eng.OK("n/a:board-became-folder-only", false)
	}
	pre, post := Project(g0), Project(g1)
	alts, kind := expectMove(r, g0, pre)
	if len(alts) == 0 {
		return eng.OK("n/a:"+r.Op.K+"-outside-statement", false)
	}
	origin := seedFeature(r)
	if origin == "" && strings.Contains(r.Pre, ".(") {
		origin = ":diagram-has-scoped-connection-key" // a.b.(c -> d): a connection written relative to a container path
	}
	if declaredThroughFlatKey(g0, r.Op.Key) {
		origin += ":target-in-flat-key"
	}
	if len(r.Op.B) > 0 {
		origin += ":" + targetOrigin(r)
	}
	var first *mismatch
	for _, x := range alts {
		m := x.match(post)
		if m == nil {
			_, m = x.matchEdges(post)
		}
		if m == nil {
			return eng.OK(fmt.Sprintf("ok:%s%s:%v", kind, origin, r.Post != r.Pre), r.Post != r.Pre)
		}
		if first == nil {
			first = m
		}
	}
	return bad(kind+origin+":"+first.what, first.detail)
}

func init() {
	register(&checkDef{
		ID: "C39", Oracle: c39,
		Rule: "breadth-first search over edit histories (same seeds, menu and state de-duplication as C36); the oracle is evaluated on every Rename of an object (new names: fresh, a sibling's name, a dotted name, `a`) and every Move of an object (destinations: root, every container, a same-scope new name; with and without descendants) against a reference model of the addressed board: every object survives with label, attributes and near target; the renamed / moved object is found under the expected parent (any name), every other object keeps its name and parent, except that without descendants the former children are found under the former parent (a different name only where the name is taken); every connection survives attached to the same objects with label and attributes (compared as multisets per group of parallel connections, indices consecutive); non-trivial = the edit succeeded and changed the text",
		Assume: []string{
			"only the addressed board is compared (C41 covers the others); edits addressed to folder-only boards are trivial",
			"Rename of a connection (arrow direction), Move onto a destination whose container does not exist, and Move of a container with its descendants into its own subtree are executed as transitions but are outside the statement",
			"a same-scope Move without descendants may either keep the children under the moved object or leave them in the parent (both readings of the statement are accepted)",
			"objects are matched through the reference model's predicted location; the moved object and children whose name is taken are matched by unique label, then identical content, then elimination",
		},
	})
}
