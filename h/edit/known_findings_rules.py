#!/usr/bin/env python3
# kf.py <classes-file>...  : lines "Cxx|class". Appends to /verif/known_findings.jsonl every class that is not
# listed yet and that one of the rules below explains; prints the classes no rule explains.
import json, re, sys
KF='/verif/known_findings.jsonl'
F=r'(:diagram-has-(underscore-reference|glob|import))?'
T=r'(:target-(inherited|local|absent|unknown))?'
Q=F+T
K=r'(:target-in-flat-key)?'
R=[
# C36
('C36', r'^import-update-result-does-not-compile:remove:', 'UpdateImport(text, path, nil) on `a: {style: @sx}` (an import used as the value of a reserved key that needs a value) only drops the import and leaves the bare key `style`, which does not compile'),
# C37
('C37', r'^create:new-connection-takes-index', 'Create of a connection parallel to an existing one can insert the new connection textually BEFORE the existing one (inside an earlier map of the common container: `a.b -> a.c: L4` + Create("a.b -> a.c") writes `b -> c` into `a: {…}` above it): the existing connection is renumbered [1], loses its label to [0], and the returned key `a.(b -> c)[1]` names the old connection'),
('C37', r'^set:(object|connection)-label(:block-string)?:letter-case-changed:null-in-other-letter-case', 'Set(key, "NULL") (null in any letter case but lower) stores the label as `\'null\'`: d2ast.RawString/escapeUnquotedValue replaces every case variant of null by the lower-case spelling, so the label is "null", not the given value'),
('C37', r'^set:.*:value-unchanged:diagram-has-glob', 'Set of an attribute that a LATER glob in the text also assigns (`(* -> *)[*].style.stroke: red`, `*.style.opacity: 0.4`) writes the value into the element\'s own earlier key and returns success, but the glob still overrides it: the attribute keeps the glob\'s value (and invalid values are accepted because the overridden value is never validated)'),
('C37', r'^set:object-label(:block-string)?:value-unchanged:target-defined-in-imported-file', 'Set(label) of an object that comes from an imported file and also has a local reference (`...@x` + `i.style.fill: …`) rewrites the label key inside the imported file\'s AST (attrs.Label.MapKey.SetScalar without a writeable check) and returns success; the returned text and graph are unchanged'),
('C37', r'^set:(object|connection)-label(:block-string)?:value-unchanged(:target-(inherited|local))?$', 'Set(label) when the element has several label-carrying references: _set rewrites the FIRST exact-match reference (`(a -> b)[0]: L4` of two) or appends a primary value that an explicit `x.label:` key of an inherited step overrides, so the label seen afterwards is still the old one'),
('C37', r'^set:connection-label(:block-string)?:new-value-appended-to-old-value', 'Set(label) on a connection whose reference has both a primary value and a map (`(b -> c)[0]: L5 {style.stroke: …}`) replaces the map by the new value and keeps the old primary: the text becomes `(b -> c)[0]: L5 vx` and the label "L5 vx"'),
('C37', r'^set:(object|connection)-label(:block-string)?:other-value:', 'Set(label) in a state where another reference of the same element still supplies a label (several indexed references / an inherited `x.label` key): the value written is not the one that wins'),
# C38
('C38', r'^delete-attribute:label'+Q+r':attribute-not-reset', 'Delete("x.label") / Delete("(a -> b)[0].label") is a silent no-op when the label is the primary value (`x: L`, `a -> b: L`) or a flat `x.label` key: deleteReserved handles only near/tooltip/icon/width/height/left/top/link and nested style/label/icon sub-keys'),
('C38', r'^delete-attribute:shape'+Q+r':attribute-not-reset', 'Delete("x.shape") is a silent no-op: `shape` is not in the list of reserved fields deleteReserved handles, the call succeeds and the shape stays'),
('C38', r'^delete-attribute:near'+Q+r':attribute-not-reset', 'Delete("x.near") removes one `near` key per reference; when the map holds the key twice (Set(x.near) appends a second `near: a` next to an existing one instead of updating it) one copy survives'),
('C38', r'^delete-attribute:style\.(fill|stroke|opacity)'+Q+r':attribute-not-reset', 'Delete("\\"q.r\\".style.fill") on an object whose name needs quotes is a silent no-op: deleteObjField compares the unquoted path element `q.r` with obj.ID `"q.r"` (quoted), so the flat key is never found'),
('C38', r'^delete-attribute:label:diagram-has-import'+T+r':(element-count-changed|other-connection-removed)', 'Delete of the label of an imported connection appends `(i -> j)[0].label: null`, which removes the whole connection (and renumbers its parallel siblings) instead of resetting the label'),
('C38', r'^delete-attribute:label'+Q+r':other-field-of-target-changed', 'Delete("(a -> b)[0].label") on a connection whose map contains `target-arrowhead: {label: …}` removes the ARROWHEAD label (deleteMapField recurses into arrowhead/style/label/icon maps looking for the bare field name) and keeps the connection label'),
('C38', r'^delete-attribute:style\.(stroke|opacity|fill):diagram-has-glob'+T+r':other-', 'Delete of a style attribute that the element only has through a glob deletes the glob statement itself (`(* -> *)[*].style.stroke: red`), so every other element loses the attribute too'),
('C38', r'^delete-object:diagram-has-import'+T+r':object-(lost|label-changed)', 'Delete of a container whose children come from a spread import inside its map (`c: {...@y}`) drops the import with the container: the imported children (and their labels) are lost instead of being moved to the parent'),
('C38', r'^delete-object:diagram-has-underscore-reference'+T+r':object-added', 'Delete of a container hoists a grandchild connection `e -> _.b` (inside d inside the deleted a) with its underscore stripped (bumpChildrenUnderscores removes one level at every depth): `e -> b` inside d now creates a new object d.b instead of pointing at the hoisted b'),
('C38', r'^delete-object'+F+r':target-inherited:object-lost', 'Delete of an inherited container in a scenario/step board appends `m: null`, which removes the container together with its children in that board; the children are not kept'),
('C38', r'^delete-attribute:style\.(fill|stroke|opacity)'+Q+r':other-object-attributes-changed', 'Delete("a.style.fill") also removes the attribute from children declared through flat keys with a map (`a.b: L1 {style.fill: …}`): deleteObjField walks every reference of a, including the key path `a.b`, and deletes the field from that key\'s map'),
('C38', r'^delete-object:diagram-has-glob'+T+r':object-lost', 'Delete of an object whose connections are the only declarations of their other end point (`a -> n`, twice) does not re-create `n` when a glob connection statement (`(* -> n)[*].style…`) also mentions it: ensureNode counts the glob reference as a persisting declaration, but a glob does not create the object'),
('C38', r'^delete-object'+T+r':object-added$', 'Delete of a sql_table that has a connection from its own column to itself (`t.id -> t`) keeps the column as a stray top-level object `id` (ensureNode re-creates the other end point of every removed connection, here a column of the table being deleted)'),
('C38', r'^delete-object'+F+T+r':object-lost$', 'Delete of an object that is declared only inside a connection key below a container that itself exists only through that key (`a.d.b -> a.c`, delete a.d.b) removes the connection and with it the intermediate container a.d; only the other end point is re-created'),
# C39
('C39', r'^(rename|move-[a-z-]+):diagram-has-import'+K+T+r':object-added', 'Rename / Move of an object that comes from an imported file succeeds but can only rewrite the local references (`a -> i` becomes `a -> z`): the imported object keeps its name and place and a new empty object appears'),
('C39', r'^move-[a-z-]+:diagram-has-import'+K+T+r':object-lost', 'Move of a container whose children come from a spread import inside its map (`c: {...@y}`) without its descendants re-creates the container without the import: the imported children are lost instead of staying in the former parent'),
('C39', r'^move-with(out)?-descendants(:diagram-has-underscore-reference)?:target-in-flat-key'+T+r':object-(label|attributes)-changed', 'Move across scopes of an object declared through (or being the prefix of) a flat key (`a.b: L1 {style.fill: …}`, `a.c: L2` + `a: L3 {n}`) while the parent has further references (`a`, `a: L3`, `_.a.b`) slices the wrong key: label and style end up on the former parent (`a: L1 {…}`) and the moved object is left bare'),
('C39', r'^move-with-descendants:diagram-has-underscore-reference'+K+T+r':object-(lost|label-changed)', 'Move(d, a.d, includeDescendants) when d\'s map only holds an underscore reference (`d: L5 {_.a.b}`) deletes d\'s key altogether: it is removed from its scope and never re-inserted, so d is lost (or, when a connection still mentions it, survives without label)'),
('C39', r'^move-with-descendants:diagram-has-underscore-reference'+K+T+r':object-added', 'Move of a container whose map refers with underscores to an object with a quoted dotted name (`e -> _.a."q.r"`) re-quotes the already formatted ID (`_.\'"q.r"\'`): the connection is re-attached to a new object named `"q.r"` with the quotes in the name'),
('C39', r'^move-without-descendants'+F+K+r':object-(added|lost)', 'Move of a container WITHOUT its descendants into its own former child or grandchild (`Move(a, a.c.a)`) updates connection references as if the old path still existed (`a.c.a -> e`): a new object chain a.c.a is created at the root and the moved object loses label/attributes'),
('C39', r'^move-with(out)?-descendants'+F+K+r':target-local:object-lost', 'Move, addressed to a scenario board, of an object that the board declares through a flat key (`m.n`) to the board root removes the key segment and never re-inserts the object: `m.n` becomes `m` and n is lost'),
('C39', r'^rename'+F+K+r':target-local:object-lost', 'Rename, addressed to a step board, to a name that the same board deletes further down (`a: null`) is not made unique (the nulled name counts as free): the renamed object is then removed by the null'),
# C40
('C40', r'^deltas:delete'+F+r':connection:change-predicted-for-removed-element', 'DeleteIDDeltas of a container predicts a new ID for a connection between a child and the container itself (`(a.a -> a)[0]` -> `(a -> a)[0]`), but Delete removes that connection because it is attached to the deleted object'),
('C40', r'^deltas:(delete|move)'+F+r':connection:predicted-new-id-wrong', 'the prediction is what a correct edit would give; the edit itself misplaces the connection — Move of a container without descendants into its own child leaves `a.c.a -> e` (C39 move-without-descendants:object-added), and the consequence of the underscore-stripping defect of Delete/Move (C38 delete-object:…:object-added): the surviving connection `e -> _.b` ends up attached to a new object d.b, so its ID is d.(e -> b)[0] while the prediction says (d.e -> b)[0]'),
('C40', r'^deltas:(move|rename|reconnect|delete):diagram-has-import:', 'the *IDDeltas functions predict new IDs for imported objects/connections (or for local elements next to them), while Rename/Move/ReconnectEdge/Delete succeed without being able to change an imported element (see C39 …:diagram-has-import:object-added, C38 …:diagram-has-import:…)'),
('C40', r'^deltas:move'+F+r':connection:change-not-predicted', 'Move re-inserts the moved container (with a connection `_.b -> _.c` inside) textually before an existing parallel connection `a.b -> a.c`, so the two swap indices; MoveIDDeltas predicts no change for the untouched connection'),
('C40', r'^deltas:move'+F+r':object:predicted-new-id-wrong', 'MoveIDDeltas applies the would-be-hoisted-children conflict renames (`a.b` -> `z.b 3`) also for a same-scope move without descendants, where Move keeps the children under the renamed object unchanged (`z.b`)'),
('C40', r'^deltas:reconnect'+F+r':connection:predicted-change-did-not-happen', 'ReconnectEdgeIDDeltas treats connections with the same end points but different arrow directions (`a <- b` and `a -> b`) as parallel and predicts index shifts for them; the edit does not renumber them'),
('C40', r'^deltas:reconnect'+F+r':connection:(predicted-new-id-wrong|change-not-predicted)', 'ReconnectEdgeIDDeltas derives the new index from source line numbers of first references; ReconnectEdge splits chains / rewrites indexed references so the reconnected connection gets a different index among its new parallel siblings (and siblings shift) than predicted'),
('C40', r'^deltas:rename'+F+r':connection:(change-not-predicted|predicted-new-id-wrong)', 'RenameIDDeltas for a connection (arrow change) predicts only `old -> same index with new arrows`; the edit moves the connection to another group of parallel connections, so its index becomes its rank there and the later members of the old group shift down, none of which is predicted'),
('C40', r'^deltas:rename'+F+r':object:(change-not-predicted|predicted-new-id-wrong|predicted-change-did-not-happen)', 'Rename makes the new name unique with generateUniqueKey(newName) evaluated at the ROOT of the board, RenameIDDeltas with the full path: for a nested object the two disagree on the numbered suffix (`a.b 2` vs `a.b 3`), and Rename(x, own name) is predicted as no change while the edit produces `a.a 2`'),
# C41
('C41', r'^after-(successful|refused)-rename:target-inherited:', 'Rename of an inherited connection (arrow direction) addressed to a scenario/step board rewrites the arrows of ALL references of the edge, including the one in the base board (move() for edges has no writeable-reference check and looks the edge up in g.Root); when the recompile then fails (an indexed reference elsewhere no longer matches) the base AST stays modified'),
('C41', r'^after-successful-delete:target-inherited:', 'Delete of a style / near attribute of an inherited element addressed to a scenario/step board removes the key in the board that defines it (deleteObjField / deleteEdgeField only compare the file path of a reference, not its board), so the base board or an earlier step changes'),
('C41', r'^after-(successful|refused)-set:target-inherited:', 'Set(label) of an inherited element addressed to a scenario/step board that already has a flat reference to it (`a.style.fill: …`) falls through to attrs.Label.MapKey.SetScalar, which rewrites the label key in the base board / earlier step; with an invalid value the recompile fails and the base AST stays modified'),
('C41', r'^after-successful-move:target-local:root-board:object-added', 'Move of an object defined in a step into a container inherited from the base board appends the moved key to the map of the container in the BASE board (toScope is taken from the container\'s references without a writeable check): the object appears in the root board and leaves the step'),
]
def main():
    have=set()
    for l in open(KF):
        l=l.strip()
        if l and not l.startswith('#'):
            d=json.loads(l); have.add((d['property'],d['class']))
    new=[]; unexplained=[]
    for f in [a for a in sys.argv[1:] if not a.startswith("--")]:
        for l in open(f):
            l=l.rstrip('\n')
            if '|' not in l: continue
            pid,cls=l.split('|',1)
            if (pid,cls) in have: continue
            for p,rx,what in R:
                if p==pid and re.search(rx,cls):
                    new.append({"property":pid,"class":cls,"what":what}); have.add((pid,cls)); break
            else:
                unexplained.append(l)
    if '--dry' not in sys.argv:
        with open(KF,'a') as f:
            for d in new: f.write(json.dumps(d,ensure_ascii=False)+'\n')
    print('added',len(new)); 
    for u in unexplained: print('UNEXPLAINED',u)
main()
