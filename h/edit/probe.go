package edit

import (
	"encoding/json"
	"fmt"
	"os"
	"oss.terrastruct.com/d2/d2format"
	"oss.terrastruct.com/d2/d2parser"
	"strconv"
	"strings"

	"verif/h/eng"
	"verif/h/u"
)

func init() {
	// edit-probe <text> <op-json>...   (developer aid: run edits one after another and print everything)
	eng.Internal["edit-probe"] = func(args []string) {
		if len(args) < 1 {
			fmt.Fprintln(os.Stderr, "usage: edit-probe <text> <op-json>...")
			os.Exit(2)
		}
		text := args[0]
		if u, err := strconv.Unquote(text); err == nil {
			text = u
		}
		var files map[string]string
		for _, a := range args[1:] {
			if len(a) > 6 && a[:6] == "files=" {
				json.Unmarshal([]byte(a[6:]), &files)
				continue
			}
			if a == "menu" {
				g, err := compileFS(text, files)
				if err != nil {
					fmt.Println("compile:", err)
					return
				}
				ops := Menu(g, menuFull)
				for _, o := range ops {
					fmt.Println(o.Mini, o.Op)
				}
				fmt.Println(len(ops), "ops")
				continue
			}
			var op Op
			if err := json.Unmarshal([]byte(a), &op); err != nil {
				fmt.Println("bad op:", err)
				return
			}
			r, err := Step(text, files, op, true)
			if err != nil {
				fmt.Println("step:", err)
				return
			}
			fmt.Printf("== %s\npre:\n%s", op, indent(r.Pre))
			for _, b := range Boards(r.G0) {
				fmt.Printf(" board %v (%s)\n%s", b.Path, b.Kind, Project(b.G).Dump())
			}
			fmt.Printf("panic=%q err=%v newKey=%q\n", r.Panic, r.Err, r.NewKey)
			if r.DeltasRan {
				b, _ := json.Marshal(r.Deltas)
				fmt.Printf("deltas=%s err=%v panic=%q\n", b, r.DeltasErr, r.DeltasPanic)
			}
			if r.G1 != nil {
				fmt.Printf("post (compiles=%v):\n%s", r.PostOK, indent(r.Post))
				for _, b := range Boards(r.G1) {
					fmt.Printf(" board %v (%s)\n%s", b.Path, b.Kind, Project(b.G).Dump())
				}
			}
			for id, o := range oracles {
				res := o(r)
				if res.Fail != nil {
					fmt.Printf("%s: FAIL %s\n   %s\n", id, res.Fail.Class, res.Fail.Detail)
				} else {
					fmt.Printf("%s: ok %s nontrivial=%v\n", id, res.Outcome, res.Nontrivial)
				}
			}
			if !r.PostOK {
				return
			}
			text = r.Post
		}
	}
}

func indent(s string) string {
	out := ""
	for _, l := range splitLines(s) {
		out += "    | " + l + "\n"
	}
	return out
}

func splitLines(s string) []string {
	var ls []string
	cur := ""
	for _, r := range s {
		if r == '\n' {
			ls = append(ls, cur)
			cur = ""
			continue
		}
		cur += string(r)
	}
	if cur != "" {
		ls = append(ls, cur)
	}
	return ls
}

func init() {
	// edit-import: run the UpdateImport product and print outcome classes (developer aid)
	eng.Internal["edit-import"] = func(args []string) {
		cnt := map[string]int{}
		ex := map[string]string{}
		for _, c := range importCases() {
			b, _ := json.Marshal(c)
			res := importOracle(string(b))
			k := res.Outcome
			if res.Fail != nil {
				k = "FAIL " + res.Fail.Class
				if _, ok := ex[k]; !ok {
					ex[k] = res.Fail.Detail
				}
			}
			cnt[k]++
		}
		for _, k := range sortedKeys(cnt) {
			fmt.Printf("%5d %s\n", cnt[k], k)
			if d, ok := ex[k]; ok {
				fmt.Println("        ", d)
			}
		}
	}
}

func init() {
	eng.Internal["edit-fmt"] = func(args []string) {
		for _, a := range args {
			m, err := d2parser.Parse("index.d2", strings.NewReader(a), nil)
			fmt.Printf("%q -> %q (err %v)\n", a, d2format.Format(m), err)
		}
	}
}

func init() {
	eng.Internal["edit-seeds"] = func(args []string) {
		for _, sd := range Seeds {
			_, err := compileFS(sd.Text, sd.Files)
			f1, _ := u.Format(sd.Text)
			fmt.Printf("== %s tier=%d compiles=%v formatted=%v\n", sd.Name, sd.Tier, err == nil, f1 == sd.Text)
			if len(args) > 0 || err != nil || f1 != sd.Text {
				fmt.Print(indent(sd.Text))
				if err != nil {
					fmt.Println(err)
				}
			}
		}
	}
}
