package edit

import (
	"encoding/json"
	"fmt"
	"hash/fnv"
	"path"
	"strings"
	"time"

	"oss.terrastruct.com/d2/d2ast"
	"oss.terrastruct.com/d2/d2format"
	"oss.terrastruct.com/d2/d2oracle"
	"oss.terrastruct.com/d2/d2parser"
	"verif/h/eng"
	"verif/h/u"
)

// ImportCase is the input of the "import" oracle (UpdateImport is text -> text).
type ImportCase struct {
	Text  string            `json:"text"`
	Files map[string]string `json:"files"`
	Old   string            `json:"old"`
	New   *string           `json:"new"`
}

var importTemplates = []string{
	"...@P\n",
	"a: @P\n",
	"a: L1 {\n  ...@P\n}\n",
	"a: L1 {\n  b: @P\n}\n",
	"...@P\nb: L2\np -> b: L3\n",
	"a: @P\nc: @P\n",
	"a.b: @P\n",
	"layers: {\n  l: @P\n}\n",
	"layers: {\n  l: {\n    ...@P\n  }\n}\n",
	"a: L1\n\nscenarios: {\n  s: {\n    ...@P\n  }\n}\n",
	"a: L1 {\n  ...@P\n  q: L2\n}\nb: {...@P}\n",
	"vars: {\n  v: @P\n}\na: L1\n",
	"classes: {\n  k: @S\n}\na: L1 {class: k}\n",
	"a: L1 {\n  style: @S\n}\n",
	"a -> b: L1 {\n  style: @S\n}\n",
}

// spellings of the import path in the text, with the file each one names
var importSpellings = []struct{ spell, file string }{
	{"x", "x.d2"}, {"./x", "x.d2"}, {"x.d2", "x.d2"}, {"d/x", "d/x.d2"}, {"\"d/x\"", "d/x.d2"}, {"./d/x", "d/x.d2"},
}

const importedMap = "p: L9\nq: L8\np -> q: L7\n"
const importedStyle = "fill: red\n"

func importFiles(file string) map[string]string {
	return map[string]string{file: importedMap, strings.Replace(file, "x.d2", "sx.d2", 1): importedStyle}
}

func importCases() []ImportCase {
	var out []ImportCase
	for _, t := range importTemplates {
		for _, sp := range importSpellings {
			text := strings.ReplaceAll(t, "@P", "@"+sp.spell)
			sty := strings.Replace(sp.spell, "x", "sx", 1)
			text = strings.ReplaceAll(text, "@S", "@"+sty)
			files := importFiles(sp.file)
			// old paths: exactly the cleaned paths the text's imports carry (as UpdateImport compares them)
			olds := importPathsOf(text)
			if strings.HasPrefix(sp.file, "d/") {
				olds = append(olds, "d/")
			}
			for _, old := range olds {
				news := []*string{sp2("z"), sp2("e/z"), sp2("./z"), sp2(old), nil}
				if strings.HasSuffix(old, "/") {
					news = []*string{sp2("e/"), sp2("e/f/"), nil}
				}
				for _, n := range news {
					out = append(out, ImportCase{Text: text, Files: files, Old: old, New: n})
				}
			}
		}
	}
	return out
}

func sp2(s string) *string { return &s }

func collectImports(m *d2ast.Map) []string {
	var out []string
	d2ast.Walk(m, func(n d2ast.Node) bool {
		if u.IsNilNode(n) {
			return false
		}
		if imp, ok := n.(*d2ast.Import); ok {
			out = append(out, imp.PathWithPre())
		}
		return true
	})
	return out
}

func importPathsOf(text string) []string {
	m, err := d2parser.Parse("index.d2", strings.NewReader(text), nil)
	if err != nil || m == nil {
		return nil
	}
	seen := map[string]bool{}
	var out []string
	for _, ip := range collectImports(m) {
		if !seen[ip] {
			seen[ip] = true
			out = append(out, ip)
		}
	}
	return out
}

// renamedFiles applies the file-system side of the import update.
func renamedFiles(files map[string]string, old string, nw *string) map[string]string {
	if nw == nil {
		return files
	}
	out := map[string]string{}
	for f, c := range files {
		nf := f
		if strings.HasSuffix(old, "/") {
			if strings.HasPrefix(f, old) {
				nf = path.Join(*nw, f[len(old):])
			}
		} else {
			of := old
			if path.Ext(of) != ".d2" {
				of += ".d2"
			}
			if path.Clean(f) == path.Clean(of) {
				nf = path.Clean(*nw)
				if path.Ext(nf) != ".d2" {
					nf += ".d2"
				}
			}
		}
		out[nf] = c
	}
	return out
}

func importOracle(in string) eng.Res {
	var c ImportCase
	if err := json.Unmarshal([]byte(in), &c); err != nil {
		return eng.Bad("harness:bad-witness", err.Error())
	}
	if _, err := compileFS(c.Text, c.Files); err != nil {
		return eng.OK("input-does-not-compile:"+compileErrClass(err), false)
	}
	if f1, err := u.Format(c.Text); err != nil {
		return eng.OK("input-does-not-parse", false)
	} else if f2, err := u.Format(f1); err != nil || f2 != f1 {
		// only inputs on which the formatter itself is idempotent: anything else re-reports C03's findings
		return eng.OK("formatter-not-idempotent-on-input", false)
	}
	var out string
	var err error
	if pan := catch(func() { out, err = d2oracle.UpdateImport(c.Text, c.Old, c.New) }); pan != "" {
		return eng.OK("panic:"+pan, false)
	}
	if err != nil {
		return eng.OK("refused", false)
	}
	kind := "rename"
	if c.New == nil {
		kind = "remove"
	} else if strings.HasSuffix(c.Old, "/") {
		kind = "rename-dir"
	}
	m, perr := d2parser.Parse("index.d2", strings.NewReader(out), nil)
	if perr != nil {
		return eng.Bad("import-update-result-does-not-parse:"+kind, fmt.Sprintf("UpdateImport(%q, %q, %s) = %q: %v", c.Text, c.Old, deref(c.New), out, perr))
	}
	if t2 := d2format.Format(m); t2 != out {
		return eng.Bad("import-update-result-not-formatter-fixpoint:"+kind, fmt.Sprintf("UpdateImport(%q, %q, %s) = %q, formatter gives %q", c.Text, c.Old, deref(c.New), out, t2))
	}
	files2 := renamedFiles(c.Files, c.Old, c.New)
	if _, cerr := compileFS(out, files2); cerr != nil {
		return eng.Bad("import-update-result-does-not-compile:"+kind+":"+compileErrClass(cerr),
			fmt.Sprintf("UpdateImport(%q, %q, %s) = %q does not compile against files %v: %v", c.Text, c.Old, deref(c.New), out, sortedKeys(files2), cerr))
	}
	return eng.OK("ok:"+kind+":"+fmt.Sprint(out != c.Text), out != c.Text)
}

func c36ImportPhase(p *eng.Solo, cov map[string]any, deadline time.Time) bool {
	cases := importCases()
	var evals, nontriv, panics int64
	outc := map[uint64]struct{}{}
	complete := true
	for i, c := range cases {
		if i&63 == 0 && time.Now().After(deadline) {
			complete = false
			break
		}
		b, _ := json.Marshal(c)
		res := importOracle(string(b))
		evals++
		if res.Nontrivial {
			nontriv++
		}
		if strings.HasPrefix(res.Outcome, "panic:") {
			panics++
		}
		h := fnv.New64a()
		h.Write([]byte(res.Outcome))
		outc[h.Sum64()] = struct{}{}
		if res.Fail != nil {
			p.Fail(eng.Fail{Oracle: "import", Class: res.Fail.Class, Witness: string(b), Detail: res.Fail.Detail})
		}
	}
	cov["import_update_cases"] = evals
	cov["import_update_nontrivial"] = nontriv
	cov["import_update_outcome_classes"] = len(outc)
	cov["import_update_panics_observed"] = panics
	cov["evaluations"] = cov["evaluations"].(int64) + evals
	cov["distinct_nontrivial"] = cov["distinct_nontrivial"].(int64) + nontriv
	if ph, ok := cov["phases"].([]map[string]any); ok {
		cov["phases"] = append(ph, map[string]any{"phase": "import-update-product", "complete": complete, "evaluations": evals})
	}
	fmt.Printf("  phase %-44v complete=%v evals=%v\n", "import-update-product", complete, evals)
	return complete
}
