package edit

import (
	"time"

	"verif/h/eng"
)

func c36ImportPhase(p *eng.Solo, cov map[string]any, deadline time.Time) bool { return true }
