# sourced by every script: the Go toolchain d2 needs, fully offline
export GOROOT_D2=/root/go/pkg/mod/golang.org/toolchain@v0.0.1-go1.25.0.linux-amd64
export GO=$GOROOT_D2/bin/go
export GOFLAGS=-mod=mod GOPROXY=off GOTOOLCHAIN=local GOSUMDB=off CGO_ENABLED=0
export PATH=$GOROOT_D2/bin:$PATH
