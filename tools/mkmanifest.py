#!/usr/bin/env python3
"""Regenerates /verif/MANIFEST.json from tools/checks.json (one record per claimed property)."""
import json, os
root = '/verif'
props = [json.loads(l) for l in open(f'{root}/properties.jsonl')]
claimed = json.load(open(f'{root}/tools/checks.json'))
import glob
for f in sorted(glob.glob(f'{root}/tools/checks.d/*.json')):
    claimed.update(json.load(open(f)))
checks = []
for p in props:
    c = claimed.get(p['id'])
    if not c or c.get('na'):
        continue
    checks.append({
        "property_id": p['id'],
        "quick_cmd": f"./verif {p['id']} --tier quick",
        "thorough_cmd": f"./verif {p['id']} --tier thorough",
        "evidence_file": f"/verif/evidence/{p['id']}.json",
        "replay_cmd_template": "./verif replay {path}",
        "engine": c['engine'],
        "level_claimed": {"category": c['level'], "text": c['text'], "design_ref": c.get('design_ref', f"DESIGN.md §3 {p['id']}")},
        "level_note": c['note'],
        "technique": c['technique'],
    })
na = []
for p in props:
    c = claimed.get(p['id'])
    if not c:
        na.append({"property_id": p['id'], "reason": "check not built yet in this round (designed in DESIGN.md §3; not claimed until its machinery exists and has been shown to detect a seeded break)"})
    elif c.get('na'):
        na.append({"property_id": p['id'], "reason": c['na']})
m = {
    "version": 1,
    "setup_cmd": "./verif setup",
    "hooks": {
        "guard": "verif",
        "enable": "no source hooks are committed in /repo: white-box access and scheduling hooks are generated at check time from /repo's working tree and injected with `go build -overlay` (harness-only files carry //go:build verif)",
        "baseline_off_cmd": "cd /repo && /root/go/pkg/mod/golang.org/toolchain@v0.0.1-go1.25.0.linux-amd64/bin/go test -vet=off -count=1 ./...",
        "source_commits": [],
        "add_only": True,
    },
    "engines": [
        {"name": "E1 enum", "path": "h/eng, h/checks", "kind_free_text": "bounded-exhaustive prefix-tree enumeration of inputs/programs/configurations in sharded worker processes, oracle per item on the real code", "serves_properties": [c['property_id'] for c in checks if c['engine'] == 'E1 enum']},
        {"name": "E2 vsched", "path": "h/vsched, h/vinstr", "kind_free_text": "cooperative scheduler + deviation-bounded DFS with state-key pruning over the real concurrent code, rewritten at check time", "serves_properties": [c['property_id'] for c in checks if c['engine'] == 'E2 vsched']},
        {"name": "E3 crashtrace", "path": "tools/crashtrace.c", "kind_free_text": "ptrace crash-point / torn-write enumerator over the real d2 binary", "serves_properties": [c['property_id'] for c in checks if c['engine'] == 'E3 crashtrace']},
        {"name": "E4 editbfs", "path": "h/checks/edit*.go", "kind_free_text": "explicit-state BFS over d2oracle edit histories, state = formatted source text", "serves_properties": [c['property_id'] for c in checks if c['engine'] == 'E4 editbfs']},
    ],
    "checks": checks,
    "not_applicable": na,
    "notes": "All deciding steps are complete enumerations of stated finite spaces on the real code (see DESIGN.md). known_findings.jsonl lists genuine defects recorded rather than repaired.",
}
json.dump(m, open(f'{root}/MANIFEST.json', 'w'), indent=1)
print(len(checks), 'claimed;', len(na), 'not claimed')
