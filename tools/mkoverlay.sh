#!/bin/bash
# mkoverlay.sh <name> <repo-relative-file>...  — private mutated copies for detection demos without touching /repo.
# Copies each file to /verif/.scratch/mut/<name>/ and writes overlay.json there. Edit the COPY, then run
#   VERIF_OVERLAY=/verif/.scratch/mut/<name>/overlay.json /verif/verif <id>
set -eu
name=$1; shift
d=/verif/.scratch/mut/$name; mkdir -p $d
{
  echo '{"Replace": {'
  first=1
  for f in "$@"; do
    c=$d/$(echo "$f" | tr / _)
    [ -f "$c" ] || cp "/repo/$f" "$c"
    [ $first = 1 ] || echo ','
    first=0
    printf '  "/repo/%s": "%s"' "$f" "$c"
  done
  echo; echo '}}'
} > $d/overlay.json
echo "$d/overlay.json"
ls $d
