#!/bin/bash
# Called by `/verif/verif setup` (and by the C48 check itself when the binary is missing or stale):
# builds the native helper tools of the harness.
set -eu
mkdir -p /verif/.bin
CC=${CC:-$(command -v gcc || command -v clang || command -v cc)}
[ -n "$CC" ] || { echo "setup_extra: no C compiler found" >&2; exit 2; }
if [ ! -x /verif/.bin/crashtrace ] || [ /verif/tools/crashtrace.c -nt /verif/.bin/crashtrace ]; then
  $CC -O2 -Wall -Wextra -o /verif/.bin/crashtrace.new.$$ /verif/tools/crashtrace.c
  mv -f /verif/.bin/crashtrace.new.$$ /verif/.bin/crashtrace
fi
# Warm the Go build cache for the -race variant of the instrumented binaries (C44-C46 free-running pass) and for the d2
# binary (C34/C35/C48): cold, the race build alone takes minutes and would eat the first check's budget.
. /verif/env.sh
(cd /verif/h && CGO_ENABLED=1 $GO build -race -o /dev/null oss.terrastruct.com/d2/d2cli oss.terrastruct.com/d2/lib/imgbundler) || echo "setup_extra: race warm-up failed (C44-C46 will build it themselves)" >&2
(cd /verif/h && $GO build -o /dev/null oss.terrastruct.com/d2) || true
exit 0
