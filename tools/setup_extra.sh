#!/bin/bash
# Called by `/verif/verif setup` (and by the C48 check itself when the binary is missing or stale):
# builds the native helper tools of the harness.
set -eu
mkdir -p /verif/.bin
CC=${CC:-$(command -v gcc || command -v clang || command -v cc)}
[ -n "$CC" ] || { echo "setup_extra: no C compiler found" >&2; exit 2; }
if [ ! -x /verif/.bin/crashtrace ] || [ /verif/tools/crashtrace.c -nt /verif/.bin/crashtrace ]; then
  $CC -O2 -Wall -Wextra -o /verif/.bin/crashtrace.new.$$ /verif/tools/crashtrace.c
  mv -f /verif/.bin/crashtrace.new.$$ /verif/.bin/crashtrace
fi
exit 0
