#!/usr/bin/env python3
"""baseline_check.py [--dir /repo] <pkg>...  — runs `go test -json` for the packages (./... allowed) and reports every test of
BASELINE.json's stable_pass set (restricted to the packages that ran) that did not pass."""
import json, subprocess, sys, os
d='/repo'
args=sys.argv[1:]
if args and args[0]=='--dir':
    d=args[1]; args=args[2:]
go='/root/go/pkg/mod/golang.org/toolchain@v0.0.1-go1.25.0.linux-amd64/bin/go'
env=dict(os.environ, GOFLAGS='-mod=mod', GOPROXY='off', GOTOOLCHAIN='local', GOSUMDB='off')
p=subprocess.run([go,'test','-json','-vet=off','-count=1','-timeout','90m']+args, cwd=d, env=env, capture_output=True, text=True)
passed=set(); pkgs=set(); failed=set()
for l in p.stdout.split('\n'):
    try: e=json.loads(l)
    except Exception: continue
    if 'Package' in e: pkgs.add(e['Package'])
    if e.get('Test') and e.get('Action')=='pass': passed.add(e['Package']+'::'+e['Test'])
    if e.get('Test') and e.get('Action')=='fail': failed.add(e['Package']+'::'+e['Test'])
sp=[t for t in json.load(open('/root/.vp/BASELINE.json'))['stable_pass'] if t.split('::')[0] in pkgs]
missing=[t for t in sp if t not in passed]
print(f'packages run: {len(pkgs)}; stable_pass tests in them: {len(sp)}; passed: {len(sp)-len(missing)}; NOT passed: {len(missing)}')
for t in missing[:40]: print('  NOT PASSED', t, '(failed)' if t in failed else '(did not run)')
sys.exit(1 if missing else 0)
