#!/bin/bash
# seedcheck.sh [<seeded-name> ...]   (default: every directory under /verif/seeded)
# Regression of the detection claims: for each seeded change, re-create its build overlay from seeded/<name>/patch.diff
# on a scratch worktree of /repo's HEAD (removed afterwards; /repo itself is never touched), run every check named in
# meta.json "detected_by" against it and expect exit 1 with a VIOLATION line. Prints one line per (change, check).
# Env: SEED_BUDGET (seconds per check, default 900).
set -u
. /verif/env.sh
cd /verif
names=${*:-$(ls seeded)}
rc=0
for name in $names; do
  [ -f seeded/$name/patch.diff ] || continue
  checks=$(python3 -c "import json;print(' '.join(json.load(open('/verif/seeded/$name/meta.json')).get('detected_by',[])))")
  [ -n "$checks" ] || { echo "$name: no detecting check recorded"; rc=1; continue; }
  wt=/tmp/seedcheck-$name-$$
  git -C /repo worktree add -q --detach $wt HEAD || { echo "$name: cannot create worktree"; rc=1; continue; }
  if ! (cd $wt && git apply --3way /verif/seeded/$name/patch.diff >/dev/null 2>&1); then
    echo "$name: patch does not apply to /repo HEAD any more"; git -C /repo worktree remove --force $wt; rc=1; continue
  fi
  ov=/verif/.scratch/mut/seed-$name; mkdir -p $ov
  files=$(cd $wt && git diff --name-only HEAD)
  { echo '{"Replace": {'; first=1; for f in $files; do cp $wt/$f $ov/$(echo $f | tr / _); [ $first = 1 ] || echo ','; first=0; printf '  "/repo/%s": "%s"' "$f" "$ov/$(echo $f | tr / _)"; done; echo; echo '}}'; } > $ov/overlay.json
  git -C /repo worktree remove --force $wt
  for c in $checks; do
    out=$(VERIF_OVERLAY=$ov/overlay.json VERIF_BUDGET_S=${SEED_BUDGET:-900} /verif/verif $c 2>&1); r=$?
    v=$(echo "$out" | grep -a -c "^VIOLATION property=$c ")
    if [ $r = 1 ] && [ $v -gt 0 ]; then echo "$name: $c DETECTED ($v violation classes; first: $(echo "$out" | grep -a -A1 "^VIOLATION" | sed -n 2p | cut -c1-140))"
    else echo "$name: $c MISSED (exit $r)"; rc=1; fi
  done
done
exit $rc
